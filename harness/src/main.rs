//! Correspondence harness: runs the real crate and prints what it does in the line protocol of the Lean driver.
//!
//!   harness seq    --seed S --cases N --profile P --out PREFIX     generated Layer A histories
//!   harness replay --in FILE --out PREFIX                          re-executes recorded histories
//!   harness pure   --seed S --out PREFIX [--thorough]              component-level differential inputs
//!   harness ack    --out PREFIX [--polls N]                        acknowledgement interleavings (Layer B slice)
mod engine;
mod gen;
mod pure;
mod ack;
mod conc;
mod locks;
mod stress;

use std::io::Write;
use std::sync::Mutex;
use std::task::{RawWaker, RawWakerVTable, Waker};

use engine::{Engine, Ev};

static LAST_PANIC: Mutex<Option<String>> = Mutex::new(None);
pub static PANIC_LOG: Mutex<Vec<String>> = Mutex::new(Vec::new());

pub fn last_panic() -> Option<String> {
    LAST_PANIC.lock().unwrap().take()
}

pub fn noop_waker() -> Waker {
    fn clone(_: *const ()) -> RawWaker { RawWaker::new(std::ptr::null(), &VTABLE) }
    fn noop(_: *const ()) {}
    static VTABLE: RawWakerVTable = RawWakerVTable::new(clone, noop, noop, noop);
    unsafe { Waker::from_raw(RawWaker::new(std::ptr::null(), &VTABLE)) }
}

pub struct Rng(pub u64);

impl Rng {
    pub fn new(seed: u64) -> Rng {
        let mut rng = Rng(seed.wrapping_mul(0x9E3779B97F4A7C15) ^ 0xD1B54A32D192ED03);
        for _ in 0..4 { rng.next(); }
        rng
    }
    pub fn next(&mut self) -> u64 {
        let mut x = self.0;
        if x == 0 { x = 0x2545F4914F6CDD1D; }
        x ^= x << 13;
        x ^= x >> 7;
        x ^= x << 17;
        self.0 = x;
        x.wrapping_mul(0x2545F4914F6CDD1D)
    }
    pub fn below(&mut self, n: u64) -> u64 { if n == 0 { 0 } else { self.next() % n } }
    pub fn chance(&mut self, percent: u64) -> bool { self.below(100) < percent }
    pub fn pick<T: Clone>(&mut self, items: &[T]) -> T { items[self.below(items.len() as u64) as usize].clone() }
}

/// Process-level watchdog: the step loops beat before every step; when no step has completed for 25 s (the main thread is
/// itself stuck, e.g. a snapshot waits for a shard lock that a blocked call holds) the watchdog records the hang in the
/// output files and ends the process, instead of leaving that to the caller's much longer time limit.
pub static BEAT: std::sync::atomic::AtomicU64 = std::sync::atomic::AtomicU64::new(0);
pub static PENDING: Mutex<Option<String>> = Mutex::new(None);

pub fn beat(pending_event: Option<String>) {
    *PENDING.lock().unwrap_or_else(|p| p.into_inner()) = pending_event;
    BEAT.fetch_add(1, std::sync::atomic::Ordering::SeqCst);
}

/// Time limits of the harness are counted in TICKS the waiting thread has itself lived through (short sleeps / short timed
/// waits), never as a span between two readings of a clock: when the whole process is frozen for a while (a snapshot of the
/// sandbox, a stopped container) every thread stands still, the waiting one included, and nobody has hung. A span of wall time
/// would run out at the thaw (seen once: ten cases of one thorough run "hung" in the same 25 seconds).
pub fn wait_settled_ticks(role: &str, after_seq: u64) -> Option<tinylfu_cached::cache::verif::ThreadView> {
    for _ in 0..32 {      // 32 timed waits of 250 ms: the 8 s of TIMEOUT
        if let Some(view) = tinylfu_cached::cache::verif::wait_settled(role, after_seq, std::time::Duration::from_millis(250)) { return Some(view); }
    }
    None
}

/// `condition` polled every 200 µs for at most 8 s of the caller's own ticks (see `wait_settled_ticks`).
pub fn wait_until_ticks(mut condition: impl FnMut() -> bool) -> bool {
    for _ in 0..40_000 {
        if condition() { return true; }
        std::thread::sleep(std::time::Duration::from_micros(200));
    }
    condition()
}

fn start_watchdog(out: String) {
    std::thread::spawn(move || {
        let mut last = BEAT.load(std::sync::atomic::Ordering::SeqCst);
        let mut idle_ticks = 0u32;
        loop {
            let before = std::time::Instant::now();
            std::thread::sleep(std::time::Duration::from_millis(500));
            let now = BEAT.load(std::sync::atomic::Ordering::SeqCst);
            if now != last { last = now; idle_ticks = 0; continue; }
            // a sleep of 500 ms that took seconds: the process stood still (or the machine is starved) — not a tick of waiting
            if before.elapsed() > std::time::Duration::from_secs(3) { idle_ticks = 0; continue; }
            idle_ticks += 1;
            if last == 0 || idle_ticks < 50 { continue; }
            let pending = PENDING.lock().unwrap_or_else(|p| p.into_inner()).clone();
            let append = |suffix: &str, lines: &[String]| {
                if let Ok(mut file) = std::fs::OpenOptions::new().append(true).open(format!("{}.{}", out, suffix)) { for line in lines { let _ = writeln!(file, "{}", line); } }
            };
            let note = "# hang harness-watchdog:_no_step_completed_for_25_s_(the_step_below_never_returned)".to_string();
            if let Some(event) = pending {
                append("in", &[format!("{} #watchdog", event), note.clone()]);
                append("impl", &["R hang the_step_never_returned |".to_string(), note]);
            } else {
                append("in", &[note.clone()]);
                append("impl", &[note]);
            }
            std::process::exit(3);
        }
    });
}

/// A hard time limit for a free-running mode: when it passes, the given lines are appended to the output files and the
/// process ends with the "hang recorded" exit code.
pub fn start_deadline(out: String, seconds: u64, input_lines: Vec<String>, implementation_lines: Vec<String>) {
    std::thread::spawn(move || {
        std::thread::sleep(std::time::Duration::from_secs(seconds));
        for (suffix, lines) in [("in", &input_lines), ("impl", &implementation_lines)] {
            if let Ok(mut file) = std::fs::OpenOptions::new().append(true).open(format!("{}.{}", out, suffix)) { for line in lines.iter() { let _ = writeln!(file, "{}", line); } }
        }
        std::process::exit(3);
    });
}

pub struct Sink {
    pub input: std::io::BufWriter<std::fs::File>,
    pub implementation: std::io::BufWriter<std::fs::File>,
}

impl Sink {
    pub fn new(prefix: &str) -> Sink {
        Sink {
            input: std::io::BufWriter::new(std::fs::File::create(format!("{}.in", prefix)).unwrap()),
            implementation: std::io::BufWriter::new(std::fs::File::create(format!("{}.impl", prefix)).unwrap()),
        }
    }
    pub fn both(&mut self, line: &str) {
        writeln!(self.input, "{}", line).unwrap();
        writeln!(self.implementation, "{}", line).unwrap();
    }
    pub fn flush(&mut self) {
        self.input.flush().unwrap();
        self.implementation.flush().unwrap();
    }
}

fn arg(args: &[String], name: &str) -> Option<String> {
    args.iter().position(|a| a == name).and_then(|i| args.get(i + 1).cloned())
}

/// Runs one case: `next` proposes the next event given what the engine shows. Returns false if the process must stop (hang).
pub fn run_case(sink: &mut Sink, header: &str, cfg: engine::Cfg, mut next: impl FnMut(&mut Engine, &engine::Snapshot, usize) -> Option<Ev>) -> bool {
    sink.both(header);
    let mut engine = match Engine::new(cfg) {
        Ok(engine) => engine,
        Err(why) => { sink.both(&format!("# engine-start-failed {}", why)); sink.flush(); return false; }
    };
    writeln!(sink.input, "{}", engine.cfg_line()).unwrap();
    let mut snapshot = engine.snapshot();
    writeln!(sink.implementation, "R init | {}", snapshot.text).unwrap();
    let mut step = 0;
    while let Some(ev) = next(&mut engine, &snapshot, step) {
        sink.flush();
        beat(Some(format!("E {}", ev.line())));
        let (oracle, out) = engine.exec(&ev);
        if engine.hung || out.starts_with("hang") {
            // a thread is stuck (possibly holding a lock): do not touch the cache again, not even for a snapshot
            writeln!(sink.input, "E {}{}{}", ev.line(), oracle, ev.variant_note()).unwrap();
            writeln!(sink.implementation, "R {} |", out).unwrap();
            sink.both(&format!("# hang {}", out.replace(' ', "_")));
            sink.flush();
            std::process::exit(3);
        }
        snapshot = engine.snapshot();
        writeln!(sink.input, "E {}{}{}", ev.line(), oracle, ev.variant_note()).unwrap();
        writeln!(sink.implementation, "R {} | {}", out, snapshot.text).unwrap();
        step += 1;
    }
    sink.flush();
    beat(None);
    // terminal probe of the real blocking behaviour of the command channel (state printed as it was before the probe)
    let before_probe = engine.snapshot();
    if let Some((event, observed)) = engine.terminal_probe() {
        writeln!(sink.input, "E {}", event).unwrap();
        writeln!(sink.implementation, "R {} | {}", observed, before_probe.text).unwrap();
    }
    let panics: Vec<String> = std::mem::take(&mut *PANIC_LOG.lock().unwrap());
    for panic in panics { sink.both(&format!("# panic {}", panic)); }
    match engine.finish() {
        Ok(()) => true,
        Err(why) => { sink.both(&format!("# hang at-finish {}", why.replace(' ', "_"))); sink.flush(); false }
    }
}

/// A logger at the most verbose level that formats every record and throws it away: the crate's `debug!` / `info!`
/// calls evaluate their arguments only when a logger asks for that level, and an argument can call back into the cache
/// (take a lock, index a map). An application that turns logging on runs that code; so does every mode of the harness.
struct EveryRecord;
impl log::Log for EveryRecord {
    fn enabled(&self, _: &log::Metadata) -> bool { true }
    fn log(&self, record: &log::Record) {
        use std::fmt::Write;
        struct Discard;
        impl Write for Discard { fn write_str(&mut self, _: &str) -> std::fmt::Result { Ok(()) } }
        let _ = write!(Discard, "{}", record.args());
    }
    fn flush(&self) {}
}
static EVERY_RECORD: EveryRecord = EveryRecord;

fn main() {
    let args: Vec<String> = std::env::args().collect();
    if std::env::var("CACHED_VERIF_NO_LOGGER").is_err() {
        let _ = log::set_logger(&EVERY_RECORD);
        log::set_max_level(log::LevelFilter::Trace);
    }
    std::panic::set_hook(Box::new(|info| {
        let thread = std::thread::current().name().unwrap_or("?").to_string();
        let message = if let Some(message) = info.payload().downcast_ref::<&str>() { message.to_string() }
            else if let Some(message) = info.payload().downcast_ref::<String>() { message.clone() } else { "unknown".to_string() };
        let location = info.location().map(|l| format!("{}:{}", l.file(), l.line())).unwrap_or_default();
        *LAST_PANIC.lock().unwrap() = Some(message.clone());
        PANIC_LOG.lock().unwrap().push(format!("thread={} at={} msg={}", thread, location, message.replace(' ', "_")));
    }));
    let mode = args.get(1).cloned().unwrap_or_default();
    let out = arg(&args, "--out").unwrap_or("/dev/null".to_string());
    let seed: u64 = arg(&args, "--seed").and_then(|s| s.parse().ok()).unwrap_or(1);
    if mode == "seq" || mode == "replay" || mode == "conc" { start_watchdog(out.clone()); }
    let ok = match mode.as_str() {
        "seq" => {
            let cases: u64 = arg(&args, "--cases").and_then(|s| s.parse().ok()).unwrap_or(10);
            let profile = arg(&args, "--profile").unwrap_or("mixed".to_string());
            let mut sink = Sink::new(&out);
            let mut ok = true;
            for case in 0..cases {
                let case_seed = seed.wrapping_mul(1_000_003).wrapping_add(case);
                let mut generator = gen::Generator::new(case_seed, &profile);
                let cfg = generator.cfg();
                let header = format!("# case seed={} profile={}", case_seed, profile);
                // every third case with a small command queue ends by filling the queue until a client parks at the full
                // queue, so that the terminal probe exercises the REAL blocking send (otherwise it probes the idle worker)
                let fill_limit = if cfg.cmdcap <= 4 && case % 3 == 0 { cfg.cmdcap as u64 + 2 } else { 0 };
                let mut filled = 0u64;
                let mut generator_done = false;
                if !run_case(&mut sink, &header, cfg, |engine, snapshot, step| match if generator_done { None } else { generator.next(engine, snapshot, step) } {
                    Some(ev) => Some(ev),
                    None => {
                        generator_done = true;
                        if filled >= fill_limit || engine.parked.iter().any(|parked| *parked) { return None; }
                        filled += 1;
                        engine.free_client().map(|client| Ev::PutW(client, 900 + filled, 9000 + filled, 1))
                    }
                }) { ok = false; break; }
            }
            sink.flush();
            ok
        }
        "replay" => {
            let input = std::fs::read_to_string(arg(&args, "--in").expect("--in")).expect("read input");
            let mut sink = Sink::new(&out);
            let mut ok = true;
            let lines: Vec<&str> = input.lines().collect();
            let mut index = 0;
            // the profile of the recorded case travels with it: some monitors are meaningful on one profile only
            // (C03: no key is lost while the demanded weight fits — profile nopressure), and a replayed or shrunk case
            // (events are only ever removed) is still a case of that profile
            let mut profile_note = String::new();
            while index < lines.len() {
                if let Some(rest) = lines[index].strip_prefix("# case ") {
                    profile_note = rest.split(' ').find(|token| token.starts_with("profile=")).map(|token| format!(" {}", token)).unwrap_or_default();
                }
                if !lines[index].starts_with("C ") { index += 1; continue; }
                let cfg = gen::parse_cfg(lines[index]);
                let mut events = Vec::new();
                index += 1;
                while index < lines.len() && !lines[index].starts_with("C ") {
                    if let Some(rest) = lines[index].strip_prefix("E ") {
                        let tokens: Vec<&str> = rest.split(' ').collect();
                        if let Some(ev) = Ev::parse(&tokens) { events.push(ev); }
                    }
                    index += 1;
                }
                let mut position = 0;
                if !run_case(&mut sink, &format!("# case replay{}", profile_note), cfg, |_, _, _| { let ev = events.get(position).cloned(); position += 1; ev }) { ok = false; break; }
            }
            sink.flush();
            ok
        }
        "pure" => { pure::run(seed, &out, args.iter().any(|a| a == "--thorough")); true }
        "ack" => { ack::run(&out, arg(&args, "--polls").and_then(|s| s.parse().ok()).unwrap_or(2), arg(&args, "--schedule")); true }
        "conc" => match arg(&args, "--script") { Some(path) => conc::run_script(&path, &out), None => conc::run(seed, &out, &args) },
        "stress" => { stress::run(seed, &out, arg(&args, "--millis").and_then(|s| s.parse().ok()).unwrap_or(700)); true }
        "locks" => locks::run(seed, &out, arg(&args, "--millis").and_then(|s| s.parse().ok()).unwrap_or(1500)),
        _ => { eprintln!("unknown mode"); false }
    };
    std::process::exit(if ok { 0 } else { 3 });
}
