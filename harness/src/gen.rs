//! Generation of Layer A histories: structured, mostly valid, boundary directed. Every choice comes from one PRNG.
use crate::engine::{Cfg, Engine, Ev, Snapshot};
use crate::Rng;

pub struct Generator {
    rng: Rng,
    profile: String,
    length: usize,
    keys: u64,
    await_percent: u64,
    next_value: u64,
    phase_shutdown_at: Option<usize>,
    draining: bool,
    drained_checks: u8,
    max: i64,
    shards: u64,
}

pub fn parse_cfg(line: &str) -> Cfg {
    let mut cfg = Cfg { max: 10, shards: 2, cmdcap: 4, pool: 1, buf: 2, counters: 8, hash: 0, wbase: 1, wmod: 1, now: 1_000_000_000_000, clients: 3 };
    for token in line.split(' ').skip(1) {
        let mut parts = token.splitn(2, '=');
        let (key, value) = (parts.next().unwrap_or(""), parts.next().unwrap_or(""));
        match key {
            "max" => cfg.max = value.parse().unwrap(),
            "shards" => cfg.shards = value.parse().unwrap(),
            "cmdcap" => cfg.cmdcap = value.parse().unwrap(),
            "pool" => cfg.pool = value.parse().unwrap(),
            "buf" => cfg.buf = value.parse().unwrap(),
            "counters" => cfg.counters = value.parse().unwrap(),
            "hash" => cfg.hash = value.parse().unwrap(),
            "wbase" => cfg.wbase = value.parse().unwrap(),
            "wmod" => cfg.wmod = value.parse().unwrap(),
            "now" => cfg.now = value.parse().unwrap(),
            "#clients" => cfg.clients = value.parse().unwrap(),
            _ => {}
        }
    }
    cfg
}

const SEC: u64 = 1_000_000_000;

impl Generator {
    pub fn new(seed: u64, profile: &str) -> Generator {
        let mut rng = Rng::new(seed);
        let length = match profile {
            "boundary" => 10 + rng.below(40) as usize,
            "bigbuf" => 120 + rng.below(200) as usize,
            _ => { let long = rng.chance(20); 20 + rng.below(if long { 380 } else { 120 }) as usize }
        };
        let keys = match profile { "pressure" => rng.pick(&[6u64, 8, 12, 16]), _ => rng.pick(&[2u64, 3, 5, 8]) };
        let await_percent = match profile {
            "burst" => rng.pick(&[0u64, 10, 30]),
            _ => rng.pick(&[100u64, 90, 60, 20]),
        };
        let phase_shutdown_at = if profile == "burst" || rng.chance(20) { Some(length * (50 + rng.below(45) as usize) / 100) } else { None };
        Generator { rng, profile: profile.to_string(), length, keys, await_percent, next_value: 100, phase_shutdown_at, draining: false, drained_checks: 0, max: 10, shards: 2 }
    }

    pub fn cfg(&mut self) -> Cfg {
        let rng = &mut self.rng;
        let profile = self.profile.as_str();
        let max: i64 = match profile {
            "pressure" => rng.pick(&[8i64, 10, 12, 20, 40]),
            "boundary" => rng.pick(&[10i64, 100, i64::MAX, i64::MAX - 5]),
            "nopressure" => rng.pick(&[10_000i64, 1_000_000]),
            _ => rng.pick(&[10i64, 20, 50, 100, 1000]),
        };
        let cfg = Cfg {
            max,
            shards: rng.pick(&[2usize, 2, 4, 256]),
            cmdcap: match profile { "burst" => rng.pick(&[1usize, 1, 2, 3]), _ => rng.pick(&[1usize, 2, 4, 64, 32768]) },
            pool: if profile == "bigbuf" { 1 } else { rng.pick(&[1usize, 1, 2, 3]) },
            // "bigbuf": buffers beyond the default 64 records, not all multiples of it (a hand-over must carry the whole buffer)
            buf: match profile { "reads" | "pressure" => rng.pick(&[1usize, 1, 2, 3]), "bigbuf" => rng.pick(&[65usize, 100, 128, 150]), _ => rng.pick(&[1usize, 2, 3, 64]) },
            counters: match profile { "boundary" => rng.pick(&[1u64, 2, 3]), "reads" => rng.pick(&[1u64, 2, 3, 5, 16]), _ => rng.pick(&[1u64, 2, 3, 10, 16, 100]) },
            hash: rng.pick(&[0u64, 0, 1, 2]),
            // boundary: a weight function that yields 0 (or less) for some values — `put` / `put_with_ttl` / an upsert acting
            // as a put then hit the documented assertion on the computed weight
            wbase: if profile == "boundary" { rng.pick(&[1i64, 1, 0, -24, 2]) } else { rng.pick(&[1i64, 1, 2, 5]) },
            wmod: rng.pick(&[1u64, 3]),
            now: rng.pick(&[1_000u64 * SEC, 1_000 * SEC + 1, 1_000 * SEC + 999_999_999, 1_700_000_000 * SEC]),
            clients: 3,
        };
        self.max = cfg.max;
        self.shards = cfg.shards as u64;
        cfg
    }

    fn key(&mut self) -> u64 { self.rng.below(self.keys) }

    fn value(&mut self) -> u64 { self.next_value += 1; self.next_value }

    fn weight(&mut self) -> i64 {
        let max = self.max;
        match self.profile.as_str() {
            "boundary" => if self.rng.chance(6) { self.rng.pick(&[0i64, -1, i64::MIN]) } else { self.rng.pick(&[1i64, 2, 24, 25, max / 2, max - 1, max, i64::MAX, i64::MAX - 24, i64::MAX - 23]).max(1) },
            "nopressure" => 1 + self.rng.below(5) as i64,
            "pressure" => {
                // mostly light keys (many residents), now and then one that needs several victims
                if self.rng.chance(75) { 1 + self.rng.below(2) as i64 } else { self.rng.pick(&[3i64, 4, 5, 6, max / 2, max - 1, max, max + 1]).max(1) }
            }
            _ => {
                if self.rng.chance(70) { 1 + self.rng.below((max as u64 / 2).clamp(1, 12)) as i64 }
                else { self.rng.pick(&[1i64, 2, 24, 25, 26, max / 2, max - 1, max, max + 1]).max(1) }
            }
        }
    }

    fn ttl(&mut self) -> u128 {
        let shards = self.shards as u128;
        let sec = SEC as u128;
        match self.profile.as_str() {
            "boundary" => self.rng.pick(&[0u128, 1, sec, u64::MAX as u128, (i64::MAX as u128) * sec, (u64::MAX as u128) * sec + 999_999_999, ((i64::MAX as u128) - 2_000_000_000) * sec,
                ((i64::MAX as u128) - 1_000) * sec, ((i64::MAX as u128) - 1_000) * sec + 999_999_999, ((i64::MAX as u128) - 999) * sec, ((i64::MAX as u128) - 1_001) * sec]),
            _ => {
                // every magnitude between a millisecond and centuries, and the edges of the narrower integer types a duration
                // might be squeezed through (seeded C09j: a cap of u32::MAX MILLISECONDS, 49.7 days, sat in a gap of this list)
                if self.rng.chance(14) {
                    if self.rng.chance(50) {
                        let exponent = 6 + self.rng.below(13) as u32;                       // 10^6 .. 10^18 ns
                        return (1 + self.rng.below(9)) as u128 * 10u128.pow(exponent) + self.rng.below(1000) as u128;
                    }
                    let edge = self.rng.pick(&[u32::MAX as u128, i32::MAX as u128, u16::MAX as u128, 1u128 << 32, 1u128 << 31]);
                    let unit = self.rng.pick(&[1u128, 1_000, 1_000_000, sec, 60 * sec]);
                    return (edge * unit + self.rng.pick(&[0u128, 1, sec])).min(((i64::MAX as u128) / 4) * 1); 
                }
                self.rng.pick(&[1u128, 999_999_999, sec, sec + 1, 2 * sec, 3 * sec, 5 * sec, shards * sec, 1000 * sec, 0])
            }
        }
    }

    fn advance(&mut self, snapshot: &Snapshot, now: u64) -> u64 {
        // half of the time aim at an expiry boundary of a stored key
        if !snapshot.expiries.is_empty() && self.rng.chance(50) {
            let expiry = self.rng.pick(&snapshot.expiries);
            if expiry >= now as u128 && expiry - (now as u128) < (1u128 << 62) {
                let delta = (expiry - now as u128) as u64;
                return self.rng.pick(&[delta, delta + 1, delta.saturating_sub(1), delta + SEC, delta + 999_999_999]).max(1);
            }
        }
        self.rng.pick(&[1u64, 500_000_000, 999_999_999, SEC, SEC + 1, 2 * SEC, 5 * SEC, self.shards * SEC, 100 * SEC, 1_000_000 * SEC])
    }

    fn write_event(&mut self, client: usize, snapshot: &Snapshot) -> Ev {
        let key = self.key();
        let choice = self.rng.below(100);
        let ttl_heavy = self.profile == "ttl";
        if choice < 18 { Ev::Put(client, key, self.value()) }
        else if choice < 40 { let w = self.weight(); Ev::PutW(client, key, self.value(), w) }
        else if choice < (if ttl_heavy { 58 } else { 48 }) { let t = self.ttl(); Ev::PutTtl(client, key, self.value(), t) }
        else if choice < (if ttl_heavy { 68 } else { 55 }) { let (w, t) = (self.weight(), self.ttl()); Ev::PutWTtl(client, key, self.value(), w, t) }
        else if choice < 85 {
            // put_or_update: all shapes the builder accepts
            let shape = self.rng.below(16);
            let value = if shape & 1 != 0 { Some(self.value()) } else { None };
            let weight = if shape & 2 != 0 { Some(self.weight().max(1)) } else { None };   // a request with an explicit weight <= 0 is refused by its builder (Layer G covers that), it never reaches put_or_update
            let mut ttl = if shape & 4 != 0 { Some(self.ttl()) } else { None };
            let mut remove = shape & 8 != 0;
            if ttl.is_some() && remove { if self.rng.chance(50) { ttl = None; } else { remove = false; } }
            let present = snapshot.store_keys.contains(&key);
            let value = if value.is_none() && weight.is_none() && ttl.is_none() && !remove { Some(self.value()) } else { value };
            // an upsert of an absent key without a value is a documented panic: keep it rare (malformed stream)
            let value = if value.is_none() && !present && !self.rng.chance(5) { Some(self.value()) } else { value };
            Ev::Upsert(client, key, value, weight, ttl, remove)
        }
        else { Ev::Delete(client, key) }
    }

    pub fn next(&mut self, engine: &mut Engine, snapshot: &Snapshot, step: usize) -> Option<Ev> {
        let now = engine.clock.0.load(std::sync::atomic::Ordering::SeqCst);
        let worker_ready = snapshot.worker_alive && snapshot.queue_len > 0;
        let consumer_ready = snapshot.consumer_alive && snapshot.bufq_len > 0;
        let resumable: Vec<usize> = (0..engine.cfg.clients).filter(|c| engine.parked[*c] && engine.can_resume(*c)).collect();
        if step >= self.length {
            // wind down: everything that can still move moves, then two observations, then the end
            if let Some(client) = resumable.first() { return Some(Ev::Resume(*client)); }
            if worker_ready { return Some(Ev::Worker); }
            if consumer_ready { return Some(Ev::Consumer); }
            self.drained_checks += 1;
            return match self.drained_checks { 1 => Some(Ev::Weight), 2 => Some(Ev::Stats), 3 if snapshot.sweeper_alive => Some(Ev::Sweep), 4 => Some(Ev::Stats), _ => None };
        }
        if Some(step) == self.phase_shutdown_at {
            if let Some(client) = engine.free_client() { return Some(Ev::Shutdown(client)); }
        }
        if self.draining {
            if worker_ready { return Some(Ev::Worker); }
            self.draining = false;
        }
        if !resumable.is_empty() && self.rng.chance(60) { return Some(Ev::Resume(self.rng.pick(&resumable))); }
        let free = engine.free_client();
        let (p_write, p_read, p_worker, p_sweep, p_consumer, p_advance) = match self.profile.as_str() {
            "pressure" => (38, 30, 18, 2, 10, 2),
            "ttl" => (35, 15, 15, 15, 2, 15),
            "burst" => (50, 10, 25, 3, 2, 3),
            "reads" => (15, 55, 8, 2, 15, 2),
            "bigbuf" => (12, 62, 10, 1, 12, 1),
            "boundary" => (50, 10, 25, 5, 2, 5),
            "nopressure" => (35, 25, 15, 8, 5, 8),
            _ => (35, 25, 15, 6, 6, 6),
        };
        for _ in 0..20 {
            let roll = self.rng.below(100);
            let mut bound = p_write;
            if roll < bound {
                if let Some(client) = free {
                    let client = if self.rng.chance(50) { client } else { (0..engine.cfg.clients).filter(|c| !engine.parked[*c]).last().unwrap_or(client) };
                    if self.rng.chance(self.await_percent) { self.draining = true; }
                    return Some(self.write_event(client, snapshot));
                }
                continue;
            }
            bound += p_read;
            if roll < bound {
                if free.is_none() { continue; }
                if self.profile == "bigbuf" && self.rng.chance(80) {
                    // many records per call: an iterator read over 8-24 positions
                    let positions = 8 + self.rng.below(17);
                    let keys: Vec<u64> = (0..positions).map(|_| self.rng.below(self.keys)).collect();
                    return Some(Ev::MGet(keys, 1 + self.rng.below(2) as u8));
                }
                // an iterator used the way iterators are used: opened, then asked for its items ONE AT A TIME with other events
                // (writes, deletes, worker steps, sweeps, clock moves, shutdown) in between — each `next()` is a read of its own
                match engine.iter_keys.as_ref() {
                    Some(keys) => if self.rng.chance(45) { return Some(Ev::IterNext(keys.first().copied())); },
                    None => if self.rng.chance(10) {
                        let positions = 2 + self.rng.below(4);
                        let keys: Vec<u64> = (0..positions).map(|_| self.key()).collect();
                        return Some(Ev::IterOpen(keys, 1 + self.rng.below(2) as u8));
                    },
                }
                if self.rng.chance(85) { return Some(Ev::Get(self.key(), self.rng.below(4) as u8)); }
                let mut keys: Vec<u64> = (0..self.keys).filter(|_| self.rng.chance(60)).collect();
                if self.rng.chance(50) { keys.reverse(); }
                // repeated keys: adjacent and apart (every position of the result belongs to the key at that position)
                if !keys.is_empty() && self.rng.chance(45) {
                    let at = self.rng.below(keys.len() as u64) as usize;
                    let repeated = keys[at];
                    if self.rng.chance(60) { keys.insert(at, repeated); } else { keys.push(repeated); }
                    if self.rng.chance(25) { keys.insert(0, repeated); }
                }
                return Some(Ev::MGet(keys, self.rng.below(3) as u8));
            }
            bound += p_worker;
            if roll < bound { if worker_ready { return Some(Ev::Worker); } continue; }
            bound += p_sweep;
            if roll < bound { if snapshot.sweeper_alive { return Some(Ev::Sweep); } continue; }
            bound += p_consumer;
            if roll < bound { if consumer_ready { return Some(Ev::Consumer); } continue; }
            bound += p_advance;
            if roll < bound { return Some(Ev::Advance(self.advance(snapshot, now))); }
            let other = self.rng.below(4);
            if other == 0 { return Some(Ev::Weight); }
            if other == 1 { return Some(Ev::Stats); }
            if !engine.acks.is_empty() { return Some(Ev::Poll(self.rng.below(engine.acks.len() as u64) as usize)); }
        }
        Some(Ev::Weight)
    }
}
