//! Layer B slice for one acknowledgement: every interleaving of `done()` with the polls of one or more tasks,
//! executed on the REAL `CommandAcknowledgement` under the cooperative scheduler (schedule points inside
//! `done()` and `poll()`), one line per explored schedule prefix, in the vocabulary of `CachedModel/Ack.lean`.
use std::sync::{Arc, Mutex};
use std::task::{Context, Poll, Wake, Waker};
use std::time::Duration;

use tinylfu_cached::cache::command::acknowledgement::CommandAcknowledgement;
use tinylfu_cached::cache::command::CommandStatus;
use tinylfu_cached::cache::verif;

use crate::engine::status_str;
use crate::Sink;

const TIMEOUT: Duration = Duration::from_secs(10);

struct IdWaker {
    id: usize,
    log: Arc<Mutex<Vec<usize>>>,
}

impl Wake for IdWaker {
    fn wake(self: Arc<Self>) { self.log.lock().unwrap().push(self.id); }
    fn wake_by_ref(self: &Arc<Self>) { self.log.lock().unwrap().push(self.id); }
}

#[derive(Clone, Debug, PartialEq)]
pub enum Act {
    SetStatus,
    SetFlag,
    Wake,
    LockRegister(usize, usize),
    LoadFlag(usize),
    FinishPoll(usize),
    /// a bystander calls `handle()` and drops the handle without polling it
    Handle,
}

impl Act {
    fn text(&self) -> String {
        match self {
            Act::SetStatus => "ss".to_string(),
            Act::SetFlag => "sf".to_string(),
            Act::Wake => "w".to_string(),
            Act::LockRegister(p, w) => format!("lr:{}:{}", p, w),
            Act::LoadFlag(p) => format!("lf:{}", p),
            Act::FinishPoll(p) => format!("fp:{}", p),
            Act::Handle => "h".to_string(),
        }
    }
    fn parse(text: &str) -> Option<Act> {
        let parts: Vec<&str> = text.split(':').collect();
        Some(match parts[0] {
            "ss" => Act::SetStatus,
            "sf" => Act::SetFlag,
            "w" => Act::Wake,
            "lr" => Act::LockRegister(parts[1].parse().ok()?, parts[2].parse().ok()?),
            "lf" => Act::LoadFlag(parts[1].parse().ok()?),
            "fp" => Act::FinishPoll(parts[1].parse().ok()?),
            "h" => Act::Handle,
            _ => return None,
        })
    }
}

pub struct Observation {
    pub line: String,
    pub enabled: Vec<Act>,
    pub hang: Option<String>,
}

fn grant_and_settle(role: &str) -> Result<verif::ThreadView, String> {
    let seq = verif::grant(role).ok_or_else(|| format!("{} is not parked", role))?;
    verif::wait_settled(role, seq, TIMEOUT).ok_or_else(|| format!("{} did not reach its next schedule point", role))
}

/// Executes `schedule` on a fresh acknowledgement with `pollers` tasks of `polls` polls each.
/// `wakers[p][j]` is the waker identity poller `p` uses for its `j`-th poll.
pub fn execute(status: CommandStatus, pollers: usize, polls: usize, wakers: &[Vec<usize>], schedule: &[Act]) -> Observation {
    verif::reset(true, false);
    verif::set_default_stop_all(true);
    let ack = CommandAcknowledgement::verif_new();
    let wake_log = Arc::new(Mutex::new(Vec::new()));
    let results: Arc<Mutex<Vec<Vec<String>>>> = Arc::new(Mutex::new(vec![Vec::new(); pollers]));
    let mut threads = Vec::new();
    {
        let ack = ack.clone();
        threads.push(std::thread::Builder::new().name("completer".to_string()).spawn(move || {
            let _registration = verif::register("completer");
            verif::point("t.start");
            ack.verif_done(status);
        }).unwrap());
    }
    for p in 0..pollers {
        let (ack, wake_log, results) = (ack.clone(), wake_log.clone(), results.clone());
        let my_wakers = wakers[p].clone();
        threads.push(std::thread::Builder::new().name(format!("p{}", p)).spawn(move || {
            let _registration = verif::register(&format!("p{}", p));
            for j in 0..polls {
                verif::point("poll.begin");
                let waker = Waker::from(Arc::new(IdWaker { id: my_wakers[j], log: wake_log.clone() }));
                let mut context = Context::from_waker(&waker);
                let mut handle = ack.handle();
                let outcome = match std::future::Future::poll(std::pin::Pin::new(&mut handle), &mut context) {
                    Poll::Ready(status) => format!("ready:{}", status_str(&status)),
                    Poll::Pending => "pending".to_string(),
                };
                results.lock().unwrap()[p].push(outcome);
            }
            verif::point("poll.end");
        }).unwrap());
    }
    let mut hang = None;
    let mut settle = |role: &str| -> bool {
        match verif::wait_settled(role, 0, TIMEOUT) { Some(_) => true, None => { false } }
    };
    if !settle("completer") { hang = Some("completer did not start".to_string()); }
    for p in 0..pollers { if !settle(&format!("p{}", p)) { hang = Some(format!("poller {} did not start", p)); } }
    // the completer moves from its start point to the first action of done()
    if hang.is_none() {
        if let Err(why) = grant_and_settle("completer") { hang = Some(why); }
    }
    let mut polls_started = vec![0usize; pollers];
    let mut executed = 0;
    for act in schedule {
        if hang.is_some() { break; }
        let outcome = match act {
            Act::SetStatus | Act::SetFlag | Act::Wake => grant_and_settle("completer").map(|_| ()),
            Act::LockRegister(p, _) => {
                let role = format!("p{}", p);
                polls_started[*p] += 1;
                // poll.begin -> poll.lock -> poll.register -> poll.flag
                grant_and_settle(&role).and_then(|_| grant_and_settle(&role)).and_then(|_| grant_and_settle(&role)).map(|_| ())
            }
            Act::LoadFlag(p) | Act::FinishPoll(p) => grant_and_settle(&format!("p{}", p)).map(|_| ()),
            Act::Handle => { drop(ack.handle()); Ok(()) }
        };
        match outcome {
            Ok(()) => executed += 1,
            Err(why) => hang = Some(format!("{} while executing {}", why, act.text())),
        }
    }
    let _ = executed;
    // observe
    let at = |role: &str| verif::view(role).map(|view| if view.finished { "finished" } else { view.parked_at.unwrap_or("running") }).unwrap_or("unknown");
    let holds = verif::holds();
    let lock_owner = holds.iter().find(|(lock, _)| lock.starts_with("ackwaker")).map(|(_, owner)| owner.clone());
    let (flag, status_now, waker_present) = ack.verif_peek();
    let mut enabled = Vec::new();
    if hang.is_none() {
        match at("completer") {
            "ack.status" => enabled.push(Act::SetStatus),
            "ack.flag" => enabled.push(Act::SetFlag),
            "ack.wake" => if lock_owner.is_none() { enabled.push(Act::Wake) },
            _ => {}
        }
        // a bystander's `handle()` (at most once per schedule, never while a poller owns the waker lock, only while the
        // completion is still under way and somebody has polled already)
        if lock_owner.is_none() && !schedule.contains(&Act::Handle) && at("completer") != "finished" && polls_started.iter().any(|n| *n > 0) { enabled.push(Act::Handle); }
        for p in 0..pollers {
            match at(&format!("p{}", p)) {
                "poll.begin" => if lock_owner.is_none() { enabled.push(Act::LockRegister(p, wakers[p][polls_started[p].min(polls - 1)])) },
                "poll.flag" => enabled.push(Act::LoadFlag(p)),
                "poll.status" => enabled.push(Act::FinishPoll(p)),
                _ => {}
            }
        }
    }
    let results_text = results.lock().unwrap().iter().map(|r| r.join(",")).collect::<Vec<_>>().join("|");
    let wakes_text = wake_log.lock().unwrap().iter().map(|w| w.to_string()).collect::<Vec<_>>().join(",");
    let line = format!("R ack results={} wakes={} flag={} status={} slot={} lock={} cpc={}",
        results_text, wakes_text, flag as u8, status_str(&status_now), waker_present.map(|present| (present as u8).to_string()).unwrap_or("-".to_string()),
        lock_owner.clone().map(|owner| owner.trim_start_matches('p').to_string()).unwrap_or("-".to_string()),
        match at("completer") { "ack.status" => "beforeStatus", "ack.flag" => "beforeFlag", "ack.wake" => "beforeWake", "finished" => "finished", other => other });
    // tear down
    verif::release_all();
    for thread in threads { let _ = thread.join(); }
    Observation { line, enabled, hang }
}

fn status_of(text: &str) -> CommandStatus {
    match text {
        "accepted" => CommandStatus::Accepted,
        "shuttingdown" => CommandStatus::ShuttingDown,
        "rejected:nospace" => CommandStatus::Rejected(tinylfu_cached::cache::command::RejectionReason::EnoughSpaceIsNotAvailableAndKeyFailedToEvictOthers),
        "rejected:exists" => CommandStatus::Rejected(tinylfu_cached::cache::command::RejectionReason::KeyAlreadyExists),
        _ => CommandStatus::Rejected(tinylfu_cached::cache::command::RejectionReason::KeyDoesNotExist),
    }
}

fn explore(sink: &mut Sink, status_text: &str, pollers: usize, polls: usize, wakers: &[Vec<usize>], prefix: &mut Vec<Act>, count: &mut usize, limit: usize) -> bool {
    if *count >= limit { return true; }
    let observation = execute(status_of(status_text), pollers, polls, wakers, prefix);
    *count += 1;
    let schedule_text = prefix.iter().map(|a| a.text()).collect::<Vec<_>>().join(" ");
    use std::io::Write;
    writeln!(sink.input, "A {} {} | {}", status_text, pollers, schedule_text).unwrap();
    writeln!(sink.implementation, "{}", observation.line).unwrap();
    if let Some(why) = observation.hang {
        sink.both(&format!("# hang {}", why.replace(' ', "_")));
        return false;
    }
    for act in observation.enabled {
        prefix.push(act);
        let ok = explore(sink, status_text, pollers, polls, wakers, prefix, count, limit);
        prefix.pop();
        if !ok { return false; }
    }
    true
}

pub fn run(out: &str, polls: usize, schedule: Option<String>) {
    let mut sink = Sink::new(out);
    if let Some(schedule) = schedule {
        // replay of one schedule: "status pollers polls | acts"
        let (head, acts) = schedule.split_once('|').unwrap_or((schedule.as_str(), ""));
        let head: Vec<&str> = head.split_whitespace().collect();
        let (status_text, pollers) = (head[0], head[1].parse::<usize>().unwrap_or(1));
        let acts: Vec<Act> = acts.split_whitespace().filter_map(Act::parse).collect();
        let polls = acts.iter().filter(|a| matches!(a, Act::LockRegister(..))).count().max(1);
        let wakers: Vec<Vec<usize>> = (0..pollers).map(|p| {
            let mine: Vec<usize> = acts.iter().filter_map(|a| if let Act::LockRegister(q, w) = a { if *q == p { Some(*w) } else { None } } else { None }).collect();
            let mut padded = mine.clone();
            while padded.len() < polls { padded.push(100 + p); }
            padded
        }).collect();
        let observation = execute(status_of(status_text), pollers, polls, &wakers, &acts);
        sink.both("# case ack replay");
        use std::io::Write;
        writeln!(sink.input, "A {} {} | {}", status_text, pollers, acts.iter().map(|a| a.text()).collect::<Vec<_>>().join(" ")).unwrap();
        writeln!(sink.implementation, "{}", observation.line).unwrap();
        sink.flush();
        return;
    }
    let limit: usize = std::env::var("VERIF_ACK_LIMIT").ok().and_then(|s| s.parse().ok()).unwrap_or(usize::MAX);
    // (pollers, polls each, waker identities per poll)
    let mut plans: Vec<(usize, usize, Vec<Vec<usize>>, &str)> = vec![
        (1, polls, vec![(0..polls).map(|j| 5 + j % 2 * 3).collect()], "accepted"),           // one task, the waker changes between polls
        (1, polls, vec![vec![7; polls]], "rejected:nospace"),                                   // one task, same waker
        (2, 1, vec![vec![5], vec![6]], "accepted"),
    ];
    // the drain loop of `Shutdown` answers with ShuttingDown: one task whose waker changes between its polls
    plans.push((1, polls.min(2), vec![(0..polls.min(2)).map(|j| 5 + j % 2 * 3).collect()], "shuttingdown"));
    if polls >= 3 { plans.push((2, 2, vec![vec![5, 8], vec![6, 6]], "shuttingdown")); }
    for (pollers, polls_each, wakers, status_text) in plans {
        sink.both(&format!("# case ack pollers={} polls={} status={}", pollers, polls_each, status_text));
        let mut count = 0;
        let mut prefix = Vec::new();
        if !explore(&mut sink, status_text, pollers, polls_each, &wakers, &mut prefix, &mut count, limit) { break; }
        sink.both(&format!("# explored {}", count));
    }
    sink.flush();
}
