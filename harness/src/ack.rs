pub fn run(_out: &str, _polls: usize, _schedule: Option<String>) {}
