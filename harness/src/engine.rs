//! Drives one real `CacheD<u64, u64>` step by step (Layer A discipline) and renders what it observes
//! in the same canonical text the Lean driver prints.
use std::panic::{catch_unwind, AssertUnwindSafe};
use std::sync::atomic::{AtomicBool, AtomicU64, Ordering};
use std::sync::{Arc, Mutex};
use std::thread::JoinHandle;
use std::time::{Duration, SystemTime, UNIX_EPOCH};

use tinylfu_cached::cache::cached::CacheD;
use tinylfu_cached::cache::clock::Clock;
use tinylfu_cached::cache::command::acknowledgement::CommandAcknowledgement;
use tinylfu_cached::cache::command::{CommandStatus, RejectionReason};
use tinylfu_cached::cache::config::ConfigBuilder;
use tinylfu_cached::cache::put_or_update::PutOrUpdateRequestBuilder;
use tinylfu_cached::cache::verif;

pub type Cache = CacheD<u64, u64>;

#[derive(Clone)]
pub struct ManualClock(pub Arc<AtomicU64>);

impl Clock for ManualClock {
    fn now(&self) -> SystemTime {
        UNIX_EPOCH + Duration::from_nanos(self.0.load(Ordering::SeqCst))
    }
}

#[derive(Clone, Debug)]
pub struct Cfg {
    pub max: i64,
    pub shards: usize,
    pub cmdcap: usize,
    pub pool: usize,
    pub buf: usize,
    pub counters: u64,
    pub hash: u64,
    pub wbase: i64,
    pub wmod: u64,
    pub now: u64,
    pub clients: usize,
}

pub fn hash_of(mode: u64, key: u64) -> u64 {
    match mode {
        0 => key,
        1 => 7,
        _ => key % 3,
    }
}

pub fn weight_of(cfg: &Cfg, value: u64, ttl: bool, ttl_entry: i64) -> i64 {
    cfg.wbase + (value % cfg.wmod) as i64 + if ttl { ttl_entry } else { 0 }
}

/// time-to-live in nanoseconds (up to `Duration::MAX`)
pub fn duration_of(ns: u128) -> Duration {
    Duration::new((ns / 1_000_000_000) as u64, (ns % 1_000_000_000) as u32)
}

#[derive(Clone, Debug)]
pub enum Ev {
    Put(usize, u64, u64),
    PutW(usize, u64, u64, i64),
    PutTtl(usize, u64, u64, u128),
    PutWTtl(usize, u64, u64, i64, u128),
    Upsert(usize, u64, Option<u64>, Option<i64>, Option<u128>, bool),
    Delete(usize, u64),
    /// key, variant 0..4 (get, get_ref, map_get, map_get_ref)
    Get(u64, u8),
    /// keys, variant 0..3 (multi_get, multi_get_iterator, multi_get_map_iterator)
    MGet(Vec<u64>, u8),
    /// an iterator that is NOT drained at once: opened over the keys (variant 1 = multi_get_iterator, 2 = multi_get_map_iterator) …
    IterOpen(Vec<u64>, u8),
    /// … and asked for its next item some events later (the key it should be about to read, `None` when it is exhausted)
    IterNext(Option<u64>),
    Weight,
    Stats,
    Worker,
    Sweep,
    Consumer,
    Advance(u64),
    Shutdown(usize),
    Resume(usize),
    Poll(usize),
}

fn opt<T: std::fmt::Display>(value: &Option<T>) -> String {
    match value {
        Some(value) => value.to_string(),
        None => "-".to_string(),
    }
}

impl Ev {
    pub fn line(&self) -> String {
        match self {
            Ev::Put(c, k, v) => format!("put {} {} {}", c, k, v),
            Ev::PutW(c, k, v, w) => format!("putw {} {} {} {}", c, k, v, w),
            Ev::PutTtl(c, k, v, t) => format!("putttl {} {} {} {}", c, k, v, t),
            Ev::PutWTtl(c, k, v, w, t) => format!("putwttl {} {} {} {} {}", c, k, v, w, t),
            Ev::Upsert(c, k, v, w, t, rm) => format!("upsert {} {} {} {} {} {}", c, k, opt(v), opt(w), opt(t), if *rm { 1 } else { 0 }),
            Ev::Delete(c, k) => format!("delete {} {}", c, k),
            Ev::Get(k, _) => format!("get {}", k),
            Ev::MGet(ks, _) => format!("mget {}", if ks.is_empty() { "-".to_string() } else { ks.iter().map(|k| k.to_string()).collect::<Vec<_>>().join(",") }),
            Ev::IterOpen(ks, _) => format!("iteropen {}", if ks.is_empty() { "-".to_string() } else { ks.iter().map(|k| k.to_string()).collect::<Vec<_>>().join(",") }),
            Ev::IterNext(k) => format!("iternext {}", opt(k)),
            Ev::Weight => "weight".to_string(),
            Ev::Stats => "stats".to_string(),
            Ev::Worker => "worker".to_string(),
            Ev::Sweep => "sweep".to_string(),
            Ev::Consumer => "consumer".to_string(),
            Ev::Advance(d) => format!("advance {}", d),
            Ev::Shutdown(c) => format!("shutdown {}", c),
            Ev::Resume(c) => format!("resume {}", c),
            Ev::Poll(h) => format!("poll {}", h),
        }
    }

    /// the variant of a read is not part of the model's event (all variants must agree); it is kept as a comment token
    pub fn variant_note(&self) -> String {
        match self {
            Ev::Get(_, variant) => format!(" #v{}", variant),
            Ev::MGet(_, variant) | Ev::IterOpen(_, variant) => format!(" #v{}", variant),
            _ => String::new(),
        }
    }

    pub fn parse(tokens: &[&str]) -> Option<Ev> {
        let nat = |s: &str| s.parse::<u64>().ok();
        let int = |s: &str| s.parse::<i64>().ok();
        let big = |s: &str| s.parse::<u128>().ok();
        let variant = tokens.iter().find(|t| t.starts_with("#v")).and_then(|t| t[2..].parse::<u8>().ok()).unwrap_or(0);
        Some(match tokens.first()? {
            &"put" => Ev::Put(nat(tokens[1])? as usize, nat(tokens[2])?, nat(tokens[3])?),
            &"putw" => Ev::PutW(nat(tokens[1])? as usize, nat(tokens[2])?, nat(tokens[3])?, int(tokens[4])?),
            &"putttl" => Ev::PutTtl(nat(tokens[1])? as usize, nat(tokens[2])?, nat(tokens[3])?, big(tokens[4])?),
            &"putwttl" => Ev::PutWTtl(nat(tokens[1])? as usize, nat(tokens[2])?, nat(tokens[3])?, int(tokens[4])?, big(tokens[5])?),
            &"upsert" => Ev::Upsert(
                nat(tokens[1])? as usize, nat(tokens[2])?,
                if tokens[3] == "-" { None } else { Some(nat(tokens[3])?) },
                if tokens[4] == "-" { None } else { Some(int(tokens[4])?) },
                if tokens[5] == "-" { None } else { Some(big(tokens[5])?) },
                tokens[6] == "1"),
            &"delete" => Ev::Delete(nat(tokens[1])? as usize, nat(tokens[2])?),
            &"get" => Ev::Get(nat(tokens[1])?, variant),
            &"mget" => Ev::MGet(if tokens[1].is_empty() || tokens[1] == "-" { vec![] } else { tokens[1].split(',').map(|k| k.parse::<u64>().unwrap()).collect() }, variant),
            &"iteropen" => Ev::IterOpen(if tokens[1].is_empty() || tokens[1] == "-" { vec![] } else { tokens[1].split(',').map(|k| k.parse::<u64>().unwrap()).collect() }, variant.max(1)),
            &"iternext" => Ev::IterNext(if tokens[1] == "-" { None } else { Some(nat(tokens[1])?) }),
            &"weight" => Ev::Weight,
            &"stats" => Ev::Stats,
            &"worker" => Ev::Worker,
            &"sweep" => Ev::Sweep,
            &"consumer" => Ev::Consumer,
            &"advance" => Ev::Advance(nat(tokens[1])?),
            &"shutdown" => Ev::Shutdown(nat(tokens[1])? as usize),
            &"resume" => Ev::Resume(nat(tokens[1])? as usize),
            &"poll" => Ev::Poll(nat(tokens[1])? as usize),
            _ => return None,
        })
    }
}

pub fn status_str(status: &CommandStatus) -> String {
    match status {
        CommandStatus::Pending => "pending".to_string(),
        CommandStatus::Accepted => "accepted".to_string(),
        CommandStatus::ShuttingDown => "shuttingdown".to_string(),
        CommandStatus::Rejected(reason) => format!("rejected:{}", match reason {
            RejectionReason::EnoughSpaceIsNotAvailableAndKeyFailedToEvictOthers => "nospace",
            RejectionReason::KeyWeightIsGreaterThanCacheWeight => "tooheavy",
            RejectionReason::KeyDoesNotExist => "nokey",
            RejectionReason::KeyAlreadyExists => "exists",
            _ => "other",
        }),
    }
}

pub fn classify_panic(message: &str) -> String {
    // the crate's own texts first (read through a hook: a reworded message is not a behaviour change)
    for (site, starts, ends) in verif::panic_text_patterns() {
        if message.len() >= starts.len() + ends.len() && message.starts_with(&starts) && message.ends_with(&ends) && !(starts.is_empty() && ends.is_empty()) { return site.to_string(); }
    }
    if message.contains("must be greater than zero") { "weight-not-positive".to_string() }
    else if message.contains("value must be specified") { "upsert-value-missing".to_string() }
    else if message.contains("overflow when adding duration") { "time-overflow".to_string() }
    else if message.contains("with overflow") { "weight-overflow".to_string() }
    else if message.contains("index out of bounds") { "sketch-index".to_string() }
    else { format!("other:{}", message.replace(' ', "_")) }
}

pub fn panic_message(payload: Box<dyn std::any::Any + Send>) -> String {
    if let Some(message) = payload.downcast_ref::<&str>() { message.to_string() }
    else if let Some(message) = payload.downcast_ref::<String>() { message.clone() }
    else { "unknown panic".to_string() }
}

pub enum CallOut {
    Send(Result<Arc<CommandAcknowledgement>, String>),
    Value(Option<u64>),
    Values(Vec<Option<u64>>),
    Item(Option<Option<u64>>),
    Unit,
}

/// An iterator kept open across events. It borrows the cache and its keys; both outlive it (the engine holds the `Arc`, the keys
/// are leaked), so the borrow is stretched to `'static` by hand.
pub type OpenIter = Arc<Mutex<Option<Box<dyn Iterator<Item = Option<u64>> + Send>>>>;

type Job = Box<dyn FnOnce(&Cache) -> CallOut + Send>;

struct Slot {
    job: Mutex<Option<Job>>,
    result: Mutex<Option<Result<CallOut, String>>>,
    exit: AtomicBool,
}

pub enum Progress {
    Done(Result<CallOut, String>),
    Parked,
    Hang(String),
}

pub struct Engine {
    pub cfg: Cfg,
    pub cache: Arc<Cache>,
    pub clock: ManualClock,
    pub acks: Vec<Arc<CommandAcknowledgement>>,
    slots: Vec<Arc<Slot>>,
    threads: Vec<JoinHandle<()>>,
    pub parked: Vec<bool>,
    pub sample_size: usize,
    pub buf_chan_cap: usize,
    pub ttl_entry: i64,
    pub seeds: [u64; 4],
    pub hung: bool,
    done_seen: Vec<bool>,
    draining_seen: bool,
    open_iter: OpenIter,
    /// the keys the open iterator has not yet been asked for (the harness's own count of its `next()` calls that yielded an item)
    pub iter_keys: Option<Vec<u64>>,
}

pub const TIMEOUT: Duration = Duration::from_secs(8);

pub struct Snapshot {
    pub text: String,
    pub queue_len: usize,
    pub bufq_len: usize,
    pub worker_alive: bool,
    pub consumer_alive: bool,
    pub sweeper_alive: bool,
    pub shutting: bool,
    pub expiries: Vec<u128>,
    pub kw: Vec<(u64, u64, u64, i64)>,
    pub store_keys: Vec<u64>,
}

impl Engine {
    pub fn new(cfg: Cfg) -> Result<Engine, String> {
        verif::reset(true, true);
        verif::set_default_stops("worker", &["worker.recv", "worker.drain"]);
        verif::set_default_stops("sweeper", &["sweep.begin"]);
        verif::set_default_stops("consumer", &["consumer.recv"]);
        for client in 0..cfg.clients {
            verif::set_default_stops(&format!("c{}", client), &["client.idle", "cmd.send", "buf.send_shutdown"]);
        }
        let clock = ManualClock(Arc::new(AtomicU64::new(cfg.now)));
        let (hash_mode, wbase, wmod) = (cfg.hash, cfg.wbase, cfg.wmod);
        let (_, _, ttl_entry) = Cache::verif_constants();
        let ttl_entry_for_fn = ttl_entry as i64;
        let config = ConfigBuilder::new(cfg.counters, 16, cfg.max)
            .key_hash_fn(Box::new(move |key: &u64| hash_of(hash_mode, *key)))
            .weight_calculation_fn(Box::new(move |_key: &u64, value: &u64, ttl: bool| wbase + (*value % wmod) as i64 + if ttl { ttl_entry_for_fn } else { 0 }))
            .clock(Box::new(clock.clone()))
            .access_pool_size(cfg.pool)
            .access_buffer_size(cfg.buf)
            .command_buffer_size(cfg.cmdcap)
            .shards(cfg.shards)
            .ttl_tick_duration(Duration::from_millis(1))
            .build();
        let cache = Arc::new(CacheD::new(config));
        for role in ["worker", "sweeper", "consumer"] {
            if crate::wait_settled_ticks(role, 0).is_none() {
                return Err(format!("background thread {} did not reach its first schedule point", role));
            }
        }
        let mut slots = Vec::new();
        let mut threads = Vec::new();
        for client in 0..cfg.clients {
            let slot = Arc::new(Slot { job: Mutex::new(None), result: Mutex::new(None), exit: AtomicBool::new(false) });
            let (slot_for_thread, cache_for_thread) = (slot.clone(), cache.clone());
            let role = format!("c{}", client);
            let role_for_thread = role.clone();
            threads.push(std::thread::Builder::new().name(role.clone()).spawn(move || {
                let _registration = verif::register(&role_for_thread);
                loop {
                    verif::point("client.idle");
                    if slot_for_thread.exit.load(Ordering::SeqCst) { break; }
                    let job = slot_for_thread.job.lock().unwrap().take();
                    if let Some(job) = job {
                        let result = catch_unwind(AssertUnwindSafe(|| job(&cache_for_thread))).map_err(panic_message);
                        *slot_for_thread.result.lock().unwrap() = Some(result);
                    } else {
                        std::thread::yield_now();
                    }
                }
            }).unwrap());
            if crate::wait_settled_ticks(&role, 0).is_none() {
                return Err(format!("client thread {} did not park", role));
            }
            slots.push(slot);
        }
        let (sample_size, buf_chan_cap, _) = Cache::verif_constants();
        let seeds = cache.verif_snapshot().sketch.seeds;
        let parked = vec![false; cfg.clients];
        Ok(Engine { cfg, cache, clock, acks: Vec::new(), slots, threads, parked, sample_size, buf_chan_cap, ttl_entry: ttl_entry as i64, seeds, hung: false, done_seen: Vec::new(), draining_seen: false, open_iter: Arc::new(Mutex::new(None)), iter_keys: None })
    }

    pub fn cfg_line(&self) -> String {
        format!("C max={} shards={} cmdcap={} pool={} buf={} counters={} sample={} bufchan={} ttlentry={} hash={} wbase={} wmod={} now={} seeds={},{},{},{} #clients={}",
                self.cfg.max, self.cfg.shards, self.cfg.cmdcap, self.cfg.pool, self.cfg.buf, self.cfg.counters, self.sample_size, self.buf_chan_cap,
                self.ttl_entry, self.cfg.hash, self.cfg.wbase, self.cfg.wmod, self.cfg.now, self.seeds[0], self.seeds[1], self.seeds[2], self.seeds[3], self.cfg.clients)
    }

    fn alive(role: &str) -> bool {
        verif::view(role).map(|view| !view.finished).unwrap_or(false)
    }

    fn send_enabled(&self, point: &str) -> bool {
        match point {
            "cmd.send" => !Self::alive("worker") || self.cache.verif_command_queue_len() < self.cfg.cmdcap,
            "buf.send_shutdown" => !Self::alive("consumer") || self.cache.verif_buffer_queue_len() < self.buf_chan_cap,
            _ => true,
        }
    }

    /// Grants client `c` until its call finishes or parks at a send that cannot proceed.
    fn drive_client(&mut self, client: usize) -> Progress {
        let role = format!("c{}", client);
        loop {
            let view = match verif::view(&role) { Some(view) => view, None => return Progress::Hang("client thread unknown".to_string()) };
            let at = match view.parked_at { Some(at) => at, None => return Progress::Hang(format!("client {} not parked", client)) };
            if at == "client.idle" {
                if let Some(result) = self.slots[client].result.lock().unwrap().take() {
                    self.parked[client] = false;
                    return Progress::Done(result);
                }
            } else if !self.send_enabled(at) {
                self.parked[client] = true;
                return Progress::Parked;
            }
            let seq = match verif::grant(&role) { Some(seq) => seq, None => return Progress::Hang("grant failed".to_string()) };
            if crate::wait_settled_ticks(&role, seq).is_none() {
                self.hung = true;
                return Progress::Hang(format!("client {} did not reach a schedule point within {:?} (last point {})", client, TIMEOUT, at));
            }
        }
    }

    fn call(&mut self, client: usize, job: Job) -> Progress {
        *self.slots[client].job.lock().unwrap() = Some(job);
        self.drive_client(client)
    }

    fn step_background(&mut self, role: &str) -> Result<(), String> {
        let seq = verif::grant(role).ok_or_else(|| format!("{} is not parked", role))?;
        match crate::wait_settled_ticks(role, seq) {
            Some(_) => Ok(()),
            None => { self.hung = true; Err(format!("{} did not reach its next schedule point within {:?}", role, TIMEOUT)) }
        }
    }

    fn render_send(&mut self, progress: Progress) -> String {
        match progress {
            Progress::Parked => "parked".to_string(),
            Progress::Hang(why) => format!("hang {}", why.replace(' ', "_")),
            Progress::Done(Err(message)) => format!("panic {}", classify_panic(&message)),
            Progress::Done(Ok(CallOut::Send(Err(_)))) => "err".to_string(),
            Progress::Done(Ok(CallOut::Send(Ok(ack)))) => {
                let (done, status, _) = ack.verif_peek();
                self.acks.push(ack);
                self.done_seen.push(done);
                format!("ack {} {}", self.acks.len() - 1, if done { status_str(&status) } else { "pending".to_string() })
            }
            Progress::Done(Ok(CallOut::Unit)) => "none".to_string(),
            Progress::Done(Ok(CallOut::Value(value))) => format!("value {}", opt(&value)),
            Progress::Done(Ok(CallOut::Item(item))) => match item { None => "iter end".to_string(), Some(value) => format!("iter {}", opt(&value)) },
            Progress::Done(Ok(CallOut::Values(values))) => format!("values {}", values.iter().map(opt).collect::<Vec<_>>().join(",")),
        }
    }

    pub fn can_resume(&self, client: usize) -> bool {
        match verif::view(&format!("c{}", client)).and_then(|view| view.parked_at) {
            Some(at) => self.send_enabled(at),
            None => false,
        }
    }

    pub fn free_client(&self) -> Option<usize> {
        (0..self.cfg.clients).find(|client| !self.parked[*client])
    }

    /// Executes one event on the real cache. Returns (oracle tokens, out text).
    pub fn exec(&mut self, ev: &Ev) -> (String, String) {
        let _ = verif::drain_taps();
        let before = self.cache.verif_snapshot();
        let enabled = match ev {
            Ev::Put(c, ..) | Ev::PutW(c, ..) | Ev::PutTtl(c, ..) | Ev::PutWTtl(c, ..) | Ev::Upsert(c, ..) | Ev::Delete(c, ..) | Ev::Shutdown(c) => *c < self.cfg.clients && !self.parked[*c],
            Ev::Worker => Self::alive("worker") && before.command_queue_len > 0,
            Ev::Consumer => Self::alive("consumer") && before.buffer_queue_len > 0,
            Ev::Sweep => Self::alive("sweeper"),
            Ev::Resume(c) => *c < self.cfg.clients && self.parked[*c] && self.can_resume(*c),
            Ev::Poll(h) => *h < self.acks.len(),
            Ev::Get(..) | Ev::MGet(..) | Ev::IterOpen(..) => self.free_client().is_some(),
            Ev::IterNext(k) => self.free_client().is_some() && self.iter_keys.as_ref().map(|keys| keys.first().copied() == *k).unwrap_or(false),
            _ => true,
        };
        if !enabled { return (String::new(), "disabled".to_string()); }
        let was_draining = verif::view("worker").and_then(|view| view.parked_at) == Some("worker.drain");
        self.draining_seen = was_draining;
        let out = match ev.clone() {
            Ev::Put(c, k, v) => { let p = self.call(c, Box::new(move |cache| CallOut::Send(cache.put(k, v).map_err(|e| e.to_string())))); self.render_send(p) }
            Ev::PutW(c, k, v, w) => { let p = self.call(c, Box::new(move |cache| CallOut::Send(cache.put_with_weight(k, v, w).map_err(|e| e.to_string())))); self.render_send(p) }
            Ev::PutTtl(c, k, v, t) => { let p = self.call(c, Box::new(move |cache| CallOut::Send(cache.put_with_ttl(k, v, duration_of(t)).map_err(|e| e.to_string())))); self.render_send(p) }
            Ev::PutWTtl(c, k, v, w, t) => { let p = self.call(c, Box::new(move |cache| CallOut::Send(cache.put_with_weight_and_ttl(k, v, w, duration_of(t)).map_err(|e| e.to_string())))); self.render_send(p) }
            Ev::Upsert(c, k, v, w, t, rm) => {
                let p = self.call(c, Box::new(move |cache| {
                    let mut builder = PutOrUpdateRequestBuilder::new(k);
                    if let Some(v) = v { builder = builder.value(v); }
                    if let Some(w) = w { builder = builder.weight(w); }
                    if let Some(t) = t { builder = builder.time_to_live(duration_of(t)); }
                    if rm { builder = builder.remove_time_to_live(); }
                    CallOut::Send(cache.put_or_update(builder.build()).map_err(|e| e.to_string()))
                }));
                self.render_send(p)
            }
            Ev::Delete(c, k) => { let p = self.call(c, Box::new(move |cache| CallOut::Send(cache.delete(k).map_err(|e| e.to_string())))); self.render_send(p) }
            Ev::Get(k, variant) => {
                let client = self.free_client();
                match client {
                    None => "hang no_free_client".to_string(),
                    Some(c) => {
                        let p = self.call(c, Box::new(move |cache| CallOut::Value(match variant {
                            0 => cache.get(&k),
                            1 => cache.get_ref(&k).map(|value_ref| value_ref.value().value()),
                            2 => cache.map_get(&k, |value| value + 1_000_000).map(|value| value - 1_000_000),
                            _ => cache.map_get_ref(&k, |stored| stored.value() + 1_000_000).map(|value| value - 1_000_000),
                        })));
                        self.render_send(p)
                    }
                }
            }
            Ev::MGet(ks, variant) => {
                let client = self.free_client();
                match client {
                    None => "hang no_free_client".to_string(),
                    Some(c) => {
                        let p = self.call(c, Box::new(move |cache| {
                            let refs: Vec<&u64> = ks.iter().collect();
                            CallOut::Values(match variant {
                                0 => { let map = cache.multi_get(refs); if map.is_empty() { vec![] } else { ks.iter().map(|k| map.get(k).cloned().flatten()).collect() } }
                                1 => cache.multi_get_iterator(refs).collect(),
                                _ => cache.multi_get_map_iterator(refs, |value| value + 1_000_000).map(|value| value.map(|value| value - 1_000_000)).collect(),
                            })
                        }));
                        self.render_send(p)
                    }
                }
            }
            Ev::IterOpen(ks, variant) => {
                // constructing the iterator touches nothing shared; it is built here and handed to a client thread for each `next()`
                let cache: &'static Cache = unsafe { &*Arc::as_ptr(&self.cache) };
                let keys: &'static [u64] = Box::leak(ks.clone().into_boxed_slice());
                let refs: Vec<&'static u64> = keys.iter().collect();
                let iterator: Box<dyn Iterator<Item = Option<u64>> + Send> = if variant == 2 {
                    Box::new(cache.multi_get_map_iterator(refs, |value| value + 1_000_000).map(|value| value.map(|value| value - 1_000_000)))
                } else { Box::new(cache.multi_get_iterator(refs)) };
                *self.open_iter.lock().unwrap() = Some(iterator);
                self.iter_keys = Some(ks);
                "none".to_string()
            }
            Ev::IterNext(_) => {
                let client = self.free_client();
                match client {
                    None => "hang no_free_client".to_string(),
                    Some(c) => {
                        let open = self.open_iter.clone();
                        let p = self.call(c, Box::new(move |_cache| CallOut::Item(open.lock().unwrap().as_mut().and_then(|iterator| iterator.next()))));
                        match &p {
                            Progress::Done(Ok(CallOut::Item(Some(_)))) => { if let Some(keys) = self.iter_keys.as_mut() { if !keys.is_empty() { keys.remove(0); } } }
                            Progress::Done(Ok(CallOut::Item(None))) => { if self.iter_keys.as_ref().map(|keys| keys.is_empty()).unwrap_or(false) { self.iter_keys = None; } }
                            _ => {}
                        }
                        self.render_send(p)
                    }
                }
            }
            Ev::Weight => format!("weight {}", self.cache.total_weight_used()),
            Ev::Stats => {
                let summary = self.cache.stats_summary();
                use tinylfu_cached::cache::stats::StatsType::*;
                let order = [CacheHits, CacheMisses, KeysAdded, KeysDeleted, KeysUpdated, KeysRejected, WeightAdded, WeightRemoved, AccessAdded, AccessDropped];
                let values: Vec<u64> = order.iter().map(|stats_type| summary.get(stats_type).unwrap_or(u64::MAX)).collect();
                let (hits, misses) = (values[0], values[1]);
                let expected_ratio = if hits + misses == 0 { 0.0 } else { hits as f64 / (hits + misses) as f64 };
                let expected_percentage = (expected_ratio * 100.0).round();
                let ratio_note = if summary.hit_ratio.to_bits() != expected_ratio.to_bits() { format!(" ratio-mismatch:{}:{}", summary.hit_ratio, expected_ratio) }
                    else if summary.hit_ratio_as_percentage().to_bits() != expected_percentage.to_bits() { format!(" ratio-mismatch:percentage:{}:{}", summary.hit_ratio_as_percentage(), expected_percentage) }
                    else { String::new() };
                format!("stats {}{}", values.iter().map(|v| v.to_string()).collect::<Vec<_>>().join(","), ratio_note)
            }
            Ev::Worker => match self.step_background("worker") { Ok(()) => "worked".to_string(), Err(why) => format!("hang {}", why.replace(' ', "_")) },
            Ev::Sweep => match self.step_background("sweeper") { Ok(()) => "swept".to_string(), Err(why) => format!("hang {}", why.replace(' ', "_")) },
            Ev::Consumer => match self.step_background("consumer") { Ok(()) => "consumed".to_string(), Err(why) => format!("hang {}", why.replace(' ', "_")) },
            Ev::Advance(d) => { self.clock.0.fetch_add(d, Ordering::SeqCst); "none".to_string() }
            Ev::Shutdown(c) => { let p = self.call(c, Box::new(move |cache| { cache.shutdown(); CallOut::Unit })); self.render_send(p) }
            Ev::Resume(c) => { let p = self.drive_client(c); self.render_send(p) }
            Ev::Poll(h) => {
                match self.acks.get(h) {
                    None => "bad-handle".to_string(),
                    Some(ack) => {
                        let waker = crate::noop_waker();
                        let mut context = std::task::Context::from_waker(&waker);
                        let mut handle = ack.handle();
                        match std::future::Future::poll(std::pin::Pin::new(&mut handle), &mut context) {
                            std::task::Poll::Ready(status) => format!("polled {}", status_str(&status)),
                            std::task::Poll::Pending => "polled pending".to_string(),
                        }
                    }
                }
            }
        };
        // taps -> oracle tokens and the details of the worker / sweeper output
        let taps = verif::drain_taps();
        let (mut dk, mut dkadd, mut ids, mut pops, mut pool) = (vec![], vec![], vec![], vec![], vec![]);
        let (mut popped, mut incoming, mut dequeued) = (vec![], None, None);
        for tap in &taps {
            let tokens: Vec<&str> = tap.split(' ').collect();
            match tokens[0] {
                "dk.has" => dk.push(if tokens[2] == "true" { "1" } else { "0" }.to_string()),
                "dk.add" => dkadd.push(if tokens[2] == "true" { "1" } else { "0" }.to_string()),
                "sample.init" | "sample.fill" => ids.push(tokens[1].to_string()),
                "sample.pop" => {
                    if tokens[1] == "none" { pops.push("-".to_string()); } else {
                        pops.push(tokens[1].to_string());
                        popped.push(format!("{}:{}:{}", tokens[1], tokens[2], tokens[3]));
                    }
                }
                "pool.idx" => pool.push(tokens[1].to_string()),
                "adm.incoming" => incoming = Some(tokens[3].to_string()),
                "worker.dequeue" => dequeued = Some(tokens[1].to_string()),
                _ => {}
            }
        }
        let mut oracle = String::new();
        for (name, values) in [("dk", &dk), ("dkadd", &dkadd), ("ids", &ids), ("pops", &pops), ("pool", &pool)] {
            if !values.is_empty() { oracle.push_str(&format!(" {}={}", name, values.join(","))); }
        }
        let out = match (ev, out.as_str()) {
            (Ev::Worker, "worked") => {
                if !Self::alive("worker") {
                    let message = crate::last_panic().unwrap_or_default();
                    format!("workerpanic {}", classify_panic(&message))
                } else {
                    let after = self.cache.verif_snapshot();
                    let status = self.worker_status(dequeued.as_deref());
                    let is_put = matches!(dequeued.as_deref(), Some("Put") | Some("PutWithTTL"));
                    let evicted: Vec<String> = if is_put {
                        popped.iter().filter_map(|p| {
                            let id: u64 = p.split(':').next().unwrap().parse().unwrap();
                            let gone = !after.key_weights.iter().any(|entry| entry.0 == id);
                            before.key_weights.iter().find(|entry| entry.0 == id && gone).map(|entry| format!("{}:{}:{}", entry.0, entry.1, entry.3))
                        }).collect()
                    } else { vec![] };
                    format!("worked {} {} inc={} pops={} ev={}", if self.draining_seen { "Drain" } else { dequeued.as_deref().unwrap_or("?") }, status, incoming.unwrap_or("-".to_string()), popped.join(";"), evicted.join(";"))
                }
            }
            (Ev::Sweep, "swept") => {
                let after = self.cache.verif_snapshot();
                let mut evicted: Vec<(u64, u64, i64)> = before.key_weights.iter()
                    .filter(|entry| !after.key_weights.iter().any(|other| other.0 == entry.0))
                    .map(|entry| (entry.0, entry.1, entry.3)).collect();
                evicted.sort();
                format!("swept ev={}", evicted.iter().map(|e| format!("{}:{}:{}", e.0, e.1, e.2)).collect::<Vec<_>>().join(";"))
            }
            _ => out,
        };
        (oracle, out)
    }

    /// The status the worker gave to the command it just executed: read from the acknowledgement it completed
    /// (the oldest handle that was pending before this step and is done now).
    fn worker_status(&mut self, dequeued: Option<&str>) -> String {
        for index in 0..self.acks.len() {
            let (done, status, _) = self.acks[index].verif_peek();
            if done && !self.done_seen[index] {
                self.done_seen[index] = true;
                return status_str(&status);
            }
        }
        if dequeued == Some("Shutdown") { "accepted".to_string() } else { "unknown".to_string() }
    }

    pub fn snapshot(&self) -> Snapshot {
        let snap = self.cache.verif_snapshot();
        let ns = |time: &SystemTime| time.duration_since(UNIX_EPOCH).map(|d| d.as_nanos()).unwrap_or(0);
        let mut store = snap.store.clone();
        store.sort_by_key(|entry| entry.0);
        let store_text = store.iter().map(|(k, v, id, expiry, soft)| format!("{}:{}:{}:{}:{}", k, v, id, opt(&expiry.as_ref().map(ns)), if *soft { 1 } else { 0 })).collect::<Vec<_>>().join(",");
        let mut kw = snap.key_weights.clone();
        kw.sort_by_key(|entry| entry.0);
        let kw_text = kw.iter().map(|(id, key, hash, weight)| format!("{}:{}:{}:{}", id, key, hash, weight)).collect::<Vec<_>>().join(",");
        let mut ttl: Vec<(usize, u64, u128)> = Vec::new();
        for (shard, entries) in snap.ttl_shards.iter().enumerate() {
            for (id, expiry) in entries { ttl.push((shard, *id, ns(expiry))); }
        }
        ttl.sort();
        let ttl_text = ttl.iter().map(|(shard, id, expiry)| format!("{}:{}:{}", shard, id, expiry)).collect::<Vec<_>>().join(",");
        let acks_text = self.acks.iter().map(|ack| { let (done, status, _) = ack.verif_peek(); if done { status_str(&status) } else { "pending".to_string() } }).collect::<Vec<_>>().join(",");
        let rows_text = snap.sketch.rows.iter().map(|row| row.iter().map(|byte| format!("{:02x}", byte)).collect::<String>()).collect::<Vec<_>>().join(";");
        let pool_text = snap.pool_buffers.iter().map(|buffer| buffer.iter().map(|h| h.to_string()).collect::<Vec<_>>().join(".")).collect::<Vec<_>>().join("|");
        let (worker_alive, consumer_alive, sweeper_alive) = (Self::alive("worker"), Self::alive("consumer"), Self::alive("sweeper"));
        let text = format!("now={} store=[{}] kw=[{}] wu={} ttl=[{}] q={} acks=[{}] incs={} rows={} pool={} bufq={} stats={} shut={} worker={} consumer={} sweeper={}",
            self.clock.0.load(Ordering::SeqCst), store_text, kw_text, snap.weight_used, ttl_text,
            if worker_alive { snap.command_queue_len.to_string() } else { "-".to_string() },
            acks_text, snap.sketch.total_increments, rows_text, pool_text,
            if consumer_alive { snap.buffer_queue_len.to_string() } else { "-".to_string() },
            snap.stats.iter().map(|v| v.to_string()).collect::<Vec<_>>().join(","),
            if snap.is_shutting_down { 1 } else { 0 }, worker_alive as u8, consumer_alive as u8, sweeper_alive as u8);
        Snapshot {
            text, queue_len: snap.command_queue_len, bufq_len: snap.buffer_queue_len, worker_alive, consumer_alive, sweeper_alive,
            shutting: snap.is_shutting_down, expiries: store.iter().filter_map(|entry| entry.3.as_ref().map(ns)).collect(),
            kw, store_keys: store.iter().map(|entry| entry.0).collect(),
        }
    }

    /// Ends the case: everything runs free, the cache is shut down and dropped, all threads are joined.
    /// Terminal probes (the case ends afterwards): a thread that the scheduler has been holding in front of a blocking
    /// channel operation is let into the REAL operation; it must stay there.
    /// Returns the event text and what was observed ("blocked" / "moved:<where>").
    pub fn terminal_probe(&mut self) -> Option<(String, String)> {
        if self.hung { return None; }
        let worker_alive = Self::alive("worker");
        let queue_len = self.cache.verif_command_queue_len();
        for client in 0..self.cfg.clients {
            let role = format!("c{}", client);
            let at = verif::view(&role).and_then(|view| view.parked_at);
            if self.parked[client] && at == Some("cmd.send") && worker_alive && queue_len >= self.cfg.cmdcap {
                return Some((format!("probe-send {}", client), Self::observe_blocked(&role)));
            }
        }
        let worker_at = verif::view("worker").and_then(|view| view.parked_at);
        if worker_alive && queue_len == 0 && (worker_at == Some("worker.recv") || worker_at == Some("worker.drain")) {
            return Some(("probe-recv".to_string(), Self::observe_blocked("worker")));
        }
        None
    }

    fn observe_blocked(role: &str) -> String {
        let seq = match verif::grant(role) { Some(seq) => seq, None => return "not-parked".to_string() };
        match verif::wait_settled(role, seq, Duration::from_millis(40)) {
            None => "blocked".to_string(),
            Some(view) => if view.finished { "moved".to_string() } else { "moved".to_string() },
        }
    }

    pub fn finish(self) -> Result<(), String> {
        for slot in &self.slots { slot.exit.store(true, Ordering::SeqCst); }
        verif::release_all();
        let Engine { cache, threads, acks, .. } = self;
        let hung = std::sync::Arc::new(AtomicBool::new(true));
        {
            let (cache, hung_flag) = (cache.clone(), hung.clone());
            let shutdown_thread = std::thread::spawn(move || { cache.shutdown(); hung_flag.store(false, Ordering::SeqCst); });
            crate::wait_until_ticks(|| !hung.load(Ordering::SeqCst));
            if hung.load(Ordering::SeqCst) { return Err("shutdown() at the end of the case did not return".to_string()); }
            let _ = shutdown_thread.join();
        }
        for thread in threads { let _ = thread.join(); }
        drop(acks);
        drop(cache);
        for role in ["worker", "sweeper", "consumer"] {
            if !crate::wait_until_ticks(|| !verif::view(role).map(|view| !view.finished).unwrap_or(false)) {
                return Err(format!("background thread {} did not exit after the cache was dropped", role));
            }
        }
        Ok(())
    }
}
