//! Free-running real threads with property monitors that remain valid under true concurrency (DESIGN.md 5.2 `stress`):
//! what a model at action granularity cannot exhibit (behaviour that depends on a lock being contended, e.g. a
//! non-blocking `try_*` acquisition that silently gives up) shows up here. Values are unique tokens.
use std::io::Write;
use std::sync::atomic::{AtomicBool, AtomicI64, AtomicU64, Ordering};
use std::sync::{Arc, Mutex};
use std::time::{Duration, Instant};

use tinylfu_cached::cache::cached::CacheD;
use tinylfu_cached::cache::command::CommandStatus;
use tinylfu_cached::cache::config::ConfigBuilder;
use tinylfu_cached::cache::stats::StatsType;

use crate::engine::ManualClock;
use crate::Sink;

fn wait_done(ack: &Arc<tinylfu_cached::cache::command::acknowledgement::CommandAcknowledgement>) -> CommandStatus {
    let waker = crate::noop_waker();
    let mut context = std::task::Context::from_waker(&waker);
    // about 20 s, counted in this thread's own ticks (a frozen process has not waited: see `wait_settled_ticks`)
    let mut waited = 0u32;
    loop {
        let mut handle = ack.handle();
        if let std::task::Poll::Ready(status) = std::future::Future::poll(std::pin::Pin::new(&mut handle), &mut context) { return status; }
        waited += 1;
        if waited > 21_000 { return CommandStatus::Pending; }
        if waited > 1_000 { std::thread::sleep(Duration::from_millis(1)); } else { std::thread::yield_now(); }
    }
}

#[derive(Clone)]
struct Op { begin: u64, effective: u64, token: u64, applies: bool, is_delete: bool }

fn record(log: &Mutex<Vec<Op>>, op: Op) {
    let mut log = log.lock().unwrap();
    if log.len() >= 1024 { log.drain(..512); }
    log.push(op);
}

pub fn run(seed: u64, out: &str, millis: u64) -> bool {
    let mut sink = Sink::new(out);
    let mut all_ok = true;
    let limit = millis * 10 / 1000 + 150;
    let why = format!("the free-running stress did not finish within {} s: a thread (or shutdown()) is blocked for ever", limit);
    crate::start_deadline(out.to_string(), limit, vec!["# case stress deadline".to_string(), "S monitors".to_string()],
        vec!["# case stress deadline".to_string(), format!("R violations C18/hang {} ;; C13/hang {}", why, why)]);
    for (round, (shards, cmdcap, max, buffer_size, pool_size)) in [(2usize, 1usize, 6i64, 1usize, 1usize), (2, 4, 1000, 3, 1), (4, 64, 8, 2, 2), (2, 4, 1000, 1, 3)].iter().enumerate() {
        let clock = ManualClock(Arc::new(AtomicU64::new(1_000_000_000_000)));
        let config = ConfigBuilder::new(16, 16, *max)
            .clock(Box::new(clock.clone()))
            .weight_calculation_fn(Box::new(|_k: &u64, _v: &u64, ttl: bool| 1 + if ttl { 24 } else { 0 }))
            .access_pool_size(*pool_size).access_buffer_size(*buffer_size).command_buffer_size(*cmdcap).shards(*shards)
            .ttl_tick_duration(Duration::from_millis(1)).build();
        let cache = Arc::new(CacheD::<u64, u64>::new(config));
        let stop = Arc::new(AtomicBool::new(false));
        let seq = Arc::new(AtomicU64::new(1));
        let keys = 3u64;
        // per token: (key, sequence number at which delete() of its incarnation returned; 0 = not deleted)
        let deleted_at: Arc<Vec<AtomicU64>> = Arc::new((0..(millis as usize * 2500).max(2_000_000)).map(|_| AtomicU64::new(0)).collect());
        let written_key: Arc<Vec<AtomicU64>> = Arc::new((0..(millis as usize * 2500).max(2_000_000)).map(|_| AtomicU64::new(u64::MAX)).collect());
        let next_token = Arc::new(AtomicU64::new(1 + seed % 7));
        // per key: the recent writes and deletes with the sequence numbers at which each call began and became
        // effective (a put / upsert: its acknowledgement completed; a delete: the call returned)
        let logs: Arc<Vec<Mutex<Vec<Op>>>> = Arc::new((0..keys).map(|_| Mutex::new(Vec::new())).collect());
        let violations: Arc<Mutex<Vec<String>>> = Arc::new(Mutex::new(Vec::new()));
        let worst_total = Arc::new(AtomicI64::new(0));
        let least_total = Arc::new(AtomicI64::new(0));
        let mut threads = Vec::new();
        // writers: put (awaited), then delete; record when delete() returned
        for writer in 0..2u64 {
            let (cache, stop, seq, deleted_at, written_key, next_token, violations, logs) = (cache.clone(), stop.clone(), seq.clone(), deleted_at.clone(), written_key.clone(), next_token.clone(), violations.clone(), logs.clone());
            threads.push(std::thread::spawn(move || {
                let mut round = 0u64;
                while !stop.load(Ordering::Relaxed) {
                    round += 1;
                    let key = (writer + round) % keys;
                    let token = next_token.fetch_add(1, Ordering::SeqCst);
                    if token as usize >= written_key.len() { break; }
                    written_key[token as usize].store(key, Ordering::SeqCst);
                    let began = seq.fetch_add(1, Ordering::SeqCst);
                    let status = match cache.put(key, token) { Ok(ack) => wait_done(&ack), Err(_) => { violations.lock().unwrap().push("C17/worker-died stress: a write was refused with Err although shutdown() had not been called (the command executor is gone)".to_string()); break } };
                    if status == CommandStatus::Pending { violations.lock().unwrap().push(format!("C12/never-resolved put({},{})", key, token)); break; }
                    record(&logs[key as usize], Op { begin: began, effective: seq.fetch_add(1, Ordering::SeqCst), token, applies: status == CommandStatus::Accepted, is_delete: false });
                    if status != CommandStatus::Accepted { continue; }
                    if round % 3 == 0 { std::thread::yield_now(); }
                    let delete_began = seq.fetch_add(1, Ordering::SeqCst);
                    match cache.delete(key) {
                        Ok(ack) => {
                            // delete() has returned: from now on no read may return a value of an incarnation that was acknowledged before
                            let now = seq.fetch_add(1, Ordering::SeqCst);
                            deleted_at[token as usize].store(now, Ordering::SeqCst);
                            record(&logs[key as usize], Op { begin: delete_began, effective: now, token: 0, applies: true, is_delete: true });
                            let status = wait_done(&ack);
                            if status == CommandStatus::Pending { violations.lock().unwrap().push(format!("C12/never-resolved delete({})", key)); break; }
                        }
                        Err(_) => { violations.lock().unwrap().push("C17/worker-died stress: a write was refused with Err although shutdown() had not been called (the command executor is gone)".to_string()); break },
                    }
                }
            }));
        }
        // readers: every value read must belong to the key, and must not be of an incarnation whose delete() had returned before the read began
        for reader in 0..3u64 {
            let (cache, stop, seq, deleted_at, written_key, violations, logs) = (cache.clone(), stop.clone(), seq.clone(), deleted_at.clone(), written_key.clone(), violations.clone(), logs.clone());
            threads.push(std::thread::spawn(move || {
                let mut n = 0u64;
                while !stop.load(Ordering::Relaxed) {
                    n += 1;
                    let key = (reader + n) % keys;
                    let started = seq.fetch_add(1, Ordering::SeqCst);
                    let value = if n % 2 == 0 { cache.get(&key) } else {
                        // keep the reference guard alive for a moment: the shard stays read-locked
                        cache.get_ref(&key).map(|reference| { let v = reference.value().value(); std::thread::yield_now(); v })
                    };
                    if let Some(token) = value {
                        let belongs_to = written_key.get(token as usize).map(|k| k.load(Ordering::SeqCst)).unwrap_or(u64::MAX);
                        if belongs_to != key {
                            violations.lock().unwrap().push(format!("C02/foreign-or-unwritten-value get({}) returned token {} written to key {}", key, token, belongs_to));
                        }
                        let deleted = deleted_at[token as usize].load(Ordering::SeqCst);
                        if deleted != 0 && deleted < started {
                            violations.lock().unwrap().push(format!("C04/read-after-delete get({}) returned token {} although delete() of that incarnation had returned at {} and the read began at {}", key, token, deleted, started));
                        }
                        // regularity over the per-key log: the value read was completely written (acknowledged) at `done`; a
                        // write or delete of the key that BEGAN after that and was effective before this read began supersedes it
                        let superseded_by = {
                            let log = logs[key as usize].lock().unwrap();
                            log.iter().rev().take(256).find(|op| op.token == token && !op.is_delete).map(|own| own.effective).and_then(|done|
                                log.iter().rev().take(64).find(|op| op.begin > done && op.effective < started && op.applies && op.token != token).cloned())
                        };
                        if let Some(later) = superseded_by {
                            if later.is_delete {
                                violations.lock().unwrap().push(format!("C04/read-after-delete get({}) returned token {} although a delete() of the key began at {} (after that value was acknowledged) and had returned at {}, before the read began at {}", key, token, later.begin, later.effective, started));
                            } else {
                                violations.lock().unwrap().push(format!("C02/superseded-value-read get({}) returned token {} although token {} was written to the key by a call that began at {} (after the first was acknowledged) and was acknowledged as accepted at {}, before the read began at {}", key, token, later.token, later.begin, later.effective, started));
                            }
                        }
                    }
                }
            }));
        }
        // upserters: put_or_update with a fresh value on the same few keys (in-place updates racing the writers' deletes,
        // the readers and each other)
        for upserter in 0..2u64 {
            let (cache, stop, seq, written_key, next_token, violations, logs) = (cache.clone(), stop.clone(), seq.clone(), written_key.clone(), next_token.clone(), violations.clone(), logs.clone());
            threads.push(std::thread::spawn(move || {
                let mut n = 0u64;
                while !stop.load(Ordering::Relaxed) {
                    n += 1;
                    let key = (upserter * 2 + n) % keys;
                    let token = next_token.fetch_add(1, Ordering::SeqCst);
                    if token as usize >= written_key.len() { break; }
                    written_key[token as usize].store(key, Ordering::SeqCst);
                    let began = seq.fetch_add(1, Ordering::SeqCst);
                    let request = tinylfu_cached::cache::put_or_update::PutOrUpdateRequestBuilder::new(key).value(token).build();
                    let status = match cache.put_or_update(request) { Ok(ack) => wait_done(&ack), Err(_) => { violations.lock().unwrap().push("C17/worker-died stress: a write was refused with Err although shutdown() had not been called (the command executor is gone)".to_string()); break } };
                    if status == CommandStatus::Pending { violations.lock().unwrap().push(format!("C12/never-resolved put_or_update({},{})", key, token)); break; }
                    record(&logs[key as usize], Op { begin: began, effective: seq.fetch_add(1, Ordering::SeqCst), token, applies: status == CommandStatus::Accepted, is_delete: false });
                    if n % 4 == 0 { std::thread::sleep(Duration::from_micros(30)); }
                }
            }));
        }
        // order client (C11): un-awaited put; delete of the same fresh key, again and again, with a queue that is often
        // full: once both acknowledgements have completed the key is absent (the delete was applied after the put), the
        // delete's acknowledgement never completes before the put's, and the delete is never answered "key does not
        // exist" when its put was accepted
        {
            let (cache, stop, violations) = (cache.clone(), stop.clone(), violations.clone());
            let no_pressure = *max >= 1000;
            threads.push(std::thread::spawn(move || {
                let mut key = 1_000_000u64;
                while !stop.load(Ordering::Relaxed) {
                    key += 1;
                    let put = match cache.put_with_weight(key, key, 1) { Ok(ack) => ack, Err(_) => { violations.lock().unwrap().push("C17/worker-died stress: a write was refused with Err although shutdown() had not been called (the command executor is gone)".to_string()); break } };
                    let delete = match cache.delete(key) { Ok(ack) => ack, Err(_) => { violations.lock().unwrap().push("C17/worker-died stress: a write was refused with Err although shutdown() had not been called (the command executor is gone)".to_string()); break } };
                    let delete_status = wait_done(&delete);
                    let put_done_by_then = put.verif_peek().0;
                    let put_status = wait_done(&put);
                    if delete_status == CommandStatus::Pending || put_status == CommandStatus::Pending { violations.lock().unwrap().push(format!("C12/never-resolved put/delete({})", key)); break; }
                    if !put_done_by_then {
                        violations.lock().unwrap().push(format!("C11/acknowledgements-out-of-order delete({}) was acknowledged while the put issued before it by the same thread was still pending", key));
                    }
                    if cache.get(&key).is_some() {
                        violations.lock().unwrap().push(format!("C11/put-then-delete-leaves-key put({}); delete({}) un-awaited, both acknowledged ({:?}, {:?}), and the key is still readable", key, key, put_status, delete_status));
                    }
                    // only where nothing else can take the key away in between: under memory pressure another thread's put, queued
                    // between the two commands, may evict the fresh key before its Delete runs, and the Delete is then rightly
                    // answered "key does not exist" (C11_layerB_put_then_delete_counterexample; the key is absent all the same)
                    if no_pressure && put_status == CommandStatus::Accepted && matches!(delete_status, CommandStatus::Rejected(_)) {
                        violations.lock().unwrap().push(format!("C11/delete-overtook-put put({}) accepted but the delete issued after it was rejected ({:?})", key, delete_status));
                    }
                }
            }));
        }
        // observer: the total stays within [0, limit] at every sampled instant
        {
            let (cache, stop, worst_total, least_total) = (cache.clone(), stop.clone(), worst_total.clone(), least_total.clone());
            threads.push(std::thread::spawn(move || {
                while !stop.load(Ordering::Relaxed) {
                    let total = cache.total_weight_used();
                    worst_total.fetch_max(total, Ordering::SeqCst);
                    least_total.fetch_min(total, Ordering::SeqCst);
                }
            }));
        }
        std::thread::sleep(Duration::from_millis(millis));
        stop.store(true, Ordering::SeqCst);
        let joined_by = Instant::now() + Duration::from_secs(30);
        for thread in threads {
            while !thread.is_finished() && Instant::now() < joined_by { std::thread::sleep(Duration::from_millis(2)); }
            if thread.is_finished() { if thread.join().is_err() { violations.lock().unwrap().push("C17/caller-panic stress: a client thread of the stress round panicked (every input of the round is valid)".to_string()); } } else { violations.lock().unwrap().push("C18/hang a stress thread did not finish".to_string()); }
        }
        let summary = cache.stats_summary();
        let (hits, added, dropped) = (summary.get(&StatsType::CacheHits).unwrap_or(0), summary.get(&StatsType::AccessAdded).unwrap_or(0), summary.get(&StatsType::AccessDropped).unwrap_or(0));
        let buffered: u64 = cache.verif_snapshot().pool_buffers.iter().map(|buffer| buffer.len() as u64).sum();
        if hits != buffered + added + dropped {
            violations.lock().unwrap().push(format!("C15/records-not-conserved hits={} buffered={} delivered={} dropped={} (pool {} x buffer {}) after all readers stopped", hits, buffered, added, dropped, pool_size, buffer_size));
        }
        if worst_total.load(Ordering::SeqCst) > *max || least_total.load(Ordering::SeqCst) < 0 {
            violations.lock().unwrap().push(format!("C01/total-out-of-range observed total in [{}, {}] with limit {}", least_total.load(Ordering::SeqCst), worst_total.load(Ordering::SeqCst), max));
        }
        let tokens = next_token.load(Ordering::SeqCst);
        let reads = seq.load(Ordering::SeqCst);
        // (no floor on the writes alone: DashMap's shard lock does not prefer writers, and three readers hammering three keys
        // can keep the worker waiting for most of a short round on the unchanged crate — seen once: 13 writes against a million reads)
        if tokens + reads < 50 { violations.lock().unwrap().push(format!("C18/hang stress round {} made no progress: {} writes, {} events", round, tokens, reads)); }
        sink.both(&format!("# case stress round={} shards={} cmdcap={} max={} tokens={} events={}", round, shards, cmdcap, max, tokens, reads));
        let found = violations.lock().unwrap().clone();
        let mut distinct: Vec<String> = Vec::new();
        for violation in found { let kind = violation.split(' ').next().unwrap_or("").to_string(); if !distinct.iter().any(|d| d.starts_with(&kind)) { distinct.push(violation); } }
        writeln!(sink.input, "S monitors").unwrap();
        writeln!(sink.implementation, "R {}", if distinct.is_empty() { "clean".to_string() } else { format!("violations {}", distinct.join(" ;; ")) }).unwrap();
        if !distinct.is_empty() { all_ok = false; }
        sink.flush();
        cache.shutdown();
    }
    if !hammer(&mut sink, millis) { all_ok = false; }
    sink.flush();
    if !cold_put_under_drain(&mut sink, millis) { all_ok = false; }
    sink.flush();
    // every input of every round and phase is valid: a panic on ANY thread — a client, the worker, the sweeper, the
    // consumer — is a finding even when nothing else noticed (a background thread that dies late leaves the identities intact)
    let panics: Vec<String> = std::mem::take(&mut *crate::PANIC_LOG.lock().unwrap());
    sink.both(&format!("# case stress panics={}", panics.len()));
    for panic in panics.iter().take(5) { sink.both(&format!("# panic {}", panic)); }
    writeln!(sink.input, "S monitors").unwrap();
    writeln!(sink.implementation, "R {}", if panics.is_empty() { "clean".to_string() } else { format!("violations C17/panic-under-valid-input stress: {}", panics[0]) }).unwrap();
    if !panics.is_empty() { all_ok = false; }
    sink.flush();
    all_ok
}

/// Admission while the consumer is busy. One resident key fills the cache and is read without pause; the single access
/// buffer is large, so the consumer holds the sketch's write lock for a whole batch at a time. Meanwhile never-seen keys of
/// the resident's weight are put, one after the other, each awaited. Once the first batch has been delivered the resident's
/// estimate is at least 7 at every instant (saturated at 15, halved at most once between two batches of its own
/// increments). The four rows of the sketch index with `(hash ^ seed) % counters`, so a key whose hash agrees with the
/// resident's in the low bits shares ALL its counters (and, right after an ageing step, ties with it: 7 against 7 — the
/// first version of this phase, with the default hash, was refused by the unchanged crate about once in 50 000 puts for
/// exactly that reason). The hash function installed here is the identity and the never-read keys are chosen with other
/// low bits than the resident: none of their counters is ever incremented, their estimate is 0 (1 with a false positive of
/// the doorkeeper), so the TinyLFU rule refuses every one of these puts and the resident stays. A sketch read that does not
/// WAIT for the consumer (a `try_*` acquisition that answers 0) makes hot and cold keys look alike exactly here, and
/// nowhere in a step-wise schedule.
fn cold_put_under_drain(sink: &mut Sink, millis: u64) -> bool {
    let config = ConfigBuilder::new(1024, 16, 10)
        .key_hash_fn(Box::new(|key: &u64| *key))
        .access_pool_size(1).access_buffer_size(100_000).command_buffer_size(64).shards(2)
        .ttl_tick_duration(Duration::from_millis(50)).build();
    let cache = Arc::new(CacheD::<u64, u64>::new(config));
    let hot = 1u64;
    let mut found: Vec<String> = Vec::new();
    let accepted = cache.put_with_weight(hot, 100, 10).map(|ack| wait_done(&ack) == CommandStatus::Accepted).unwrap_or(false);
    let stop = Arc::new(AtomicBool::new(false));
    let reader = { let (cache, stop) = (cache.clone(), stop.clone()); std::thread::spawn(move || {
        let mut reads = 0u64;
        while !stop.load(Ordering::Relaxed) { let _ = cache.get(&hot); reads += 1; }
        reads
    }) };
    let stats = |kind: StatsType| cache.stats_summary().get(&kind).unwrap_or(0);
    // warm: the resident's counter reads at least 7 in EVERY row of the sketch as the sketch stands (`AccessAdded` would not do: it
    // counts a batch when it is handed to the consumer's queue, not when the consumer has applied it — the second version of this
    // phase waited for that statistic and was refused once in a thorough run, by a put that overtook the first batch). From
    // then on it never reads lower: only the resident's hash is ever incremented, and an ageing step halves 15 to 7.
    let hot_counter_at_least_7 = || {
        let sketch = cache.verif_snapshot().sketch;
        sketch.rows.len() == 4 && sketch.rows.iter().zip(sketch.seeds.iter()).all(|(row, seed)| {
            let position = (hot ^ seed) % sketch.total_counters;
            let byte = row[(position / 2) as usize];
            (if position % 2 == 1 { byte >> 4 } else { byte & 0x0f }) >= 7
        })
    };
    let warm_until = Instant::now() + Duration::from_secs(30);
    let mut warmed = false;
    while Instant::now() < warm_until { if hot_counter_at_least_7() { warmed = true; break; } std::thread::sleep(Duration::from_millis(2)); }
    let until = Instant::now() + Duration::from_millis((millis / 2).clamp(150, 1500));
    let (mut puts, mut refused, mut skipped) = (0u64, 0u64, 0u64);
    while accepted && warmed && Instant::now() < until {
        let mut cold = 1_048_576 + puts + skipped;
        if cold % 1024 == hot % 1024 { skipped += 1; cold += 1; }      // never a key that shares the resident's counters
        puts += 1;
        match cache.put_with_weight(cold, cold, 10).map(|ack| wait_done(&ack)) {
            Ok(CommandStatus::Rejected(_)) => refused += 1,
            Ok(status) => {
                let delivered = stats(StatsType::AccessAdded);
                found.push(format!("C06/cold-key-evicted-hot-key under consumer load: put of never-read key {} answered {:?} although the only resident (weight 10 = the whole cache) had {} delivered accesses; get(resident) = {:?}", cold, status, delivered, cache.get(&hot)));
                found.push(format!("C14/estimate-undercounts under consumer load: a resident with {} delivered accesses was treated as no hotter than never-read key {} (put answered {:?}): its estimate was read as 0", delivered, cold, status));
                break;
            }
            Err(_) => { found.push("C17/worker-died under consumer load: a put was refused with Err although shutdown() had not been called".to_string()); break }
        }
    }
    stop.store(true, Ordering::SeqCst);
    let reads = match reader.join() { Ok(reads) => reads, Err(_) => { found.push("C17/caller-panic under consumer load: the reading thread panicked".to_string()); 0 } };
    if !accepted || !warmed || puts < 1 {
        found.push(format!("C18/hang under consumer load: the phase did not get going (resident accepted: {}, first batch delivered within 30 s: {}, cold puts completed: {})", accepted, warmed, puts));
    }
    if accepted && warmed && found.is_empty() && cache.get(&hot) != Some(100) {
        found.push("C06/cold-key-evicted-hot-key under consumer load: the resident is gone although every put was refused".to_string());
    }
    sink.both(&format!("# case stress cold-put-under-drain warmed={} reads={} cold-puts={} refused={}", warmed, reads, puts, refused));
    writeln!(sink.input, "S monitors").unwrap();
    writeln!(sink.implementation, "R {}", if found.is_empty() { "clean".to_string() } else { format!("violations {}", found.join(" ;; ")) }).unwrap();
    cache.shutdown();
    found.is_empty()
}

/// Eight threads issue un-awaited writes of fresh keys (plain and with a time-to-live), deletes and reads as fast as they
/// can on a cache that never comes under pressure. Nothing can be asserted while they run, but once every
/// acknowledgement has completed the cache is at rest and the identities of C05 / C16 / C15 / C11 / C03 / C10 must hold
/// EXACTLY. What single-stepping cannot show — a read-modify-write that is no longer atomic (ids, counters, the total) —
/// shows up here as an identity that is off by the number of lost updates.
fn hammer(sink: &mut Sink, millis: u64) -> bool {
    let clock = ManualClock(Arc::new(AtomicU64::new(1_000_000_000_000)));
    let config = ConfigBuilder::new(16, 1024, 1_000_000_000_000)
        .clock(Box::new(clock.clone()))
        .access_pool_size(2).access_buffer_size(4).command_buffer_size(32 * 1024).shards(4)
        .ttl_tick_duration(Duration::from_millis(1)).build();
    let cache = Arc::new(CacheD::<u64, u64>::new(config));
    let stop = Arc::new(AtomicBool::new(false));
    let refused_writes = Arc::new(AtomicU64::new(0));
    type Ack = Arc<tinylfu_cached::cache::command::acknowledgement::CommandAcknowledgement>;
    struct Record { key: u64, ttl: bool, put: Ack, delete: Option<Ack> }
    let mut threads = Vec::new();
    for t in 0..8u64 {
        let (cache, stop, refused_writes) = (cache.clone(), stop.clone(), refused_writes.clone());
        threads.push(std::thread::spawn(move || {
            let mut records: Vec<Record> = Vec::new();
            let mut lookups = 0u64;
            let base = (t + 1) * 100_000_000;
            for i in 0..(millis * 50).clamp(20_000, 150_000) {
                if stop.load(Ordering::Relaxed) { break; }
                let key = base + i;
                let ttl = i % 4 == 0;
                let put = if ttl { cache.put_with_weight_and_ttl(key, key, 1, Duration::from_secs(1)) } else { cache.put_with_weight(key, key, 1) };
                let put = match put { Ok(ack) => ack, Err(_) => { refused_writes.fetch_add(1, Ordering::SeqCst); break } };
                records.push(Record { key, ttl, put, delete: None });
                if i % 8 == 7 { lookups += 1; let _ = cache.get(&key); }
                if i % 16 == 15 {
                    // the key written eight calls earlier (a key without a time-to-live)
                    let index = records.len() - 9;
                    if let Ok(ack) = cache.delete(records[index].key) { records[index].delete = Some(ack); }
                }
            }
            (records, lookups)
        }));
    }
    std::thread::sleep(Duration::from_millis(millis));
    stop.store(true, Ordering::SeqCst);
    let mut records: Vec<Record> = Vec::new();
    let mut lookups = 0u64;
    let mut found: Vec<String> = Vec::new();
    for thread in threads {
        match thread.join() {
            Ok((mut r, l)) => { records.append(&mut r); lookups += l; }
            Err(_) => found.push("C17/caller-panic hammer: a writer thread panicked (every input is valid)".to_string()),
        }
    }
    if refused_writes.load(Ordering::SeqCst) > 0 { found.push("C17/worker-died hammer: a put was refused with Err although shutdown() had not been called (the command executor is gone)".to_string()); }
    if records.is_empty() { found.push(format!("C18/hang hammer: eight writer threads completed only {} calls", records.len())); }
    let (mut accepted_puts, mut accepted_deletes, mut refused) = (0u64, 0u64, 0u64);
    let mut expected_live: std::collections::BTreeSet<u64> = std::collections::BTreeSet::new();    // after everything expired
    let mut expected_held: u64 = 0;                                                                   // before anything expired
    for record in &records {
        let put = wait_done(&record.put);
        let delete = record.delete.as_ref().map(wait_done);
        if put == CommandStatus::Pending || delete == Some(CommandStatus::Pending) { found.push(format!("C12/never-resolved hammer key {}", record.key)); break; }
        match put { CommandStatus::Accepted => accepted_puts += 1, CommandStatus::Rejected(_) => refused += 1, _ => {} }
        let deleted = delete == Some(CommandStatus::Accepted);
        if deleted { accepted_deletes += 1; }
        if put == CommandStatus::Accepted && delete.is_some() && !deleted {
            found.push(format!("C11/delete-overtook-put hammer: put({}) accepted, the delete issued after it answered {:?}", record.key, delete));
        }
        if put == CommandStatus::Accepted && !deleted { expected_held += 1; if !record.ttl { expected_live.insert(record.key); } }
    }
    // ---- at rest, nothing expired yet
    let snapshot = cache.verif_snapshot();
    let stats = |kind: StatsType| cache.stats_summary().get(&kind).unwrap_or(0);
    let held = snapshot.store.len() as u64;
    let charged = snapshot.key_weights.len() as u64;
    let distinct_ids = snapshot.store.iter().map(|entry| entry.2).collect::<std::collections::BTreeSet<_>>().len() as u64;
    let charged_sum: i64 = snapshot.key_weights.iter().map(|entry| entry.3).sum();
    if held != expected_held {
        found.push(format!("C11/writes-lost-or-duplicated hammer: {} puts accepted, {} deletes accepted, but {} keys are held", accepted_puts, accepted_deletes, held));
        found.push(format!("C03/key-lost-without-pressure hammer: {} accepted and undeleted keys expected, {} held (limit never approached)", expected_held, held));
    }
    if distinct_ids != held || charged != held || charged_sum != snapshot.weight_used || snapshot.weight_used != held as i64 {
        found.push(format!("C05/hammer-accounting at rest: {} keys held with {} distinct ids, {} ids charged (sum {}), total {}", held, distinct_ids, charged, charged_sum, snapshot.weight_used));
        found.push(format!("C03/ids-shared-between-keys hammer: {} keys held with {} distinct ids", held, distinct_ids));
    }
    let (hits, misses) = (stats(StatsType::CacheHits), stats(StatsType::CacheMisses));
    let problems: Vec<String> = [
        ("hits + misses", hits + misses, "lookups performed", lookups),
        ("keys added", stats(StatsType::KeysAdded), "puts accepted", accepted_puts),
        ("keys deleted", stats(StatsType::KeysDeleted), "deletes accepted", accepted_deletes),
        ("keys rejected", stats(StatsType::KeysRejected), "puts refused by admission", refused),
        ("weight added - weight removed", stats(StatsType::WeightAdded).wrapping_sub(stats(StatsType::WeightRemoved)), "total weight used", snapshot.weight_used as u64),
    ].iter().filter(|(_, got, _, want)| got != want).map(|(a, got, b, want)| format!("{} = {} but {} = {}", a, got, b, want)).collect();
    if !problems.is_empty() { found.push(format!("C16/hammer-statistics at rest: {}", problems.join("; "))); }
    let buffered: u64 = snapshot.pool_buffers.iter().map(|buffer| buffer.len() as u64).sum();
    let (added, dropped) = (stats(StatsType::AccessAdded), stats(StatsType::AccessDropped));
    if hits != buffered + added + dropped {
        found.push(format!("C15/records-not-conserved hammer: hits={} buffered={} delivered={} dropped={}", hits, buffered, added, dropped));
    }
    // ---- let every time-to-live elapse and every shard be swept
    let deadline = Instant::now() + Duration::from_secs(60);
    loop {
        clock.0.fetch_add(1_000_000_000, Ordering::SeqCst);
        std::thread::sleep(Duration::from_millis(15));
        let indexed: usize = cache.verif_snapshot().ttl_shards.iter().map(|shard| shard.len()).sum();
        if (indexed == 0 && clock.0.load(Ordering::SeqCst) > 1_000_000_000_000 + 6_000_000_000) || Instant::now() > deadline { break; }
    }
    let after = cache.verif_snapshot();
    let still: std::collections::BTreeSet<u64> = after.store.iter().map(|entry| entry.0).collect();
    let lost: Vec<&u64> = expected_live.difference(&still).take(3).collect();
    let extra: Vec<&u64> = still.difference(&expected_live).take(3).collect();
    if !lost.is_empty() {
        found.push(format!("C03/key-lost-without-pressure hammer: keys without a time-to-live, accepted and never deleted, are gone after the sweeps, e.g. {:?}", lost));
        found.push(format!("C10/sweep-removed-live-key hammer: keys without a time-to-live are gone after the sweeps, e.g. {:?}", lost));
    }
    if !extra.is_empty() { found.push(format!("C10/expired-key-not-removed hammer: keys whose time-to-live elapsed are still held after every shard was swept, e.g. {:?}", extra)); }
    if after.key_weights.len() != after.store.len() || after.weight_used != after.store.len() as i64 {
        found.push(format!("C05/hammer-accounting after the sweeps: {} keys held, {} ids charged, total {}", after.store.len(), after.key_weights.len(), after.weight_used));
        found.push(format!("C10/weight-not-reclaimed hammer: {} keys held after the sweeps but total {}", after.store.len(), after.weight_used));
    }
    // ---- a wall clock is not monotone (the `Clock` of a configuration yields `SystemTime`; corrections step it back):
    //      while the clock jumps back and forth by ten minutes as fast as it can, the ticker keeps sweeping; afterwards the
    //      background threads must still do their work — a key put with a time-to-live is swept once its deadline has passed
    {
        let toggling = Arc::new(AtomicBool::new(true));
        let toggler = { let (clock, toggling) = (clock.clone(), toggling.clone()); std::thread::spawn(move || {
            while toggling.load(Ordering::Relaxed) {
                clock.0.fetch_sub(600_000_000_000, Ordering::SeqCst);
                std::hint::spin_loop();
                clock.0.fetch_add(600_000_000_000, Ordering::SeqCst);
                std::hint::spin_loop();
            }
        }) };
        let until = Instant::now() + Duration::from_millis(120);
        let mut reads = 0u64;
        while Instant::now() < until { let _ = cache.get(&(reads % 64)); reads += 1; std::thread::yield_now(); }
        toggling.store(false, Ordering::SeqCst);
        let _ = toggler.join();
        let probe = 7_777_777_777u64;
        let accepted = cache.put_with_weight_and_ttl(probe, probe, 1, Duration::from_secs(1)).map(|ack| wait_done(&ack) == CommandStatus::Accepted).unwrap_or(false);
        if !accepted { found.push("C17/worker-died hammer: a put after the clock had jumped back and forth was not accepted".to_string()); }
        let deadline = Instant::now() + Duration::from_secs(8);
        let mut swept = false;
        while accepted && Instant::now() < deadline {
            clock.0.fetch_add(1_000_000_000, Ordering::SeqCst);
            std::thread::sleep(Duration::from_millis(10));
            let snapshot = cache.verif_snapshot();
            if !snapshot.store.iter().any(|entry| entry.0 == probe) { swept = true; break; }
        }
        if accepted && !swept {
            found.push("C17/sweeper-died hammer: after the clock had jumped back and forth a key whose time-to-live elapsed was never swept (the ticker thread is gone or stuck)".to_string());
            found.push("C10/expired-key-not-removed hammer: after the clock had jumped back and forth a key whose time-to-live elapsed is still held although every shard was swept many times over".to_string());
        }
    }
    sink.both(&format!("# case stress hammer puts={} deletes={} lookups={} held={} live-after-expiry={}", accepted_puts, accepted_deletes, lookups, held, expected_live.len()));
    writeln!(sink.input, "S monitors").unwrap();
    writeln!(sink.implementation, "R {}", if found.is_empty() { "clean".to_string() } else { format!("violations {}", found.join(" ;; ")) }).unwrap();
    cache.shutdown();
    found.is_empty()
}
