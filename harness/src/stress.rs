//! Free-running real threads with property monitors that remain valid under true concurrency (DESIGN.md 5.2 `stress`):
//! what a model at action granularity cannot exhibit (behaviour that depends on a lock being contended, e.g. a
//! non-blocking `try_*` acquisition that silently gives up) shows up here. Values are unique tokens.
use std::io::Write;
use std::sync::atomic::{AtomicBool, AtomicI64, AtomicU64, Ordering};
use std::sync::{Arc, Mutex};
use std::time::{Duration, Instant};

use tinylfu_cached::cache::cached::CacheD;
use tinylfu_cached::cache::command::CommandStatus;
use tinylfu_cached::cache::config::ConfigBuilder;
use tinylfu_cached::cache::stats::StatsType;

use crate::engine::ManualClock;
use crate::Sink;

fn wait_done(ack: &Arc<tinylfu_cached::cache::command::acknowledgement::CommandAcknowledgement>) -> CommandStatus {
    let waker = crate::noop_waker();
    let mut context = std::task::Context::from_waker(&waker);
    let deadline = Instant::now() + Duration::from_secs(20);
    loop {
        let mut handle = ack.handle();
        if let std::task::Poll::Ready(status) = std::future::Future::poll(std::pin::Pin::new(&mut handle), &mut context) { return status; }
        if Instant::now() > deadline { return CommandStatus::Pending; }
        std::thread::yield_now();
    }
}

pub fn run(seed: u64, out: &str, millis: u64) -> bool {
    let mut sink = Sink::new(out);
    let mut all_ok = true;
    for (round, (shards, cmdcap, max, buffer_size, pool_size)) in [(2usize, 1usize, 6i64, 1usize, 1usize), (2, 4, 1000, 3, 1), (4, 64, 8, 2, 2), (2, 4, 1000, 1, 3)].iter().enumerate() {
        let clock = ManualClock(Arc::new(AtomicU64::new(1_000_000_000_000)));
        let config = ConfigBuilder::new(16, 16, *max)
            .clock(Box::new(clock.clone()))
            .weight_calculation_fn(Box::new(|_k: &u64, _v: &u64, ttl: bool| 1 + if ttl { 24 } else { 0 }))
            .access_pool_size(*pool_size).access_buffer_size(*buffer_size).command_buffer_size(*cmdcap).shards(*shards)
            .ttl_tick_duration(Duration::from_millis(1)).build();
        let cache = Arc::new(CacheD::<u64, u64>::new(config));
        let stop = Arc::new(AtomicBool::new(false));
        let seq = Arc::new(AtomicU64::new(1));
        let keys = 3u64;
        // per token: (key, sequence number at which delete() of its incarnation returned; 0 = not deleted)
        let deleted_at: Arc<Vec<AtomicU64>> = Arc::new((0..2_000_000).map(|_| AtomicU64::new(0)).collect());
        let written_key: Arc<Vec<AtomicU64>> = Arc::new((0..2_000_000).map(|_| AtomicU64::new(u64::MAX)).collect());
        let next_token = Arc::new(AtomicU64::new(1 + seed % 7));
        let violations: Arc<Mutex<Vec<String>>> = Arc::new(Mutex::new(Vec::new()));
        let worst_total = Arc::new(AtomicI64::new(0));
        let least_total = Arc::new(AtomicI64::new(0));
        let mut threads = Vec::new();
        // writers: put (awaited), then delete; record when delete() returned
        for writer in 0..2u64 {
            let (cache, stop, seq, deleted_at, written_key, next_token, violations) = (cache.clone(), stop.clone(), seq.clone(), deleted_at.clone(), written_key.clone(), next_token.clone(), violations.clone());
            threads.push(std::thread::spawn(move || {
                let mut round = 0u64;
                while !stop.load(Ordering::Relaxed) {
                    round += 1;
                    let key = (writer + round) % keys;
                    let token = next_token.fetch_add(1, Ordering::SeqCst);
                    if token as usize >= written_key.len() { break; }
                    written_key[token as usize].store(key, Ordering::SeqCst);
                    let status = match cache.put(key, token) { Ok(ack) => wait_done(&ack), Err(_) => break };
                    if status == CommandStatus::Pending { violations.lock().unwrap().push(format!("C12/never-resolved put({},{})", key, token)); break; }
                    if status != CommandStatus::Accepted { continue; }
                    if round % 3 == 0 { std::thread::yield_now(); }
                    match cache.delete(key) {
                        Ok(ack) => {
                            // delete() has returned: from now on no read may return a value of an incarnation that was acknowledged before
                            let now = seq.fetch_add(1, Ordering::SeqCst);
                            deleted_at[token as usize].store(now, Ordering::SeqCst);
                            let status = wait_done(&ack);
                            if status == CommandStatus::Pending { violations.lock().unwrap().push(format!("C12/never-resolved delete({})", key)); break; }
                        }
                        Err(_) => break,
                    }
                }
            }));
        }
        // readers: every value read must belong to the key, and must not be of an incarnation whose delete() had returned before the read began
        for reader in 0..3u64 {
            let (cache, stop, seq, deleted_at, written_key, violations) = (cache.clone(), stop.clone(), seq.clone(), deleted_at.clone(), written_key.clone(), violations.clone());
            threads.push(std::thread::spawn(move || {
                let mut n = 0u64;
                while !stop.load(Ordering::Relaxed) {
                    n += 1;
                    let key = (reader + n) % keys;
                    let started = seq.fetch_add(1, Ordering::SeqCst);
                    let value = if n % 2 == 0 { cache.get(&key) } else {
                        // keep the reference guard alive for a moment: the shard stays read-locked
                        cache.get_ref(&key).map(|reference| { let v = reference.value().value(); std::thread::yield_now(); v })
                    };
                    if let Some(token) = value {
                        let belongs_to = written_key.get(token as usize).map(|k| k.load(Ordering::SeqCst)).unwrap_or(u64::MAX);
                        if belongs_to != key {
                            violations.lock().unwrap().push(format!("C02/foreign-or-unwritten-value get({}) returned token {} written to key {}", key, token, belongs_to));
                        }
                        let deleted = deleted_at[token as usize].load(Ordering::SeqCst);
                        if deleted != 0 && deleted < started {
                            violations.lock().unwrap().push(format!("C04/read-after-delete get({}) returned token {} although delete() of that incarnation had returned at {} and the read began at {}", key, token, deleted, started));
                        }
                    }
                }
            }));
        }
        // order client (C11): un-awaited put; delete of the same fresh key, again and again, with a queue that is often
        // full: once both acknowledgements have completed the key is absent (the delete was applied after the put), the
        // delete's acknowledgement never completes before the put's, and the delete is never answered "key does not
        // exist" when its put was accepted
        {
            let (cache, stop, violations) = (cache.clone(), stop.clone(), violations.clone());
            threads.push(std::thread::spawn(move || {
                let mut key = 1_000_000u64;
                while !stop.load(Ordering::Relaxed) {
                    key += 1;
                    let put = match cache.put_with_weight(key, key, 1) { Ok(ack) => ack, Err(_) => break };
                    let delete = match cache.delete(key) { Ok(ack) => ack, Err(_) => break };
                    let delete_status = wait_done(&delete);
                    let put_done_by_then = put.verif_peek().0;
                    let put_status = wait_done(&put);
                    if delete_status == CommandStatus::Pending || put_status == CommandStatus::Pending { violations.lock().unwrap().push(format!("C12/never-resolved put/delete({})", key)); break; }
                    if !put_done_by_then {
                        violations.lock().unwrap().push(format!("C11/acknowledgements-out-of-order delete({}) was acknowledged while the put issued before it by the same thread was still pending", key));
                    }
                    if cache.get(&key).is_some() {
                        violations.lock().unwrap().push(format!("C11/put-then-delete-leaves-key put({}); delete({}) un-awaited, both acknowledged ({:?}, {:?}), and the key is still readable", key, key, put_status, delete_status));
                    }
                    if put_status == CommandStatus::Accepted && matches!(delete_status, CommandStatus::Rejected(_)) {
                        violations.lock().unwrap().push(format!("C11/delete-overtook-put put({}) accepted but the delete issued after it was rejected ({:?})", key, delete_status));
                    }
                }
            }));
        }
        // observer: the total stays within [0, limit] at every sampled instant
        {
            let (cache, stop, worst_total, least_total) = (cache.clone(), stop.clone(), worst_total.clone(), least_total.clone());
            threads.push(std::thread::spawn(move || {
                while !stop.load(Ordering::Relaxed) {
                    let total = cache.total_weight_used();
                    worst_total.fetch_max(total, Ordering::SeqCst);
                    least_total.fetch_min(total, Ordering::SeqCst);
                }
            }));
        }
        std::thread::sleep(Duration::from_millis(millis));
        stop.store(true, Ordering::SeqCst);
        let joined_by = Instant::now() + Duration::from_secs(30);
        for thread in threads {
            while !thread.is_finished() && Instant::now() < joined_by { std::thread::sleep(Duration::from_millis(2)); }
            if thread.is_finished() { let _ = thread.join(); } else { violations.lock().unwrap().push("C18/hang a stress thread did not finish".to_string()); }
        }
        let summary = cache.stats_summary();
        let (hits, added, dropped) = (summary.get(&StatsType::CacheHits).unwrap_or(0), summary.get(&StatsType::AccessAdded).unwrap_or(0), summary.get(&StatsType::AccessDropped).unwrap_or(0));
        let buffered: u64 = cache.verif_snapshot().pool_buffers.iter().map(|buffer| buffer.len() as u64).sum();
        if hits != buffered + added + dropped {
            violations.lock().unwrap().push(format!("C15/records-not-conserved hits={} buffered={} delivered={} dropped={} (pool {} x buffer {}) after all readers stopped", hits, buffered, added, dropped, pool_size, buffer_size));
        }
        if worst_total.load(Ordering::SeqCst) > *max || least_total.load(Ordering::SeqCst) < 0 {
            violations.lock().unwrap().push(format!("C01/total-out-of-range observed total in [{}, {}] with limit {}", least_total.load(Ordering::SeqCst), worst_total.load(Ordering::SeqCst), max));
        }
        let tokens = next_token.load(Ordering::SeqCst);
        let reads = seq.load(Ordering::SeqCst);
        sink.both(&format!("# case stress round={} shards={} cmdcap={} max={} tokens={} events={}", round, shards, cmdcap, max, tokens, reads));
        let found = violations.lock().unwrap().clone();
        let mut distinct: Vec<String> = Vec::new();
        for violation in found { let kind = violation.split(' ').next().unwrap_or("").to_string(); if !distinct.iter().any(|d| d.starts_with(&kind)) { distinct.push(violation); } }
        writeln!(sink.input, "S monitors").unwrap();
        writeln!(sink.implementation, "R {}", if distinct.is_empty() { "clean".to_string() } else { format!("violations {}", distinct.join(" ;; ")) }).unwrap();
        if !distinct.is_empty() { all_ok = false; }
        cache.shutdown();
    }
    sink.flush();
    all_ok
}
