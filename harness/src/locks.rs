//! Lock discipline observed on the real crate (tie for C18): free-running threads hammer one cache while the
//! instrumented `lock_api` records (held lock type -> acquired lock type) pairs and the hooks record which locks are
//! held at every schedule point (in particular at the blocking channel operations). A watchdog detects hangs.
use std::io::Write;
use std::sync::atomic::{AtomicBool, AtomicU64, Ordering};
use std::sync::Arc;
use std::time::{Duration, Instant};

use tinylfu_cached::cache::cached::CacheD;
use tinylfu_cached::cache::config::ConfigBuilder;
use tinylfu_cached::cache::put_or_update::PutOrUpdateRequestBuilder;
use tinylfu_cached::cache::verif;

use crate::engine::ManualClock;
use crate::{Rng, Sink};

/// maps the type protected by a lock to the lock class of CachedModel/Locks.lean
pub fn class_of(type_name: &str) -> String {
    let t = type_name;
    if t == "i64" { "wu".to_string() }
    else if t.contains("TinyLFU") { "af".to_string() }
    else if t.contains("Buffer<") { "poolBuf".to_string() }
    else if t.contains("WakerState") { "ackWaker".to_string() }
    else if t.contains("CommandStatus") { "ackStatus".to_string() }
    // (whatever map type holds them: the class is named after what the lock protects)
    else if t.contains("WeightedKey") { "kwShard".to_string() }
    else if t.contains("StoredValue") { "storeShard".to_string() }
    else if t.contains("SystemTime") { "ttlShard".to_string() }
    else { format!("other:{}", t.replace(' ', "")) }
}

/// what the hooks ask at every schedule point: the locks held there, plus (as `repeat:<type>` entries) the locks whose same
/// instance the thread acquired more than once since its previous schedule point
fn probe_locks() -> Vec<String> {
    let mut held = lock_api::verif_log::held_by_current_thread();
    for repeated in lock_api::verif_log::take_repeats() { held.push(format!("repeat:{}", repeated)); }
    held
}

fn settled(ack: &Arc<tinylfu_cached::cache::command::acknowledgement::CommandAcknowledgement>) {
    // one poll by hand (the `poll` program of the table), then wait for the worker
    let waker = crate::noop_waker();
    let mut context = std::task::Context::from_waker(&waker);
    let mut handle = ack.handle();
    let _ = std::future::Future::poll(std::pin::Pin::new(&mut handle), &mut context);
    let deadline = Instant::now() + Duration::from_secs(5);
    lock_api::verif_log::probing(true);
    while !ack.verif_peek().0 && Instant::now() < deadline { std::thread::sleep(Duration::from_micros(100)); }
    lock_api::verif_log::probing(false);
    // and one poll of the completed acknowledgement: the status is read under the waker lock
    let _ = std::future::Future::poll(std::pin::Pin::new(&mut handle), &mut context);
}

/// Runs every program of `CachedModel/Locks.lean` once, deterministically, on a fresh cache (keys 100..): an applied
/// `UpdateWeight`, a `get_ref`, a put that has to evict (sampling and the eviction's delete hook), a sweep that evicts an
/// expired key, a hand-polled acknowledgement. The lock log must then show every nested acquisition of the table.
fn cover_every_program(cache: &Arc<CacheD<u64, u64>>, clock: &ManualClock, shards: usize, max: i64) {
    if let Ok(ack) = cache.put_with_weight(100, 1, 1) { settled(&ack); }
    if let Ok(ack) = cache.put_or_update(PutOrUpdateRequestBuilder::new(100).weight(2).build()) { settled(&ack); }
    let _ = cache.get_ref(&100).map(|reference| reference.value().value());
    let _ = cache.get(&100);
    if let Ok(ack) = cache.put_with_weight(109, 1, 1) { settled(&ack); }
    if let Ok(ack) = cache.delete(109) { settled(&ack); }
    // pressure: fill the cache, then one more key has to evict (sample over >= 2 shards, estimates, delete hook)
    let each = (max / 4).max(1);
    for key in 101..108u64 { if let Ok(ack) = cache.put_with_weight(key, 1, each) { settled(&ack); } }
    // an expired key in the shard the sweeper visits: walk the clock second by second until the sweeper has taken it
    // (observed through `total_weight_used()` only: a snapshot would iterate the maps and add lock edges of its own)
    // room first, so that the put below is admitted without evicting anything (an eviction would lower the total and look like the sweep)
    for key in 101..104u64 { if let Ok(ack) = cache.delete(key) { settled(&ack); } }
    let before = cache.total_weight_used();
    if let Ok(ack) = cache.put_with_weight_and_ttl(110, 1, 1, Duration::from_millis(10)) { settled(&ack); }
    if cache.total_weight_used() <= before { return; }
    for _ in 0..(4 * shards + 4) {
        clock.0.fetch_add(1_000_000_000, Ordering::SeqCst);
        // generous under load (the ticker thread may be starved); left as soon as the sweep is observed
        let deadline = Instant::now() + Duration::from_millis(400);
        while Instant::now() < deadline {
            if cache.total_weight_used() <= before { return; }
            std::thread::sleep(Duration::from_millis(1));
        }
    }
}

pub fn run(seed: u64, out: &str, millis: u64) -> bool {
    let mut sink = Sink::new(out);
    let mut ok = true;
    let configs = [(2usize, 1usize, 1usize, 1usize, 20i64), (2, 2, 1, 2, 50), (4, 64, 2, 3, 30)];
    for (round, (shards, cmdcap, pool, buf, max)) in configs.iter().enumerate() {
        verif::reset(false, false);
        lock_api::verif_log::switch(true);
        verif::set_held_probe(Some(probe_locks));
        let clock = ManualClock(Arc::new(AtomicU64::new(1_000_000_000_000)));
        let config = ConfigBuilder::new(16, 16, *max)
            .clock(Box::new(clock.clone()))
            .weight_calculation_fn(Box::new(|_k: &u64, v: &u64, ttl: bool| 1 + (*v % 3) as i64 + if ttl { 24 } else { 0 }))
            .access_pool_size(*pool).access_buffer_size(*buf).command_buffer_size(*cmdcap).shards(*shards)
            .ttl_tick_duration(Duration::from_millis(1)).build();
        let cache = Arc::new(CacheD::<u64, u64>::new(config));
        cover_every_program(&cache, &clock, *shards, *max);
        let stop = Arc::new(AtomicBool::new(false));
        let progress: Vec<Arc<AtomicU64>> = (0..4).map(|_| Arc::new(AtomicU64::new(0))).collect();
        let mut threads = Vec::new();
        for t in 0..4u64 {
            let (cache, stop, clock, progress) = (cache.clone(), stop.clone(), clock.clone(), progress[t as usize].clone());
            let mut rng = Rng::new(seed * 31 + t + round as u64 * 7);
            threads.push(std::thread::spawn(move || {
                // the acknowledgements most recently handed to this thread (in particular those around shutdown())
                let mut recent: std::collections::VecDeque<Arc<tinylfu_cached::cache::command::acknowledgement::CommandAcknowledgement>> = std::collections::VecDeque::new();
                let mut keep = |result: tinylfu_cached::cache::command::command_executor::CommandSendResult| {
                    if let Ok(ack) = result { if recent.len() >= 256 { recent.pop_front(); } recent.push_back(ack); }
                };
                while !stop.load(Ordering::Relaxed) {
                    let key = rng.below(4);
                    let value = rng.next() % 1000;
                    match rng.below(12) {
                        0 => { keep(cache.put(key, value)); }
                        1 => { keep(cache.put_with_weight(key, value, 1 + rng.below(12) as i64)); }
                        2 => { keep(cache.put_with_ttl(key, value, Duration::from_millis(1 + rng.below(3000)))); }
                        3 => { keep(cache.put_or_update(PutOrUpdateRequestBuilder::new(key).value(value).build())); }
                        4 => { keep(cache.put_or_update(PutOrUpdateRequestBuilder::new(key).value(value).time_to_live(Duration::from_millis(1 + rng.below(3000))).build())); }
                        5 => { keep(cache.put_or_update(PutOrUpdateRequestBuilder::new(key).value(value).weight(1 + rng.below(9) as i64).build())); }
                        6 => { keep(cache.delete(key)); }
                        7 => { let _ = cache.get(&key); }
                        8 => { let _ = cache.get_ref(&key).map(|r| r.value().value()); }
                        9 => { let _ = cache.multi_get(vec![&0, &1, &2]); }
                        10 => { let _ = cache.total_weight_used(); let _ = cache.stats_summary(); }
                        _ => { clock.0.fetch_add(rng.below(800_000_000), Ordering::SeqCst); }
                    }
                    progress.fetch_add(1, Ordering::Relaxed);
                }
                drop(keep);
                recent
            }));
        }
        // watchdog: every client thread must keep completing calls
        let started = Instant::now();
        let mut last: Vec<u64> = progress.iter().map(|p| p.load(Ordering::Relaxed)).collect();
        let mut stalled_for = 0u64;
        let mut hang = None;
        while started.elapsed() < Duration::from_millis(millis) {
            std::thread::sleep(Duration::from_millis(50));
            let now: Vec<u64> = progress.iter().map(|p| p.load(Ordering::Relaxed)).collect();
            if now.iter().zip(last.iter()).any(|(a, b)| a == b) { stalled_for += 50; } else { stalled_for = 0; }
            last = now;
            if stalled_for >= 5000 { hang = Some(format!("a client thread completed no call for {} ms (progress {:?})", stalled_for, last)); break; }
        }
        let calls: u64 = last.iter().sum();
        sink.both(&format!("# case locks round={} shards={} cmdcap={} pool={} buf={} max={} calls={}", round, shards, cmdcap, pool, buf, max, calls));
        if let Some(why) = hang {
            sink.both(&format!("# hang {}", why.replace(' ', "_")));
            ok = false;
            sink.flush();
            std::process::exit(3);
        }
        // shutdown must return while clients are still running
        let done = Arc::new(AtomicBool::new(false));
        { let (cache, done) = (cache.clone(), done.clone()); std::thread::spawn(move || { cache.shutdown(); done.store(true, Ordering::SeqCst); }); }
        let deadline = Instant::now() + Duration::from_secs(10);
        while !done.load(Ordering::SeqCst) && Instant::now() < deadline { std::thread::sleep(Duration::from_millis(5)); }
        if !done.load(Ordering::SeqCst) { sink.both("# hang shutdown()_did_not_return_under_load"); sink.flush(); std::process::exit(3); }
        stop.store(true, Ordering::SeqCst);
        let mut handed_out = Vec::new();
        for thread in threads { if let Ok(recent) = thread.join() { handed_out.extend(recent); } }
        // every acknowledgement handed out before or during shutdown() completes (real outcome or ShuttingDown)
        let deadline = Instant::now() + Duration::from_secs(3);
        lock_api::verif_log::probing(true);
        let mut unresolved = handed_out.iter().filter(|ack| !ack.verif_peek().0).count();
        while unresolved > 0 && Instant::now() < deadline {
            std::thread::sleep(Duration::from_millis(5));
            unresolved = handed_out.iter().filter(|ack| !ack.verif_peek().0).count();
        }
        lock_api::verif_log::probing(false);
        writeln!(sink.input, "L acks-after-shutdown {}", if unresolved == 0 { "resolved".to_string() } else { format!("unresolved:{}-of-{}", unresolved, handed_out.len()) }).unwrap();
        writeln!(sink.implementation, "R ok").unwrap();
        drop(handed_out);
        // after shutdown() the worker answers whatever still arrives with ShuttingDown for as long as the cache (and with it
        // the sender) lives: it must still be there, blocked at its queue, not gone
        std::thread::sleep(Duration::from_millis(60));
        let worker_state = match verif::view("worker") { Some(view) => if view.finished { "finished" } else { "alive" }, None => "unknown" };
        writeln!(sink.input, "L worker-after-shutdown {}", worker_state).unwrap();
        writeln!(sink.implementation, "R ok").unwrap();
        // non-blocking acquisitions attempted by the crate (read BEFORE anything of the harness probes a lock)
        let mut tries: Vec<String> = lock_api::verif_log::tries().iter().map(|t| class_of(t)).collect();
        tries.sort(); tries.dedup();
        drop(cache);
        let mut edges: Vec<(String, String, bool)> = lock_api::verif_log::edges().into_iter().map(|(a, b, same)| (class_of(&a), class_of(&b), same)).collect();
        edges.sort(); edges.dedup();
        for (held, wanted, same) in edges {
            writeln!(sink.input, "L edge {} {} {}", held, wanted, same as u8).unwrap();
            writeln!(sink.implementation, "R ok").unwrap();
        }
        // the other direction: every nested acquisition of the Lean table must have been observed
        // (`cover_every_program` ran every program of the table on this cache before the free-running phase)
        let mut nested: Vec<String> = lock_api::verif_log::edges().into_iter().filter(|(_, _, same)| !*same).map(|(a, b, _)| format!("{}>{}", class_of(&a), class_of(&b))).collect();
        nested.sort(); nested.dedup();
        writeln!(sink.input, "L cover {}", if nested.is_empty() { "-".to_string() } else { nested.join(",") }).unwrap();
        writeln!(sink.implementation, "R ok").unwrap();
        writeln!(sink.input, "L tries {}", if tries.is_empty() { "-".to_string() } else { tries.join(",") }).unwrap();
        writeln!(sink.implementation, "R ok").unwrap();
        let mut repeats: Vec<(String, String)> = Vec::new();
        for (point, held) in verif::held_at_points() {
            for entry in held.split(';') { if let Some(type_name) = entry.strip_prefix("repeat:") { repeats.push((point.to_string(), class_of(type_name))); } }
        }
        repeats.sort(); repeats.dedup();
        for (point, class) in repeats {
            writeln!(sink.input, "L repeat {} {}", point, class).unwrap();
            writeln!(sink.implementation, "R ok").unwrap();
        }
        let mut held_at: Vec<(String, String)> = verif::held_at_points().into_iter().map(|(point, held)| {
            let mut classes: Vec<String> = held.split(';').filter(|h| !h.is_empty() && !h.starts_with("repeat:")).map(class_of).collect();
            classes.sort();
            (point.to_string(), classes.join(","))
        }).collect();
        held_at.sort(); held_at.dedup();
        for (point, held) in held_at {
            writeln!(sink.input, "L at {} {}", point, if held.is_empty() { "-".to_string() } else { held }).unwrap();
            writeln!(sink.implementation, "R ok").unwrap();
        }
        verif::set_held_probe(None);
        lock_api::verif_log::switch(false);
    }
    sink.flush();
    ok
}
