//! Component-level differential inputs (Layer P): exhaustive byte tables and boundary tables for the pure parts.
use std::io::Write;
use std::panic::{catch_unwind, AssertUnwindSafe};
use std::time::{Duration, UNIX_EPOCH};

use tinylfu_cached::cache::verif;

use crate::{Rng, Sink};

fn hex(bytes: &[u8]) -> String { bytes.iter().map(|b| format!("{:02x}", b)).collect() }

fn emit(sink: &mut Sink, input: String, output: String) {
    writeln!(sink.input, "P {}", input).unwrap();
    writeln!(sink.implementation, "R {}", output).unwrap();
}

pub fn run(seed: u64, out: &str, thorough: bool) {
    let mut sink = Sink::new(out);
    let mut rng = Rng::new(seed);
    // ---- rows: all 256 byte values, both nibbles, a neighbour byte on each side
    sink.both("# case pure rows");
    for byte in 0u16..256 {
        for neighbour in [0x00u8, 0xff, 0xa5] {
            let bytes = vec![neighbour, byte as u8, neighbour];
            for position in 0u64..7 {
                let mut row = verif::VerifRow::new(bytes.clone());
                let result = catch_unwind(AssertUnwindSafe(|| { row.increment_at(position); row.bytes() }));
                emit(&mut sink, format!("row.inc {} {}", hex(&bytes), position), match result { Ok(b) => format!("row {}", hex(&b)), Err(_) => "panic".to_string() });
                let row = verif::VerifRow::new(bytes.clone());
                let result = catch_unwind(AssertUnwindSafe(|| row.get_at(position)));
                emit(&mut sink, format!("row.get {} {}", hex(&bytes), position), match result { Ok(v) => format!("val {}", v), Err(_) => "panic".to_string() });
            }
            let mut row = verif::VerifRow::new(bytes.clone());
            row.half_counters();
            emit(&mut sink, format!("row.half {}", hex(&bytes)), format!("row {}", hex(&row.bytes())));
            let mut row = verif::VerifRow::new(bytes.clone());
            row.clear();
            emit(&mut sink, format!("row.clear {}", hex(&bytes)), format!("row {}", hex(&row.bytes())));
        }
    }
    // ---- long rows (8, 9, 16, 17 bytes: a row may be processed a machine word at a time): one nibble set among zeros /
    //      among saturated neighbours, every position
    for length in [8usize, 9, 16, 17] {
        for position in 0..(2 * length) {
            for value in [1u8, 3, 8, 15] {
                for background in [0x00u8, 0xff] {
                    let mut bytes = vec![background; length];
                    let byte = position / 2;
                    bytes[byte] = if position % 2 == 0 { (bytes[byte] & 0x0f) | (value << 4) } else { (bytes[byte] & 0xf0) | value };
                    let mut row = verif::VerifRow::new(bytes.clone());
                    row.half_counters();
                    emit(&mut sink, format!("row.half {}", hex(&bytes)), format!("row {}", hex(&row.bytes())));
                    let mut row = verif::VerifRow::new(bytes.clone());
                    let result = catch_unwind(AssertUnwindSafe(|| { row.increment_at(position as u64); row.bytes() }));
                    emit(&mut sink, format!("row.inc {} {}", hex(&bytes), position), match result { Ok(b) => format!("row {}", hex(&b)), Err(_) => "panic".to_string() });
                }
            }
        }
    }
    // ---- next_power_2: every small value, around every power of two
    sink.both("# case pure np2");
    let mut values: Vec<u64> = (1..=130).collect();
    for shift in 1..=63u32 { let p = 1u64 << shift; values.extend([p - 1, p]); if shift < 63 { values.push(p + 1); } }   // above 2^63 the u64 `+ 1` overflows (and no such sketch can be allocated): outside the model
    for value in values {
        let result = catch_unwind(|| verif::verif_next_power_2(value));
        emit(&mut sink, format!("np2 {}", value), match result { Ok(v) => format!("val {}", v), Err(_) => "panic".to_string() });
    }
    // ---- SampledKey ordering: full table over small estimates / weights
    sink.both("# case pure cmp");
    let weights = [1i64, 2, 3, 1 << 62];
    for e1 in 0u8..=16 { for w1 in weights { for e2 in 0u8..=16 { for w2 in weights {
        let (ordering, equal) = verif::verif_sampled_key_cmp((1, w1, e1), (2, w2, e2));
        let (_, equal_same_id) = verif::verif_sampled_key_cmp((1, w1, e1), (1, w2, e2));
        emit(&mut sink, format!("cmp {} {} {} {}", w1, e1, w2, e2), format!("cmp {} {} {}", ordering, equal as u8, equal_same_id as u8));
    } } } }
    // ---- expiry classification
    sink.both("# case pure expiry");
    let time = |ns: u64| UNIX_EPOCH + Duration::from_nanos(ns);
    let options = [None, Some(5_000_000_000u64), Some(5_000_000_001), Some(7_000_000_000)];
    for existing in options { for new in options {
        let (kind, first, second) = verif::verif_type_of_expiry_update(9, existing.map(time), new.map(time));
        let ns = |t: Option<std::time::SystemTime>| t.map(|t| t.duration_since(UNIX_EPOCH).unwrap().as_nanos().to_string()).unwrap_or("-".to_string());
        let text = match kind { 0 => "nothing".to_string(), 1 => format!("added:{}", ns(first)), 2 => format!("deleted:{}", ns(first)), _ => format!("updated:{}:{}", ns(first), ns(second)) };
        let show = |o: Option<u64>| o.map(|v| v.to_string()).unwrap_or("-".to_string());
        emit(&mut sink, format!("expiry {} {}", show(existing), show(new)), format!("expiry {}", text));
    } }
    // ---- hit ratio (a float: compared inside Rust, bit for bit, against hits / (hits + misses))
    sink.both("# case pure ratio");
    for hits in [0u64, 1, 2, 3, 1_000_000] { for misses in [0u64, 1, 2, 3, 1_000_000] {
        let reported = verif::verif_hit_ratio(hits, misses);
        let expected = if hits + misses == 0 { 0.0 } else { hits as f64 / (hits + misses) as f64 };
        let zero_ok = (reported == 0.0) == (hits == 0);
        emit(&mut sink, format!("ratio {} {}", hits, misses), if reported.to_bits() == expected.to_bits() && zero_ok { "ratio ok".to_string() } else { format!("ratio mismatch:{}:{}", reported, expected) });
    } }
    // ---- frequency counter with chosen seeds: random streams, every counters value
    sink.both("# case pure fc");
    let rounds = if thorough { 40 } else { 6 };
    for counters in (1u64..=20).chain([31, 32, 33, 63, 64, 65, 100, 127, 128, 129]) {
        for _ in 0..rounds {
            let seeds = [rng.next(), rng.next(), rng.next(), rng.next()];
            let mut counter = verif::VerifFrequencyCounter::new(counters, seeds);
            let universe = rng.pick(&[2u64, 3, 8, 1 << 40]);
            let mut ops = Vec::new();
            let mut outs = Vec::new();
            for _ in 0..(10 + rng.below(60)) {
                let hash = if universe > 1000 { rng.next() } else { rng.below(universe) };
                match rng.below(10) {
                    0 => { counter.reset(); ops.push("r".to_string()); }
                    1 | 2 | 3 => { ops.push(format!("e:{}", hash)); outs.push(counter.estimate(hash).to_string()); }
                    _ => { counter.increment(hash); ops.push(format!("i:{}", hash)); }
                }
            }
            let (_, total, rows) = counter.state();
            emit(&mut sink, format!("fc {} {},{},{},{} | {}", counters, seeds[0], seeds[1], seeds[2], seeds[3], ops.join(" ")),
                 format!("fc total={} est={} rows={}", total, outs.join(","), rows.iter().map(|r| hex(r)).collect::<Vec<_>>().join(";")));
        }
    }
    // ---- TinyLFU with the real doorkeeper (answers tapped), including ageing
    sink.both("# case pure lfu");
    for counters in [1u64, 2, 3, 4, 5, 8, 10, 16, 33] {
        for _ in 0..rounds {
            verif::reset(false, true);
            let mut lfu = verif::VerifTinyLFU::new(counters);
            let seeds = lfu.sketch().seeds;
            let universe = rng.pick(&[2u64, 3, 6]);
            let mut ops = Vec::new();
            let mut outs = Vec::new();
            for _ in 0..(5 + rng.below(4 * counters + 10)) {
                let hash = rng.below(universe) * 7919;
                if rng.chance(30) {
                    let estimate = lfu.estimate(hash);
                    let taps = verif::drain_taps();
                    let answer = taps.iter().find(|t| t.starts_with("dk.has")).map(|t| t.ends_with("true")).unwrap_or(false);
                    ops.push(format!("e:{}:{}", hash, answer as u8));
                    outs.push(estimate.to_string());
                } else {
                    lfu.increment_access(vec![hash]);
                    let taps = verif::drain_taps();
                    let added = taps.iter().find(|t| t.starts_with("dk.add")).map(|t| t.ends_with("true")).unwrap_or(false);
                    ops.push(format!("a:{}:{}", hash, added as u8));
                }
            }
            let sketch = lfu.sketch();
            emit(&mut sink, format!("lfu {} {},{},{},{} | {}", counters, seeds[0], seeds[1], seeds[2], seeds[3], ops.join(" ")),
                 format!("lfu incs={} est={} rows={}", sketch.total_increments, outs.join(","), sketch.rows.iter().map(|r| hex(r)).collect::<Vec<_>>().join(";")));
        }
    }
    verif::reset(false, false);
    glue(&mut sink, &mut rng, thorough);
    sink.flush();
}

/// Layer G: the construction glue — `ConfigBuilder` (asserts, defaults), what `CacheD::new` builds,
/// `PutOrUpdateRequestBuilder` (asserts), `updated_weight`, the default weight function.
fn glue(sink: &mut Sink, rng: &mut Rng, thorough: bool) {
    use tinylfu_cached::cache::cached::CacheD;
    use tinylfu_cached::cache::config::{verif_default_weight, ConfigBuilder};
    use tinylfu_cached::cache::put_or_update::PutOrUpdateRequestBuilder;
    sink.both("# case pure glue");
    let fields = |config: &tinylfu_cached::cache::config::Config<u64, u64>| {
        let (counters, capacity, weight, pool, buf, cmd, shards, tick) = config.verif_fields();
        format!("cfg counters={} capacity={} weight={} pool={} buf={} cmd={} shards={} tick={}", counters, capacity, weight, pool, buf, cmd, shards, tick.as_nanos())
    };
    // ---- ConfigBuilder: every setter with boundary arguments, chains of setters; accepted configurations of a
    //      buildable size are handed to CacheD::new and the shape of what it built is compared as well
    // the defaults are tuning constants: read from the crate, handed to the model, and only required to be acceptable
    let defaults = {
        let (_, _, _, pool, buf, cmd, shards, tick) = ConfigBuilder::<u64, u64>::new(1, 1, 1).build().verif_fields();
        (pool, buf, cmd, shards, tick.as_nanos())
    };
    emit(sink, format!("glue.defaults {} {} {} {} {}", defaults.0, defaults.1, defaults.2, defaults.3, defaults.4), "defaults ok".to_string());
    let defaults_token = format!("d={},{},{},{},{}", defaults.0, defaults.1, defaults.2, defaults.3, defaults.4);
    let sizes = [0usize, 1, 2, 3, 4, 5, 6, 7, 8, 12, 16, 31, 32, 33, 64, 255, 256, 1 << 20, (1 << 20) + 1, usize::MAX];
    let mut chains: Vec<(u64, usize, i64, Vec<(String, u128)>)> = Vec::new();
    for counters in [0u64, 1, 2, 10] { for capacity in [0usize, 1, 10] { for weight in [i64::MIN, -1, 0, 1, 100, i64::MAX] {
        chains.push((counters, capacity, weight, vec![]));
    } } }
    for setter in ["pool", "buf", "cmd", "shards"] { for size in sizes { chains.push((10, 10, 100, vec![(setter.to_string(), size as u128)])); } }
    for tick in [0u128, 1, 5_000_000_000, u64::MAX as u128 * 1_000_000_000] { chains.push((10, 10, 100, vec![("tick".to_string(), tick)])); }
    chains.push((10, 10, 100, vec![("other".to_string(), 0)]));
    for _ in 0..(if thorough { 2000 } else { 150 }) {
        let length = 1 + rng.below(5);
        let mut chain = Vec::new();
        for _ in 0..length {
            let setter = rng.pick(&["pool", "buf", "cmd", "shards", "shards", "tick", "other"]);
            let size = if rng.chance(75) { rng.pick(&[1usize, 2, 3, 4, 8, 16, 64]) } else { rng.pick(&sizes) };
            chain.push((setter.to_string(), if setter == "tick" { rng.pick(&[1_000_000u128, 1_000_000_000, 5_000_000_000]) } else { size as u128 }));
        }
        chains.push((1 + rng.below(40), 1 + rng.below(40) as usize, 1 + rng.below(1000) as i64, chain));
    }
    for (counters, capacity, weight, chain) in chains {
        let text = chain.iter().map(|(setter, size)| format!("{}:{}", setter, size)).collect::<Vec<_>>().join(" ");
        let chain_for_build = chain.clone();
        let built = catch_unwind(AssertUnwindSafe(move || {
            let mut builder = ConfigBuilder::<u64, u64>::new(counters, capacity, weight);
            for (setter, size) in chain_for_build {
                builder = match setter.as_str() {
                    "pool" => builder.access_pool_size(size as usize),
                    "buf" => builder.access_buffer_size(size as usize),
                    "cmd" => builder.command_buffer_size(size as usize),
                    "shards" => builder.shards(size as usize),
                    "tick" => builder.ttl_tick_duration(Duration::new((size / 1_000_000_000) as u64, (size % 1_000_000_000) as u32)),
                    _ => builder.key_hash_fn(Box::new(|key: &u64| *key)).weight_calculation_fn(Box::new(|_k: &u64, _v: &u64, _ttl: bool| 1)).clock(tinylfu_cached::cache::clock::SystemClock::boxed()),
                };
            }
            builder.build()
        }));
        match built {
            Err(_) => emit(sink, format!("glue.builder {} {} {} {} | {}", defaults_token, counters, capacity, weight, text), "panic".to_string()),
            Ok(config) => {
                emit(sink, format!("glue.builder {} {} {} {} | {}", defaults_token, counters, capacity, weight, text), fields(&config));
                let (counters, capacity, weight, pool, buf, cmd, shards, tick) = config.verif_fields();
                // only configurations whose construction allocates a reasonable amount are built
                if counters <= 4096 && capacity <= 4096 && pool <= 4096 && buf <= 4096 && cmd <= (1 << 20) && shards <= 4096 {
                    let shape = catch_unwind(AssertUnwindSafe(move || {
                        let cache = CacheD::new(config);
                        let (command_capacity, ttl_shards, pool_buffers, buffer_capacity) = cache.verif_shape();
                        let snapshot = cache.verif_snapshot();
                        let text = format!("shape cmd={} ttl={} pool={} buf={} rows={} rowbytes={} reset={} max={} used={} store={} kw={}",
                            command_capacity.map(|c| c.to_string()).unwrap_or("unbounded".to_string()), ttl_shards, pool_buffers, buffer_capacity,
                            snapshot.sketch.rows.len(), snapshot.sketch.rows.first().map(|r| r.len()).unwrap_or(0), snapshot.sketch.reset_counters_at,
                            weight, snapshot.weight_used, snapshot.store.len(), snapshot.key_weights.len());
                        cache.shutdown();
                        text
                    }));
                    emit(sink, format!("glue.new counters={} capacity={} weight={} pool={} buf={} cmd={} shards={} tick={}", counters, capacity, weight, pool, buf, cmd, shards, tick.as_nanos()),
                         shape.unwrap_or("panic".to_string()));
                }
            }
        }
    }
    // ---- PutOrUpdateRequestBuilder: every sequence of up to four calls
    let calls = ["value", "weight:-1", "weight:0", "weight:1", "weight:5", "ttl:1000000000", "rm"];
    let mut sequences: Vec<Vec<&str>> = vec![vec![]];
    let mut frontier: Vec<Vec<&str>> = vec![vec![]];
    for _ in 0..4 {
        let mut next = Vec::new();
        for sequence in &frontier { for call in calls { let mut longer = sequence.clone(); longer.push(call); next.push(longer); } }
        sequences.extend(next.iter().cloned());
        frontier = next;
    }
    let (weight_base, weight_mod, value) = (2i64, 3u64, 7u64);
    let ttl_entry = CacheD::<u64, u64>::verif_constants().2 as i64;
    for sequence in sequences {
        let for_build = sequence.clone();
        let built = catch_unwind(AssertUnwindSafe(move || {
            let mut builder = PutOrUpdateRequestBuilder::<u64, u64>::new(1);
            for call in for_build {
                builder = if call == "value" { builder.value(value) }
                    else if call == "rm" { builder.remove_time_to_live() }
                    else if let Some(weight) = call.strip_prefix("weight:") { builder.weight(weight.parse().unwrap()) }
                    else { builder.time_to_live(Duration::from_nanos(call[4..].parse().unwrap())) };
            }
            builder.build()
        }));
        let input = format!("glue.upsert wbase={} wmod={} ttlentry={} v={} | {}", weight_base, weight_mod, ttl_entry, value, sequence.join(" "));
        match built {
            Err(_) => emit(sink, input, "panic".to_string()),
            Ok(request) => {
                let (has_value, weight, ttl, remove) = request.verif_fields();
                let weight_fn = move |_k: &u64, v: &u64, ttl: bool| weight_base + (*v % weight_mod) as i64 + if ttl { ttl_entry } else { 0 };
                let updated = request.verif_updated_weight(&weight_fn);
                let show = |o: Option<i64>| o.map(|w| w.to_string()).unwrap_or("-".to_string());
                emit(sink, input, format!("req value={} weight={} ttl={} rm={} uw={}", has_value as u8, show(weight), ttl.map(|t| t.as_nanos().to_string()).unwrap_or("-".to_string()), remove as u8, show(updated)));
            }
        }
    }
    // ---- the default weight function, on several key / value types, and through a default configuration
    fn weigh<K, V>(sink: &mut Sink, key: K, value: V) {
        for ttl in [false, true] {
            let (weight, key_size, value_size, weighted_key_size, ttl_entry) = verif_default_weight(&key, &value, ttl);
            emit(sink, format!("glue.weight {} {} {} {} {}", key_size, value_size, weighted_key_size, ttl_entry, ttl as u8), format!("weight {}", weight));
        }
    }
    weigh(sink, 1u64, 2u64);
    weigh(sink, 1u32, 2u8);
    weigh(sink, "topic", "microservices");
    weigh(sink, String::from("topic"), String::from("microservices"));
    weigh(sink, [0u8; 100], 7u64);
    weigh(sink, (), ());
    weigh(sink, (1u64, 2u64, 3u64), vec![1u8, 2, 3]);
    let config = ConfigBuilder::<u64, u64>::new(10, 10, 100).build();
    for ttl in [false, true] {
        let through_config = (config.weight_calculation_fn)(&5, &6, ttl);
        let (_, key_size, value_size, weighted_key_size, ttl_entry) = verif_default_weight(&5u64, &6u64, ttl);
        let constants_entry = CacheD::<u64, u64>::verif_constants().2;
        emit(sink, format!("glue.weight {} {} {} {} {}", key_size, value_size, weighted_key_size, ttl_entry, ttl as u8),
             if constants_entry == ttl_entry { format!("weight {}", through_config) } else { format!("weight {} ttl-entry-mismatch:{}:{}", through_config, constants_entry, ttl_entry) });
    }
    // the default key hash is a function of the key alone (same key, same hash; the sketch relies on nothing else)
    let first = (config.key_hash_fn)(&12345);
    let second = (config.key_hash_fn)(&12345);
    let other = (config.key_hash_fn)(&12346);
    emit(sink, "glue.hash".to_string(), format!("hash stable={} distinct={}", (first == second) as u8, (first != other) as u8));
}
