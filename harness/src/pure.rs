pub fn run(_seed: u64, _out: &str, _thorough: bool) {}
