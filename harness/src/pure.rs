//! Component-level differential inputs (Layer P): exhaustive byte tables and boundary tables for the pure parts.
use std::io::Write;
use std::panic::{catch_unwind, AssertUnwindSafe};
use std::time::{Duration, UNIX_EPOCH};

use tinylfu_cached::cache::verif;

use crate::{Rng, Sink};

fn hex(bytes: &[u8]) -> String { bytes.iter().map(|b| format!("{:02x}", b)).collect() }

fn emit(sink: &mut Sink, input: String, output: String) {
    writeln!(sink.input, "P {}", input).unwrap();
    writeln!(sink.implementation, "R {}", output).unwrap();
}

pub fn run(seed: u64, out: &str, thorough: bool) {
    let mut sink = Sink::new(out);
    let mut rng = Rng::new(seed);
    // ---- rows: all 256 byte values, both nibbles, a neighbour byte on each side
    sink.both("# case pure rows");
    for byte in 0u16..256 {
        for neighbour in [0x00u8, 0xff, 0xa5] {
            let bytes = vec![neighbour, byte as u8, neighbour];
            for position in 0u64..7 {
                let mut row = verif::VerifRow::new(bytes.clone());
                let result = catch_unwind(AssertUnwindSafe(|| { row.increment_at(position); row.bytes() }));
                emit(&mut sink, format!("row.inc {} {}", hex(&bytes), position), match result { Ok(b) => format!("row {}", hex(&b)), Err(_) => "panic".to_string() });
                let row = verif::VerifRow::new(bytes.clone());
                let result = catch_unwind(AssertUnwindSafe(|| row.get_at(position)));
                emit(&mut sink, format!("row.get {} {}", hex(&bytes), position), match result { Ok(v) => format!("val {}", v), Err(_) => "panic".to_string() });
            }
            let mut row = verif::VerifRow::new(bytes.clone());
            row.half_counters();
            emit(&mut sink, format!("row.half {}", hex(&bytes)), format!("row {}", hex(&row.bytes())));
            let mut row = verif::VerifRow::new(bytes.clone());
            row.clear();
            emit(&mut sink, format!("row.clear {}", hex(&bytes)), format!("row {}", hex(&row.bytes())));
        }
    }
    // ---- next_power_2: every small value, around every power of two
    sink.both("# case pure np2");
    let mut values: Vec<u64> = (1..=130).collect();
    for shift in 1..=63u32 { let p = 1u64 << shift; values.extend([p - 1, p]); if shift < 63 { values.push(p + 1); } }   // above 2^63 the u64 `+ 1` overflows (and no such sketch can be allocated): outside the model
    for value in values {
        let result = catch_unwind(|| verif::verif_next_power_2(value));
        emit(&mut sink, format!("np2 {}", value), match result { Ok(v) => format!("val {}", v), Err(_) => "panic".to_string() });
    }
    // ---- SampledKey ordering: full table over small estimates / weights
    sink.both("# case pure cmp");
    let weights = [1i64, 2, 3, 1 << 62];
    for e1 in 0u8..=16 { for w1 in weights { for e2 in 0u8..=16 { for w2 in weights {
        let (ordering, equal) = verif::verif_sampled_key_cmp((1, w1, e1), (2, w2, e2));
        let (_, equal_same_id) = verif::verif_sampled_key_cmp((1, w1, e1), (1, w2, e2));
        emit(&mut sink, format!("cmp {} {} {} {}", w1, e1, w2, e2), format!("cmp {} {} {}", ordering, equal as u8, equal_same_id as u8));
    } } } }
    // ---- expiry classification
    sink.both("# case pure expiry");
    let time = |ns: u64| UNIX_EPOCH + Duration::from_nanos(ns);
    let options = [None, Some(5_000_000_000u64), Some(5_000_000_001), Some(7_000_000_000)];
    for existing in options { for new in options {
        let (kind, first, second) = verif::verif_type_of_expiry_update(9, existing.map(time), new.map(time));
        let ns = |t: Option<std::time::SystemTime>| t.map(|t| t.duration_since(UNIX_EPOCH).unwrap().as_nanos().to_string()).unwrap_or("-".to_string());
        let text = match kind { 0 => "nothing".to_string(), 1 => format!("added:{}", ns(first)), 2 => format!("deleted:{}", ns(first)), _ => format!("updated:{}:{}", ns(first), ns(second)) };
        let show = |o: Option<u64>| o.map(|v| v.to_string()).unwrap_or("-".to_string());
        emit(&mut sink, format!("expiry {} {}", show(existing), show(new)), format!("expiry {}", text));
    } }
    // ---- hit ratio (a float: compared inside Rust, bit for bit, against hits / (hits + misses))
    sink.both("# case pure ratio");
    for hits in [0u64, 1, 2, 3, 1_000_000] { for misses in [0u64, 1, 2, 3, 1_000_000] {
        let reported = verif::verif_hit_ratio(hits, misses);
        let expected = if hits + misses == 0 { 0.0 } else { hits as f64 / (hits + misses) as f64 };
        let zero_ok = (reported == 0.0) == (hits == 0);
        emit(&mut sink, format!("ratio {} {}", hits, misses), if reported.to_bits() == expected.to_bits() && zero_ok { "ratio ok".to_string() } else { format!("ratio mismatch:{}:{}", reported, expected) });
    } }
    // ---- frequency counter with chosen seeds: random streams, every counters value
    sink.both("# case pure fc");
    let rounds = if thorough { 40 } else { 6 };
    for counters in (1u64..=20).chain([31, 32, 33, 63, 64, 65, 100, 127, 128, 129]) {
        for _ in 0..rounds {
            let seeds = [rng.next(), rng.next(), rng.next(), rng.next()];
            let mut counter = verif::VerifFrequencyCounter::new(counters, seeds);
            let universe = rng.pick(&[2u64, 3, 8, 1 << 40]);
            let mut ops = Vec::new();
            let mut outs = Vec::new();
            for _ in 0..(10 + rng.below(60)) {
                let hash = if universe > 1000 { rng.next() } else { rng.below(universe) };
                match rng.below(10) {
                    0 => { counter.reset(); ops.push("r".to_string()); }
                    1 | 2 | 3 => { ops.push(format!("e:{}", hash)); outs.push(counter.estimate(hash).to_string()); }
                    _ => { counter.increment(hash); ops.push(format!("i:{}", hash)); }
                }
            }
            let (_, total, rows) = counter.state();
            emit(&mut sink, format!("fc {} {},{},{},{} | {}", counters, seeds[0], seeds[1], seeds[2], seeds[3], ops.join(" ")),
                 format!("fc total={} est={} rows={}", total, outs.join(","), rows.iter().map(|r| hex(r)).collect::<Vec<_>>().join(";")));
        }
    }
    // ---- TinyLFU with the real doorkeeper (answers tapped), including ageing
    sink.both("# case pure lfu");
    for counters in [1u64, 2, 3, 4, 5, 8, 10, 16, 33] {
        for _ in 0..rounds {
            verif::reset(false, true);
            let mut lfu = verif::VerifTinyLFU::new(counters);
            let seeds = lfu.sketch().seeds;
            let universe = rng.pick(&[2u64, 3, 6]);
            let mut ops = Vec::new();
            let mut outs = Vec::new();
            for _ in 0..(5 + rng.below(4 * counters + 10)) {
                let hash = rng.below(universe) * 7919;
                if rng.chance(30) {
                    let estimate = lfu.estimate(hash);
                    let taps = verif::drain_taps();
                    let answer = taps.iter().find(|t| t.starts_with("dk.has")).map(|t| t.ends_with("true")).unwrap_or(false);
                    ops.push(format!("e:{}:{}", hash, answer as u8));
                    outs.push(estimate.to_string());
                } else {
                    lfu.increment_access(vec![hash]);
                    let taps = verif::drain_taps();
                    let added = taps.iter().find(|t| t.starts_with("dk.add")).map(|t| t.ends_with("true")).unwrap_or(false);
                    ops.push(format!("a:{}:{}", hash, added as u8));
                }
            }
            let sketch = lfu.sketch();
            emit(&mut sink, format!("lfu {} {},{},{},{} | {}", counters, seeds[0], seeds[1], seeds[2], seeds[3], ops.join(" ")),
                 format!("lfu incs={} est={} rows={}", sketch.total_increments, outs.join(","), sketch.rows.iter().map(|r| hex(r)).collect::<Vec<_>>().join(";")));
        }
    }
    verif::reset(false, false);
    sink.flush();
}
