pub fn run(_seed: u64, _out: &str, _args: &[String]) -> bool { true }
