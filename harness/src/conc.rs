//! Layer B correspondence: the real crate driven ONE ATOMIC ACTION at a time (every thread parks at every
//! schedule point of its stop list), under PRNG-chosen interleavings of 2-3 client threads with the command
//! worker, the sweeper and the consumer. After every action the complete observable state and every thread's
//! position are printed in the vocabulary of `CachedModel/LayerB.lean`.
use std::io::Write;
use std::panic::{catch_unwind, AssertUnwindSafe};
use std::sync::atomic::{AtomicBool, AtomicU64, Ordering};
use std::sync::{Arc, Mutex};
use std::time::{Duration, SystemTime, UNIX_EPOCH};

use tinylfu_cached::cache::cached::CacheD;
use tinylfu_cached::cache::command::acknowledgement::CommandAcknowledgement;
use tinylfu_cached::cache::config::ConfigBuilder;
use tinylfu_cached::cache::put_or_update::PutOrUpdateRequestBuilder;
use tinylfu_cached::cache::verif;

use crate::engine::{classify_panic, duration_of, hash_of, panic_message, status_str, Cfg, ManualClock};
use crate::{Rng, Sink};

type Cache = CacheD<u64, u64>;
const TIMEOUT: Duration = Duration::from_secs(8);

const WORKER_STOPS: &[&str] = &["worker.recv", "store.present", "wu.space", "kw.insert", "wu.add", "sample.init", "kw.remove", "wu.sub",
    "store.remove", "sample.fill", "store.put", "ttl.put", "kw.update", "ttl.delete", "worker.drain"];
const SWEEPER_STOPS: &[&str] = &["sweep.begin", "sweep.entry", "kw.remove", "wu.sub", "store.remove", "sweep.end"];
const CONSUMER_STOPS: &[&str] = &["consumer.recv"];
const CLIENT_STOPS: &[&str] = &["client.idle", "store.present", "id.next", "cmd.send", "delete.mark", "store.get", "pool.add", "wu.read",
    "upsert.update", "upsert.weight_of", "ttl.put", "ttl.delete", "ttl.update.remove", "ttl.update.insert",
    "shutdown.cas", "buf.send_shutdown", "shutdown.consumer_flag", "shutdown.ticker_flag", "shutdown.store_clear", "shutdown.kw_clear",
    "shutdown.wu_zero", "shutdown.af_clear", "shutdown.stats_clear", "shutdown.ttl_clear"];
/// While a client executes a multi-key read every load of the shutdown flag is a step of its own (`CPc.mgetFlag` of the
/// model): `multi_get` loads it at its entry and again inside every `get`; `MultiGetIterator::next` loads it and then calls
/// `get`, which loads it again. Every other call loads the flag exactly once, as part of its first action.
const MGET_STOPS: &[&str] = &["flag.load", "client.idle", "store.present", "id.next", "cmd.send", "delete.mark", "store.get", "pool.add", "wu.read",
    "upsert.update", "upsert.weight_of", "ttl.put", "ttl.delete", "ttl.update.remove", "ttl.update.insert",
    "shutdown.cas", "buf.send_shutdown", "shutdown.consumer_flag", "shutdown.ticker_flag", "shutdown.store_clear", "shutdown.kw_clear",
    "shutdown.wu_zero", "shutdown.af_clear", "shutdown.stats_clear", "shutdown.ttl_clear"];

#[derive(Clone, Debug)]
enum Req {
    PutW(u64, u64, i64, Option<u128>),
    Delete(u64),
    Get(u64),
    Weight,
    Upsert(u64, Option<u64>, Option<i64>, Option<u128>, bool),
    GetRef(u64),
    Shutdown,
    /// `put` / `put_with_ttl`: the weight comes from the installed weight function (the same programme as `PutW` in the model)
    PutFn(u64, u64, i64, Option<u128>),
    /// `map_get` / `map_get_ref`: the same programmes as `get` / `get_ref`
    MapGet(u64),
    MapGetRef(u64),
    /// multi-key reads: 0 = multi_get (distinct keys), 1 = multi_get_iterator, 2 = multi_get_map_iterator
    MGet(Vec<u64>, u8),
}

fn opt<T: std::fmt::Display>(value: &Option<T>) -> String { value.as_ref().map(|v| v.to_string()).unwrap_or("-".to_string()) }

impl Req {
    fn text(&self) -> String {
        match self {
            Req::PutW(k, v, w, t) => format!("putw {} {} {} {}", k, v, w, opt(t)),
            Req::PutFn(k, v, w, t) => format!("putw {} {} {} {} #fn", k, v, w, opt(t)),
            Req::MapGet(k) => format!("get {} #map", k),
            Req::MapGetRef(k) => format!("getref {} #map", k),
            Req::MGet(ks, variant) => format!("mget {} {} #v{}", if ks.is_empty() { "-".to_string() } else { ks.iter().map(|k| k.to_string()).collect::<Vec<_>>().join(",") }, (*variant != 0) as u8, variant),
            Req::Delete(k) => format!("delete {}", k),
            Req::Get(k) => format!("get {}", k),
            Req::Weight => "weight".to_string(),
            Req::Upsert(k, v, w, t, rm) => format!("upsert {} {} {} {} {}", k, opt(v), opt(w), opt(t), *rm as u8),
            Req::GetRef(k) => format!("getref {}", k),
            Req::Shutdown => "shutdown".to_string(),
        }
    }
}

enum CallOut { Send(Result<Arc<CommandAcknowledgement>, String>), Value(Option<u64>), Values(Vec<Option<u64>>), Weight(i64), Unit }

struct Slot {
    job: Mutex<Option<Box<dyn FnOnce(&Cache) -> CallOut + Send>>>,
    result: Mutex<Option<Result<CallOut, String>>>,
    exit: AtomicBool,
}

struct World {
    cfg: Cfg,
    cache: Arc<Cache>,
    clock: ManualClock,
    slots: Vec<Arc<Slot>>,
    threads: Vec<std::thread::JoinHandle<()>>,
    acks: Vec<Arc<CommandAcknowledgement>>,
    pending_job: Vec<bool>,          // a request was issued and its first action has not run yet
    ref_readers: Vec<(String, usize)>,   // (role, store shard) of `get_ref` guards currently kept across `pool.add`
    current_key: Vec<Option<u64>>,   // key of the request each client is executing
    is_getref: Vec<bool>,
    deferred_pool: Vec<Option<String>>,
    buf_chan_cap: usize,
    extended: bool,
    seeds: [u64; 4],
    sample_size: usize,
    ttl_entry: i64,
}

fn ns(time: &SystemTime) -> u128 { time.duration_since(UNIX_EPOCH).map(|d| d.as_nanos()).unwrap_or(0) }

impl World {
    fn new(cfg: Cfg, extended: bool) -> Result<World, String> {
        verif::reset(true, true);
        verif::set_default_stops("worker", WORKER_STOPS);
        verif::set_default_stops("sweeper", SWEEPER_STOPS);
        verif::set_default_stops("consumer", CONSUMER_STOPS);
        for client in 0..cfg.clients { verif::set_default_stops(&format!("c{}", client), CLIENT_STOPS); }
        let clock = ManualClock(Arc::new(AtomicU64::new(cfg.now)));
        let (hash_mode, wbase, wmod) = (cfg.hash, cfg.wbase, cfg.wmod);
        let (sample_size, buf_chan_cap, ttl_entry) = Cache::verif_constants();
        let ttl_entry_i = ttl_entry as i64;
        let config = ConfigBuilder::new(cfg.counters, 16, cfg.max)
            .key_hash_fn(Box::new(move |key: &u64| hash_of(hash_mode, *key)))
            .weight_calculation_fn(Box::new(move |_k: &u64, v: &u64, ttl: bool| wbase + (*v % wmod) as i64 + if ttl { ttl_entry_i } else { 0 }))
            .clock(Box::new(clock.clone()))
            .access_pool_size(cfg.pool).access_buffer_size(cfg.buf).command_buffer_size(cfg.cmdcap).shards(cfg.shards)
            .ttl_tick_duration(Duration::from_millis(1)).build();
        let cache = Arc::new(CacheD::new(config));
        for role in ["worker", "sweeper", "consumer"] {
            if crate::wait_settled_ticks(role, 0).is_none() { return Err(format!("{} did not start", role)); }
        }
        let mut slots = Vec::new();
        let mut threads = Vec::new();
        for client in 0..cfg.clients {
            let slot = Arc::new(Slot { job: Mutex::new(None), result: Mutex::new(None), exit: AtomicBool::new(false) });
            let (slot_t, cache_t, role) = (slot.clone(), cache.clone(), format!("c{}", client));
            let role_t = role.clone();
            threads.push(std::thread::Builder::new().name(role.clone()).spawn(move || {
                let _registration = verif::register(&role_t);
                loop {
                    verif::point("client.idle");
                    if slot_t.exit.load(Ordering::SeqCst) { break; }
                    let job = slot_t.job.lock().unwrap().take();
                    if let Some(job) = job {
                        let result = catch_unwind(AssertUnwindSafe(|| job(&cache_t))).map_err(panic_message);
                        *slot_t.result.lock().unwrap() = Some(result);
                    } else { std::thread::yield_now(); }
                }
            }).unwrap());
            if crate::wait_settled_ticks(&role, 0).is_none() { return Err(format!("{} did not park", role)); }
            slots.push(slot);
        }
        let seeds = cache.verif_snapshot().sketch.seeds;
        let clients = cfg.clients;
        Ok(World { cfg, cache, clock, slots, threads, acks: Vec::new(), pending_job: vec![false; clients], ref_readers: Vec::new(), current_key: vec![None; clients], is_getref: vec![false; clients], deferred_pool: vec![None; clients],
                   buf_chan_cap, extended, seeds, sample_size, ttl_entry: ttl_entry as i64 })
    }

    fn cfg_line(&self) -> String {
        format!("BC max={} shards={} cmdcap={} pool={} buf={} counters={} sample={} bufchan={} ttlentry={} hash={} wbase={} wmod={} now={} seeds={},{},{},{} clients={}",
                self.cfg.max, self.cfg.shards, self.cfg.cmdcap, self.cfg.pool, self.cfg.buf, self.cfg.counters, self.sample_size, self.buf_chan_cap, self.ttl_entry,
                self.cfg.hash, self.cfg.wbase, self.cfg.wmod, self.cfg.now, self.seeds[0], self.seeds[1], self.seeds[2], self.seeds[3], self.cfg.clients)
            + &(if self.extended { format!(" sshard={}", (0..8u64).map(|k| format!("{}:{}", k, self.cache.verif_store_shard_of(&k))).collect::<Vec<_>>().join(",")) } else { String::new() })
    }

    fn at(role: &str) -> String {
        match verif::view(role) {
            Some(view) => if view.finished { "finished".to_string() } else { view.parked_at.unwrap_or("running").to_string() },
            None => "unknown".to_string(),
        }
    }

    fn pcs(&self) -> String {
        let clients = (0..self.cfg.clients).map(|c| format!("c{}={}", c, Self::at(&format!("c{}", c)))).collect::<Vec<_>>().join(" ");
        format!("w={} s={} {}", Self::at("worker"), Self::at("sweeper"), clients)
    }

    fn held_by_other(role: &str, lock: &str) -> bool {
        verif::holds().iter().any(|(name, owner)| name == lock && owner != role)
    }

    /// Is the action thread `role` is parked before enabled? (Mirror of the enabledness conditions of LayerB.lean.)
    fn enabled(&self, role: &str) -> bool {
        let view = match verif::view(role) { Some(view) => view, None => return false };
        if view.finished { return false; }
        let at = match view.parked_at { Some(at) => at, None => return false };
        if let Some(need) = &view.need {
            if need == "wu" || need.starts_with("ttl:") { if Self::held_by_other(role, need) { return false; } }
            if need == "cmdq.room" { return !(verif::view("worker").map(|w| !w.finished).unwrap_or(false)) || self.cache.verif_command_queue_len() < self.cfg.cmdcap; }
            if need == "cmdq.item" || need == "cmdq.item_or_closed" { return self.cache.verif_command_queue_len() > 0; }
            if need == "bufq.room" { return !(verif::view("consumer").map(|c| !c.finished).unwrap_or(false)) || self.cache.verif_buffer_queue_len() < self.buf_chan_cap; }
        }
        // a `get_ref` guard kept across `pool.add` read-locks one store shard: writers of that shard wait.
        // For client actions the key (hence the shard) is known; the worker's and the sweeper's store writes are simply not
        // scheduled while any such guard is held (a restriction of the explored schedules, not of the model).
        let readers: Vec<usize> = self.ref_readers.iter().filter(|(owner, _)| owner != role).map(|(_, shard)| *shard).collect();
        if !readers.is_empty() {
            match at {
                "delete.mark" | "upsert.update" => {
                    if let Some(key) = role[1..].parse::<usize>().ok().and_then(|c| self.current_key[c]) {
                        if readers.contains(&self.cache.verif_store_shard_of(&key)) { return false; }
                    }
                }
                "store.put" | "store.remove" | "shutdown.store_clear" => return false,
                _ => {}
            }
        }
        if at == "shutdown.ttl_clear" && verif::holds().iter().any(|(name, owner)| name.starts_with("ttl:") && owner != role) { return false; }
        match at {
            "consumer.recv" => self.cache.verif_buffer_queue_len() > 0,
            "client.idle" => role.starts_with('c') && self.pending_job[role[1..].parse::<usize>().unwrap_or(0)],
            "kw.update" => !Self::held_by_other(role, "wu"),
            _ => true,
        }
    }

    /// Grants `role` one action. Returns the taps of that action.
    fn act(&mut self, role: &str) -> Result<Vec<String>, String> {
        let _ = verif::drain_taps();
        let seq = verif::grant(role).ok_or_else(|| format!("{} is not parked", role))?;
        crate::wait_settled_ticks(role, seq).ok_or_else(|| format!("{} did not reach its next schedule point after leaving {}", role, Self::at(role)))?;
        Ok(verif::drain_taps())
    }

    fn snapshot(&self) -> String {
        let (snap, total, shards) = self.cache.verif_try_snapshot();
        let mut store = snap.store.clone();
        store.sort_by_key(|entry| entry.0);
        let store_text = store.iter().map(|(k, v, id, expiry, soft)| format!("{}:{}:{}:{}:{}", k, v, id, opt(&expiry.as_ref().map(ns)), *soft as u8)).collect::<Vec<_>>().join(",");
        let mut kw = snap.key_weights.clone();
        kw.sort_by_key(|entry| entry.0);
        let kw_text = kw.iter().map(|(id, key, hash, weight)| format!("{}:{}:{}:{}", id, key, hash, weight)).collect::<Vec<_>>().join(",");
        let mut ttl: Vec<(usize, u64, u128)> = Vec::new();
        for (shard, entries) in shards.iter().enumerate() {
            if let Some(entries) = entries { for (id, expiry) in entries { ttl.push((shard, *id, ns(expiry))); } }
        }
        ttl.sort();
        let ttl_text = ttl.iter().map(|(shard, id, expiry)| format!("{}:{}:{}", shard, id, expiry)).collect::<Vec<_>>().join(",");
        let acks_text = self.acks.iter().map(|ack| { let (done, status, _) = ack.verif_peek(); if done { status_str(&status) } else { "pending".to_string() } }).collect::<Vec<_>>().join(",");
        let rows_text = snap.sketch.rows.iter().map(|row| row.iter().map(|byte| format!("{:02x}", byte)).collect::<String>()).collect::<Vec<_>>().join(";");
        let pool_text = snap.pool_buffers.iter().map(|buffer| buffer.iter().map(|h| h.to_string()).collect::<Vec<_>>().join(".")).collect::<Vec<_>>().join("|");
        let alive = |role: &str| verif::view(role).map(|view| !view.finished).unwrap_or(false);
        format!("now={} store=[{}] kw=[{}] wu={} ttl=[{}] q={} acks=[{}] incs={} rows={} pool={} bufq={} stats={} shut={} worker={} consumer={} sweeper={}",
            self.clock.0.load(Ordering::SeqCst), store_text, kw_text, total.map(|t| t.to_string()).unwrap_or("locked".to_string()), ttl_text,
            if alive("worker") { snap.command_queue_len.to_string() } else { "-".to_string() }, acks_text, snap.sketch.total_increments, rows_text, pool_text,
            if alive("consumer") { snap.buffer_queue_len.to_string() } else { "-".to_string() },
            snap.stats.iter().map(|v| v.to_string()).collect::<Vec<_>>().join(","), snap.is_shutting_down as u8,
            alive("worker") as u8, alive("consumer") as u8, alive("sweeper") as u8)
    }

    fn issue(&mut self, client: usize, req: &Req) {
        let req_copy = req.clone();
        let req = req.clone();
        *self.slots[client].job.lock().unwrap() = Some(Box::new(move |cache: &Cache| match req {
            Req::PutW(k, v, w, None) => CallOut::Send(cache.put_with_weight(k, v, w).map_err(|e| e.to_string())),
            Req::PutW(k, v, w, Some(t)) => CallOut::Send(cache.put_with_weight_and_ttl(k, v, w, duration_of(t)).map_err(|e| e.to_string())),
            Req::Delete(k) => CallOut::Send(cache.delete(k).map_err(|e| e.to_string())),
            Req::Get(k) => CallOut::Value(cache.get(&k)),
            Req::GetRef(k) => CallOut::Value(cache.get_ref(&k).map(|reference| reference.value().value())),
            Req::PutFn(k, v, _, None) => CallOut::Send(cache.put(k, v).map_err(|e| e.to_string())),
            Req::PutFn(k, v, _, Some(t)) => CallOut::Send(cache.put_with_ttl(k, v, duration_of(t)).map_err(|e| e.to_string())),
            Req::MapGet(k) => CallOut::Value(cache.map_get(&k, |value| value + 1_000_000).map(|value| value - 1_000_000)),
            Req::MapGetRef(k) => CallOut::Value(cache.map_get_ref(&k, |stored| stored.value() + 1_000_000).map(|value| value - 1_000_000)),
            Req::MGet(ks, variant) => {
                let refs: Vec<&u64> = ks.iter().collect();
                CallOut::Values(match variant {
                    0 => { let map = cache.multi_get(refs); if map.is_empty() { vec![] } else { ks.iter().map(|k| map.get(k).cloned().flatten()).collect() } }
                    1 => cache.multi_get_iterator(refs).collect(),
                    _ => cache.multi_get_map_iterator(refs, |value| value + 1_000_000).map(|value| value.map(|value| value - 1_000_000)).collect(),
                })
            }
            Req::Shutdown => { cache.shutdown(); CallOut::Unit }
            Req::Weight => CallOut::Weight(cache.total_weight_used()),
            Req::Upsert(k, v, w, t, rm) => {
                let mut builder = PutOrUpdateRequestBuilder::new(k);
                if let Some(v) = v { builder = builder.value(v); }
                if let Some(w) = w { builder = builder.weight(w); }
                if let Some(t) = t { builder = builder.time_to_live(duration_of(t)); }
                if rm { builder = builder.remove_time_to_live(); }
                CallOut::Send(cache.put_or_update(builder.build()).map_err(|e| e.to_string()))
            }
        }));
        self.pending_job[client] = true;
        // the client is parked at `client.idle`: the stop list it consults from its next schedule point on
        verif::set_stops(&format!("c{}", client), false, if matches!(req_copy, Req::MGet(..)) { MGET_STOPS } else { CLIENT_STOPS });
        self.current_key[client] = match req_copy { Req::PutW(k, ..) | Req::PutFn(k, ..) | Req::Delete(k) | Req::Get(k) | Req::MapGet(k) | Req::GetRef(k) | Req::MapGetRef(k) | Req::Upsert(k, ..) => Some(k), _ => None };
        self.is_getref[client] = matches!(req_copy, Req::GetRef(_) | Req::MapGetRef(_));
    }

    /// the result of a call that has just completed on client `c`, rendered like the model's `Out`
    fn take_result(&mut self, client: usize) -> Option<String> {
        let result = self.slots[client].result.lock().unwrap().take()?;
        Some(match result {
            Err(message) => format!("panic {}", classify_panic(&message)),
            Ok(CallOut::Send(Err(_))) => "err".to_string(),
            Ok(CallOut::Send(Ok(ack))) => {
                let (done, status, _) = ack.verif_peek();
                self.acks.push(ack);
                format!("ack {} {}", self.acks.len() - 1, if done { status_str(&status) } else { "pending".to_string() })
            }
            Ok(CallOut::Value(value)) => format!("value {}", opt(&value)),
            Ok(CallOut::Values(values)) => format!("values {}", values.iter().map(opt).collect::<Vec<_>>().join(",")),
            Ok(CallOut::Weight(weight)) => format!("weight {}", weight),
            Ok(CallOut::Unit) => "none".to_string(),
        })
    }

    fn finish(self) -> Result<(), String> {
        for slot in &self.slots { slot.exit.store(true, Ordering::SeqCst); }
        verif::release_all();
        let World { cache, threads, acks, .. } = self;
        let done = Arc::new(AtomicBool::new(false));
        { let (cache, done) = (cache.clone(), done.clone()); std::thread::spawn(move || { cache.shutdown(); done.store(true, Ordering::SeqCst); }); }
        crate::wait_until_ticks(|| done.load(Ordering::SeqCst));
        if !done.load(Ordering::SeqCst) { return Err("shutdown() at the end of the case did not return".to_string()); }
        for thread in threads { let _ = thread.join(); }
        drop(acks);
        drop(cache);
        for role in ["worker", "sweeper", "consumer"] {
            if !crate::wait_until_ticks(|| !verif::view(role).map(|view| !view.finished).unwrap_or(false)) { return Err(format!("{} did not exit", role)); }
        }
        Ok(())
    }
}

fn oracle_of(taps: &[String], deferred_pool: &mut Option<String>, is_client: bool) -> (String, Option<String>) {
    let (mut dk, mut dkadd, mut ids, mut pops) = (vec![], vec![], vec![], vec![]);
    let mut pool_now: Option<String> = None;
    let mut visit = None;
    for tap in taps {
        let tokens: Vec<&str> = tap.split(' ').collect();
        match tokens[0] {
            "dk.has" => dk.push(if tokens[2] == "true" { "1" } else { "0" }.to_string()),
            "dk.add" => dkadd.push(if tokens[2] == "true" { "1" } else { "0" }.to_string()),
            "sample.init" | "sample.fill" => ids.push(tokens[1].to_string()),
            "sample.pop" => pops.push(if tokens[1] == "none" { "-".to_string() } else { tokens[1].to_string() }),
            "pool.idx" => pool_now = Some(tokens[1].to_string()),
            "sweep.visit" => visit = Some(tokens[1].to_string()),
            _ => {}
        }
    }
    let mut oracle = String::new();
    for (name, values) in [("dk", &dk), ("dkadd", &dkadd), ("ids", &ids), ("pops", &pops)] {
        if !values.is_empty() { oracle.push_str(&format!(" {}={}", name, values.join(","))); }
    }
    if is_client {
        // the buffer index is chosen (and tapped) just before the `pool.add` point: it belongs to the NEXT action of this client
        if let Some(index) = deferred_pool.take() { oracle.push_str(&format!(" pool={}", index)); }
        *deferred_pool = pool_now;
    }
    (oracle, visit)
}

enum Choice { Issue(usize, Req), Advance(u64), Role(String) }

/// Performs one chosen step on the real cache and prints it (event line with the oracle taps; result, positions, snapshot).
fn perform(world: &mut World, choice: &Choice, sink: &mut Sink) -> Result<(), String> {
    let (line, taps, finished_client): (String, Vec<String>, Option<usize>) = match choice {
        Choice::Issue(client, req) => {
            world.issue(*client, req);
            (format!("B issue {} {}", client, req.text()), vec![], None)
        }
        Choice::Advance(delta) => {
            world.clock.0.fetch_add(*delta, Ordering::SeqCst);
            (format!("B advance {}", delta), vec![], None)
        }
        Choice::Role(role) => {
            let role = role.as_str();
            let is_client = role.starts_with('c') && role != "consumer";
            if is_client { let c: usize = role[1..].parse().unwrap(); if World::at(role) == "client.idle" { world.pending_job[c] = false; } }
            let was_at = World::at(role);
            let taps = world.act(role)?;
            if is_client {
                let c: usize = role[1..].parse().unwrap();
                if world.is_getref[c] {
                    if was_at == "store.get" && World::at(role) == "pool.add" {
                        let shard = world.cache.verif_store_shard_of(&world.current_key[c].unwrap_or(0));
                        world.ref_readers.push((role.to_string(), shard));
                    } else if was_at == "pool.add" {
                        world.ref_readers.retain(|(owner, _)| owner != role);
                    }
                }
            }
            let name = if is_client { format!("client {}", &role[1..]) } else { role.to_string() };
            (format!("B {}", name), taps, if is_client { Some(role[1..].parse().unwrap()) } else { None })
        }
    };
    let (mut oracle, visit) = match finished_client {
        Some(c) => { let mut deferred = world.deferred_pool[c].take(); let r = oracle_of(&taps, &mut deferred, true); world.deferred_pool[c] = deferred; r }
        None => { let mut none = None; oracle_of(&taps, &mut none, false) }
    };
    if line == "B sweeper" { if let Some(id) = visit { oracle.push_str(&format!(" visit={}", id)); } }
    let result = match finished_client {
        Some(c) if World::at(&format!("c{}", c)) == "client.idle" => world.take_result(c).map(|r| format!("c{}:{}", c, r)).unwrap_or("-".to_string()),
        _ => "-".to_string(),
    };
    writeln!(sink.input, "{}{}", line, oracle).unwrap();
    writeln!(sink.implementation, "R {} | {} | {}", result, world.pcs(), world.snapshot()).unwrap();
    Ok(())
}

fn parse_opt<T: std::str::FromStr>(text: &str) -> Option<T> { if text == "-" { None } else { text.parse().ok() } }

fn parse_req(tokens: &[&str]) -> Option<Req> {
    Some(match (tokens.first().copied()?, tokens.len()) {
        ("putw", 5) => Req::PutW(tokens[1].parse().ok()?, tokens[2].parse().ok()?, tokens[3].parse().ok()?, parse_opt(tokens[4])),
        ("putw", 6) if tokens[5] == "#fn" => Req::PutFn(tokens[1].parse().ok()?, tokens[2].parse().ok()?, tokens[3].parse().ok()?, parse_opt(tokens[4])),
        ("get", 3) if tokens[2] == "#map" => Req::MapGet(tokens[1].parse().ok()?),
        ("mget", 4) => Req::MGet(tokens[1].split(',').filter(|t| !t.is_empty() && *t != "-").map(|t| t.parse().ok()).collect::<Option<Vec<u64>>>()?, tokens[3].trim_start_matches("#v").parse().ok()?),
        ("mget", 3) => Req::MGet(tokens[1].split(',').filter(|t| !t.is_empty() && *t != "-").map(|t| t.parse().ok()).collect::<Option<Vec<u64>>>()?, (tokens[2] != "0") as u8),
        ("getref", 3) if tokens[2] == "#map" => Req::MapGetRef(tokens[1].parse().ok()?),
        ("delete", 2) => Req::Delete(tokens[1].parse().ok()?),
        ("get", 2) => Req::Get(tokens[1].parse().ok()?),
        ("getref", 2) => Req::GetRef(tokens[1].parse().ok()?),
        ("weight", 1) => Req::Weight,
        ("shutdown", 1) => Req::Shutdown,
        ("upsert", 6) => Req::Upsert(tokens[1].parse().ok()?, parse_opt(tokens[2]), parse_opt(tokens[3]), parse_opt(tokens[4]), tokens[5] == "1"),
        _ => return None,
    })
}

/// Replays recorded Layer B histories (`BC` line, then `B` lines; the oracle suffixes are ignored — they are re-tapped):
/// the SCHEDULE is replayed exactly, action by action. A step whose thread is not enabled (or not where the recording
/// had it) ends the case there: the prefix is still a genuine history of the real crate.
pub fn run_script(path: &str, out: &str) -> bool {
    let text = match std::fs::read_to_string(path) { Ok(text) => text, Err(_) => return false };
    let mut sink = Sink::new(out);
    let mut cases: Vec<Vec<String>> = Vec::new();
    for line in text.lines() {
        if line.starts_with("# case") || cases.is_empty() { cases.push(Vec::new()); }
        cases.last_mut().unwrap().push(line.to_string());
    }
    for lines in cases {
        let cfg_line = match lines.iter().find(|l| l.starts_with("BC ")) { Some(line) => line.clone(), None => continue };
        let field = |name: &str| -> Option<String> { cfg_line.split(' ').find_map(|t| t.strip_prefix(&format!("{}=", name)).map(|v| v.to_string())) };
        let num = |name: &str| -> u64 { field(name).and_then(|v| v.parse().ok()).unwrap_or(0) };
        let cfg = Cfg { max: field("max").and_then(|v| v.parse().ok()).unwrap_or(10), shards: num("shards") as usize, cmdcap: num("cmdcap") as usize, pool: num("pool") as usize, buf: num("buf") as usize,
            counters: num("counters"), hash: num("hash"), wbase: num("wbase") as i64, wmod: num("wmod").max(1), now: num("now"), clients: num("clients").max(1) as usize };
        let extended = cfg_line.contains(" sshard=");
        let header = lines.iter().find(|l| l.starts_with("# case")).cloned().unwrap_or("# case conc script".to_string());
        sink.both(&header);
        let mut world = match World::new(cfg.clone(), extended) { Ok(world) => world, Err(why) => { sink.both(&format!("# engine-start-failed {}", why)); sink.flush(); return false; } };
        writeln!(sink.input, "{}", world.cfg_line()).unwrap();
        writeln!(sink.implementation, "R init | {} | {}", world.pcs(), world.snapshot()).unwrap();
        let mut hang = None;
        for line in lines.iter().filter(|l| l.starts_with("B ")) {
            // the variant markers of a request (`#fn`, `#map`, `#v<n>`) belong to it; any other `#…` token is a comment
            let tokens: Vec<&str> = line.split(' ').filter(|t| !t.contains('=') && (!t.starts_with('#') || *t == "#fn" || *t == "#map" || (t.starts_with("#v") && t[2..].parse::<u8>().is_ok()))).collect();
            let choice = match tokens.get(1).copied() {
                Some("issue") => match (tokens.get(2).and_then(|c| c.parse::<usize>().ok()), parse_req(&tokens[3.min(tokens.len())..])) {
                    (Some(client), Some(req)) if client < cfg.clients && !world.pending_job[client] && World::at(&format!("c{}", client)) == "client.idle" => Choice::Issue(client, req),
                    _ => { sink.both(&format!("# script-cut {}", line.replace(' ', "_"))); break; }
                },
                Some("advance") => Choice::Advance(tokens.get(2).and_then(|d| d.parse().ok()).unwrap_or(0)),
                Some("client") => Choice::Role(format!("c{}", tokens.get(2).copied().unwrap_or("0"))),
                Some(role @ ("worker" | "sweeper" | "consumer")) => Choice::Role(role.to_string()),
                _ => { sink.both(&format!("# script-cut {}", line.replace(' ', "_"))); break; }
            };
            if let Choice::Role(role) = &choice { if !world.enabled(role) { sink.both(&format!("# script-cut {}", line.replace(' ', "_"))); break; } }
            if let Err(why) = perform(&mut world, &choice, &mut sink) { hang = Some(why); break; }
        }
        if let Some(why) = hang {
            sink.both(&format!("# hang {}", why.replace(' ', "_")));
            sink.flush();
            std::process::exit(3);
        }
        let panics: Vec<String> = std::mem::take(&mut *crate::PANIC_LOG.lock().unwrap());
        for panic in panics { sink.both(&format!("# panic {}", panic)); }
        if let Err(why) = world.finish() { sink.both(&format!("# hang at-finish {}", why.replace(' ', "_"))); sink.flush(); std::process::exit(3); }
    }
    sink.flush();
    true
}

/// Runs every thread that is enabled (never `frozen`; the sweeper only while it is in the middle of a sweep) until nothing
/// more can move. Threads are taken in a fixed order: the point of the race templates is the ONE chosen pre-emption.
fn settle(world: &mut World, sink: &mut Sink, frozen: Option<&str>) -> Result<(), String> {
    for _ in 0..400 {
        crate::beat(None);
        let mut roles: Vec<String> = (0..world.cfg.clients).map(|c| format!("c{}", c)).collect();
        roles.push("worker".to_string());
        roles.push("consumer".to_string());
        if World::at("sweeper") != "sweep.begin" { roles.push("sweeper".to_string()); }
        let next = roles.into_iter().find(|role| Some(role.as_str()) != frozen && world.enabled(role));
        match next { Some(role) => perform(world, &Choice::Role(role), sink)?, None => return Ok(()) }
    }
    Ok(())
}

/// One request of the race alphabet on `key`.
fn race_request(rng: &mut Rng, key: u64, value: u64, max: i64, reads: bool) -> Req {
    let ttl = rng.pick(&[1_000_000_000u128, 1_000_000_000, 2_000_000_000, 3_000_000_000, 1]);
    let weight = if rng.chance(4) { rng.pick(&[0i64, -1]) } else { rng.pick(&[1i64, 2, 3, 3, 24, 25, max / 2 + 1, max]) };   // now and then a weight the documented assertion refuses; 24 / 25: what a removed time-to-live leaves of them
    let positive = weight.max(1);
    match rng.below(if reads { 16 } else { 12 }) {
        0 | 1 => Req::PutW(key, value, weight, None),
        2 | 3 => Req::PutW(key, value, weight, Some(ttl)),
        4 | 5 => Req::Delete(key),
        6 => Req::Upsert(key, Some(value), None, None, false),
        7 => Req::Upsert(key, Some(value), Some(positive), None, false),
        8 | 9 => Req::Upsert(key, Some(value).filter(|_| rng.chance(30)), None, Some(ttl), false),
        10 => Req::Upsert(key, Some(value).filter(|_| rng.chance(30)), None, None, true),
        11 => Req::Upsert(key, None, Some(positive), Some(ttl).filter(|_| rng.chance(50)), false),
        12 => Req::Get(key),
        13 => Req::GetRef(key),
        14 => { let variant = rng.below(3) as u8; Req::MGet(if variant == 0 { vec![key, 1 - key.min(1)] } else { vec![key, 1 - key.min(1), key] }, variant) }   // the map-returning variant gets distinct keys
        _ => Req::Weight,
    }
}

/// Directed race templates (`--profile race`): the random scheduler above reaches a long race — one thread held in the
/// middle of its programme while SEVERAL complete calls on the same key go by — only rarely. Here every case is built
/// around one such window: a short set-up on a hot key, one victim thread (the sweeper inside an eviction, the worker
/// inside a command, a client inside a call) advanced to a chosen position and frozen, one to three complete calls of other
/// clients (mostly on the hot key) with everything else running to completion, then the victim released, a sweep, and reads.
pub fn run_race(seed: u64, out: &str, args: &[String]) -> bool {
    let cases: u64 = args.iter().position(|a| a == "--cases").and_then(|i| args.get(i + 1)).and_then(|s| s.parse().ok()).unwrap_or(10);
    let mut sink = Sink::new(out);
    for case in 0..cases {
        let case_seed = seed.wrapping_mul(1_000_003).wrapping_add(case);
        let mut rng = Rng::new(case_seed ^ 0xACE);
        let max = rng.pick(&[6i64, 10, 10, 20]);
        let cfg = Cfg { max, shards: rng.pick(&[2usize, 2, 4]), cmdcap: rng.pick(&[2usize, 4, 64]), pool: 1, buf: rng.pick(&[1usize, 2]), counters: 10, hash: 0, wbase: 1, wmod: 1,
            now: rng.pick(&[1_000u64 * 1_000_000_000, 1_000 * 1_000_000_000 + 999_999_999]), clients: 3 };
        sink.both(&format!("# case race seed={}", case_seed));
        let mut world = match World::new(cfg.clone(), true) { Ok(world) => world, Err(why) => { sink.both(&format!("# engine-start-failed {}", why)); sink.flush(); return false; } };
        writeln!(sink.input, "{}", world.cfg_line()).unwrap();
        writeln!(sink.implementation, "R init | {} | {}", world.pcs(), world.snapshot()).unwrap();
        let mut value = 100u64;
        let hot = 0u64;
        let result: Result<(), String> = (|| {
            // template "read window" (every seventh case): a key with a deadline, a READ caught in the middle, the clock carried
            // past the deadline, the read released — every value it then returns must be alive at the moment of its own lookup
            if rng.chance(15) {
                let ttl = rng.pick(&[1_000_000_000u128, 2_000_000_000]);
                perform(&mut world, &Choice::Issue(1, Req::PutW(hot, 101, 2, Some(ttl))), &mut sink)?;
                settle(&mut world, &mut sink, None)?;
                if rng.chance(50) { perform(&mut world, &Choice::Issue(1, Req::PutW(1, 102, 2, Some(ttl))), &mut sink)?; settle(&mut world, &mut sink, None)?; }
                let req = match rng.below(4) { 0 => Req::Get(hot), 1 => Req::GetRef(hot), _ => Req::MGet(if rng.chance(50) { vec![1, hot, hot] } else { vec![hot, 1, hot] }, 1 + rng.below(2) as u8) };
                perform(&mut world, &Choice::Issue(0, req), &mut sink)?;
                for _ in 0..(1 + rng.below(4)) {
                    if !world.enabled("c0") { break; }
                    perform(&mut world, &Choice::Role("c0".to_string()), &mut sink)?;
                    if World::at("c0") == "client.idle" { break; }
                }
                perform(&mut world, &Choice::Advance(ttl as u64 + rng.pick(&[0u64, 1, 1, 1_000_000_000])), &mut sink)?;
                if rng.chance(30) && world.enabled("sweeper") { perform(&mut world, &Choice::Role("sweeper".to_string()), &mut sink)?; }
                settle(&mut world, &mut sink, None)?;
                for req in [Req::Get(hot), Req::MGet(vec![hot, 1], 1), Req::Weight] {
                    perform(&mut world, &Choice::Issue(1, req), &mut sink)?;
                    settle(&mut world, &mut sink, None)?;
                }
                return Ok(());
            }
            // template "eviction window" (every eighth case): a key whose deadline has passed, the sweeper caught INSIDE its
            // eviction (after the visit, after the re-validation and the ledger step, or holding weight_used before the store step),
            // one or two complete calls on that key (an upsert reviving it, a delete and a new put, a plain put), the sweeper released
            if rng.chance(12) {
                let ttl = rng.pick(&[1_000_000_000u128, 2_000_000_000]);
                perform(&mut world, &Choice::Issue(1, Req::PutW(hot, 101, rng.pick(&[2i64, 3, 30.min(max)]), Some(ttl))), &mut sink)?;
                settle(&mut world, &mut sink, None)?;
                if rng.chance(30) { perform(&mut world, &Choice::Issue(1, Req::PutW(1, 102, 2, None)), &mut sink)?; settle(&mut world, &mut sink, None)?; }
                // carry the clock past the deadline, to a second whose shard is the deadline's
                perform(&mut world, &Choice::Advance(ttl as u64 + 1), &mut sink)?;
                let depth = 1 + rng.below(4);   // 1: at the visit, 2: before kw.remove (the re-validation), 3: before wu.sub, 4: before store.remove
                for _ in 0..depth {
                    if !world.enabled("sweeper") { break; }
                    perform(&mut world, &Choice::Role("sweeper".to_string()), &mut sink)?;
                    if World::at("sweeper") == "sweep.begin" { break; }
                }
                for round in 0..(1 + rng.below(2)) {
                    let client = 1 + (round as usize % 2);
                    if world.pending_job[client] || World::at(&format!("c{}", client)) != "client.idle" { continue; }
                    value += 1;
                    let other_ttl = rng.pick(&[1_000_000_000u128, 2_000_000_000, 3_000_000_000]);
                    let req = match rng.below(6) {
                        0 => Req::Upsert(hot, None, None, Some(other_ttl), false),
                        1 => Req::Upsert(hot, Some(value), None, Some(other_ttl), false),
                        2 => Req::Upsert(hot, None, None, None, true),
                        3 => Req::Upsert(hot, Some(value), None, None, false),
                        4 => Req::Delete(hot),
                        _ => Req::PutW(hot, value, 2, if rng.chance(50) { Some(other_ttl) } else { None }),
                    };
                    perform(&mut world, &Choice::Issue(client, req), &mut sink)?;
                    settle(&mut world, &mut sink, Some("sweeper"))?;
                }
                settle(&mut world, &mut sink, None)?;
                for req in [Req::Get(hot), Req::Weight] {
                    if world.pending_job[1] || World::at("c1") != "client.idle" { break; }
                    perform(&mut world, &Choice::Issue(1, req), &mut sink)?;
                    settle(&mut world, &mut sink, None)?;
                }
                return Ok(());
            }
            // template "flag window" (every tenth case): a multi-key read (all three variants) caught somewhere in its programme —
            // mostly BETWEEN two consecutive loads of the shutdown flag (after the load of `next()` / of `multi_get`'s entry and
            // before the load inside `get`; or after one key is done and before the next load) — while another client runs
            // `shutdown()` up to and including its compare-and-swap; then the read is released. The `get` that finds the flag set
            // answers `None` without a lookup (no miss is counted); the iterators end at their own next load.
            if rng.chance(10) {
                perform(&mut world, &Choice::Issue(1, Req::PutW(hot, 101, 2, None)), &mut sink)?;
                settle(&mut world, &mut sink, None)?;
                if rng.chance(60) { perform(&mut world, &Choice::Issue(1, Req::PutW(1, 102, 2, None)), &mut sink)?; settle(&mut world, &mut sink, None)?; }
                let variant = rng.below(3) as u8;
                let keys = match (variant, rng.below(3)) { (_, 0) => vec![hot], (0, _) | (_, 1) => vec![hot, 1], _ => vec![hot, 1, hot] };
                perform(&mut world, &Choice::Issue(0, Req::MGet(keys, variant)), &mut sink)?;
                // 2: between the outer load and the load inside the first `get`; 1: before the very first load; more: further in
                let depth = rng.pick(&[2u64, 2, 2, 1, 3, 4, 5, 6, 7, 8]);
                for _ in 0..depth {
                    if !world.enabled("c0") || World::at("c0") == "client.idle" && !world.pending_job[0] { break; }
                    perform(&mut world, &Choice::Role("c0".to_string()), &mut sink)?;
                }
                // mostly the window is closed on a load: go on to the next `flag.load` the read reaches
                if rng.chance(70) {
                    for _ in 0..3 {
                        if World::at("c0") == "flag.load" || World::at("c0") == "client.idle" || !world.enabled("c0") { break; }
                        perform(&mut world, &Choice::Role("c0".to_string()), &mut sink)?;
                    }
                }
                perform(&mut world, &Choice::Issue(1, Req::Shutdown), &mut sink)?;
                for _ in 0..2 { if world.enabled("c1") { perform(&mut world, &Choice::Role("c1".to_string()), &mut sink)?; } }   // to `shutdown.cas`, then the CAS itself
                if rng.chance(50) { settle(&mut world, &mut sink, Some("c1"))?; }   // the read finishes while shutdown() stands right after its CAS
                settle(&mut world, &mut sink, None)?;
                for req in [Req::MGet(vec![hot, 1], rng.below(3) as u8), Req::Get(hot), Req::Weight] {
                    if world.pending_job[2] || World::at("c2") != "client.idle" { break; }
                    perform(&mut world, &Choice::Issue(2, req), &mut sink)?;
                    settle(&mut world, &mut sink, None)?;
                }
                return Ok(());
            }
            // 1. set-up: complete calls on the hot key (and sometimes a neighbour), then perhaps the clock past a deadline
            for _ in 0..rng.below(4) {
                value += 1;
                let key = if rng.chance(85) { hot } else { 1 };
                let req = race_request(&mut rng, key, value, max, false);
                perform(&mut world, &Choice::Issue(1, req), &mut sink)?;
                settle(&mut world, &mut sink, None)?;
            }
            if rng.chance(60) { perform(&mut world, &Choice::Advance(rng.pick(&[1u64, 1_000_000_000, 1_000_000_001, 2_000_000_001, 3_000_000_001])), &mut sink)?; }
            // 2. the victim, advanced into its programme and frozen there
            let victim = rng.pick(&["sweeper", "sweeper", "sweeper", "worker", "worker", "worker", "c0", "c0", "consumer"]).to_string();
            let depth = 1 + rng.below(8);
            match victim.as_str() {
                "sweeper" => {
                    for _ in 0..depth {
                        if !world.enabled("sweeper") { break; }
                        perform(&mut world, &Choice::Role("sweeper".to_string()), &mut sink)?;
                        if World::at("sweeper") == "sweep.begin" { break; }
                    }
                }
                "consumer" => {
                    // the consumer stands still while reads fill the buffers and the hand-over queue
                    for _ in 0..(2 + rng.below(8)) {
                        if world.pending_job[0] || World::at("c0") != "client.idle" { break; }
                        perform(&mut world, &Choice::Issue(0, Req::Get(if rng.chance(80) { hot } else { 1 })), &mut sink)?;
                        settle(&mut world, &mut sink, Some("consumer"))?;
                    }
                }
                "worker" => {
                    value += 1;
                    let req = race_request(&mut rng, hot, value, max, false);
                    perform(&mut world, &Choice::Issue(0, req), &mut sink)?;
                    settle(&mut world, &mut sink, Some("worker"))?;
                    for _ in 0..depth {
                        if !world.enabled("worker") { break; }
                        perform(&mut world, &Choice::Role("worker".to_string()), &mut sink)?;
                        if World::at("worker") == "worker.recv" { break; }
                    }
                }
                _ => {
                    value += 1;
                    let req = if rng.chance(25) { Req::MGet(vec![hot, 1, hot], 1 + rng.below(2) as u8) } else { race_request(&mut rng, hot, value, max, true) };
                    perform(&mut world, &Choice::Issue(0, req), &mut sink)?;
                    for _ in 0..depth {
                        if !world.enabled("c0") { break; }
                        perform(&mut world, &Choice::Role("c0".to_string()), &mut sink)?;
                        if World::at("c0") == "client.idle" { break; }
                    }
                }
            }
            // a call caught in the middle sees the clock move on (a read holding an earlier reading of the clock would serve
            // a value whose deadline passes meanwhile)
            if victim == "c0" && rng.chance(50) { perform(&mut world, &Choice::Advance(rng.pick(&[1_000_000_000u64, 1_000_000_001, 2_000_000_001, 3_000_000_001])), &mut sink)?; }
            // 3. complete calls of the other clients while the victim stands still
            for round in 0..(1 + rng.below(3)) {
                let client = 1 + (round as usize % 2);
                if world.pending_job[client] || World::at(&format!("c{}", client)) != "client.idle" { continue; }
                value += 1;
                let key = if rng.chance(85) { hot } else { 1 };
                // now and then `shutdown()` is one of the calls that go by (all of it, or stopped a few actions in)
                let req = if rng.chance(if victim == "consumer" { 40 } else { 6 }) { Req::Shutdown } else { race_request(&mut rng, key, value, max, true) };
                let partial = matches!(req, Req::Shutdown) && rng.chance(50);
                perform(&mut world, &Choice::Issue(client, req), &mut sink)?;
                if partial {
                    let role = format!("c{}", client);
                    for _ in 0..(1 + rng.below(11)) { if !world.enabled(&role) { break; } perform(&mut world, &Choice::Role(role.clone()), &mut sink)?; }
                    if victim == "consumer" && world.enabled("consumer") { perform(&mut world, &Choice::Role("consumer".to_string()), &mut sink)?; }
                }
                settle(&mut world, &mut sink, Some(victim.as_str()))?;
                if rng.chance(15) { perform(&mut world, &Choice::Advance(rng.pick(&[1u64, 1_000_000_000, 2_000_000_001])), &mut sink)?; }
                if victim != "sweeper" && rng.chance(15) && world.enabled("sweeper") {
                    perform(&mut world, &Choice::Role("sweeper".to_string()), &mut sink)?;
                    settle(&mut world, &mut sink, Some(victim.as_str()))?;
                }
            }
            // 4. the victim is released; everything runs out; one sweep per shard of the next seconds
            settle(&mut world, &mut sink, None)?;
            for _ in 0..rng.below(3) {
                perform(&mut world, &Choice::Advance(1_000_000_000), &mut sink)?;
                if world.enabled("sweeper") { perform(&mut world, &Choice::Role("sweeper".to_string()), &mut sink)?; }
                settle(&mut world, &mut sink, None)?;
            }
            // ... and every deadline the race has left behind is visited: the clock is carried just past each deadline held by the
            // expiry index or by a stored value (they may differ: that is what the races are about), and the shard of that second
            // is swept — an index entry out of step with its stored value is then either re-validated or shows its damage
            if rng.chance(60) {
                let now = world.clock.0.load(Ordering::SeqCst) as u128;
                let (snap, _, shards) = world.cache.verif_try_snapshot();
                let mut deadlines: Vec<u128> = shards.iter().flatten().flat_map(|entries| entries.iter().map(|(_, expiry)| ns(expiry))).collect();
                deadlines.extend(snap.store.iter().filter_map(|entry| entry.3.as_ref().map(ns)));
                deadlines.retain(|deadline| *deadline >= now && *deadline - now < 5_000_000_000_000);
                deadlines.sort();
                deadlines.dedup();
                for deadline in deadlines.into_iter().take(3) {
                    let now = world.clock.0.load(Ordering::SeqCst) as u128;
                    if deadline + 1 > now { perform(&mut world, &Choice::Advance((deadline + 1 - now) as u64), &mut sink)?; }
                    if world.enabled("sweeper") { perform(&mut world, &Choice::Role("sweeper".to_string()), &mut sink)?; }
                    settle(&mut world, &mut sink, None)?;
                }
            }
            // 5. what a caller sees afterwards
            for req in [Req::Get(hot), Req::Get(1), Req::Weight] {
                if world.pending_job[1] || World::at("c1") != "client.idle" { break; }
                perform(&mut world, &Choice::Issue(1, req), &mut sink)?;
                settle(&mut world, &mut sink, None)?;
            }
            Ok(())
        })();
        sink.flush();
        if let Err(why) = result {
            sink.both(&format!("# hang {}", why.replace(' ', "_")));
            sink.flush();
            std::process::exit(3);
        }
        let panics: Vec<String> = std::mem::take(&mut *crate::PANIC_LOG.lock().unwrap());
        for panic in panics { sink.both(&format!("# panic {}", panic)); }
        if let Err(why) = world.finish() { sink.both(&format!("# hang at-finish {}", why.replace(' ', "_"))); sink.flush(); std::process::exit(3); }
    }
    sink.flush();
    true
}

pub fn run(seed: u64, out: &str, args: &[String]) -> bool {
    let extended = args.iter().any(|a| a == "--ext");
    if args.iter().position(|a| a == "--profile").and_then(|i| args.get(i + 1)).map(|p| p == "race").unwrap_or(false) { return run_race(seed, out, args); }
    let cases: u64 = args.iter().position(|a| a == "--cases").and_then(|i| args.get(i + 1)).and_then(|s| s.parse().ok()).unwrap_or(10);
    let mut sink = Sink::new(out);
    for case in 0..cases {
        let case_seed = seed.wrapping_mul(1_000_003).wrapping_add(case);
        let mut rng = Rng::new(case_seed ^ 0xB0B);
        let max = rng.pick(&[6i64, 10, 20, 60]);
        let cfg = Cfg {
            max, shards: rng.pick(&[2usize, 2, 4]), cmdcap: rng.pick(&[1usize, 2, 4, 64]), pool: rng.pick(&[1usize, 2]), buf: rng.pick(&[1usize, 2, 3]),
            counters: rng.pick(&[2u64, 3, 10, 16]), hash: rng.pick(&[0u64, 0, 1]), wbase: 1, wmod: rng.pick(&[1u64, 3]),
            now: rng.pick(&[1_000u64 * 1_000_000_000, 1_000 * 1_000_000_000 + 999_999_999]), clients: rng.pick(&[2usize, 3]),
        };
        sink.both(&format!("# case conc seed={}", case_seed));
        let mut world = match World::new(cfg.clone(), extended) { Ok(world) => world, Err(why) => { sink.both(&format!("# engine-start-failed {}", why)); sink.flush(); return false; } };
        writeln!(sink.input, "{}", world.cfg_line()).unwrap();
        writeln!(sink.implementation, "R init | {} | {}", world.pcs(), world.snapshot()).unwrap();
        let keys = rng.pick(&[2u64, 3, 4]);
        let length = 60 + rng.below(240);
        let mut next_value = 100u64;
        let mut hang = None;
        let mut step = 0;
        let mut quiet_rounds = 0;
        let mut shutdown_done = false;
        let mut mget_before_shutdown = false;
        let mut stalled: Option<(String, u64)> = None;
        let shutdown_at: Option<u64> = if extended && rng.chance(35) { Some(length * (40 + rng.below(50)) / 100) } else { None };
        while hang.is_none() {
            sink.flush();
            crate::beat(None);
            let winding_down = step >= length;
            // candidate actions
            let mut candidates: Vec<String> = Vec::new();
            for role in ["worker", "sweeper", "consumer"] { if world.enabled(role) { candidates.push(role.to_string()); } }
            for client in 0..cfg.clients { let role = format!("c{}", client); if world.enabled(&role) { candidates.push(role); } }
            let idle: Vec<usize> = (0..cfg.clients).filter(|c| !world.pending_job[*c] && World::at(&format!("c{}", c)) == "client.idle").collect();
            // long races: now and then one thread is held back for many actions in a row, wherever it stands (e.g. the sweeper
            // between two steps of an eviction while a whole delete and a whole put of the same key go by)
            if let Some((role, until)) = stalled.clone() {
                if step >= until || winding_down { stalled = None; }
                else if candidates.len() > 1 || !idle.is_empty() { candidates.retain(|candidate| *candidate != role); }
            } else if extended && !winding_down && !candidates.is_empty() && rng.chance(4) {
                stalled = Some((rng.pick(&candidates), step + 8 + rng.below(40)));
            }
            if winding_down {
                // let everything that is in flight finish; the sweeper only if it is mid-sweep
                candidates.retain(|role| role != "sweeper" || World::at("sweeper") != "sweep.begin");
                if candidates.is_empty() { quiet_rounds += 1; if quiet_rounds > 1 { break; } }
            }
            let choice = if !winding_down && !idle.is_empty() && (candidates.is_empty() || rng.chance(25)) {
                "issue".to_string()
            } else if !winding_down && rng.chance(4) {
                "advance".to_string()
            } else if candidates.is_empty() {
                if winding_down { continue; } else if idle.is_empty() { hang = Some("no thread is enabled and no client is idle".to_string()); continue; } else { "issue".to_string() }
            } else {
                // the sweeper ticks rarely unless it is in the middle of a sweep
                let mut pick = rng.pick(&candidates);
                if pick == "sweeper" && World::at("sweeper") == "sweep.begin" && !rng.chance(20) { pick = rng.pick(&candidates); }
                pick
            };
            step += 1;
            let choice = match choice.as_str() {
                "issue" => {
                    let client = rng.pick(&idle);
                    let key = rng.below(keys);
                    next_value += 1;
                    let weight = if rng.chance(70) { 1 + rng.below(4) as i64 } else { rng.pick(&[1i64, max / 2, max - 1, max, max + 1]).max(1) };
                    let ttl = if rng.chance(40) { Some(rng.pick(&[1u128, 1_000_000_000, 2_000_000_000, 5_000_000_000])) } else { None };
                    let shutdown_now = extended && !shutdown_done && shutdown_at.map(|at| step >= at).unwrap_or(false);
                    // every other time `shutdown()` is due a multi-key read is started first (the shutdown follows with the next
                    // issue): the random scheduler then places the CAS somewhere among the read's flag loads and lookups
                    let mget_first = shutdown_now && !mget_before_shutdown && idle.len() >= 2 && rng.chance(50);
                    if shutdown_now { mget_before_shutdown = true; }
                    let shutdown_now = shutdown_now && !mget_first;
                    if shutdown_now { shutdown_done = true; }
                    let req = if mget_first {
                        let variant = rng.below(3) as u8;
                        let mut ks: Vec<u64> = Vec::new();
                        for _ in 0..(1 + rng.below(3)) { let k = rng.below(keys); if variant != 0 || !ks.contains(&k) { ks.push(k); } }
                        Req::MGet(ks, variant)
                    } else if shutdown_now { Req::Shutdown } else { match rng.below(if extended { 11 } else { 10 }) {
                        10 => if rng.chance(30) { Req::MapGetRef(key) } else { Req::GetRef(key) },
                        0 | 1 | 2 => if extended && rng.chance(30) {
                            // `put` / `put_with_ttl`: the weight is what the installed weight function yields
                            let by_fn = cfg.wbase + (next_value % cfg.wmod) as i64 + if ttl.is_some() { world.ttl_entry } else { 0 };
                            Req::PutFn(key, next_value, by_fn, ttl)
                        } else { Req::PutW(key, next_value, weight, ttl) },
                        3 => Req::Delete(key),
                        4 | 5 => if extended && rng.chance(25) {
                            // a multi-key read of 1-3 keys (distinct for the map-returning variant)
                            let variant = rng.below(3) as u8;
                            let mut ks: Vec<u64> = Vec::new();
                            for _ in 0..(1 + rng.below(3)) { let k = rng.below(keys); if variant != 0 || !ks.contains(&k) { ks.push(k); } }
                            Req::MGet(ks, variant)
                        } else if extended && rng.chance(30) { Req::MapGet(key) } else { Req::Get(key) },
                        6 => Req::Weight,
                        _ => {
                            let shape = rng.below(16);
                            let value = if shape & 1 != 0 { Some(next_value) } else { None };
                            let explicit = if shape & 2 != 0 { Some(weight) } else { None };
                            let mut ttl2 = if shape & 4 != 0 { Some(rng.pick(&[1_000_000_000u128, 3_000_000_000])) } else { None };
                            let mut remove = shape & 8 != 0;
                            if ttl2.is_some() && remove { if rng.chance(50) { ttl2 = None } else { remove = false } }
                            let value = if value.is_none() && explicit.is_none() && ttl2.is_none() && !remove { Some(next_value) } else { value };
                            Req::Upsert(key, value.or(Some(next_value)), explicit, ttl2, remove)
                        }
                    } };
                    Choice::Issue(client, req)
                }
                "advance" => Choice::Advance(rng.pick(&[1u64, 999_999_999, 1_000_000_000, 2_000_000_000, 5_000_000_000])),
                role => Choice::Role(role.to_string()),
            };
            if let Err(why) = perform(&mut world, &choice, &mut sink) { hang = Some(why); continue; }
        }
        if let Some(why) = hang {
            sink.both(&format!("# hang {}", why.replace(' ', "_")));
            sink.flush();
            std::process::exit(3);
        }
        let panics: Vec<String> = std::mem::take(&mut *crate::PANIC_LOG.lock().unwrap());
        for panic in panics { sink.both(&format!("# panic {}", panic)); }
        if let Err(why) = world.finish() { sink.both(&format!("# hang at-finish {}", why.replace(' ', "_"))); sink.flush(); std::process::exit(3); }
    }
    sink.flush();
    true
}
