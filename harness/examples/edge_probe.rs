use std::time::Duration;
use tinylfu_cached::cache::cached::CacheD;
use tinylfu_cached::cache::config::ConfigBuilder;
use tinylfu_cached::cache::put_or_update::PutOrUpdateRequestBuilder;
use tinylfu_cached::cache::verif;
fn main() {
    verif::reset(false, false);
    lock_api::verif_log::switch(true);
    let cache = CacheD::<u64, u64>::new(ConfigBuilder::new(16, 16, 100).build());
    let ack = cache.put_with_weight(1, 10, 5).unwrap();
    while !ack.verif_peek().0 { std::thread::sleep(Duration::from_millis(1)); }
    let ack = cache.put_or_update(PutOrUpdateRequestBuilder::new(1).weight(7).build()).unwrap();
    while !ack.verif_peek().0 { std::thread::sleep(Duration::from_millis(1)); }
    println!("total {}", cache.total_weight_used());
    for e in lock_api::verif_log::edges() { println!("{:?}", e); }
}
