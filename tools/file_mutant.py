#!/usr/bin/env python3
"""file_mutant.py <label> <round> <change> <needs> <caught_by json>  — writes seeded/<label>/meta.json (after confirm_mutant.sh)"""
import sys, json, os
label, rnd, change, needs, caught = sys.argv[1:6]
d = f"/verif/seeded/{label}"
confirmed = [l.strip() for l in open(os.path.join(d, "confirm.log")) if l.startswith("build_rc=")][-1]
meta = {"id": label, "breaks": label[:3], "round": rnd, "change": change, "needs": needs, "caught_by": json.loads(caught),
        "author": "independent sub-agent given only the property text, a scratch worktree, a hint about where to look and one-line descriptions of the earlier changes to avoid",
        "confirmed": confirmed, "ran": ["tools/confirm_mutant.sh", "tools/try_mutant.sh patch.diff <properties>"]}
json.dump(meta, open(os.path.join(d, "meta.json"), "w"), indent=1)
print("filed", label)
