#!/bin/sh
# usage: tools/soak.sh <first seed> <last seed>  — runs every check (quick tier) for a range of seeds; prints only lines that need attention
cd "$(dirname "$0")/.." || exit 2
# under `vp run --with-repo` the crate is a private snapshot ($VP_RUN_REPO): point this COPY of the harness at it, so that
# changes applied to /repo meanwhile (seeded mutants being evaluated) cannot contaminate the soak
if [ -n "$VP_RUN_REPO" ] && [ "$(pwd)" != "/verif" ]; then
  sed -i "s#path = \"/repo\"#path = \"$VP_RUN_REPO\"#" harness/Cargo.toml
  cp "$VP_RUN_REPO/Cargo.lock" harness/Cargo.lock 2>/dev/null
fi
./setup.sh > /dev/null 2>&1 || { echo "setup failed"; exit 2; }
for seed in $(seq "$1" "$2"); do
  for p in C01 C02 C03 C04 C05 C06 C07 C08 C09 C10 C11 C12 C13 C14 C15 C16 C17 C18; do
    out=$(VERIF_SEED=$seed ./check $p --tier quick 2>&1)
    echo "$out" | grep -E "VIOLATION|Traceback|Error" | sed "s/^/seed=$seed $p: /" | cut -c1-400
    echo "$out" | tail -1 | sed "s/^/seed=$seed /"
  done
done
