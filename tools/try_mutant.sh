#!/bin/sh
# usage: try_mutant.sh <patch file> <property ids...>   — applies the patch to /repo, runs the checks, undoes it
patch="$1"; shift
cd /repo || exit 2
if ! git diff --quiet; then echo "repo not clean"; exit 2; fi
git apply "$patch" || { echo "patch does not apply"; exit 2; }
rm -rf /verif/work/evidence.keep; cp -r /verif/evidence /verif/work/evidence.keep   # evidence written against a changed tree is not kept
for p in "$@"; do
  (cd /verif && ./check "$p" --tier quick 2>&1 | grep -E "VIOLATION|KNOWN|quick:" | cut -c1-420)
done
git -C /repo checkout -- . && git -C /repo clean -fdq src tests
rm -rf /verif/evidence; mv /verif/work/evidence.keep /verif/evidence
git -C /repo status --short | head -3
