#!/usr/bin/env python3
"""model_mutants.py [--record] [--limit N] [--only REGEX] [--workers N]

How discriminating is the tie between the Lean model and the code?  A correspondence that never visits a branch of the
model cannot notice that the branch says something else than the code (this is how the model's sweeper kept deleting by
key after fix 9fbef16 made the code delete by key id: no generated schedule reached the difference).

This tool mutates the MODEL, one small change at a time (relational / boolean operators, off-by-one, constants, plus the
hand-written semantic mutants of tools/model_mutants_extra.json), rebuilds the driver in a scratch copy and re-runs it over
a RECORDED set of correspondence inputs (harness outputs recorded once from /repo as it is now).  A mutant is *killed* when
the mutated model disagrees with the recorded implementation on some case; *stillborn* when it does not compile.  Survivors
are model branches the correspondence does not pin down (or equivalent mutants): they are listed in
work/mm/report.json and summarised on stdout.  Nothing here is a proof and nothing here decides a property: it measures the
reach of the generators.
"""
import sys, os, re, json, shutil, subprocess, time, hashlib
sys.path.insert(0, os.path.join(os.path.dirname(os.path.abspath(__file__)), ".."))
from concurrent.futures import ThreadPoolExecutor
from checklib import runner, trace
from checklib.plan import PLAN

ROOT = runner.ROOT
MM = os.path.join(runner.WORK, "mm")
REC = os.path.join(MM, "rec")
SCRATCH = "/var/tmp/cached_mm"
FILES = ["Basic.lean", "Sketch.lean", "Admission.lean", "State.lean", "Iter.lean", "LayerB.lean", "Ack.lean", "Glue.lean", "Locks.lean"]
OPS = [(" < ", " ≤ "), (" ≤ ", " < "), (" > ", " ≥ "), (" ≥ ", " > "), (" == ", " != "), (" != ", " == "), (" && ", " || "), (" || ", " && "),
       (" + 1", " + 0"), (" + 1", " + 2"), (" - 1", " - 0"), ("true", "false"), ("false", "true")]


def record(scale=1):
    shutil.rmtree(REC, ignore_errors=True)
    os.makedirs(REC, exist_ok=True)
    ok, out, dt = runner.build_harness()
    if not ok:
        print("harness build failed"); sys.exit(2)
    best = {}
    for pid, plan in PLAN.items():
        for (mode, profile, quick_n, thorough_n, extra) in plan.get("runs", []):
            if mode == "stress":
                continue
            key = (mode, profile, tuple(extra))
            best[key] = max(best.get(key, 0), quick_n)
    jobs = []
    for (mode, profile, extra), total in sorted(best.items()):
        total *= scale
        if mode in ("ack", "pure", "locks"):
            jobs.append((mode, profile, 1, {"ack": total, "pure": 1, "locks": 400}[mode], os.path.join(REC, f"{mode}_{profile}"), list(extra)))
            continue
        per = 40
        for shard in range((total + per - 1) // per):
            jobs.append((mode, profile, 7000 + shard, per, os.path.join(REC, f"{mode}_{profile}_{shard}"), list(extra)))
    with ThreadPoolExecutor(max_workers=16) as ex:
        list(ex.map(runner.run_shard, jobs))
    corpus = os.path.join(ROOT, "corpus")
    for f in sorted(os.listdir(corpus)):
        if f.endswith(".in"):
            lines = open(os.path.join(corpus, f)).read().splitlines()
            if any(l.startswith(("A ", "S ", "L ", "P ")) for l in lines):
                continue
            runner.replay_lines(lines, os.path.join(REC, "corpus_" + f[:-3]))
    bad = 0
    n = 0
    for f in sorted(os.listdir(REC)):
        if f.endswith(".in"):
            p = os.path.join(REC, f[:-3])
            if not os.path.exists(p + ".impl"):
                continue
            for c in trace.load_cases(p + ".in", p + ".impl", p + ".model"):
                n += 1
                if c.first_divergence() is not None and not any(s.out.startswith("disabled") for s in c.steps):
                    bad += 1
    print(f"recorded {n} cases in {REC}; {bad} disagree with the UNMUTATED model (must be 0 apart from corpus prefixes)")


def code_mask(text):
    """True for characters outside comments."""
    mask = [True] * len(text)
    i = 0
    depth = 0
    while i < len(text):
        if text.startswith("/-", i):
            depth += 1; mask[i] = mask[i + 1] = False; i += 2; continue
        if depth and text.startswith("-/", i):
            depth -= 1; mask[i] = mask[i + 1] = False; i += 2; continue
        if depth:
            mask[i] = False; i += 1; continue
        if text.startswith("--", i):
            j = text.find("\n", i)
            j = len(text) if j < 0 else j
            for k in range(i, j): mask[k] = False
            i = j; continue
        if text[i] == '"':
            j = i + 1
            while j < len(text) and text[j] != '"':
                j += 2 if text[j] == "\\" else 1
            for k in range(i, min(j + 1, len(text))): mask[k] = False
            i = j + 1; continue
        i += 1
    return mask


def generate():
    muts = []
    model_dir = os.path.join(runner.LEAN, "CachedModel")
    for fn in FILES:
        text = open(os.path.join(model_dir, fn)).read()
        mask = code_mask(text)
        for old, new in OPS:
            start = 0
            while True:
                i = text.find(old, start)
                if i < 0: break
                start = i + 1
                if not all(mask[i:i + len(old)]): continue
                if old in ("true", "false"):
                    before = text[i - 1] if i else " "
                    after = text[i + len(old)] if i + len(old) < len(text) else " "
                    if before.isalnum() or before in "._" or after.isalnum() or after == "_": continue
                line_no = text.count("\n", 0, i) + 1
                line = text.splitlines()[line_no - 1]
                if re.match(r"\s*(deriving|structure|inductive|theorem|instance|abbrev|namespace|import|open)\b", line): continue
                muts.append({"file": fn, "offset": i, "old": old, "new": new, "line": line_no, "text": line.strip()[:160], "label": f"{fn}:{line_no} `{old.strip()}`→`{new.strip()}`"})
    extra = os.path.join(ROOT, "tools", "model_mutants_extra.json")
    if os.path.exists(extra):
        for m in json.load(open(extra)):
            text = open(os.path.join(model_dir, m["file"])).read()
            i = text.find(m["old"])
            if i < 0:
                print("extra mutant does not apply:", m["label"]); continue
            muts.append({"file": m["file"], "offset": i, "old": m["old"], "new": m["new"], "line": text.count("\n", 0, i) + 1, "text": m["old"][:160], "label": "extra: " + m["label"]})
    return muts


def rec_files():
    out = []
    for f in sorted(os.listdir(REC)):
        if f.endswith(".in") and os.path.exists(os.path.join(REC, f[:-3] + ".impl")):
            out.append(os.path.join(REC, f[:-3]))
    # corpus and small files first: cheap kills
    out.sort(key=lambda p: os.path.getsize(p + ".in"))
    return out


def prepare_worker(w):
    d = os.path.join(SCRATCH, f"w{w}")
    shutil.rmtree(d, ignore_errors=True)
    os.makedirs(d)
    for name in ("CachedModel", "CachedModel.lean", "Main.lean", "lakefile.toml", "lake-manifest.json", "lean-toolchain"):
        src = os.path.join(runner.LEAN, name)
        if os.path.isdir(src): shutil.copytree(src, os.path.join(d, name))
        elif os.path.exists(src): shutil.copy(src, d)
    # reuse compiled model files
    src_lake = os.path.join(runner.LEAN, ".lake")
    if os.path.isdir(src_lake):
        shutil.copytree(src_lake, os.path.join(d, ".lake"), ignore=shutil.ignore_patterns("CachedProofs*"))
    return d


def run_mutant(args):
    w, m, files = args
    d = os.path.join(SCRATCH, f"w{w}")
    path = os.path.join(d, "CachedModel", m["file"])
    orig = open(os.path.join(runner.LEAN, "CachedModel", m["file"])).read()
    assert orig[m["offset"]:m["offset"] + len(m["old"])] == m["old"]
    open(path, "w").write(orig[:m["offset"]] + m["new"] + orig[m["offset"] + len(m["old"]):])
    t0 = time.time()
    try:
        r = subprocess.run(["lake", "build", "cached_driver"], cwd=d, capture_output=True, text=True, timeout=600)
        if r.returncode != 0:
            return dict(m, verdict="stillborn", secs=round(time.time() - t0, 1))
        drv = os.path.join(d, ".lake", "build", "bin", "cached_driver")
        for p in files:
            with open(p + ".in") as inf:
                try:
                    out = subprocess.run([drv], stdin=inf, capture_output=True, text=True, timeout=300).stdout
                except subprocess.TimeoutExpired:
                    return dict(m, verdict="killed", by=os.path.basename(p) + " (model does not terminate in time)", secs=round(time.time() - t0, 1))
            mp = os.path.join(d, "out.model")
            open(mp, "w").write(out)
            for c in trace.load_cases(p + ".in", p + ".impl", mp):
                for i, s_ in enumerate(c.steps):
                    if s_.out.startswith("disabled"):
                        del c.steps[i:]; break
                if c.first_divergence() is not None:
                    return dict(m, verdict="killed", by=os.path.basename(p), secs=round(time.time() - t0, 1))
        return dict(m, verdict="survived", secs=round(time.time() - t0, 1))
    finally:
        open(path, "w").write(orig)


def main():
    argv = sys.argv[1:]
    if "--record" in argv:
        scale = int(argv[argv.index("--scale") + 1]) if "--scale" in argv else 1
        record(scale)
        if "--record-only" in argv: return
    limit = int(argv[argv.index("--limit") + 1]) if "--limit" in argv else None
    only = argv[argv.index("--only") + 1] if "--only" in argv else None
    workers = int(argv[argv.index("--workers") + 1]) if "--workers" in argv else 8
    muts = generate()
    if only: muts = [m for m in muts if re.search(only, m["label"])]
    if limit: muts = muts[:limit]
    files = rec_files()
    print(f"{len(muts)} mutants, {len(files)} recorded input files, {workers} workers")
    os.makedirs(SCRATCH, exist_ok=True)
    for w in range(workers): prepare_worker(w)
    import queue, threading
    q = queue.Queue()
    for m in muts: q.put(m)
    results = []
    lock = threading.Lock()

    def work(w):
        while True:
            try: m = q.get_nowait()
            except queue.Empty: return
            r = run_mutant((w, m, files))
            with lock:
                results.append(r)
                if r["verdict"] == "survived": print("SURVIVED", r["label"], "|", r["text"], flush=True)
    threads = [threading.Thread(target=work, args=(w,)) for w in range(workers)]
    for t in threads: t.start()
    for t in threads: t.join()
    shutil.rmtree(SCRATCH, ignore_errors=True)
    results.sort(key=lambda r: (r["file"], r["line"], r["old"], r["new"]))
    triage_path = os.path.join(ROOT, "tools", "model_mutants_triage.json")
    triage = json.load(open(triage_path)) if os.path.exists(triage_path) else []
    for r in results:
        if r["verdict"] == "survived":
            for t in triage:
                if t["file"] == r["file"] and t["old"] == r["old"] and t["new"] == r["new"] and t["text"] == r["text"]:
                    r["triage"] = t["category"]; r["why"] = t["why"]; break
            if "extra:" in r["label"] and "triage" not in r:
                for t in triage:
                    if t["file"] == r["file"] and t["old"] == r["old"]:
                        r["triage"] = t["category"]; r["why"] = t["why"]; break
    open_ = [r for r in results if r["verdict"] == "survived" and "triage" not in r]
    print(f"{len(open_)} survivor(s) not covered by tools/model_mutants_triage.json:")
    for r in open_: print("  OPEN", r["label"], "|", r["text"])
    summary = {v: sum(1 for r in results if r["verdict"] == v) for v in ("killed", "survived", "stillborn")}
    os.makedirs(MM, exist_ok=True)
    json.dump({"summary": summary, "results": results}, open(os.path.join(MM, "report.json"), "w"), indent=1)
    print(summary)


if __name__ == "__main__":
    main()
