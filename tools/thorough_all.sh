#!/bin/sh
# runs every check once in the thorough tier (isolated from /repo under `vp run --with-repo`); prints verdict lines and timings
cd "$(dirname "$0")/.." || exit 2
if [ -n "$VP_RUN_REPO" ] && [ "$(pwd)" != "/verif" ]; then
  sed -i "s#path = \"/repo\"#path = \"$VP_RUN_REPO\"#" harness/Cargo.toml
  cp "$VP_RUN_REPO/Cargo.lock" harness/Cargo.lock 2>/dev/null
fi
./setup.sh > /dev/null 2>&1 || { echo "setup failed"; exit 2; }
for p in C01 C02 C03 C04 C05 C06 C07 C08 C09 C10 C11 C12 C13 C14 C15 C16 C17 C18; do
  ./check $p --tier thorough 2>&1 | grep -E "VIOLATION|Traceback|thorough:" | cut -c1-300
done
