#!/bin/sh
# usage: confirm_mutant.sh <ID> [label]  — re-checks a delivered mutant in its scratch worktree /tmp/mut/<ID> and files it under /verif/seeded/<label>
id="$1"; label="${2:-$1}"; w=/tmp/mut/$id
cd "$w" || exit 2
demo=$(ls tests/demo_*.rs 2>/dev/null | head -1); demoname=$(basename "$demo" .rs)
[ -f patch.diff ] || git diff -- src > patch.diff
out=/verif/seeded/$label; mkdir -p "$out"
echo "== build with feature" > "$out/confirm.log"
cargo build --offline --features cached_verif >> "$out/confirm.log" 2>&1; b=$?
echo "== full suite with the change" >> "$out/confirm.log"
cargo test --workspace --no-fail-fast --offline 2>&1 | grep -E "^test result|FAILED|failed|panicked at" >> "$out/confirm.log"
suite_fail=$(( $(cargo test --workspace --no-fail-fast --offline 2>&1 | grep -cE "^test result: FAILED") - 1 ))
echo "== demo with the change" >> "$out/confirm.log"
cargo test --offline --test "$demoname" 2>&1 | grep -E "^test result" >> "$out/confirm.log"; 
with=$(cargo test --offline --test "$demoname" 2>&1 | grep -cE "^test result: FAILED")
git diff -- src > /tmp/confirm_$id.diff; git apply -R /tmp/confirm_$id.diff   # (not git stash: the stash is shared between worktrees)
echo "== demo without the change" >> "$out/confirm.log"
cargo test --offline --test "$demoname" 2>&1 | grep -E "^test result" >> "$out/confirm.log"
without=$(cargo test --offline --test "$demoname" 2>&1 | grep -cE "^test result: ok")
git apply /tmp/confirm_$id.diff; rm -f /tmp/confirm_$id.diff
cp patch.diff "$out/patch.diff"; cp "$demo" "$out/"; [ -f NOTES.md ] && cp NOTES.md "$out/NOTES.md"
echo "build_rc=$b other_suite_failures=$suite_fail demo_fails_with=$with demo_passes_without=$without" | tee -a "$out/confirm.log"
