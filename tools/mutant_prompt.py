#!/usr/bin/env python3
"""prints the task text for an independent sub-agent writing a property-breaking change (nothing from /verif is shown to it
except the property's own text and one-line descriptions of earlier changes to avoid)"""
import json, sys, glob
pid_label = sys.argv[1]            # e.g. C17d
hint = sys.argv[2] if len(sys.argv) > 2 else ""
pid = pid_label[:3]
props = {json.loads(l)["id"]: json.loads(l) for l in open("/verif/properties.jsonl")}
p = props[pid]
earlier = []
for f in sorted(glob.glob(f"/verif/seeded/{pid}*/meta.json")):
    m = json.load(open(f)); earlier.append("- " + m["change"][:260])
print(f"""You are helping to evaluate a verification framework by writing ONE realistic defect ("seeded change") for a Rust crate.

Work ONLY inside the scratch git worktree {'/tmp/mut/' + pid_label} (a checkout of the crate `tinylfu-cached`, "CacheD": a TinyLFU-admission,
weight-bounded, concurrent in-memory cache with TTL expiry, a single-threaded command executor and buffered access counting).
Do NOT read or touch /verif or /repo, and do not use `git stash` (the stash is shared between worktrees). There is no network:
always pass `--offline` to cargo.

The property your change must BREAK:

  {pid}: {p.get('title','')}
  {p.get('statement','')}

Task: make a small change to the crate's source (under src/, not to tests, and not to src/cache/verif.rs) such that
  1. the crate still compiles, both plainly and with `cargo build --offline --features cached_verif`
     (the source contains lines guarded by `#[cfg(feature = "cached_verif")]` — schedule points, taps — keep each such line next to
     the statement it precedes; do not delete or reorder them except as your change strictly requires);
  2. the ENTIRE existing test suite still passes: `cargo test --workspace --no-fail-fast --offline` (no test edited or removed);
  3. the property above is violated by the changed crate for some input / schedule / history;
  4. the violation needs something SPECIFIC to manifest — a particular interleaving, a multi-step sequence of operations, an unusual
     (but valid) input or configuration, a fault at a particular point, or two cooperating sites that each look fine alone.
     It must NOT be something ordinary use would expose at once, and it should look like a plausible slip or "cleanup" a maintainer
     could make (not an obviously malicious special case like `if key == 42`).
  5. Write a demonstration: an integration test file `tests/demo_{pid_label.lower()}.rs` (one or more #[test]) that FAILS with your change
     and PASSES on the unchanged crate. Use only the crate's public API (see how `tests/` or the doc examples build a cache:
     `ConfigBuilder`, `CacheD::new`, a manual clock implementing `tinylfu_cached::cache::clock::Clock` if you need to control time;
     `tokio` is available as a dev-dependency for awaiting acknowledgements). Make the demonstration deterministic (or reliably
     failing: > 95 % of runs) — retry loops / many iterations are fine for races.
{('Direction for THIS change (a hint about where to look; pick something else if you find a better spot): ' + hint) if hint else ''}
Earlier changes for this property already exist — do something DIFFERENT (another function AND another mechanism):
{chr(10).join(earlier) if earlier else '- (none)'}

Verify everything yourself before finishing: build with and without the feature, run the whole suite with your change (all pass),
run your demo with the change (fails) and, after `git diff -- src > patch.diff && git apply -R patch.diff`, without it (passes);
then re-apply the patch (`git apply patch.diff`) so the worktree ends WITH the change applied.
Leave in the worktree root: `patch.diff` (exactly `git diff -- src`), the demo test under tests/, and `NOTES.md` (what the change is,
which property clause it breaks, what it needs in order to manifest, why the existing tests do not see it).
Final answer: a 5-10 line summary (site, mechanism, what it needs, test results).""")
