#!/usr/bin/env python3
"""For each seeded change: apply it, run the check of the property it breaks, and keep the (shrunk) failing Layer A inputs
as corpus/<props>_seeded_<id>.in, so that the minimal history that exposed it runs first on every later check."""
import json, os, subprocess, sys, glob, shutil
ROOT = "/verif"
def sh(cmd): return subprocess.run(cmd, shell=True, capture_output=True, text=True)
ids = sys.argv[1:] or sorted(os.listdir(os.path.join(ROOT, "seeded")))
for sid in ids:
    meta = json.load(open(f"{ROOT}/seeded/{sid}/meta.json"))
    prop = meta["breaks"]
    if sh("git -C /repo diff --quiet").returncode != 0:
        print("repo not clean"); sys.exit(2)
    if sh(f"git -C /repo apply {ROOT}/seeded/{sid}/patch.diff").returncode != 0:
        print(sid, "patch does not apply"); continue
    shutil.rmtree(f"{ROOT}/work/evidence.keep", ignore_errors=True); shutil.copytree(f"{ROOT}/evidence", f"{ROOT}/work/evidence.keep")
    for f in glob.glob(f"{ROOT}/replays/{prop}-*.json"): os.remove(f)
    sh(f"cd {ROOT} && ./check {prop} --tier quick")
    sh("git -C /repo checkout -- .")
    shutil.rmtree(f"{ROOT}/evidence"); shutil.move(f"{ROOT}/work/evidence.keep", f"{ROOT}/evidence")
    kept = 0
    for f in sorted(glob.glob(f"{ROOT}/replays/{prop}-*.json")):
        d = json.load(open(f))
        lines = d.get("input") or []
        if not any(l.startswith("C ") for l in lines):   # only Layer A histories replay deterministically enough
            continue
        if len(lines) > 60 or kept >= 2:
            continue
        name = f"{ROOT}/corpus/{prop}_seeded_{sid}_{kept}.in"
        head = [f"# case corpus seeded {sid}: {d.get('signature', d.get('kind'))}"]
        body = [l for l in lines if not l.startswith("# case")]
        open(name, "w").write("\n".join(head + body) + "\n")
        kept += 1
    print(sid, prop, "kept", kept)
