#!/bin/sh
# runs every check once (tier from $1, default quick) on the current /repo tree and prints the verdict lines
cd "$(dirname "$0")/.." || exit 2
tier="${1:-quick}"
git -C /repo diff --quiet || echo "WARNING: /repo has uncommitted changes"
for p in C01 C02 C03 C04 C05 C06 C07 C08 C09 C10 C11 C12 C13 C14 C15 C16 C17 C18; do
  ./check $p --tier "$tier" 2>&1 | grep -E "VIOLATION|Traceback|$tier:" | cut -c1-300
done
