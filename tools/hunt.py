#!/usr/bin/env python3
"""hunt.py <property id> <mode> <profile> <first seed> <shards> <cases per shard> [extra args...]
Runs correspondence shards on the harness as built (no proof step) and prints divergences and monitor hits of the property."""
import sys, os, json
sys.path.insert(0, os.path.join(os.path.dirname(os.path.abspath(__file__)), ".."))
from concurrent.futures import ThreadPoolExecutor
from checklib import runner, trace, monitors
pid, mode, profile, seed0, shards, per = sys.argv[1], sys.argv[2], sys.argv[3], int(sys.argv[4]), int(sys.argv[5]), int(sys.argv[6])
extra = sys.argv[7:]
work = os.path.join(runner.WORK, "hunt"); os.makedirs(work, exist_ok=True)
jobs = [(mode, profile, seed0 + i, per, os.path.join(work, f"{mode}_{profile}_{seed0 + i}"), extra) for i in range(shards)]
with ThreadPoolExecutor(max_workers=16) as ex:
    res = list(ex.map(runner.run_shard, jobs))
mon = monitors.MONITORS.get(pid)
known = {k["signature"] for k in runner.load_known() if k.get("status") == "known"}
ncases = nsteps = ndiv = 0
hits = {}
for prefix, rc, out in res:
    if not os.path.exists(prefix + ".in"): print("no output", prefix, rc, out[-200:]); continue
    for c in trace.load_cases(prefix + ".in", prefix + ".impl", prefix + ".model"):
        ncases += 1; nsteps += len(c.steps)
        d = c.first_divergence()
        if d is not None or c.hang:
            ndiv += 1
            if ndiv <= 3:
                print("DIVERGENCE", c.header, "step", d)
                if d is not None and d >= 0: print("  ev   :", c.steps[d].ev); print("  impl :", c.steps[d].impl[:600]); print("  model:", (c.steps[d].model or "")[:600])
        if mon:
            for f in mon(c):
                if f["signature"] in known: continue
                hits.setdefault(f["signature"], []).append((c.header, f["step"], f["what"]))
print(f"{ncases} cases, {nsteps} steps, {ndiv} divergent")
for s, l in hits.items(): print("MONITOR", s, len(l), l[0])
