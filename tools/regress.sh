#!/bin/sh
# usage: regress.sh <label>...  — tries each seeded change against the check of its own property; prints one line per change
for l in "$@"; do
  p=$(echo "$l" | cut -c1-3)
  if ! git -C /repo apply --check /verif/seeded/$l/patch.diff 2>/dev/null; then echo "$l: patch no longer applies"; continue; fi
  out=$(sh /verif/tools/try_mutant.sh /verif/seeded/$l/patch.diff $p 2>&1)
  n=$(echo "$out" | grep -c "^VIOLATION")
  echo "$l: $n violation line(s) | $(echo "$out" | grep -m1 "^VIOLATION" | cut -c1-200)"
done
