#!/bin/sh
# usage: try_harmless.sh <label...>  — applies seeded/harmless/<label>.diff to /repo, runs ALL 18 quick checks, undoes it; prints only alarms and verdict lines
cd /repo || exit 2
for l in "$@"; do
  if ! git diff --quiet; then echo "repo not clean"; exit 2; fi
  git apply /verif/seeded/harmless/$l.diff || { echo "$l: patch does not apply"; continue; }
  rm -rf /verif/work/evidence.keep; cp -r /verif/evidence /verif/work/evidence.keep
  echo "== $l"
  for p in C01 C02 C03 C04 C05 C06 C07 C08 C09 C10 C11 C12 C13 C14 C15 C16 C17 C18; do
    (cd /verif && ./check "$p" --tier quick 2>&1 | grep -E "VIOLATION|Traceback|quick:" | cut -c1-330)
  done
  git -C /repo checkout -- . && git -C /repo clean -fdq src tests
  rm -rf /verif/evidence; mv /verif/work/evidence.keep /verif/evidence
done
