#!/bin/sh
# One-off measurement (not a check): which lines of /repo/src the harness modes execute. Builds the harness with
# -C instrument-coverage into a scratch target directory outside /verif, runs every mode briefly, prints llvm-cov's report
# and the uncovered lines. Lines nobody executes are lines where the correspondence cannot see a change.
set -e
W=/var/tmp/cached-cov; rm -rf $W; mkdir -p $W/out $W/prof
T=$(ls -d ~/.rustup/toolchains/nightly-x86_64-unknown-linux-gnu/lib/rustlib/*/bin)
cd /verif/harness
CARGO_NET_OFFLINE=true CARGO_TARGET_DIR=$W/target RUSTFLAGS="-C instrument-coverage" cargo build --offline 2>&1 | tail -1
H=$W/target/debug/cached-verif-harness
export LLVM_PROFILE_FILE="$W/prof/%p-%m.profraw"
for p in mixed pressure ttl burst reads boundary nopressure; do $H seq --seed 5 --cases ${1:-60} --profile $p --out $W/out/s_$p >/dev/null 2>&1 || true; done
$H conc --seed 5 --cases 40 --profile interleave --ext --out $W/out/conc >/dev/null 2>&1 || true
$H ack --polls 2 --out $W/out/ack >/dev/null 2>&1 || true
$H pure --seed 1 --out $W/out/pure >/dev/null 2>&1 || true
$H locks --seed 1 --millis 300 --out $W/out/locks >/dev/null 2>&1 || true
$H stress --seed 1 --millis 300 --out $W/out/stress >/dev/null 2>&1 || true
$T/llvm-profdata merge -sparse $W/prof/*.profraw -o $W/all.profdata
$T/llvm-cov report $H -instr-profile=$W/all.profdata --ignore-filename-regex='(registry|rustc|vendor|harness)'
for f in $(cd /repo/src/cache && find . -name '*.rs' | grep -v verif.rs); do
  $T/llvm-cov show $H -instr-profile=$W/all.profdata /repo/src/cache/$f 2>/dev/null | grep -E "^\s+[0-9]+\|\s+0\|" | sed "s|^|$f |"
done
rm -rf $W
