#!/bin/sh
# Builds the framework from files on disk only (offline): the Rust harness against /repo and the Lean project.
set -e
cd "$(dirname "$0")"
export CARGO_NET_OFFLINE=true
[ -f harness/Cargo.lock ] || cp /repo/Cargo.lock harness/Cargo.lock
(cd harness && cargo build --offline)
(cd lean && lake build CachedModel cached_driver CachedProofs)
mkdir -p work evidence replays
