/-
  Model of src/cache/policy: `CacheWeight` (charged weights and their total), the eviction sample
  (`FrequencyCounterBasedMinHeapSamples`, `SampledKey`) and `AdmissionPolicy::maybe_add / create_space`.

  Choices the implementation makes that its inputs do not determine (DashMap iteration order, the heap's
  pick among `Ord`-equal elements, Bloom-filter answers) are *inputs* here (`Oracle`); every model function
  validates that the supplied choice is one the implementation is allowed to make and fails otherwise.
-/
import CachedModel.Sketch

namespace Cached

inductive Reject where
  | noSpace            -- EnoughSpaceIsNotAvailableAndKeyFailedToEvictOthers
  | tooHeavy           -- KeyWeightIsGreaterThanCacheWeight
  | keyDoesNotExist
  | keyAlreadyExists
  deriving DecidableEq, Repr, Inhabited

inductive Status where
  | pending
  | accepted
  | rejected (r : Reject)
  | shuttingDown
  deriving DecidableEq, Repr, Inhabited

/-- `WeightedKey` -/
structure WKey where
  key : Nat
  hash : Nat
  weight : Int
  deriving DecidableEq, Repr, Inhabited

/-- `SampledKey` -/
structure SKey where
  id : Nat
  weight : Int
  est : Nat
  deriving DecidableEq, Repr, Inhabited

/-- cache_weight.rs:44  `(other.estimated_frequency, self.weight).cmp(&(self.estimated_frequency, other.weight))` -/
def SKey.cmp (a b : SKey) : Ordering :=
  if b.est < a.est then .lt
  else if a.est < b.est then .gt
  else if a.weight < b.weight then .lt
  else if b.weight < a.weight then .gt
  else .eq

/-- `k` is a maximum of `sample` in the heap order: the only elements `BinaryHeap::pop` may return. -/
def SKey.isMaxOf (k : SKey) (sample : List SKey) : Bool := sample.all (fun x => SKey.cmp x k != .gt)

/-- The part of the cache that admission works on: `CacheWeight` without its statistics. -/
structure Adm where
  max : Int
  used : Int
  kw : AMap Nat WKey
  deriving Repr

/-- Choices made by the implementation, recorded by the taps, consumed front to back. -/
structure Oracle where
  dk : List Bool := []             -- answers of `DoorKeeper::has`, in call order
  dkAdd : List Bool := []          -- results of `DoorKeeper::add_if_missing`, in call order
  ids : List Nat := []             -- ids pushed by `initial_sample` / `maybe_fill_in`, in order
  pops : List (Option Nat) := []   -- ids returned by `min_frequency_key` (`none` = empty sample)
  pool : List Nat := []            -- buffer index chosen by `Pool::add`
  deriving Repr

def Oracle.isEmpty (o : Oracle) : Bool :=
  o.dk.isEmpty && o.dkAdd.isEmpty && o.ids.isEmpty && o.pops.isEmpty && o.pool.isEmpty

/-- `AdmissionPolicy::estimate`: consumes one doorkeeper answer. -/
def estimateO (t : TinyLFU) (h : Nat) (o : Oracle) : Except String (Nat × Oracle) :=
  match o.dk with
  | [] => .error "oracle: doorkeeper answers exhausted"
  | b :: rest =>
    if !t.hasLegal h b then .error "illegal oracle: doorkeeper false negative"
    else match t.estimate h b with
      | some e => .ok (e, { o with dk := rest })
      | none => .error "panic: sketch index out of bounds"

/-- ids of `kw` that are not in `sample` -/
def notSampled (kw : AMap Nat WKey) (sample : List SKey) : List Nat :=
  kw.keys.filter (fun id => !sample.any (fun x => x.id == id))

/-- Pushes `n` further ids (in the oracle's iteration order) onto the sample.
    Legal: each id is charged, not yet in the sample. -/
def fillSample (t : TinyLFU) (kw : AMap Nat WKey) : Nat → List SKey → Oracle → Except String (List SKey × Oracle)
  | 0, sample, o => .ok (sample, o)
  | n + 1, sample, o =>
    match o.ids with
    | [] => .error "oracle: sampled ids exhausted"
    | id :: ids =>
      match kw.get? id with
      | none => .error "illegal oracle: sampled id is not charged"
      | some wk =>
        if sample.any (fun x => x.id == id) then .error "illegal oracle: id sampled twice"
        else match estimateO t wk.hash { o with ids := ids } with
          | .error e => .error e
          | .ok (est, o') => fillSample t kw n ({ id := id, weight := wk.weight, est := est } :: sample) o'

/-- how many ids `maybe_fill_in` pushes -/
def fillNeed (size : Nat) (kw : AMap Nat WKey) (sample : List SKey) : Nat :=
  min (size - sample.length) (notSampled kw sample).length

/-- One eviction, as reported to the delete hook: (id, key, weight). -/
abbrev Evicted := Nat × Nat × Int

/-- `CacheWeight::delete` on the admission part. -/
def Adm.delete (a : Adm) (id : Nat) : Adm × Option Evicted :=
  match a.kw.get? id with
  | some wk => ({ a with kw := a.kw.del id, used := a.used - wk.weight }, some (id, wk.key, wk.weight))
  | none => (a, none)

/-- `CacheWeight::add` -/
def Adm.add (a : Adm) (id key hash : Nat) (w : Int) : Adm :=
  { a with kw := a.kw.set id { key := key, hash := hash, weight := w }, used := a.used + w }

/-- `CacheWeight::is_space_available_for` (cache_weight.rs:219-224) computes `max_weight - weight_used` in `i64`: where the
    difference is not representable the debug build panics ("attempt to subtract with overflow"). With `0 ≤ used` and
    `max` an `i64` this cannot happen (`Adm.spaceOverflow_false`); a NEGATIVE total (known finding D10) with `max` near
    `i64::MAX` reaches it. -/
def Adm.spaceOverflow (a : Adm) : Bool := !inI64 (a.max - a.used)

structure LoopResult where
  status : Status
  adm : Adm
  oracle : Oracle
  evicted : List Evicted     -- in eviction order
  popped : List SKey         -- every key popped from the sample, in order (the last one may have been spared)
  overflow : Bool := false   -- `is_space_available_for` panicked on its subtraction (the status is then meaningless: `.pending`)
  deriving Repr

/-- The `while` loop of `create_space` (admission_policy.rs:191-213). `fuel` bounds the iterations;
    `createSpace_fuel` shows `|kw| + 1` is never exhausted. The space test at the head of an iteration uses the value the
    previous `is_space_available_for` returned (the caller's for the first iteration, the one right after the eviction
    for the later ones): that call — BEFORE `maybe_fill_in` — is where the subtraction can overflow. -/
def createLoop (t : TinyLFU) (size : Nat) (w : Int) (incEst : Nat) :
    Nat → Adm → List SKey → Oracle → List Evicted → List SKey → Except String LoopResult
  | 0, _, _, _, _, _ => .error "fuel exhausted"
  | fuel + 1, a, sample, o, ev, pp =>
    if a.max - a.used ≥ w then
      .ok { status := .accepted, adm := a, oracle := o, evicted := ev.reverse, popped := pp.reverse }
    else match o.pops with
      | [] => .error "oracle: pops exhausted"
      | none :: pops =>
        if !sample.isEmpty then .error "illegal oracle: empty pop from a non-empty sample"
        else .ok { status := .rejected .noSpace, adm := a, oracle := { o with pops := pops },
                   evicted := ev.reverse, popped := pp.reverse }
      | some id :: pops =>
        match sample.find? (fun x => x.id == id) with
        | none => .error "illegal oracle: popped id is not in the sample"
        | some k =>
          if !k.isMaxOf sample then .error "illegal oracle: popped key is not a maximum of the heap order"
          else if incEst < k.est then
            .ok { status := .rejected .noSpace, adm := a, oracle := { o with pops := pops },
                  evicted := ev.reverse, popped := (k :: pp).reverse }
          else
            let (a', e?) := a.delete id
            let ev' := match e? with | some e => e :: ev | none => ev
            if a'.spaceOverflow then
              .ok { status := .pending, adm := a', oracle := { o with pops := pops }, evicted := ev'.reverse,
                    popped := (k :: pp).reverse, overflow := true }
            else
            let sample' := sample.filter (fun x => x.id != id)
            match fillSample t a'.kw (fillNeed size a'.kw sample') sample' { o with pops := pops } with
            | .error e => .error e
            | .ok (sample'', o') => createLoop t size w incEst fuel a' sample'' o' ev' (k :: pp)

structure AdmResult where
  status : Status
  adm : Adm
  oracle : Oracle
  evicted : List Evicted := []
  popped : List SKey := []
  incEst : Option Nat := none     -- estimate of the incoming key, when `create_space` ran
  overflow : Bool := false        -- the worker panicked in `is_space_available_for` (`max_weight - weight_used` outside `i64`)
  deriving Repr

/-- `AdmissionPolicy::maybe_add` (admission_policy.rs:104-125) -/
def maybeAdd (t : TinyLFU) (size : Nat) (a : Adm) (id key hash : Nat) (w : Int) (o : Oracle) :
    Except String AdmResult :=
  if w > a.max then .ok { status := .rejected .tooHeavy, adm := a, oracle := o }
  else if a.spaceOverflow then .ok { status := .pending, adm := a, oracle := o, overflow := true }
  else if a.max - a.used ≥ w then .ok { status := .accepted, adm := a.add id key hash w, oracle := o }
  else match estimateO t hash o with
    | .error e => .error e
    | .ok (incEst, o1) =>
      match fillSample t a.kw (fillNeed size a.kw []) [] o1 with
      | .error e => .error e
      | .ok (sample, o2) =>
        match createLoop t size w incEst (a.kw.length + 1) a sample o2 [] [] with
        | .error e => .error e
        | .ok r =>
          let adm := if r.status = .accepted then r.adm.add id key hash w else r.adm
          .ok { status := r.status, adm := adm, oracle := r.oracle, evicted := r.evicted,
                popped := r.popped, incEst := some incEst, overflow := r.overflow }

end Cached
