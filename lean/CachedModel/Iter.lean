/-
  The multi-key iterator kept open ACROSS events (Layer A).

      impl Iterator for MultiGetIterator {
          fn next(&mut self) -> Option<Option<Value>> {
              if self.keys.is_empty() || self.cache.is_shutting_down() { return None; }
              let key = self.keys.get(0).unwrap();
              let value = self.cache.get(key);
              self.keys.remove(0);
              Some(value)
          }
      }

  The list of keys not yet asked for is the CALLER's state, not the cache's: it is an argument and a result of
  `iterNext`, not a field of `State`.  One `next()` is one event of Layer A: it is the model's `get` of the head key
  (`step s (.get k) o`), guarded by the two tests above.  `iterDrain` is `next()` called until it answers `None`
  with nothing in between (`collect()`); `CachedProofs/Extra/Iter.lean` proves it equal to `Ev.multiGet`.
-/
import CachedModel.State

namespace Cached

/-- One `MultiGetIterator::next()`.  Result: the new state, the answer (`none` = the iterator ended, `some v` = the
    item `v`, itself `none` for a key that is not readable), the keys still to be asked for, the oracle left over.
      * no keys left                → `None`;
      * the cache is shutting down  → `None`, and the keys are KEPT (the test comes before `remove(0)`);
      * otherwise                   → `Some(get(head))`, the head key is removed.
    An answer of `get` that is not a value is an error (it does not happen: `iterNext_error_iff` in the proofs). -/
def iterNext (s : State) (keys : List Nat) (o : Oracle) :
    Except String (State × Option (Option Nat) × List Nat × Oracle) :=
  match keys with
  | [] => .ok (s, none, [], o)
  | k :: rest =>
    if s.shutting then .ok (s, none, k :: rest, o)
    else match step s (.get k) o with
      | .ok (s', .value v, o') => .ok (s', some v, rest, o')
      | .ok _ => .error "a get answered something else than a value"
      | .error m => .error m

/-- `next()` called at most `fuel` times, until it answers `None`; `acc` holds the items so far, newest first. -/
def iterDrainFuel : Nat → State → List Nat → Oracle → List (Option Nat) →
    Except String (State × List (Option Nat) × List Nat × Oracle)
  | 0, _, _, _, _ => .error "iterDrain: the iterator did not end"
  | fuel + 1, s, keys, o, acc =>
    match iterNext s keys o with
    | .ok (s', none, keys', o') => .ok (s', acc.reverse, keys', o')
    | .ok (s', some v, keys', o') => iterDrainFuel fuel s' keys' o' (v :: acc)
    | .error m => .error m

/-- The iterator drained with nothing in between (`collect()`): `next()` until it answers `None`.  Every `next()` that
    yields an item removes a key, so `keys.length + 1` calls are enough (the fuel never runs out:
    `iter_drain_eq_multiGet`).  Result: final state, the items in order, the keys left (non-empty only when the cache is
    shutting down), the oracle left over. -/
def iterDrain (s : State) (keys : List Nat) (o : Oracle) :
    Except String (State × List (Option Nat) × List Nat × Oracle) :=
  iterDrainFuel (keys.length + 1) s keys o []

end Cached
