/-
  Layer L: the lock / queue discipline of the crate, for the deadlock-freedom property (C18).

  `Cls` are the lock classes of the crate, `rank` the order in which they may be nested, `programs` the
  sequence of acquire / release / channel operations of every API call and every background loop body,
  transcribed from the code (file:line in the comments) and cross-checked at run time against the
  lock-event log of the real crate (DESIGN.md section 5.1). Two locks of one class are held together in exactly one
  place: a DashMap iterator takes the read lock of shard i+1 before it lets go of shard i (observed in the lock log;
  dashmap-5.4.0 src/iter.rs) — `acqUp`: an instance with a GREATER index than every held instance of that class.
  Locks are therefore ordered lexicographically by (rank of the class, instance index).
-/
import CachedModel.Basic

namespace Cached
namespace Locks

inductive Cls where
  | ttlShard    -- expiration/mod.rs: RwLock<HashMap<KeyId, ExpireAfter>> per shard
  | kwShard     -- cache_weight.rs: a shard of DashMap<KeyId, WeightedKey>
  | wu          -- cache_weight.rs: RwLock<Weight> (weight_used)
  | storeShard  -- store/mod.rs: a shard of DashMap<Key, StoredValue>
  | af          -- admission_policy.rs: RwLock<TinyLFU>
  | poolBuf     -- pool.rs: RwLock<Buffer>
  | ackWaker    -- acknowledgement.rs: Mutex<WakerState>
  | ackStatus   -- acknowledgement.rs: Mutex<CommandStatus>
  deriving DecidableEq, Repr, Inhabited

def Cls.rank : Cls → Nat
  | .ttlShard => 0
  | .kwShard => 1
  | .wu => 2
  | .storeShard => 3
  | .af => 4
  | .poolBuf => 5
  | .ackWaker => 6
  | .ackStatus => 7

/-- the two bounded channels -/
inductive Chan where
  | cmd   -- command_executor.rs: bounded(command_buffer_size)
  | buf   -- admission_policy.rs: bounded(CHANNEL_CAPACITY)
  deriving DecidableEq, Repr, Inhabited

inductive Op where
  | acq (c : Cls)          -- blocking acquire (read or write: both can block) of some instance of class `c`
  | acqUp (c : Cls)        -- blocking acquire of an instance of `c` with a greater index than every held instance of `c`
  | rel (c : Cls)          -- release of one held instance of class `c`
  | send (q : Chan)        -- blocking send
  | trySend (q : Chan)     -- non-blocking send (`select!` with `default`)
  | recv (q : Chan)        -- blocking receive
  deriving DecidableEq, Repr, Inhabited

/-- A program keeps the discipline from a given list of held classes: a plain acquire is of a class ranked strictly
    above everything held; an upward acquire (`acqUp`) may share its class with held locks but nothing held may rank
    above it; blocking channel operations hold nothing; releases release something held. -/
def okFrom : List Cls → List Op → Bool
  | _, [] => true
  | held, .acq c :: rest => held.all (fun h => h.rank < c.rank) && okFrom (c :: held) rest
  | held, .acqUp c :: rest => held.all (fun h => h.rank ≤ c.rank) && okFrom (c :: held) rest
  | held, .rel c :: rest => held.contains c && okFrom (held.erase c) rest
  | held, .send _ :: rest => held.isEmpty && okFrom held rest
  | held, .recv _ :: rest => held.isEmpty && okFrom held rest
  | held, .trySend _ :: rest => okFrom held rest

/-- what is held after running a program from `held` -/
def heldAfter : List Cls → List Op → List Cls
  | held, [] => held
  | held, .acq c :: rest => heldAfter (c :: held) rest
  | held, .acqUp c :: rest => heldAfter (c :: held) rest
  | held, .rel c :: rest => heldAfter (held.erase c) rest
  | held, _ :: rest => heldAfter held rest

open Cls Op Chan in
/-- Every program of the crate (name, is it the body of the consumer loop of a channel, operations). -/
def programs : List (String × Option Chan × List Op) := [
  -- clients (cached.rs)
  ("put / put_with_weight / put_with_ttl / put_with_weight_and_ttl",   -- cached.rs:131-243: is_present, then send
    none, [acq storeShard, rel storeShard, send cmd]),
  ("put_or_update (absent key)",                                       -- cached.rs:264-295: store.update (get_mut), send
    none, [acq storeShard, rel storeShard, send cmd]),
  ("put_or_update (present key)",                                      -- cached.rs:297-322: update in place, weight_of, ttl ops, send
    none, [acq storeShard, rel storeShard, acq kwShard, rel kwShard, acq ttlShard, rel ttlShard, acq ttlShard, rel ttlShard, send cmd]),
  ("delete",                                                           -- cached.rs:347-354: mark_deleted (get_mut), send
    none, [acq storeShard, rel storeShard, send cmd]),
  ("get / map_get / multi_get / iterators (per key)",                  -- cached.rs:537-545, pool.rs:69-77, 46-53: store.get, pool.add -> accept (try send)
    none, [acq storeShard, rel storeShard, acq poolBuf, trySend buf, rel poolBuf]),
  ("get_ref / map_get_ref (the store guard outlives mark_key_accessed)", -- cached.rs:379-387
    none, [acq storeShard, acq poolBuf, trySend buf, rel poolBuf, rel storeShard]),
  ("total_weight_used",                                                -- cache_weight.rs:213-217
    none, [acq wu, rel wu]),
  ("shutdown",                                                         -- cached.rs:463-484, admission_policy.rs:171-188, cache_weight.rs:315-323, expiration/mod.rs:73-77
    none, [send cmd, send buf, acq storeShard, rel storeShard, acq kwShard, rel kwShard, acq wu, rel wu, acq af, rel af, acq ttlShard, rel ttlShard]),
  ("poll of an acknowledgement",                                       -- acknowledgement.rs:120-150
    none, [acq ackWaker, acq ackStatus, rel ackStatus, rel ackWaker]),
  -- command worker (command_executor.rs:111-172): one loop body per command kind, each starting at recv
  ("worker: Put / PutWithTTL",                                         -- is_present; maybe_add (space check, add | create_space); store.put; ttl put; done
    some cmd, [recv cmd, acq storeShard, rel storeShard, acq wu, rel wu,
               acq af, rel af,                                                   -- estimate of the incoming key
               acq kwShard, acq af, rel af, acqUp kwShard, rel kwShard, acq af, rel af, rel kwShard,   -- sample: the DashMap iterator holds shard i while taking shard i+1; estimates under the guard
               acq kwShard, rel kwShard, acq wu, acq storeShard, rel storeShard, rel wu,   -- evict one victim (delete + hook under WU)
               acq wu, rel wu, acq kwShard, acq af, rel af, acqUp kwShard, rel kwShard, rel kwShard,   -- re-check space, refill the sample (same iteration pattern)
               acq kwShard, rel kwShard, acq wu, rel wu,                         -- add: insert, then total
               acq storeShard, rel storeShard, acq ttlShard, rel ttlShard,       -- store.put(_with_ttl), ttl_ticker.put
               acq ackStatus, rel ackStatus, acq ackWaker, rel ackWaker]),       -- done()
  ("worker: UpdateWeight",                                             -- cache_weight.rs:238-256: shard guard, then WU inside it
    some cmd, [recv cmd, acq kwShard, acq wu, rel wu, rel kwShard, acq ackStatus, rel ackStatus, acq ackWaker, rel ackWaker]),
  ("worker: Delete",                                                   -- command_executor.rs:247-257
    some cmd, [recv cmd, acq storeShard, rel storeShard, acq kwShard, rel kwShard, acq wu, rel wu, acq ttlShard, rel ttlShard,
               acq ackStatus, rel ackStatus, acq ackWaker, rel ackWaker]),
  ("worker: Shutdown and drain",                                       -- command_executor.rs:154-166
    some cmd, [recv cmd, acq ackStatus, rel ackStatus, acq ackWaker, rel ackWaker]),
  -- sweeper (expiration/mod.rs:106-136): shard write lock across the evictions
  ("sweeper tick",
    none, [acq ttlShard, acq kwShard, acq storeShard, rel storeShard, rel kwShard,   -- remove_if: the condition reads the store under the key id's shard guard
           acq wu, acq storeShard, rel storeShard, rel wu, rel ttlShard]),
  -- access-count consumer (admission_policy.rs:84-106)
  ("consumer: Full batch",
    some buf, [recv buf, acq af, rel af])
]

/-- every program keeps the discipline and ends holding nothing -/
def programsOk : Bool := programs.all (fun p => okFrom [] p.2.2 && (heldAfter [] p.2.2).isEmpty)

/-- the consumer of a channel never sends (blocking) on any channel, and only consumers receive -/
def consumersOk : Bool :=
  programs.all (fun p => match p.2.1 with
    | some q => p.2.2.all (fun op => match op with | .send _ => false | .recv q' => q' == q | _ => true)
    | none => p.2.2.all (fun op => match op with | .recv _ => false | _ => true))

/-- the (held class, acquired class) pairs a program produces when it runs from `held` -/
def edgesFrom : List Cls → List Op → List (Cls × Cls)
  | _, [] => []
  | held, .acq c :: rest => held.map (fun h => (h, c)) ++ edgesFrom (c :: held) rest
  | held, .acqUp c :: rest => held.map (fun h => (h, c)) ++ edgesFrom (c :: held) rest
  | held, .rel c :: rest => edgesFrom (held.erase c) rest
  | held, _ :: rest => edgesFrom held rest

/-- Every nested acquisition of the table.  The lock log of the real crate must stay INSIDE the allowed edges
    (`edgeAllowed`) and — in the other direction — must SHOW every one of these: a nesting of the table that the
    code no longer performs means a critical section the model treats as one atomic action (or as a lock held
    across actions) has been split. -/
def programEdges : List (Cls × Cls) := (programs.flatMap (fun p => edgesFrom [] p.2.2)).eraseDups

/-- The nestings on which the ATOMIC ACTIONS and the LOCK OWNERSHIP of Layer B rest:
    `UpdateWeight` reads the old weight, changes the total and writes the new weight under the shard guard of the id
    (`kw.update` is ONE action); an eviction subtracts the weight and removes the store entry under `weight_used`
    (`wuOwner` across `wu.sub`/`store.remove`); the sweeper holds its expiry shard across the evictions (`ttlOwner`);
    `get_ref` keeps the store shard's read guard across `pool.add` (`storeReaders`); sampling estimates under the
    iterator's guard; `poll` reads the status under the waker lock; the sweeper's `kw.remove` action checks the stored
    value under the key id's shard guard. -/
def atomicityRests : List (Cls × Cls) :=
  [(.kwShard, .wu), (.wu, .storeShard), (.ttlShard, .kwShard), (.ttlShard, .wu), (.ttlShard, .storeShard),
   (.storeShard, .poolBuf), (.kwShard, .af), (.kwShard, .kwShard), (.ackWaker, .ackStatus),
   (.kwShard, .storeShard)]   -- the sweeper's `remove_if`: the check of the stored value runs under the key id's shard guard (fix 36c87dc)

/-- Is the edge "holding a lock of class `held`, acquiring one of class `wanted`" (`same` = the very same lock
    instance) allowed by the discipline? Used to validate the lock log of the real crate. -/
def edgeAllowed (held wanted : Cls) (same : Bool) : Bool :=
  !same && (decide (held.rank < wanted.rank) ||
    (held == wanted && programs.any (fun p => p.2.2.contains (.acqUp wanted))))

def Cls.names : List (String × Cls) :=
  [("ttlShard", .ttlShard), ("kwShard", .kwShard), ("wu", .wu), ("storeShard", .storeShard), ("af", .af),
   ("poolBuf", .poolBuf), ("ackWaker", .ackWaker), ("ackStatus", .ackStatus)]

def Cls.ofName? : String → Option Cls
  | "ttlShard" => some .ttlShard
  | "kwShard" => some .kwShard
  | "wu" => some .wu
  | "storeShard" => some .storeShard
  | "af" => some .af
  | "poolBuf" => some .poolBuf
  | "ackWaker" => some .ackWaker
  | "ackStatus" => some .ackStatus
  | _ => none

/-- Lock classes on which the crate makes a NON-blocking acquisition (`try_lock`, `try_read`, `try_write`, timed forms).
    None: in every program of the table an acquisition WAITS and then succeeds, which is what the steps of Layer A and
    Layer B model (an action that needs a lock is disabled while another thread owns it, and never "gives up").
    A non-blocking acquisition observed in the lock log is therefore a behaviour the model does not have. -/
def tryAcquired : List Cls := []

/-- (schedule point reached, lock class): where a thread may have acquired the SAME lock instance more than once since
    its previous schedule point. Everywhere else the code between two schedule points takes each lock at most once — the
    assumption under which that code is ONE atomic action of Layer B (two separate critical sections on one lock, e.g. a
    `remove` followed by an `insert` on the same DashMap shard, let another thread in between). Validated against the
    lock log of the real crate on every run. -/
def repeatAllowed : List (String × String) := []

/-- schedule points of the hooks that are blocking channel operations: nothing may be held there -/
def blockingChannelPoints : List String := ["cmd.send", "buf.send_shutdown", "worker.recv", "worker.drain", "consumer.recv"]

/-- Which lock classes a thread may hold when it stands at a schedule point (sorted class names). Everything not listed
    must be reached holding nothing: this is the assumption under which the code between two schedule points is one
    atomic action of Layer B (only `weight_used` and one expiry shard are owned across points; the `get_ref` guard spans
    `pool.add`; a DashMap iterator's shard guard spans the estimates of the keys it yields). Validated against the lock
    log of the real crate on every run. -/
def heldAtPoint : List (String × List (List String)) := [
  ("af.estimate", [[], ["kwShard"]]),
  ("kw.remove", [[], ["ttlShard"]]),
  ("wu.sub", [[], ["ttlShard"]]),
  ("store.remove", [[], ["wu"], ["ttlShard", "wu"]]),
  ("sweep.entry", [["ttlShard"]]),
  ("pool.add", [[], ["storeShard"]]),
  ("poll.register", [["ackWaker"]]),
  ("poll.flag", [["ackWaker"]]),
  ("poll.status", [["ackWaker"]])
]

def heldAllowedAt (point : String) (held : List String) : Bool :=
  match heldAtPoint.find? (fun p => p.1 == point) with
  | some (_, allowed) => allowed.contains held
  | none => held.isEmpty

-- ---------- the abstract system the deadlock theorem is about ----------

/-- a concrete lock: class and instance index; ordered lexicographically by (rank, instance) -/
structure Lock where
  cls : Cls
  inst : Nat
  deriving DecidableEq, Repr, Inhabited

def Lock.lt (a b : Lock) : Prop := a.cls.rank < b.cls.rank ∨ (a.cls.rank = b.cls.rank ∧ a.inst < b.inst)

instance (a b : Lock) : Decidable (Lock.lt a b) := by unfold Lock.lt; exact inferInstance

structure Thread where
  held : List Lock               -- the locks it holds
  todo : List Op                 -- the rest of its current program (`[]` = between programs / finished)
  want : Nat                     -- when `todo` starts with an acquire: the instance index it is acquiring
  consumerOf : Option Chan       -- the channel whose only receiver this thread is
  deriving Repr

structure Sys where
  threads : List Thread
  len : Chan → Nat               -- current length of each channel
  cap : Chan → Nat               -- its capacity

/-- a thread's static discipline: the rest of its program is fine from the classes it holds, an upward acquire at the
    head really goes upward, it ends holding nothing -/
def Thread.ok (t : Thread) : Bool :=
  okFrom (t.held.map (·.cls)) t.todo &&
  (match t.todo with
   | .acqUp c :: _ => t.held.all (fun h => h.cls != c || decide (h.inst < t.want))
   | _ => true) &&
  (match t.consumerOf with
   | some q => t.todo.all (fun op => match op with | .send _ => false | .recv q' => q' == q | _ => true)
   | none => t.todo.all (fun op => match op with | .recv _ => false | _ => true)) &&
  (heldAfter (t.held.map (·.cls)) t.todo).isEmpty

end Locks
end Cached
