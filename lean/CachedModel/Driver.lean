/-
  Line protocol: the harness writes `C <cfg>` / `E <event> [oracle]` lines, this driver runs the
  model on them and prints one `R <out> | <snapshot>` line per event. The check diffs that against
  what the harness observed on the real crate.
-/
import CachedModel.State
import CachedModel.Iter
import CachedModel.Ack
import CachedModel.Locks
import CachedModel.LayerB
import CachedModel.Glue

namespace Cached

def insertSorted {α : Type} (lt : α → α → Bool) (x : α) : List α → List α
  | [] => [x]
  | y :: ys => if lt x y then x :: y :: ys else y :: insertSorted lt x ys

def sortBy {α : Type} (lt : α → α → Bool) (l : List α) : List α := l.foldr (insertSorted lt) []

def joinWith (sep : String) (l : List String) : String := sep.intercalate l

def optNatStr : Option Nat → String
  | some n => toString n
  | none => "-"

def Reject.str : Reject → String
  | .noSpace => "nospace"
  | .tooHeavy => "tooheavy"
  | .keyDoesNotExist => "nokey"
  | .keyAlreadyExists => "exists"

def Status.str : Status → String
  | .pending => "pending"
  | .accepted => "accepted"
  | .rejected r => "rejected:" ++ r.str
  | .shuttingDown => "shuttingdown"

def evictedStr (ev : List Evicted) : String :=
  joinWith ";" (ev.map (fun e => s!"{e.1}:{e.2.1}:{e.2.2}"))

def evictedSortedStr (ev : List Evicted) : String := evictedStr (sortBy (fun a b => a.1 < b.1) ev)

def poppedStr (pp : List SKey) : String :=
  joinWith ";" (pp.map (fun k => s!"{k.id}:{k.weight}:{k.est}"))

def Out.str : Out → String
  | .none => "none"
  | .err => "err"
  | .ack h st => s!"ack {h} {st.str}"
  | .parked => "parked"
  | .value v => s!"value {optNatStr v}"
  | .values vs => "values " ++ joinWith "," (vs.map optNatStr)
  | .weight w => s!"weight {w}"
  | .stats l => "stats " ++ joinWith "," (l.map toString)
  | .worked kind st ie pp ev => s!"worked {kind} {st.str} inc={optNatStr ie} pops={poppedStr pp} ev={evictedStr ev}"
  | .workerPanic p => s!"workerpanic {p.toString}"
  | .swept ev => s!"swept ev={evictedSortedStr ev}"
  | .consumed => "consumed"
  | .polled st => s!"polled {st.str}"
  | .panic p => s!"panic {p.toString}"

def hexDigit (n : Nat) : Char := "0123456789abcdef".toList.getD n '?'

def byteHex (b : Byte) : String := String.ofList [hexDigit (b.toNat / 16), hexDigit (b.toNat % 16)]

def rowHex (r : Row) : String := String.join (r.map byteHex)

def State.snapWith (s : State) (wuLocked : Bool) (hiddenShard : Option Nat) : String :=
  let store := sortBy (fun a b => a.1 < b.1) s.store
  let storeS := joinWith "," (store.map (fun p => s!"{p.1}:{p.2.value}:{p.2.id}:{optNatStr p.2.expiry}:{if p.2.soft then 1 else 0}"))
  let kw := sortBy (fun a b => a.1 < b.1) s.adm.kw
  let kwS := joinWith "," (kw.map (fun p => s!"{p.1}:{p.2.key}:{p.2.hash}:{p.2.weight}"))
  let ttl := sortBy (fun a b => a.1.1 < b.1.1 || (a.1.1 == b.1.1 && a.1.2 < b.1.2)) (s.ttl.filter (fun p => some p.1.1 != hiddenShard))
  let ttlS := joinWith "," (ttl.map (fun p => s!"{p.1.1}:{p.1.2}:{p.2}"))
  let acksS := joinWith "," (s.acks.map Status.str)
  let rowsS := joinWith ";" (s.lfu.fc.rows.map (fun p => rowHex p.2))
  let poolS := joinWith "|" (s.pool.map (fun b => joinWith "." (b.map toString)))
  let qS := if s.worker = .dead then "-" else toString s.queue.length
  let bqS := if s.consumerAlive then toString s.bufq.length else "-"
  s!"now={s.now} store=[{storeS}] kw=[{kwS}] wu={if wuLocked then "locked" else toString s.adm.used} ttl=[{ttlS}] q={qS} acks=[{acksS}] incs={s.lfu.incs} rows={rowsS} pool={poolS} bufq={bqS} stats={joinWith "," (s.stats.toList.map toString)} shut={if s.shutting then 1 else 0} worker={if s.worker = .dead then 0 else 1} consumer={if s.consumerAlive then 1 else 0} sweeper={if s.sweeperAlive then 1 else 0}"

def State.snap (s : State) : String := s.snapWith false none

-- ---------- parsing ----------

def parseInt? (t : String) : Option Int :=
  if t.startsWith "-" then (t.drop 1).toNat?.map (fun n => -(n : Int)) else t.toNat?.map (fun n => (n : Int))

def parseOptNat? (t : String) : Option (Option Nat) :=
  if t == "-" then some none else t.toNat?.map some

def parseOptInt? (t : String) : Option (Option Int) :=
  if t == "-" then some none else (parseInt? t).map some

def splitList (t : String) : List String := if t.isEmpty then [] else t.splitOn ","

def parseNatList? (t : String) : Option (List Nat) := (splitList t).mapM (fun x => x.toNat?)

def parseBoolList? (t : String) : Option (List Bool) :=
  (splitList t).mapM (fun x => if x == "1" then some true else if x == "0" then some false else none)

def parseOptNatList? (t : String) : Option (List (Option Nat)) := (splitList t).mapM parseOptNat?

def kvOf (t : String) : String × String :=
  match t.splitOn "=" with
  | [k, v] => (k, v)
  | _ => (t, "")

def parseOracle (toks : List String) : Option Oracle :=
  toks.foldlM (fun (o : Oracle) t =>
    let (k, v) := kvOf t
    match k with
    | "dk" => (parseBoolList? v).map (fun l => { o with dk := l })
    | "dkadd" => (parseBoolList? v).map (fun l => { o with dkAdd := l })
    | "ids" => (parseNatList? v).map (fun l => { o with ids := l })
    | "pops" => (parseOptNatList? v).map (fun l => { o with pops := l })
    | "pool" => (parseNatList? v).map (fun l => { o with pool := l })
    | _ => none) {}

def parseEv (toks : List String) : Option (Ev × List String) :=
  match toks with
  | "put" :: c :: k :: v :: rest => do pure (.put (← c.toNat?) (← k.toNat?) (← v.toNat?), rest)
  | "putw" :: c :: k :: v :: w :: rest => do pure (.putW (← c.toNat?) (← k.toNat?) (← v.toNat?) (← parseInt? w), rest)
  | "putttl" :: c :: k :: v :: t :: rest => do pure (.putTtl (← c.toNat?) (← k.toNat?) (← v.toNat?) (← t.toNat?), rest)
  | "putwttl" :: c :: k :: v :: w :: t :: rest =>
    do pure (.putWTtl (← c.toNat?) (← k.toNat?) (← v.toNat?) (← parseInt? w) (← t.toNat?), rest)
  | "upsert" :: c :: k :: v :: w :: t :: rm :: rest =>
    -- a request with an explicit weight ≤ 0, or with both a time-to-live and its removal, is refused by its builder
    -- (Layer G, `Glue.lean`): it never reaches `put_or_update`, so it is not an event of this layer
    do let w' ← parseOptInt? w
       let t' ← parseOptNat? t
       if (match w' with | some x => decide (x ≤ 0) | none => false) || (t'.isSome && rm == "1") then none
       else pure (.upsert (← c.toNat?) (← k.toNat?) (← parseOptNat? v) w' t' (rm == "1"), rest)
  | "delete" :: c :: k :: rest => do pure (.delete (← c.toNat?) (← k.toNat?), rest)
  | "get" :: k :: rest => do pure (.get (← k.toNat?), rest)
  | "mget" :: ks :: rest => do pure (.multiGet (← (if ks == "-" then some [] else parseNatList? ks)), rest)
  | "weight" :: rest => some (.weight, rest)
  | "stats" :: rest => some (.stats, rest)
  | "worker" :: rest => some (.worker, rest)
  | "sweep" :: rest => some (.sweep, rest)
  | "consumer" :: rest => some (.consumer, rest)
  | "advance" :: d :: rest => do pure (.advance (← d.toNat?), rest)
  | "shutdown" :: c :: rest => do pure (.shutdown (← c.toNat?), rest)
  | "resume" :: c :: rest => do pure (.resume (← c.toNat?), rest)
  | "poll" :: h :: rest => do pure (.poll (← h.toNat?), rest)
  | _ => none

def parseCfg (toks : List String) : Option (Cfg × Nat × List Nat) :=
  toks.foldlM (fun (acc : Cfg × Nat × List Nat) t =>
    let (cfg, now, seeds) := acc
    let (k, v) := kvOf t
    match k with
    | "max" => (parseInt? v).map (fun x => ({ cfg with maxWeight := x }, now, seeds))
    | "shards" => v.toNat?.map (fun x => ({ cfg with shards := x }, now, seeds))
    | "cmdcap" => v.toNat?.map (fun x => ({ cfg with cmdCap := x }, now, seeds))
    | "pool" => v.toNat?.map (fun x => ({ cfg with poolSize := x }, now, seeds))
    | "buf" => v.toNat?.map (fun x => ({ cfg with bufSize := x }, now, seeds))
    | "counters" => v.toNat?.map (fun x => ({ cfg with counters := x }, now, seeds))
    | "sample" => v.toNat?.map (fun x => ({ cfg with sampleSize := x }, now, seeds))
    | "bufchan" => v.toNat?.map (fun x => ({ cfg with bufChanCap := x }, now, seeds))
    | "ttlentry" => (parseInt? v).map (fun x => ({ cfg with ttlEntry := x }, now, seeds))
    | "hash" => v.toNat?.map (fun x => ({ cfg with hashMode := x }, now, seeds))
    | "wbase" => (parseInt? v).map (fun x => ({ cfg with wBase := x }, now, seeds))
    | "wmod" => v.toNat?.map (fun x => ({ cfg with wMod := x }, now, seeds))
    | "now" => v.toNat?.map (fun x => (cfg, x, seeds))
    | "seeds" => (parseNatList? v).map (fun x => (cfg, now, x))
    | _ => none)
    ({ maxWeight := 0, shards := 2, cmdCap := 1, poolSize := 1, bufSize := 1, counters := 2 }, 0, [])

-- ---------- acknowledgement slice (Layer B), lines `A <final status> <pollers> | <actions>` ----------

def parseStatus? (t : String) : Option Status :=
  match t with
  | "pending" => some .pending
  | "accepted" => some .accepted
  | "shuttingdown" => some .shuttingDown
  | "rejected:nospace" => some (.rejected .noSpace)
  | "rejected:tooheavy" => some (.rejected .tooHeavy)
  | "rejected:nokey" => some (.rejected .keyDoesNotExist)
  | "rejected:exists" => some (.rejected .keyAlreadyExists)
  | _ => none

def parseAckAct? (t : String) : Option AckB.Act :=
  match t.splitOn ":" with
  | ["ss"] => some .setStatus
  | ["sf"] => some .setFlag
  | ["w"] => some .wake
  | ["lr", p, w] => do pure (.lockRegister (← p.toNat?) (← w.toNat?))
  | ["lf", p] => do pure (.loadFlag (← p.toNat?))
  | ["fp", p] => do pure (.finishPoll (← p.toNat?))
  | _ => none

def AckB.PollResult.str : AckB.PollResult → String
  | .pending => "pending"
  | .ready s => "ready:" ++ s.str

def AckB.CPc.str : AckB.CPc → String
  | .beforeStatus => "beforeStatus"
  | .beforeFlag => "beforeFlag"
  | .beforeWake => "beforeWake"
  | .finished => "finished"

def AckB.St.str (s : AckB.St) : String :=
  let results := joinWith "|" (s.pollers.map (fun q => joinWith "," (q.results.reverse.map AckB.PollResult.str)))
  let wakes := joinWith "," (s.wakes.reverse.map toString)
  s!"R ack results={results} wakes={wakes} flag={if s.flag then 1 else 0} status={s.status.str} slot={if s.lock.isSome then "-" else if s.slot.isSome then "1" else "0"} lock={optNatStr s.lock} cpc={s.cpc.str}"

def driveAck (toks : List String) : String :=
  match toks with
  | final :: n :: "|" :: acts =>
    -- `h`: a bystander calls `handle()` on the same acknowledgement and drops the handle without polling: no access to
    -- status, flag or waker slot in the model (`CommandAcknowledgement::handle` only clones the `Arc`)
    (match parseStatus? final, n.toNat?, (acts.filter (· ≠ "h")).mapM parseAckAct? with
     | some f, some k, some as =>
       (match AckB.run (AckB.init f k) as with
        | some s => s.str
        | none => "R ack illegal: an action of the schedule is not enabled in the model")
     | _, _, _ => "R bad-ack-line")
  | _ => "R bad-ack-line"

-- ---------- pure components (Layer P), lines `P <function> <arguments>` ----------

def hexVal (c : Char) : Option Nat :=
  if '0' ≤ c ∧ c ≤ '9' then some (c.toNat - '0'.toNat)
  else if 'a' ≤ c ∧ c ≤ 'f' then some (c.toNat - 'a'.toNat + 10)
  else none

def parseHexBytes : List Char → Option Row
  | [] => some []
  | a :: b :: rest => do
    let x ← hexVal a
    let y ← hexVal b
    let tail ← parseHexBytes rest
    pure (BitVec.ofNat 8 (x * 16 + y) :: tail)
  | _ => none

def optRowStr : Option Row → String
  | some r => "row " ++ rowHex r
  | none => "panic"

def ExpiryUpdate.str : ExpiryUpdate → String
  | .nothing => "nothing"
  | .added n => s!"added:{n}"
  | .deleted e => s!"deleted:{e}"
  | .updated e n => s!"updated:{e}:{n}"

def runFcOps (fc : FreqCounter) : List String → List Nat → Option (FreqCounter × List Nat)
  | [], outs => some (fc, outs.reverse)
  | op :: rest, outs =>
    match op.splitOn ":" with
    | ["r"] => runFcOps fc.reset rest outs
    | ["e", h] => (match h.toNat? with
        | some hv => (match fc.estimate hv with | some e => runFcOps fc rest (e :: outs) | none => none)
        | none => none)
    | ["i", h] => (match h.toNat? with
        | some hv => (match fc.increment hv with | some fc' => runFcOps fc' rest outs | none => none)
        | none => none)
    | _ => none

def runLfuOps (t : TinyLFU) : List String → List Nat → Except String (TinyLFU × List Nat)
  | [], outs => .ok (t, outs.reverse)
  | op :: rest, outs =>
    match op.splitOn ":" with
    | ["e", h, b] => (match h.toNat? with
        | some hv =>
          let ans := b == "1"
          if !t.hasLegal hv ans then .error "illegal: doorkeeper false negative"
          else (match t.estimate hv ans with | some e => runLfuOps t rest (e :: outs) | none => .error "panic")
        | none => .error "bad")
    | ["a", h, b] => (match h.toNat? with
        | some hv =>
          let added := b == "1"
          if !t.addLegal hv added then .error "illegal: doorkeeper added a hash it already holds"
          else (match t.incrementFor hv added with | some t' => runLfuOps t' rest outs | none => .error "panic")
        | none => .error "bad")
    | _ => .error "bad"

-- ---------- Layer G: construction glue (`P glue.*` lines) ----------

def Glue.parseSetter? (t : String) : Option Glue.Setter :=
  match t.splitOn ":" with
  | ["pool", n] => n.toNat?.map .pool
  | ["buf", n] => n.toNat?.map .buf
  | ["cmd", n] => n.toNat?.map .cmd
  | ["shards", n] => n.toNat?.map .shards
  | ["tick", n] => n.toNat?.map .tick
  | ["other", _] => some .other
  | _ => none

def Glue.Builder.str (b : Glue.Builder) : String :=
  s!"cfg counters={b.counters} capacity={b.capacity} weight={b.cacheWeight} pool={b.pool} buf={b.buf} cmd={b.cmd} shards={b.shards} tick={b.tickNs}"

def Glue.parseBuilder? (toks : List String) : Option Glue.Builder :=
  toks.foldlM (fun (b : Glue.Builder) t =>
    let (k, v) := kvOf t
    match k with
    | "counters" => v.toNat?.map (fun x => { b with counters := x })
    | "capacity" => v.toNat?.map (fun x => { b with capacity := x })
    | "weight" => (parseInt? v).map (fun x => { b with cacheWeight := x })
    | "pool" => v.toNat?.map (fun x => { b with pool := x })
    | "buf" => v.toNat?.map (fun x => { b with buf := x })
    | "cmd" => v.toNat?.map (fun x => { b with cmd := x })
    | "shards" => v.toNat?.map (fun x => { b with shards := x })
    | "tick" => v.toNat?.map (fun x => { b with tickNs := x })
    | _ => none) default

def Glue.parseUCall? (t : String) : Option Glue.UCall :=
  match t.splitOn ":" with
  | ["value"] => some .value
  | ["rm"] => some .rm
  | ["weight", w] => (parseInt? w).map .weight
  | ["ttl", n] => n.toNat?.map .ttl
  | _ => none

def optIntStr : Option Int → String
  | some w => toString w
  | none => "-"

def driveGlue (toks : List String) : String :=
  match toks with
  | ["glue.defaults", pool, buf, cmd, shards, tick] =>
    (match pool.toNat?, buf.toNat?, cmd.toNat?, shards.toNat?, tick.toNat? with
     | some a, some b, some c, some d, some e =>
       let dflt : Glue.Defaults := { pool := a, buf := b, cmd := c, shards := d, tickNs := e }
       if dflt.ok then "R defaults ok" else "R defaults not-acceptable-to-the-setters"
     | _, _, _, _, _ => "R bad-pure-line")
  | "glue.builder" :: dflt :: counters :: capacity :: weight :: "|" :: chain =>
    (match parseNatList? (kvOf dflt).2, counters.toNat?, capacity.toNat?, parseInt? weight, (chain.filter (· ≠ "")).mapM Glue.parseSetter? with
     | some [a, b, c0, d0, e], some c, some cap, some w, some setters =>
       (match (Glue.Builder.newWith { pool := a, buf := b, cmd := c0, shards := d0, tickNs := e } c cap w).bind (fun b => b.run setters) with
        | some b => "R " ++ b.str
        | none => "R panic")
     | _, _, _, _, _ => "R bad-pure-line")
  | "glue.new" :: fields =>
    (match Glue.parseBuilder? fields with
     | some b =>
       (match Glue.cachedNew b [0, 0, 0, 0] with
        | some sh => s!"R shape cmd={sh.cmdCap} ttl={sh.ttlShards} pool={sh.poolBuffers} buf={sh.bufCap} rows={sh.rows} rowbytes={sh.rowBytes} reset={sh.resetAt} max={sh.maxWeight} used=0 store=0 kw=0"
        | none => "R panic")
     | none => "R bad-pure-line")
  | "glue.upsert" :: wbase :: wmod :: ttlentry :: v :: "|" :: calls =>
    (match parseInt? (kvOf wbase).2, (kvOf wmod).2.toNat?, parseInt? (kvOf ttlentry).2, (kvOf v).2.toNat?,
           (calls.filter (· ≠ "")).mapM Glue.parseUCall? with
     | some wb, some wm, some te, some value, some cs =>
       let cfg : Cfg := { maxWeight := 0, shards := 2, cmdCap := 1, poolSize := 1, bufSize := 1, counters := 2, wBase := wb, wMod := wm, ttlEntry := te }
       (match ((({} : Glue.UReq).calls cs).bind Glue.UReq.build) with
        | some r =>
          let ttl := match r.ttl with | some n => toString n | none => "-"
          s!"R req value={if r.hasValue then 1 else 0} weight={optIntStr r.weight} ttl={ttl} rm={if r.rm then 1 else 0} uw={optIntStr (r.updatedWeight cfg value)}"
        | none => "R panic")
     | _, _, _, _, _ => "R bad-pure-line")
  | ["glue.weight", ks, vs, wks, te, ttl] =>
    (match ks.toNat?, vs.toNat?, wks.toNat?, te.toNat? with
     | some a, some b, some c, some d => s!"R weight {Glue.defaultWeight a b c d (ttl == "1")}"
     | _, _, _, _ => "R bad-pure-line")
  | ["glue.hash"] => "R hash stable=1 distinct=1"
  | _ => "R bad-pure-line"

def drivePure (toks : List String) : String :=
  match toks with
  | ["row.inc", hx, pos] =>
    (match parseHexBytes hx.toList, pos.toNat? with
     | some r, some p => "R " ++ optRowStr (r.incrementAt p)
     | _, _ => "R bad-pure-line")
  | ["row.get", hx, pos] =>
    (match parseHexBytes hx.toList, pos.toNat? with
     | some r, some p => (match r.getAt p with | some v => s!"R val {v}" | none => "R panic")
     | _, _ => "R bad-pure-line")
  | ["row.half", hx] => (match parseHexBytes hx.toList with | some r => "R row " ++ rowHex r.half | none => "R bad-pure-line")
  | ["row.clear", hx] => (match parseHexBytes hx.toList with | some r => "R row " ++ rowHex r.clear | none => "R bad-pure-line")
  | ["np2", c] => (match c.toNat? with | some n => s!"R val {nextPower2 n}" | none => "R bad-pure-line")
  | ["cmp", w1, e1, w2, e2] =>
    (match parseInt? w1, e1.toNat?, parseInt? w2, e2.toNat? with
     | some a, some b, some c, some d =>
       let k1 : SKey := { id := 1, weight := a, est := b }
       let k2 : SKey := { id := 2, weight := c, est := d }
       let o := match SKey.cmp k1 k2 with | .lt => "-1" | .eq => "0" | .gt => "1"
       -- `PartialEq` of SampledKey is by id only: ids 1 and 2 differ, equal ids are equal
       s!"R cmp {o} 0 1"
     | _, _, _, _ => "R bad-pure-line")
  | ["expiry", e, n] =>
    (match parseOptNat? e, parseOptNat? n with
     | some a, some b => "R expiry " ++ (typeOfExpiryUpdate a b).str
     | _, _ => "R bad-pure-line")
  | ["ratio", _, _] => "R ratio ok"
  | "glue.builder" :: _ => driveGlue toks
  | "glue.defaults" :: _ => driveGlue toks
  | "glue.new" :: _ => driveGlue toks
  | "glue.upsert" :: _ => driveGlue toks
  | "glue.weight" :: _ => driveGlue toks
  | "glue.hash" :: _ => driveGlue toks
  | "fc" :: counters :: seeds :: "|" :: ops =>
    (match counters.toNat?, parseNatList? seeds with
     | some c, some sd =>
       let fc := FreqCounter.new c sd
       (match runFcOps fc ops [] with
        | some (fc', outs) =>
          s!"R fc total={fc'.total} est={joinWith "," (outs.map toString)} rows={joinWith ";" (fc'.rows.map (fun p => rowHex p.2))}"
        | none => "R panic")
     | _, _ => "R bad-pure-line")
  | "lfu" :: counters :: seeds :: "|" :: ops =>
    (match counters.toNat?, parseNatList? seeds with
     | some c, some sd =>
       (match runLfuOps (TinyLFU.new c sd) ops [] with
        | .ok (t, outs) =>
          s!"R lfu incs={t.incs} est={joinWith "," (outs.map toString)} rows={joinWith ";" (t.fc.rows.map (fun p => rowHex p.2))}"
        | .error m => "R " ++ m)
     | _, _ => "R bad-pure-line")
  | _ => "R bad-pure-line"

-- ---------- lock discipline (Layer L), lines `L edge <held> <wanted> <same>` / `L at <point> <held classes>` ----------

def driveLocks (toks : List String) : String :=
  match toks with
  | ["edge", a, b, same] =>
    (match Locks.Cls.ofName? a, Locks.Cls.ofName? b with
     | some x, some y => if Locks.edgeAllowed x y (same == "1") then "R ok" else "R rank-violation"
     | _, _ => "R unknown-lock-class")
  | ["at", point, held] =>
    if held == "-" then "R ok"
    else if (held.splitOn ",").any (fun h => (Locks.Cls.ofName? h).isNone) then "R unknown-lock-class"
    else if Locks.blockingChannelPoints.contains point then "R lock-held-at-blocking-channel-operation"
    else if !Locks.heldAllowedAt point (held.splitOn ",") then "R lock-held-where-the-model-holds-none"
    else "R ok"
  | ["cover", observed] =>
    -- every nested acquisition of the table must have been observed (the workload exercises every program)
    let seen := observed.splitOn ","
    let name (c : Locks.Cls) : String := (Locks.Cls.names.find? (fun p => p.2 == c)).map (·.1) |>.getD "?"
    let missing := Locks.programEdges.filter (fun e => !seen.contains (name e.1 ++ ">" ++ name e.2))
    if missing.isEmpty then "R ok"
    else "R nesting-of-the-model-not-observed " ++ ",".intercalate (missing.map (fun e => name e.1 ++ ">" ++ name e.2))
  | ["acks-after-shutdown", state] =>
    -- `C13_draining_answers_everything`: once the queue is drained no handle is pending
    if state == "resolved" then "R ok" else "R acknowledgements-never-answered-after-shutdown"
  | ["worker-after-shutdown", state] =>
    -- Layer A `WorkerMode.draining` / Layer B `WPc.drain` have no step that ends the worker: it answers every later
    -- command with ShuttingDown for as long as the cache lives
    if state == "alive" then "R ok" else "R the-worker-ended-while-the-cache-is-alive"
  | ["repeat", point, cls] =>
    if Locks.repeatAllowed.contains (point, cls) then "R ok" else "R lock-instance-acquired-twice-within-one-action"
  | ["tries", observed] =>
    if observed == "-" then "R ok"
    else
      let bad := (observed.splitOn ",").filter (fun n => match Locks.Cls.ofName? n with
        | some c => !Locks.tryAcquired.contains c
        | none => true)
      if bad.isEmpty then "R ok" else "R non-blocking-acquisition-not-in-the-model " ++ ",".intercalate bad
  | _ => "R bad-locks-line"

-- ---------- Layer B, lines `BC <cfg> clients=n` and `B <action> [oracle]` ----------

def B.WPc.point : B.WPc → String
  | .recv => "worker.recv" | .present _ => "store.present" | .space0 _ => "wu.space" | .sampleInit .. => "sample.init"
  | .evRemove .. => "kw.remove" | .evSub .. => "wu.sub" | .evStore .. => "store.remove" | .evSpace .. => "wu.space"
  | .fill .. => "sample.fill" | .emptySpace _ => "wu.space" | .insert _ => "kw.insert" | .add _ => "wu.add"
  | .storePut _ => "store.put" | .ttlPut .. => "ttl.put" | .update .. => "kw.update" | .delStore .. => "store.remove"
  | .delKw .. => "kw.remove" | .delSub .. => "wu.sub" | .delTtl .. => "ttl.delete" | .drain => "worker.drain" | .dead => "finished"

def B.SPc.point : B.SPc → String
  | .begin => "sweep.begin" | .entry .. => "sweep.entry" | .kwRemove .. => "kw.remove" | .sub .. => "wu.sub"
  | .store .. => "store.remove" | .fin => "sweep.end"

def B.CPc.point : B.CPc → String
  | .idle => "client.idle" | .start _ => "client.idle" | .putPresent .. => "store.present" | .idNext .. => "id.next"
  | .send _ => "cmd.send" | .delMark _ => "delete.mark" | .getStore _ => "store.get" | .getPool .. => "pool.add"
  | .weightRead => "wu.read" | .upUpdate .. => "upsert.update" | .upWeightOf .. => "upsert.weight_of"
  | .upTtlPut .. => "ttl.put" | .upTtlDelete .. => "ttl.delete" | .upTtlRemove .. => "ttl.update.remove"
  | .upTtlInsert .. => "ttl.update.insert"
  | .mgetStore .. => "store.get" | .mgetPool .. => "pool.add" | .mgetFlag .. => "flag.load"
  | .refStore _ => "store.get" | .refPool .. => "pool.add" | .shutCas => "shutdown.cas" | .shutSendCmd => "cmd.send"
  | .shutSendBuf => "buf.send_shutdown" | .shutConsumerFlag => "shutdown.consumer_flag" | .shutTickerFlag => "shutdown.ticker_flag"
  | .shutStoreClear => "shutdown.store_clear" | .shutKwClear => "shutdown.kw_clear" | .shutWuZero => "shutdown.wu_zero"
  | .shutAfClear => "shutdown.af_clear" | .shutStatsClear => "shutdown.stats_clear" | .shutTtlClear => "shutdown.ttl_clear"

def B.BState.pcs (b : B.BState) : String :=
  let cs := joinWith " " ((List.range b.cl.length).map (fun i => s!"c{i}={(b.cl.getD i .idle).point}"))
  let sw := if b.g.sweeperAlive || b.sw.point != "sweep.begin" then b.sw.point else "finished"
  s!"w={b.w.point} s={sw} {cs}"

def B.BState.snap (b : B.BState) : String := b.g.snapWith b.wuOwner.isSome b.ttlOwner

def parseReq? (toks : List String) : Option B.Req :=
  match toks with
  | ["putw", k, v, w, t] => do pure (.putW (← k.toNat?) (← v.toNat?) (← parseInt? w) (← parseOptNat? t))
  | ["delete", k] => do pure (.delete (← k.toNat?))
  | ["get", k] => do pure (.get (← k.toNat?))
  | ["mget", ks, iter] => do pure (.mget (← (if ks == "-" then some [] else parseNatList? ks)) (iter == "1"))
  | ["weight"] => some .weight
  | ["getref", k] => do pure (.getRef (← k.toNat?))
  | ["shutdown"] => some .shutdown
  | ["upsert", k, v, w, t, rm] =>
    do let w' ← parseOptInt? w
       let t' ← parseOptNat? t
       if (match w' with | some x => decide (x ≤ 0) | none => false) || (t'.isSome && rm == "1") then none
       else pure (.upsert (← k.toNat?) (← parseOptNat? v) w' t' (rm == "1"))
  | _ => none

def parseBAct? (toks : List String) : Option (B.Act × List String) :=
  match toks with
  | "issue" :: i :: rest => do pure (.issue (← i.toNat?) (← parseReq? rest), [])
  | "client" :: i :: rest => do pure (.client (← i.toNat?), rest)
  | "worker" :: rest => some (.worker, rest)
  | "sweeper" :: rest =>
    (match rest with
     | [v] => (match (kvOf v) with
        | ("visit", x) => x.toNat?.map (fun n => (.sweeper (some n), []))
        | _ => none)
     | [] => some (.sweeper none, [])
     | _ => none)
  | "consumer" :: rest => some (.consumer, rest)
  | "advance" :: d :: _ => do pure (.advance (← d.toNat?), [])
  | _ => none

def newResult (before after : B.BState) : String :=
  let pairs := (List.range after.res.length).filterMap (fun i =>
    let a := after.res.getD i []
    let b := before.res.getD i []
    if a.length > b.length then (a.head?).map (fun o => s!"c{i}:{o.str}") else none)
  if pairs.isEmpty then "-" else joinWith ";" pairs

structure DriverState where
  bst : Option B.BState := none
  st : Option State := none
  broken : Bool := false     -- after an illegal oracle / event the rest of the case is skipped
  /-- the keys an OPEN multi-key iterator has not yet been asked for (`iteropen` / `iternext`): an iterator that is not
      drained at once is, call by call, `if keys.is_empty() || is_shutting_down() { end } else { Some(get(key)) }` — each
      `next()` is `iterNext` of `CachedModel/Iter.lean` — the model's `get` of the head key; `CachedProofs/Extra/Iter.lean`:
      `C02_iter_next_is_get`, `iter_drain_eq_multiGet` (drained with nothing in between it IS the multi-key read). The list is the caller's own state, not the cache's: it lives here, not in `State`. -/
  iter : List Nat := []

/-- Processes one input line; returns the new driver state and the line to print (if any). -/
def driveLine (d : DriverState) (line : String) : DriverState × Option String :=
  let toks := (line.trimAscii.toString.splitOn " ").filter (fun t => !t.isEmpty)
  match toks with
  | [] => (d, none)
  | "#" :: _ => (d, some line.trimAscii.toString)
  | "BC" :: rest0 =>
    let rest := rest0.filter (fun t => !t.startsWith "#")
    let clients := ((rest.filterMap (fun t => let (k, v) := kvOf t; if k == "clients" then v.toNat? else none)).head?).getD 1
    let shardMap : List (Nat × Nat) := ((rest.filterMap (fun t => let (k, v) := kvOf t; if k == "sshard" then some v else none)).head?).map
      (fun v => (v.splitOn ",").filterMap (fun kv => match kv.splitOn ":" with
        | [a, b] => (match a.toNat?, b.toNat? with | some x, some y => some (x, y) | _, _ => none)
        | _ => none)) |>.getD []
    (match parseCfg (rest.filter (fun t => (kvOf t).1 != "clients" && (kvOf t).1 != "sshard")) with
     | some (cfg, now, seeds) =>
       let b := { B.BState.init cfg now seeds clients with storeShard := shardMap }
       ({ d with bst := some b, broken := false }, some s!"R init | {b.pcs} | {b.snap}")
     | none => ({ d with bst := none, broken := true }, some "R bad-cfg"))
  | "B" :: rest0 =>
    let rest := rest0.filter (fun t => !t.startsWith "#")
    if d.broken then (d, some "R skipped")
    else (match d.bst, parseBAct? rest with
      | some b, some (act, otoks) =>
        (match parseOracle otoks with
         | none => ({ d with broken := true }, some "R bad-oracle")
         | some o =>
           match B.stepB b act o with
           | .ok (b', o') =>
             if o'.isEmpty then ({ d with bst := some b' }, some s!"R {newResult b b'} | {b'.pcs} | {b'.snap}")
             else ({ d with broken := true }, some "R illegal: oracle values left unconsumed")
           | .error m => ({ d with broken := true }, some s!"R illegal: {m}"))
      | _, _ => ({ d with broken := true }, some "R bad-action"))
  | "A" :: rest => (d, some (driveAck rest))
  | "P" :: rest => (d, some (drivePure rest))
  | "L" :: rest => (d, some (driveLocks rest))
  | "S" :: _ => (d, some "R clean")   -- free-running stress: only the monitors speak; the model expects them to be silent
  | "C" :: rest0 =>
    let rest := rest0.filter (fun t => !t.startsWith "#")
    (match parseCfg rest with
     | some (cfg, now, seeds) => ({ st := some (State.init cfg now seeds), broken := false }, some ("R init | " ++ (State.init cfg now seeds).snap))
     | none => ({ st := none, broken := true }, some "R bad-cfg"))
  | ["E", "probe-send", c] =>
    -- terminal probe: the client parked at a full command queue is let into the real `send`; in the model it stays
    -- parked (no step of the client is enabled) until the worker makes room
    (match d.st, c.toNat? with
     | some s, some i =>
       let blocked := (match s.pend.get? i with | some (.send _) => true | some .shutdownCmd => true | _ => false) &&
         s.worker != .dead && decide (s.queue.length ≥ s.cfg.cmdCap)
       (d, some s!"R {if blocked then "blocked" else "moved"} | {s.snap}")
     | _, _ => (d, some "R bad-event"))
  | ["E", "probe-recv"] =>
    -- terminal probe: the worker is let into the real `recv` on an empty queue; in the model the worker's step is not
    -- enabled (and a draining worker has no step that ends it)
    (match d.st with
     | some s => (d, some s!"R {if s.worker != .dead && s.queue.isEmpty then "blocked" else "moved"} | {s.snap}")
     | none => (d, some "R bad-event"))
  | "E" :: "iteropen" :: ks :: _ =>
    if d.broken then (d, some "R skipped")
    else (match d.st, (if ks == "-" then some [] else parseNatList? ks) with
      | some s, some l => ({ d with iter := l }, some s!"R none | {s.snap}")
      | _, _ => ({ d with broken := true }, some "R bad-event"))
  | "E" :: "iternext" :: k :: otoks0 =>
    let otoks := otoks0.filter (fun t => !t.startsWith "#")
    if d.broken then (d, some "R skipped")
    else (match d.st with
      | none => ({ d with broken := true }, some "R bad-event")
      | some s =>
        -- the line names the key the harness's iterator stands at ("-" = none left); it must be the model's
        let stands := match d.iter with | [] => "-" | h :: _ => toString h
        if k != stands then
          ({ d with broken := true }, some (match d.iter with
            | [] => "R illegal: the iterator is exhausted"
            | h :: _ => s!"R illegal: the iterator stands at key {h}"))
        -- a `next()` that ends the iteration consumes no oracle value: the oracle is read only when an item is due
        else match (if d.iter.isEmpty || s.shutting then some ({} : Oracle) else parseOracle otoks) with
          | none => ({ d with broken := true }, some "R bad-oracle")
          | some o =>
            match iterNext s d.iter o with       -- `CachedModel/Iter.lean`
            | .ok (s', none, keys', _) => ({ d with st := some s', iter := keys' }, some s!"R iter end | {s'.snap}")
            | .ok (s', some v, keys', o') =>
              if o'.isEmpty then ({ d with st := some s', iter := keys' }, some s!"R iter {optNatStr v} | {s'.snap}")
              else ({ d with broken := true }, some "R illegal: oracle values left unconsumed")
            | .error m => ({ d with broken := true }, some s!"R illegal: {m}"))
  | "E" :: rest0 =>
    let rest := rest0.filter (fun t => !t.startsWith "#")
    if d.broken then (d, some "R skipped")
    else match d.st, parseEv rest with
      | some s, some (ev, otoks) =>
        (match parseOracle otoks with
         | none => ({ d with broken := true }, some "R bad-oracle")
         | some o =>
           match step s ev o with
           | .ok (s', out, o') =>
             if o'.isEmpty then ({ d with st := some s' }, some s!"R {out.str} | {s'.snap}")
             else ({ d with broken := true }, some "R illegal: oracle values left unconsumed")
           | .error m => ({ d with broken := true }, some s!"R illegal: {m}"))
      | _, _ => ({ d with broken := true }, some "R bad-event")
  | _ => (d, some "R bad-line")

end Cached
