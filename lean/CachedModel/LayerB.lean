/-
  Layer B: the same programs as Layer A, but one ATOMIC ACTION per step and any interleaving of
  any number of client threads with the command worker, the sweeper and the access consumer.

  An action is the code between two consecutive schedule points of the hooks (DESIGN.md section 1 and Appendix A);
  the harness parks every thread at exactly these points, so the correspondence validates this granularity.
  The two critical sections that contain other actions are split and carry explicit lock ownership:
    * `CacheWeight::delete`: `weight_used -= w` and the delete hook `store.remove(key)` are two actions, the
      `weight_used` lock (WU) is owned across them;
    * the sweeper's `retain` over one TTL shard: one action per visited entry (plus the eviction's actions),
      the shard's lock is owned across them.
  A thread whose next action needs a lock owned by another thread is not enabled.

  Modelled programs: put_with_weight / put_with_weight_and_ttl, delete, get, total_weight_used, put_or_update (clients);
  every command kind (worker); one tick (sweeper); one batch (consumer); `shutdown()` in its twelve actions.
-/
import CachedModel.State

namespace Cached
namespace B

structure PutCmd where
  id : Nat
  hash : Nat
  w : Int
  k : Nat
  v : Nat
  ttl : Option Nat
  h : Option Nat          -- acknowledgement handle
  deriving DecidableEq, Repr, Inhabited

/-- where the command worker stands (the schedule point it is parked at, with its locals) -/
inductive WPc where
  | recv                                                        -- worker.recv
  | present (c : PutCmd)                                        -- store.present (the worker-side re-check)
  | space0 (c : PutCmd)                                         -- wu.space, first read in maybe_add
  | sampleInit (c : PutCmd) (space : Int) (incEst : Nat)        -- sample.init (the incoming key's estimate is already taken)
  | evRemove (c : PutCmd) (incEst : Nat) (sample : List SKey) (victim : SKey)   -- kw.remove of a victim
  | evSub (c : PutCmd) (incEst : Nat) (sample : List SKey) (id : Nat) (wk : WKey) -- wu.sub
  | evStore (c : PutCmd) (incEst : Nat) (sample : List SKey) (id : Nat) (wk : WKey) -- store.remove, holding WU
  | evSpace (c : PutCmd) (incEst : Nat) (sample : List SKey)    -- wu.space after an eviction
  | fill (c : PutCmd) (incEst : Nat) (sample : List SKey) (space : Int)   -- sample.fill
  | emptySpace (c : PutCmd)                                     -- wu.space, the re-check when the sample ran dry
  | insert (c : PutCmd)                                         -- kw.insert
  | add (c : PutCmd)                                            -- wu.add
  | storePut (c : PutCmd)                                       -- store.put
  | ttlPut (c : PutCmd) (e : Nat)                               -- ttl.put
  | update (id : Nat) (w : Int) (h : Option Nat)                -- kw.update
  | delStore (k : Nat) (h : Option Nat)                         -- store.remove (Delete command)
  | delKw (id : Nat) (exp : Option Nat) (h : Option Nat)        -- kw.remove
  | delSub (id : Nat) (wk : WKey) (exp : Option Nat) (h : Option Nat)   -- wu.sub
  | delTtl (id : Nat) (e : Nat) (h : Option Nat)                -- ttl.delete
  | drain                                                       -- worker.drain
  | dead
  deriving Repr, Inhabited

/-- where the sweeper stands -/
inductive SPc where
  | begin                                                       -- sweep.begin
  | entry (now shard : Nat) (rest : List (Nat × Nat))           -- sweep.entry: entries (id, expiry) of the shard not yet visited
  | kwRemove (now shard : Nat) (rest : List (Nat × Nat)) (id : Nat)     -- kw.remove
  | sub (now shard : Nat) (rest : List (Nat × Nat)) (id : Nat) (wk : WKey)   -- wu.sub
  | store (now shard : Nat) (rest : List (Nat × Nat)) (id : Nat) (wk : WKey) -- store.remove, holding WU
  | fin                                                         -- sweep.end
  deriving Repr, Inhabited

/-- client requests of Layer B -/
inductive Req where
  | putW (k v : Nat) (w : Int) (ttl : Option Nat)
  | delete (k : Nat)
  | get (k : Nat)
  | weight
  | upsert (k : Nat) (v : Option Nat) (w : Option Int) (ttl : Option Nat) (rm : Bool)
  | getRef (k : Nat)            -- get_ref: the store shard's read guard outlives `mark_key_accessed`
  | shutdown
  | mget (ks : List Nat) (iter : Bool)   -- multi_get (`iter = false`) / multi_get_iterator, multi_get_map_iterator (`true`)
  deriving Repr, Inhabited

/-- where a client stands -/
inductive CPc where
  | idle
  | start (r : Req)                                             -- the request is issued; the first action has not run yet
  | putPresent (k v : Nat) (w : Int) (ttl : Option Nat)         -- store.present
  | idNext (k v : Nat) (w : Int) (ttl : Option Nat)             -- id.next
  | send (cmd : Cmd)                                            -- cmd.send
  | delMark (k : Nat)                                           -- delete.mark
  | getStore (k : Nat)                                          -- store.get
  | getPool (k v : Nat)                                         -- pool.add
  | weightRead                                                  -- wu.read
  | upUpdate (k : Nat) (v : Option Nat) (w : Option Int) (ttl : Option Nat) (rm : Bool)   -- upsert.update
  | upWeightOf (id : Nat) (uw : Option Int) (old new : Option Nat)                           -- upsert.weight_of
  | upTtlPut (id : Nat) (e : Nat) (uw : Option Int)                                         -- ttl.put
  | upTtlDelete (id : Nat) (e : Nat) (uw : Option Int)                                      -- ttl.delete
  | upTtlRemove (id : Nat) (old new : Nat) (uw : Option Int)                                -- ttl.update.remove
  | upTtlInsert (id : Nat) (new : Nat) (uw : Option Int)                                    -- ttl.update.insert
  | refStore (k : Nat)                                          -- store.get of get_ref (takes the shard's read guard on a hit)
  | refPool (k v : Nat)                                         -- pool.add, holding the store shard's read guard
  | shutCas                                                     -- shutdown.cas
  | shutSendCmd                                                 -- cmd.send of `Shutdown`
  | shutSendBuf                                                 -- buf.send_shutdown
  | shutConsumerFlag                                            -- shutdown.consumer_flag
  | shutTickerFlag                                              -- shutdown.ticker_flag
  | shutStoreClear                                              -- shutdown.store_clear
  | shutKwClear                                                 -- shutdown.kw_clear
  | shutWuZero                                                  -- shutdown.wu_zero
  | shutAfClear                                                 -- shutdown.af_clear
  | shutStatsClear                                              -- shutdown.stats_clear
  | shutTtlClear                                                -- shutdown.ttl_clear
  | mgetStore (k : Nat) (ks : List Nat) (acc : List (Option Nat)) (iter : Bool)    -- store.get of key `k` of a multi-key read; `ks` still to come
  | mgetPool (k v : Nat) (ks : List Nat) (acc : List (Option Nat)) (iter : Bool)   -- pool.add for the hit on `k`
  | mgetFlag (outer : Bool) (ks : List Nat) (acc : List (Option Nat)) (iter : Bool)
    -- flag.load of a multi-key read; `ks` = the keys still to do INCLUDING the current one. `outer = true`: the load of
    -- `MultiGetIterator::next` (`keys.is_empty() || is_shutting_down()`) resp. the one at the entry of `multi_get`;
    -- `outer = false`: the load at the entry of the `get` that serves the current key
  deriving Repr, Inhabited

inductive Tid where
  | worker | sweeper | consumer | client (i : Nat)
  deriving DecidableEq, Repr, Inhabited

structure BState where
  g : State                          -- the shared state (same record as Layer A)
  w : WPc := .recv
  sw : SPc := .begin
  cl : List CPc                      -- one entry per client thread
  res : List (List Out) := []        -- results of completed client calls, per client, latest first
  wuOwner : Option Tid := none       -- owner of the `weight_used` lock across schedule points
  ttlOwner : Option Nat := none      -- TTL shard whose lock the sweeper owns across schedule points
  storeReaders : List (Nat × Nat) := []   -- (client, store shard): read guards of `get_ref` kept across `pool.add`
  storeShard : List (Nat × Nat) := []     -- key ↦ index of its store shard (DashMap's random hasher: a configuration input)
  deriving Repr

def BState.init (cfg : Cfg) (now : Nat) (seeds : List Nat) (clients : Nat) : BState :=
  { g := State.init cfg now seeds, cl := List.replicate clients .idle, res := List.replicate clients [] }

/-- `done(status)` and the return to `recv` -/
def finishCmd (b : BState) (h : Option Nat) (st : Status) : BState :=
  { b with g := { b.g with acks := setAck b.g.acks h st }, w := .recv }

def rejectCmd (b : BState) (h : Option Nat) (st : Status) : BState :=
  let g := { b.g with stats := { b.g.stats with keysRejected := b.g.stats.keysRejected + 1 } }
  finishCmd { b with g := g } h st

/-- the command worker panics where it stands: the thread ends, the receiver is dropped with what was queued, the
    acknowledgement of the command it was executing is never completed. Used where `is_space_available_for` overflows
    (`Adm.spaceOverflow`; the `weight_used` read guard is a temporary of that statement, so no lock outlives the panic). -/
def workerDies (b : BState) : BState :=
  { b with w := .dead, g := { b.g with worker := .dead, queue := [] } }

def wuFree (b : BState) (t : Tid) : Bool := b.wuOwner.isNone || b.wuOwner == some t

def ttlFree (b : BState) (shard : Nat) : Bool := b.ttlOwner != some shard

def storeShardOf (b : BState) (k : Nat) : Nat := (AMap.get? b.storeShard k).getD 0

/-- a write to the store shard of key `k` by thread `t` has to wait while another thread keeps a read guard on that shard -/
def storeWritable (b : BState) (k : Nat) (t : Option Nat) : Bool :=
  !(b.storeReaders.any (fun p => p.2 == storeShardOf b k && some p.1 != t))

/-- the pure part of `create_space`'s loop after a (re)fill: exit, pop a victim, or find the sample dry -/
def loopDecide (b : BState) (c : PutCmd) (incEst : Nat) (sample : List SKey) (space : Int) (o : Oracle) :
    Except String (BState × Oracle) :=
  if space ≥ c.w then .ok ({ b with w := .insert c }, o)
  else match o.pops with
    | [] => .error "oracle: pops exhausted"
    | none :: pops =>
      if !sample.isEmpty then .error "illegal oracle: empty pop from a non-empty sample"
      else .ok ({ b with w := .emptySpace c }, { o with pops := pops })
    | some id :: pops =>
      match sample.find? (fun x => x.id == id) with
      | none => .error "illegal oracle: popped id is not in the sample"
      | some k =>
        if !k.isMaxOf sample then .error "illegal oracle: popped key is not a maximum of the heap order"
        else if incEst < k.est then .ok (rejectCmd b c.h (.rejected .noSpace), { o with pops := pops })
        else .ok ({ b with w := .evRemove c incEst (sample.filter (fun x => x.id != id)) k }, { o with pops := pops })

def cmdOfPut (c : PutCmd) : Cmd :=
  match c.ttl with
  | some t => .putTtl c.id c.hash c.w c.k c.v t
  | none => .put c.id c.hash c.w c.k c.v

/-- One action of the command worker. `.error` = not enabled, or an oracle value the implementation cannot produce. -/
def workerAct (b : BState) (o : Oracle) : Except String (BState × Oracle) :=
  let g := b.g
  match b.w with
  | .dead => .error "not enabled: the worker is dead"
  | .recv =>
    (match g.queue with
     | [] => .error "not enabled: the command queue is empty"
     | (cmd, h) :: q =>
       let b1 := { b with g := { g with queue := q } }
       match cmd with
       | .put id hash w k v => .ok ({ b1 with w := .present { id := id, hash := hash, w := w, k := k, v := v, ttl := none, h := h } }, o)
       | .putTtl id hash w k v t => .ok ({ b1 with w := .present { id := id, hash := hash, w := w, k := k, v := v, ttl := some t, h := h } }, o)
       | .updateWeight id w => .ok ({ b1 with w := .update id w h }, o)
       | .delete k => .ok ({ b1 with w := .delStore k h }, o)
       | .shutdown =>
         let b2 := finishCmd b1 h .accepted
         .ok ({ b2 with w := .drain, g := { b2.g with worker := .draining } }, o))
  | .drain =>
    (match g.queue with
     | [] => .error "not enabled: the command queue is empty"
     | (_, h) :: q => .ok ({ (finishCmd { b with g := { g with queue := q } } h .shuttingDown) with w := .drain }, o))
  | .present c =>
    if g.store.contains c.k then .ok (finishCmd b c.h (.rejected .keyAlreadyExists), o)
    else if c.w > g.adm.max then .ok (rejectCmd b c.h (.rejected .tooHeavy), o)
    else .ok ({ b with w := .space0 c }, o)
  | .space0 c =>
    if !wuFree b .worker then .error "not enabled: weight_used is locked"
    else if g.adm.spaceOverflow then .ok (workerDies b, o)    -- `max_weight - weight_used` outside `i64` (cache_weight.rs:222)
    else
      let space := g.adm.max - g.adm.used
      if space ≥ c.w then .ok ({ b with w := .insert c }, o)
      else match estimateO g.lfu c.hash o with     -- create_space: the incoming key's estimate, then on to the sample
        | .error m => .error m
        | .ok (incEst, o1) => .ok ({ b with w := .sampleInit c space incEst }, o1)
  | .sampleInit c space incEst =>
    (match fillSample g.lfu g.adm.kw (fillNeed g.cfg.sampleSize g.adm.kw []) [] o with
     | .error m => .error m
     | .ok (sample, o2) => loopDecide b c incEst sample space o2)
  | .evRemove c incEst sample victim =>
    (match g.adm.kw.get? victim.id with
     | some wk => .ok ({ b with g := { g with adm := { g.adm with kw := g.adm.kw.del victim.id } }, w := .evSub c incEst sample victim.id wk }, o)
     | none => .ok ({ b with w := .evSpace c incEst sample }, o))
  | .evSub c incEst sample id wk =>
    if !wuFree b .worker then .error "not enabled: weight_used is locked"
    else .ok ({ b with g := { g with adm := { g.adm with used := g.adm.used - wk.weight } }, wuOwner := some .worker,
                       w := .evStore c incEst sample id wk }, o)
  | .evStore c incEst sample id wk =>
    if !storeWritable b wk.key none then .error "not enabled: the store shard is read-locked"
    else .ok ({ b with g := applyEvict g (id, wk.key, wk.weight), wuOwner := none, w := .evSpace c incEst sample }, o)
  | .evSpace c incEst sample =>
    if !wuFree b .worker then .error "not enabled: weight_used is locked"
    else if g.adm.spaceOverflow then .ok (workerDies b, o)
    else .ok ({ b with w := .fill c incEst sample (g.adm.max - g.adm.used) }, o)
  | .fill c incEst sample space =>
    (match fillSample g.lfu g.adm.kw (fillNeed g.cfg.sampleSize g.adm.kw sample) sample o with
     | .error m => .error m
     | .ok (sample', o') => loopDecide b c incEst sample' space o')
  | .emptySpace c =>
    if !wuFree b .worker then .error "not enabled: weight_used is locked"
    else if g.adm.spaceOverflow then .ok (workerDies b, o)
    else if g.adm.max - g.adm.used ≥ c.w then .ok ({ b with w := .insert c }, o)
    else .ok (rejectCmd b c.h (.rejected .noSpace), o)
  | .insert c =>
    .ok ({ b with g := { g with adm := { g.adm with kw := g.adm.kw.set c.id { key := c.k, hash := c.hash, weight := c.w } } }, w := .add c }, o)
  | .add c =>
    if !wuFree b .worker then .error "not enabled: weight_used is locked"
    else .ok ({ b with g := { g with adm := { g.adm with used := g.adm.used + c.w },
                                      stats := { g.stats with weightAdded := (g.stats.weightAdded + c.w.toNat) % u64Mod } },
                       w := .storePut c }, o)
  | .storePut c =>
    if !storeWritable b c.k none then .error "not enabled: the store shard is read-locked"
    else (match c.ttl with
     | none =>
       let g1 := { g with store := g.store.set c.k { value := c.v, id := c.id, expiry := none, soft := false },
                          stats := { g.stats with keysAdded := g.stats.keysAdded + 1 } }
       .ok (finishCmd { b with g := g1 } c.h .accepted, o)
     | some t =>
       match addTime g.now t with
       | none => .ok ({ b with w := .dead, g := { g with worker := .dead, queue := [] } }, o)
       | some e =>
         let g1 := { g with store := g.store.set c.k { value := c.v, id := c.id, expiry := some e, soft := false },
                            stats := { g.stats with keysAdded := g.stats.keysAdded + 1 } }
         .ok ({ b with g := g1, w := .ttlPut c e }, o))
  | .ttlPut c e =>
    if !ttlFree b (shardOf g.cfg e) then .error "not enabled: the expiry shard is locked"
    else .ok (finishCmd { b with g := ttlPut g c.id e } c.h .accepted, o)
  | .update id w h =>
    if !wuFree b .worker then .error "not enabled: weight_used is locked"
    else (match workerUpdateWeight g id w with
      | .done g1 st _ _ _ => .ok (finishCmd { b with g := g1 } h st, o)
      | .panicked g1 _ => .ok ({ b with w := .dead, g := { g1 with worker := .dead, queue := [] } }, o))
  | .delStore k h =>
    if !storeWritable b k none then .error "not enabled: the store shard is read-locked"
    else (match g.store.get? k with
     | none => .ok (finishCmd b h (.rejected .keyDoesNotExist), o)
     | some e =>
       let g1 := { g with store := g.store.del k, stats := { g.stats with keysDeleted := g.stats.keysDeleted + 1 } }
       .ok ({ b with g := g1, w := .delKw e.id e.expiry h }, o))
  | .delKw id exp h =>
    (match g.adm.kw.get? id with
     | some wk => .ok ({ b with g := { g with adm := { g.adm with kw := g.adm.kw.del id } }, w := .delSub id wk exp h }, o)
     | none =>
       match exp with
       | some e => .ok ({ b with w := .delTtl id e h }, o)
       | none => .ok (finishCmd b h .accepted, o))
  | .delSub id wk exp h =>
    if !wuFree b .worker then .error "not enabled: weight_used is locked"
    else
      let g1 := { g with adm := { g.adm with used := g.adm.used - wk.weight },
                         stats := { g.stats with weightRemoved := (g.stats.weightRemoved + wk.weight.toNat) % u64Mod } }
      (match exp with
       | some e => .ok ({ b with g := g1, w := .delTtl id e h }, o)
       | none => .ok (finishCmd { b with g := g1 } h .accepted, o))
  | .delTtl id e h =>
    if !ttlFree b (shardOf g.cfg e) then .error "not enabled: the expiry shard is locked"
    else .ok (finishCmd { b with g := ttlDelete g id e } h .accepted, o)

/-- the sweeper moves on to the next entry of its shard, or finishes (dropping the shard lock) -/
def sweepNext (b : BState) (now shard : Nat) (rest : List (Nat × Nat)) : BState :=
  match rest with
  | [] => { b with sw := .fin, ttlOwner := none }
  | _ => { b with sw := .entry now shard rest }

/-- One action of the sweeper. `visit` = the id `retain` visits next (hash-map order: an oracle). -/
def sweeperAct (b : BState) (visit : Option Nat) : Except String BState :=
  let g := b.g
  match b.sw with
  | .begin =>
    if !g.sweeperAlive then .error "not enabled: the sweeper has exited"
    else
      let shard := secsOf g.now % g.cfg.shards
      let entries := (g.ttl.filter (fun p => p.1.1 == shard)).map (fun p => (p.1.2, p.2))
      .ok (sweepNext { b with ttlOwner := some shard } g.now shard entries)
  | .entry now shard rest =>
    (match visit with
     | none => .error "oracle: the visited id is missing"
     | some id =>
       match rest.find? (fun p => p.1 == id) with
       | none => .error "illegal oracle: the visited id is not an unvisited entry of the shard"
       | some (_, e) =>
         let rest' := rest.filter (fun p => p.1 != id)
         if now > e then
           .ok { b with g := { g with ttl := g.ttl.del (shard, id) }, sw := .kwRemove now shard rest' id }
         else .ok (sweepNext b now shard rest'))
  | .kwRemove now shard rest id =>
    -- `key_weights.remove_if(key_id, ..)`: the condition reads the store while the entry of the key id is held (fix 36c87dc)
    (match g.adm.kw.get? id with
     | some wk =>
       if unexpiredWithId g wk.key id then .ok (sweepNext b now shard rest)
       else .ok { b with g := { g with adm := { g.adm with kw := g.adm.kw.del id } }, sw := .sub now shard rest id wk }
     | none => .ok (sweepNext b now shard rest))
  | .sub now shard rest id wk =>
    if !wuFree b .sweeper then .error "not enabled: weight_used is locked"
    else .ok { b with g := { g with adm := { g.adm with used := g.adm.used - wk.weight } }, wuOwner := some .sweeper,
                      sw := .store now shard rest id wk }
  | .store now shard rest id wk =>
    if !storeWritable b wk.key none then .error "not enabled: the store shard is read-locked"
    else .ok (sweepNext { b with g := applyEvictId g (id, wk.key, wk.weight), wuOwner := none } now shard rest)
  | .fin => .ok { b with sw := .begin, g := { g with sweeperAlive := g.sweeperKeep } }

def setClient (b : BState) (i : Nat) (pc : CPc) : BState := { b with cl := b.cl.set i pc }

def finishCall (b : BState) (i : Nat) (out : Out) : BState :=
  { b with cl := b.cl.set i .idle, res := b.res.set i (out :: (b.res.getD i [])) }

/-- A multi-key read moves on to its next key after `acc` has been gathered. No shared access happens here: the next
    action is a load of the shutdown flag, a step of its own (`CPc.mgetFlag`). `MultiGetIterator::next` tests
    `keys.is_empty()` first (no load after the last key), then loads the flag itself BEFORE calling `get`, which loads it
    again; `multi_get` loads the flag once at its entry and then calls `get` (one load) for every key. -/
def mgetNext (b : BState) (i : Nat) (ks : List Nat) (acc : List (Option Nat)) (iter : Bool) : BState :=
  match ks with
  | [] => finishCall b i (.values acc)
  | k :: rest => setClient b i (.mgetFlag iter (k :: rest) acc iter)

/-- One load of the shutdown flag inside a multi-key read (cached.rs: `multi_get`, `MultiGetIterator::next`, `get`).
    * `outer = true` (the load of `next()`, or the one at the entry of `multi_get`, where `acc = []`): flag set → the read
      ends with what it has gathered (`multi_get`: the empty map); else on to the load inside `get` (a `multi_get` of no keys
      ends here).
    * `outer = false` (the load at the entry of `get` for the current key): flag set → `get` answers `None` WITHOUT a lookup —
      no hit, no miss, no access record — and the read goes on with the next key; else on to the lookup. -/
def mgetFlagAct (b : BState) (i : Nat) (outer : Bool) (ks : List Nat) (acc : List (Option Nat)) (iter : Bool) : BState :=
  match ks with
  | [] => finishCall b i (.values acc)
  | k :: rest =>
    if outer then
      if b.g.shutting then finishCall b i (.values acc) else setClient b i (.mgetFlag false (k :: rest) acc iter)
    else
      if b.g.shutting then mgetNext b i rest (acc ++ [none]) iter else setClient b i (.mgetStore k rest acc iter)

/-- The first step of a multi-key read: NO access to shared state (the thread runs from `client.idle` to its first
    `flag.load`). An iterator over no keys ends at once (`keys.is_empty()` is tested before the flag is loaded);
    everything else stands before the outer load. -/
def mgetStart (b : BState) (i : Nat) (ks : List Nat) (iter : Bool) : BState :=
  if iter && ks.isEmpty then finishCall b i (.values [])
  else setClient b i (.mgetFlag true ks [] iter)

/-- `CommandExecutor::send` as the last action of a call (blocking: not enabled while the queue is full). -/
def sendAct (b : BState) (i : Nat) (cmd : Cmd) : Except String BState :=
  let g := b.g
  if g.worker = .dead then .ok (finishCall b i .err)
  else if g.queue.length ≥ g.cfg.cmdCap then .error "not enabled: the command queue is full"
  else
    let h := g.acks.length
    .ok (finishCall { b with g := { g with queue := g.queue ++ [(cmd, some h)], acks := g.acks ++ [.pending] } } i (.ack h .pending))

def spotFinish (b : BState) (i : Nat) (st : Status) : BState :=
  let h := b.g.acks.length
  finishCall { b with g := { b.g with acks := b.g.acks ++ [st] } } i (.ack h st)

/-- the tail of `put_or_update` after the expiry index is brought up to date (no schedule point in between):
    the weight assert, then on to the send — or the on-the-spot answer -/
def upAfterIndex (b : BState) (i : Nat) (id : Nat) (uw : Option Int) : BState :=
  match uw with
  | some weight =>
    if !inI64 weight then finishCall b i (.panic .weightOverflow)
    else if weight ≤ 0 then finishCall b i (.panic .weightNotPositive)
    else setClient b i (.send (.updateWeight id weight))
  | none => spotFinish b i .accepted

/-- One action of client `i`. -/
def clientAct (b : BState) (i : Nat) (o : Oracle) : Except String (BState × Oracle) :=
  let g := b.g
  match b.cl[i]? with
  | none => .error "not enabled: no such client"
  | some pc =>
    match pc with
    | .idle => .error "not enabled: the client has nothing to do"
    | .start r =>
      if g.shutting then
        (match r with
         | .get _ => .ok (finishCall b i (.value none), o)
         | .getRef _ => .ok (finishCall b i (.value none), o)
         | .mget ks iter => .ok (mgetStart b i ks iter, o)
         | .weight => .ok (setClient b i .weightRead, o)
         | .shutdown => .ok (setClient b i .shutCas, o)
         | _ => .ok (finishCall b i .err, o))
      else (match r with
        | .putW k v w ttl =>
          if w ≤ 0 then .ok (finishCall b i (.panic .weightNotPositive), o)
          else .ok (setClient b i (.putPresent k v w ttl), o)
        | .delete k => .ok (setClient b i (.delMark k), o)
        | .get k => .ok (setClient b i (.getStore k), o)
        | .weight => .ok (setClient b i .weightRead, o)
        | .upsert k v w ttl rm => .ok (setClient b i (.upUpdate k v w ttl rm), o)
        | .getRef k => .ok (setClient b i (.refStore k), o)
        | .mget ks iter => .ok (mgetStart b i ks iter, o)
        | .shutdown => .ok (setClient b i .shutCas, o))
    | .putPresent k v w ttl =>
      if g.store.contains k then .ok (spotFinish b i (.rejected .keyAlreadyExists), o)
      else .ok (setClient b i (.idNext k v w ttl), o)
    | .idNext k v w ttl =>
      let id := g.nextId
      let cmd : Cmd := match ttl with
        | some t => .putTtl id (g.cfg.hashOf k) w k v t
        | none => .put id (g.cfg.hashOf k) w k v
      .ok (setClient { b with g := { g with nextId := id + 1 } } i (.send cmd), o)
    | .send cmd => (match sendAct b i cmd with | .ok b' => .ok (b', o) | .error m => .error m)
    | .delMark k =>
      if !storeWritable b k (some i) then .error "not enabled: the store shard is read-locked" else
      let store := match g.store.get? k with
        | some e => g.store.set k { e with soft := true }
        | none => g.store
      .ok (setClient { b with g := { g with store := store } } i (.send (.delete k)), o)
    | .getStore k =>
      (match g.store.get? k with
       | some e =>
         if e.alive g.now then
           .ok (setClient { b with g := { g with stats := { g.stats with hits := g.stats.hits + 1 } } } i (.getPool k e.value), o)
         else .ok (finishCall { b with g := { g with stats := { g.stats with misses := g.stats.misses + 1 } } } i (.value none), o)
       | none => .ok (finishCall { b with g := { g with stats := { g.stats with misses := g.stats.misses + 1 } } } i (.value none), o))
    | .getPool k v =>
      (match poolAdd g (g.cfg.hashOf k) o with
       | .ok (g1, o') => .ok (finishCall { b with g := g1 } i (.value (some v)), o')
       | .error m => .error m)
    | .mgetStore k ks acc iter =>
      (match g.store.get? k with
       | some e =>
         if e.alive g.now then
           .ok (setClient { b with g := { g with stats := { g.stats with hits := g.stats.hits + 1 } } } i (.mgetPool k e.value ks acc iter), o)
         else .ok (mgetNext { b with g := { g with stats := { g.stats with misses := g.stats.misses + 1 } } } i ks (acc ++ [none]) iter, o)
       | none => .ok (mgetNext { b with g := { g with stats := { g.stats with misses := g.stats.misses + 1 } } } i ks (acc ++ [none]) iter, o))
    | .mgetPool k v ks acc iter =>
      (match poolAdd g (g.cfg.hashOf k) o with
       | .ok (g1, o') => .ok (mgetNext { b with g := g1 } i ks (acc ++ [some v]) iter, o')
       | .error m => .error m)
    | .mgetFlag outer ks acc iter => .ok (mgetFlagAct b i outer ks acc iter, o)
    | .weightRead =>
      if !wuFree b (.client i) then .error "not enabled: weight_used is locked"
      else .ok (finishCall b i (.weight g.adm.used), o)
    | .upUpdate k v w ttl rm =>
      if !storeWritable b k (some i) then .error "not enabled: the store shard is read-locked" else
      let uw : Option Int := match w with
        | some x => some x
        | none => v.map (fun val => g.cfg.weightOf val ttl.isSome)
      (match g.store.get? k with
       | none =>
         (match v, uw with
          | some val, some weight =>
            if weight ≤ 0 then .ok (finishCall b i (.panic .weightNotPositive), o)
            else .ok (setClient b i (.idNext k val weight ttl), o)
          | _, _ => .ok (finishCall b i (.panic .upsertValueMissing), o))
       | some e =>
         let newExpiry? : Option (Option Nat) :=
           if rm then some none
           else match ttl with
             | some t => (match addTime g.now t with | some x => some (some x) | none => none)
             | none => some e.expiry
         match newExpiry? with
         | none => .ok (finishCall b i (.panic .timeOverflow), o)
         | some newExpiry =>
           let e' : Entry := { e with expiry := newExpiry, value := v.getD e.value }
           .ok (setClient { b with g := { g with store := g.store.set k e' } } i (.upWeightOf e.id uw e.expiry newExpiry), o))
    | .upWeightOf id uw old new =>
      let existing : Option Int := (g.adm.kw.get? id).map (·.weight)      -- a key id no longer charged has no weight to adjust (fix c86efeb)
      (match typeOfExpiryUpdate old new with
       | .added n => .ok (setClient b i (.upTtlPut id n (match uw with | some x => some x | none => existing.map (· + g.cfg.ttlEntry))), o)
       | .deleted e => .ok (setClient b i (.upTtlDelete id e (match uw with | some x => some x | none => existing.map (· - g.cfg.ttlEntry))), o)
       | .updated e n => .ok (setClient b i (.upTtlRemove id e n uw), o)
       | .nothing => .ok (upAfterIndex b i id uw, o))
    | .upTtlPut id e uw =>
      if !ttlFree b (shardOf g.cfg e) then .error "not enabled: the expiry shard is locked"
      else .ok (upAfterIndex { b with g := ttlPut g id e } i id uw, o)
    | .upTtlDelete id e uw =>
      if !ttlFree b (shardOf g.cfg e) then .error "not enabled: the expiry shard is locked"
      else .ok (upAfterIndex { b with g := ttlDelete g id e } i id uw, o)
    | .upTtlRemove id old new uw =>
      if !ttlFree b (shardOf g.cfg old) then .error "not enabled: the expiry shard is locked"
      else .ok (setClient { b with g := ttlDelete g id old } i (.upTtlInsert id new uw), o)
    | .upTtlInsert id new uw =>
      if !ttlFree b (shardOf g.cfg new) then .error "not enabled: the expiry shard is locked"
      else .ok (upAfterIndex { b with g := ttlPut g id new } i id uw, o)
    | .refStore k =>
      (match g.store.get? k with
       | some e =>
         if e.alive g.now then
           .ok (setClient { b with g := { g with stats := { g.stats with hits := g.stats.hits + 1 } },
                                   storeReaders := (i, storeShardOf b k) :: b.storeReaders } i (.refPool k e.value), o)
         else .ok (finishCall { b with g := { g with stats := { g.stats with misses := g.stats.misses + 1 } } } i (.value none), o)
       | none => .ok (finishCall { b with g := { g with stats := { g.stats with misses := g.stats.misses + 1 } } } i (.value none), o))
    | .refPool k v =>
      (match poolAdd g (g.cfg.hashOf k) o with
       | .ok (g1, o') => .ok (finishCall { b with g := g1, storeReaders := b.storeReaders.filter (fun p => p.1 != i) } i (.value (some v)), o')
       | .error m => .error m)
    | .shutCas =>
      -- compare_exchange(false, true): only the first caller goes on
      if g.shutting then .ok (finishCall b i .none, o)
      else .ok (setClient { b with g := { g with shutting := true } } i .shutSendCmd, o)
    | .shutSendCmd =>
      if g.worker = .dead then .ok (setClient b i .shutSendBuf, o)
      else if g.queue.length ≥ g.cfg.cmdCap then .error "not enabled: the command queue is full"
      else .ok (setClient { b with g := { g with queue := g.queue ++ [(.shutdown, none)] } } i .shutSendBuf, o)
    | .shutSendBuf =>
      if !g.consumerAlive then .ok (setClient b i .shutConsumerFlag, o)
      else if g.bufq.length ≥ g.cfg.bufChanCap then .error "not enabled: the buffer queue is full"
      else .ok (setClient { b with g := { g with bufq := g.bufq ++ [.shutdown] } } i .shutConsumerFlag, o)
    | .shutConsumerFlag => .ok (setClient { b with g := { g with consumerKeep := false } } i .shutTickerFlag, o)
    | .shutTickerFlag => .ok (setClient { b with g := { g with sweeperKeep := false } } i .shutStoreClear, o)
    | .shutStoreClear =>
      if b.storeReaders.any (fun p => p.1 != i) then .error "not enabled: a store shard is read-locked"
      else .ok (setClient { b with g := { g with store := [] } } i .shutKwClear, o)
    | .shutKwClear => .ok (setClient { b with g := { g with adm := { g.adm with kw := [] } } } i .shutWuZero, o)
    | .shutWuZero =>
      if !wuFree b (.client i) then .error "not enabled: weight_used is locked"
      else .ok (setClient { b with g := { g with adm := { g.adm with used := 0 } } } i .shutAfClear, o)
    | .shutAfClear => .ok (setClient { b with g := { g with lfu := g.lfu.clear } } i .shutStatsClear, o)
    | .shutStatsClear => .ok (setClient { b with g := { g with stats := {} } } i .shutTtlClear, o)
    | .shutTtlClear =>
      if b.ttlOwner.isSome then .error "not enabled: an expiry shard is locked"
      else .ok (finishCall { b with g := { g with ttl := [] } } i .none, o)

/-- a client issues a request (enabled only when idle) -/
def issue (b : BState) (i : Nat) (r : Req) : Except String BState :=
  match b.cl[i]? with
  | some .idle => .ok (setClient b i (.start r))
  | _ => .error "not enabled: the client is busy"

inductive Act where
  | issue (i : Nat) (r : Req)
  | client (i : Nat)
  | worker
  | sweeper (visit : Option Nat)
  | consumer
  | advance (d : Nat)
  deriving Repr

/-- Layer B step -/
def stepB (b : BState) (a : Act) (o : Oracle) : Except String (BState × Oracle) :=
  match a with
  | .issue i r => (match issue b i r with | .ok b' => .ok (b', o) | .error m => .error m)
  | .client i => clientAct b i o
  | .worker => workerAct b o
  | .sweeper v => (match sweeperAct b v with | .ok b' => .ok (b', o) | .error m => .error m)
  | .consumer =>
    (match consumerStep b.g o with
     | .ok (g', _, o') => .ok ({ b with g := g' }, o')
     | .error m => .error m)
  | .advance d => .ok ({ b with g := { b.g with now := b.g.now + d } }, o)

end B
end Cached
