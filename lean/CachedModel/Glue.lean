/-
  Layer G of the model: the glue around the core — what a caller goes through BEFORE the state machine of
  `State.lean` starts: `ConfigBuilder` (config/mod.rs) with its `assert!`s and defaults, `CacheD::new` (cached.rs:87)
  and the shape of what it builds, `PutOrUpdateRequestBuilder` (put_or_update.rs) with its `assert!`s,
  `PutOrUpdateRequest::updated_weight`, and the default weight function `Calculation::perform`.
  A failed `assert!` is the outcome `none`. Every function is a transcription of the Rust code it names.
-/
import CachedModel.State

namespace Cached
namespace Glue

/-- `ConfigBuilder` (the three boxed functions carry no validation and no numeric field) -/
structure Builder where
  counters : Nat
  capacity : Nat
  cacheWeight : Int
  pool : Nat
  buf : Nat
  cmd : Nat
  shards : Nat
  tickNs : Nat
  deriving DecidableEq, Repr, Inhabited

/-- the setters of `ConfigBuilder` -/
inductive Setter where
  | pool (n : Nat)        -- access_pool_size
  | buf (n : Nat)         -- access_buffer_size
  | cmd (n : Nat)         -- command_buffer_size
  | shards (n : Nat)      -- shards
  | tick (ns : Nat)       -- ttl_tick_duration
  | other                 -- key_hash_fn / weight_calculation_fn / clock
  deriving DecidableEq, Repr, Inhabited

/-- `usize::is_power_of_two` -/
def isPow2 (n : Nat) : Bool := n != 0 && (n &&& (n - 1)) == 0

/-- the constants `ConfigBuilder::new` starts from (config/mod.rs:25-43). They are tuning knobs, not part of any
    property: the correspondence reads them from the running crate and only requires them to be acceptable themselves -/
structure Defaults where
  pool : Nat
  buf : Nat
  cmd : Nat
  shards : Nat
  tickNs : Nat
  deriving DecidableEq, Repr, Inhabited

/-- the values of the pinned tree -/
def Defaults.crate : Defaults := { pool := 32, buf := 64, cmd := 32 * 1024, shards := 256, tickNs := 5 * nsPerSec }

/-- defaults the setters themselves would accept -/
def Defaults.ok (d : Defaults) : Bool :=
  decide (d.pool > 0) && decide (d.buf > 0) && decide (d.cmd > 0) && decide (d.shards > 1) && isPow2 d.shards

/-- `ConfigBuilder::new` starting from the defaults `d` -/
def Builder.newWith (d : Defaults) (counters capacity : Nat) (w : Int) : Option Builder :=
  if counters > 0 ∧ capacity > 0 ∧ w > 0 then
    some { counters := counters, capacity := capacity, cacheWeight := w, pool := d.pool, buf := d.buf, cmd := d.cmd,
           shards := d.shards, tickNs := d.tickNs }
  else none

/-- `ConfigBuilder::new` with the defaults of config/mod.rs:25-43 -/
def Builder.new (counters capacity : Nat) (w : Int) : Option Builder :=
  if counters > 0 ∧ capacity > 0 ∧ w > 0 then
    some { counters := counters, capacity := capacity, cacheWeight := w, pool := 32, buf := 64, cmd := 32 * 1024,
           shards := 256, tickNs := 5 * nsPerSec }
  else none

def Builder.set (b : Builder) : Setter → Option Builder
  | .pool n => if n > 0 then some { b with pool := n } else none
  | .buf n => if n > 0 then some { b with buf := n } else none
  | .cmd n => if n > 0 then some { b with cmd := n } else none
  | .shards n => if n > 1 ∧ isPow2 n = true then some { b with shards := n } else none
  | .tick ns => some { b with tickNs := ns }
  | .other => some b

/-- a chain of setter calls; the first failed `assert!` ends it -/
def Builder.run (b : Builder) : List Setter → Option Builder
  | [] => some b
  | c :: cs => match b.set c with
    | some b' => b'.run cs
    | none => none

/-- the configuration of the core model that `build()` + `CacheD::new` hand to the components -/
def Builder.toCfg (b : Builder) (base : Cfg) : Cfg :=
  { base with maxWeight := b.cacheWeight, shards := b.shards, cmdCap := b.cmd, poolSize := b.pool, bufSize := b.buf,
              counters := b.counters }

/-- what `CacheD::new` builds, as far as it can be observed from outside -/
structure Shape where
  cmdCap : Nat          -- capacity of the command channel
  ttlShards : Nat       -- shards of the expiry index
  poolBuffers : Nat     -- buffers of the access pool
  bufCap : Nat          -- capacity of each buffer
  rows : Nat            -- rows of the sketch
  rowBytes : Nat        -- bytes per row
  resetAt : Nat         -- ageing threshold
  maxWeight : Int
  deriving DecidableEq, Repr, Inhabited

/-- `CacheD::new`: `assert!(config.counters > 0)`; `DashMap::with_capacity_and_shard_amount` (dashmap 5.4.0, lib.rs:271)
    asserts `shard_amount > 0` and a power of two (store and key_weights). A shard count of 1 passes these two assertions
    (the map then fails at its first access: a shift by the full word width); it cannot be configured: the field is
    `pub(crate)` and the setter refuses it (`Builder.set`, `shards > 1`). -/
def cachedNew (b : Builder) (seeds : List Nat) : Option Shape :=
  if b.counters > 0 ∧ b.shards > 0 ∧ isPow2 b.shards = true then
    let lfu := TinyLFU.new b.counters seeds
    some { cmdCap := b.cmd, ttlShards := b.shards, poolBuffers := b.pool, bufCap := b.buf,
           rows := lfu.fc.rows.length, rowBytes := lfu.fc.total / 2, resetAt := lfu.resetAt, maxWeight := b.cacheWeight }
  else none

/-! ### `PutOrUpdateRequestBuilder` -/

structure UReq where
  hasValue : Bool := false
  weight : Option Int := none
  ttl : Option Nat := none
  rm : Bool := false
  deriving DecidableEq, Repr, Inhabited

inductive UCall where
  | value
  | weight (w : Int)
  | ttl (ns : Nat)
  | rm
  deriving DecidableEq, Repr, Inhabited

def UReq.call (r : UReq) : UCall → Option UReq
  | .value => some { r with hasValue := true }
  | .weight w => if w > 0 then some { r with weight := some w } else none
  | .ttl ns => some { r with ttl := some ns }
  | .rm => some { r with rm := true }

def UReq.calls (r : UReq) : List UCall → Option UReq
  | [] => some r
  | c :: cs => match r.call c with
    | some r' => r'.calls cs
    | none => none

/-- `PutOrUpdateRequestBuilder::build` -/
def UReq.build (r : UReq) : Option UReq :=
  if (r.hasValue || r.weight.isSome || r.ttl.isSome || r.rm) = false then none
  else if (r.ttl.isSome && r.rm) = true then none
  else some r

/-- `PutOrUpdateRequest::updated_weight` for value `v` (used only when a value is given) -/
def UReq.updatedWeight (r : UReq) (cfg : Cfg) (v : Nat) : Option Int :=
  match r.weight with
  | some w => some w
  | none => if r.hasValue then some (cfg.weightOf v r.ttl.isSome) else none

/-! ### the default weight function -/

/-- `Calculation::perform`: key size + value size + size of `WeightedKey<Key>` (+ the expiry-index entry) -/
def defaultWeight (keySize valueSize weightedKeySize ttlEntry : Nat) (ttl : Bool) : Int :=
  ((keySize + valueSize + weightedKeySize + (if ttl then ttlEntry else 0) : Nat) : Int)

end Glue
end Cached
