/-
  Layer B slice for one `CommandAcknowledgement` (src/cache/command/acknowledgement.rs):
  the completing worker and any number of polling tasks, interleaved at the granularity of the
  individual accesses to the three shared cells (status, done flag, waker slot under its mutex).

  done(status)  (acknowledgement.rs:99-111, after the `fix:` commit that stores the status first):
      [setStatus]  *self.status.lock() = status
      [setFlag]    self.done.store(true, Release)
      [wake]       if let Some(w) = &self.waker_state.lock().waker { w.wake_by_ref() }   -- one critical section

  poll(context) (acknowledgement.rs:120-150):
      [lockRegister]  guard = waker_state.lock(); register context.waker() unless the stored one will_wake it
      [loadFlag]      self.done.load(Acquire)
      [readStatus]    Ready(*self.status.lock())   -- or Pending; the guard is dropped on return
-/
import CachedModel.Admission

namespace Cached
namespace AckB

/-- where the completer stands -/
inductive CPc where
  | beforeStatus | beforeFlag | beforeWake | finished
  deriving DecidableEq, Repr, Inhabited

/-- where a poller stands inside one `poll` call -/
inductive PPc where
  | idle                 -- between polls
  | registered           -- holds the waker lock, has registered its waker
  | sawDone              -- holds the waker lock, loaded flag = true, about to read the status
  deriving DecidableEq, Repr, Inhabited

inductive PollResult where
  | pending
  | ready (s : Status)
  deriving DecidableEq, Repr, Inhabited

structure Poller where
  pc : PPc := .idle
  waker : Nat := 0                       -- the waker this task polls with (may change between polls)
  results : List PollResult := []        -- results of its completed polls, latest first
  deriving DecidableEq, Repr, Inhabited

structure St where
  final : Status                 -- the status the command actually ended with (argument of `done`)
  status : Status := .pending    -- the status cell
  flag : Bool := false           -- the done flag
  slot : Option Nat := none      -- the waker slot
  lock : Option Nat := none      -- owner of the waker mutex (index of a poller), `none` = free
  cpc : CPc := .beforeStatus
  pollers : List Poller := []
  wakes : List Nat := []         -- wakers woken by `done`, latest first
  deriving DecidableEq, Repr, Inhabited

inductive Act where
  | setStatus
  | setFlag
  | wake
  | lockRegister (p : Nat) (waker : Nat)   -- poller `p` starts a poll with `waker`
  | loadFlag (p : Nat)
  | finishPoll (p : Nat)                   -- reads the status (flag was seen) or returns Pending, releases the lock
  deriving DecidableEq, Repr, Inhabited

def setPoller (s : St) (p : Nat) (q : Poller) : St := { s with pollers := s.pollers.set p q }

/-- One atomic action; `none` = not enabled in this state. -/
def step (s : St) : Act → Option St
  | .setStatus => if s.cpc = .beforeStatus then some { s with status := s.final, cpc := .beforeFlag } else none
  | .setFlag => if s.cpc = .beforeFlag then some { s with flag := true, cpc := .beforeWake } else none
  | .wake =>
    if s.cpc = .beforeWake ∧ s.lock = none then
      some { s with cpc := .finished, wakes := (match s.slot with | some w => w :: s.wakes | none => s.wakes) }
    else none
  | .lockRegister p w =>
    match s.pollers[p]? with
    | some q =>
      if q.pc = .idle ∧ s.lock = none then
        -- `will_wake` is modelled as equality of waker ids: the slot ends up holding a waker that wakes this task
        some (setPoller { s with lock := some p, slot := some w } p { q with pc := .registered, waker := w })
      else none
    | none => none
  | .loadFlag p =>
    match s.pollers[p]? with
    | some q =>
      if q.pc = .registered then
        if s.flag then some (setPoller s p { q with pc := .sawDone })
        else some (setPoller { s with lock := none } p { q with pc := .idle, results := .pending :: q.results })
      else none
    | none => none
  | .finishPoll p =>
    match s.pollers[p]? with
    | some q =>
      if q.pc = .sawDone then
        some (setPoller { s with lock := none } p { q with pc := .idle, results := .ready s.status :: q.results })
      else none
    | none => none

def run (s : St) : List Act → Option St
  | [] => some s
  | a :: rest => match step s a with
    | some s' => run s' rest
    | none => none

def init (final : Status) (n : Nat) : St := { final := final, pollers := List.replicate n {} }

end AckB
end Cached
