/-
  Basic vocabulary of the CacheD model: association-list maps, i64 range, time.
  Core Lean only (no Std / Mathlib imports) so that the driver links as an executable.
-/

namespace Cached

/-- Association-list map. `set` is "cons after delete-all", so a key occurs at most once
    in every map built from `[]` by `set`/`del` (theorem `keysNodup_set`, not a subtype). -/
abbrev AMap (α β : Type) := List (α × β)

namespace AMap
variable {α β : Type} [DecidableEq α]

def get? : AMap α β → α → Option β
  | [], _ => none
  | (k, v) :: rest, a => if k = a then some v else get? rest a

def del : AMap α β → α → AMap α β
  | [], _ => []
  | (k, v) :: rest, a => if k = a then del rest a else (k, v) :: del rest a

def set (m : AMap α β) (a : α) (b : β) : AMap α β := (a, b) :: del m a

def contains (m : AMap α β) (a : α) : Bool := (get? m a).isSome

def keys (m : AMap α β) : List α := m.map Prod.fst

end AMap

/-- `i64` range (weights, the running total). Arithmetic outside it panics in the debug build. -/
def i64Max : Int := 9223372036854775807
def i64Min : Int := -9223372036854775808
def inI64 (x : Int) : Bool := decide (i64Min ≤ x) && decide (x ≤ i64Max)

def u64Mod : Nat := 18446744073709551616

/-- nanoseconds per second -/
def nsPerSec : Nat := 1000000000

/-- Whole seconds of a time stamp given in nanoseconds since the epoch. -/
def secsOf (t : Nat) : Nat := t / nsPerSec

/-- `SystemTime + Duration` (both in nanoseconds here): `none` exactly where the addition overflows
    (seconds part above `i64::MAX`), which is a panic in the implementation. -/
def addTime (now ttl : Nat) : Option Nat :=
  if secsOf (now + ttl) ≤ 9223372036854775807 then some (now + ttl) else none

/-- Where a panic was raised (the model's rendering of the implementation's `assert!`s and arithmetic checks). -/
inductive Panic where
  | weightNotPositive      -- assert!(weight > 0) at a put / put_or_update site
  | upsertValueMissing     -- put_or_update of an absent key without a value
  | timeOverflow           -- now + ttl not representable
  | weightOverflow         -- i64 overflow in weight arithmetic
  | sketchIndex            -- index out of bounds in a sketch row
  deriving DecidableEq, Repr, Inhabited

def Panic.toString : Panic → String
  | .weightNotPositive => "weight-not-positive"
  | .upsertValueMissing => "upsert-value-missing"
  | .timeOverflow => "time-overflow"
  | .weightOverflow => "weight-overflow"
  | .sketchIndex => "sketch-index"

end Cached
