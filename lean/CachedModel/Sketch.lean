/-
  Model of src/cache/lfu: packed 4-bit counters (`Row`), the count-min sketch (`FrequencyCounter`)
  and `TinyLFU` with the doorkeeper as an exact set plus an oracle for false positives.
-/
import CachedModel.Basic

namespace Cached

abbrev Byte := BitVec 8

/-- frequency_counter.rs:21/36  `shift = (position & 1) * 4` -/
def nibShift (odd : Bool) : Nat := if odd then 4 else 0

/-- frequency_counter.rs:40  `(byte >> shift) & 0x0f` -/
def getNib (b : Byte) (odd : Bool) : Byte := (b >>> nibShift odd) &&& 0x0f

/-- frequency_counter.rs:22-27  increment the nibble unless it is 15 -/
def incNib (b : Byte) (odd : Bool) : Byte :=
  if getNib b odd < 0x0f then b + ((1 : Byte) <<< nibShift odd) else b

/-- frequency_counter.rs:45  `(byte >> 1) & 0x77` -/
def halfByte (b : Byte) : Byte := (b >>> 1) &&& 0x77

abbrev Row := List Byte

def Row.modifyAt : Row → Nat → (Byte → Byte) → Row
  | [], _, _ => []
  | b :: rest, 0, f => f b :: rest
  | b :: rest, i + 1, f => b :: Row.modifyAt rest i f

/-- `Row::increment_at`; `none` = index out of bounds (a panic in the implementation). -/
def Row.incrementAt (r : Row) (pos : Nat) : Option Row :=
  if pos / 2 < r.length then some (r.modifyAt (pos / 2) (fun b => incNib b (pos % 2 == 1))) else none

/-- `Row::get_at` -/
def Row.getAt (r : Row) (pos : Nat) : Option Nat :=
  match r[pos / 2]? with
  | some b => some (getNib b (pos % 2 == 1)).toNat
  | none => none

/-- `Row::half_counters` -/
def Row.half (r : Row) : Row := r.map halfByte

/-- `Row::clear` -/
def Row.clear (r : Row) : Row := r.map (fun _ => 0)

/-- `FrequencyCounter::next_power_2` on `u64`, followed by the lower bound 2 (see the `fix:` commit). -/
def nextPower2 (counters : Nat) : Nat :=
  let c0 : BitVec 64 := BitVec.ofNat 64 counters - 1
  let c1 := c0 ||| (c0 >>> 1)
  let c2 := c1 ||| (c1 >>> 2)
  let c3 := c2 ||| (c2 >>> 4)
  let c4 := c3 ||| (c3 >>> 8)
  let c5 := c4 ||| (c4 >>> 16)
  let c6 := c5 ||| (c5 >>> 32)
  max (c6 + 1).toNat 2

/-- `FrequencyCounter`: rows paired with their seeds. -/
structure FreqCounter where
  rows : List (Nat × Row)      -- (seed, row), `ROWS` of them
  total : Nat                  -- total_counters (a power of two ≥ 2)
  deriving Repr

def FreqCounter.new (counters : Nat) (seeds : List Nat) : FreqCounter :=
  let total := nextPower2 counters
  { rows := seeds.map (fun s => (s, List.replicate (total / 2) (0 : Byte))), total := total }

def FreqCounter.posOf (fc : FreqCounter) (seed h : Nat) : Nat := (h ^^^ seed) % fc.total

def incRows (total h : Nat) : List (Nat × Row) → Option (List (Nat × Row))
  | [] => some []
  | (seed, row) :: rest =>
    match row.incrementAt ((h ^^^ seed) % total), incRows total h rest with
    | some row', some rest' => some ((seed, row') :: rest')
    | _, _ => none

/-- `FrequencyCounter::increment` -/
def FreqCounter.increment (fc : FreqCounter) (h : Nat) : Option FreqCounter :=
  match incRows fc.total h fc.rows with
  | some rows => some { fc with rows := rows }
  | none => none

def estRows (total h : Nat) : List (Nat × Row) → Nat → Option Nat
  | [], acc => some acc
  | (seed, row) :: rest, acc =>
    match row.getAt ((h ^^^ seed) % total) with
    | some c => estRows total h rest (if c < acc then c else acc)
    | none => none

/-- `FrequencyCounter::estimate` (minimum over the rows, starting from `u8::MAX`) -/
def FreqCounter.estimate (fc : FreqCounter) (h : Nat) : Option Nat := estRows fc.total h fc.rows 255

/-- `FrequencyCounter::reset` -/
def FreqCounter.reset (fc : FreqCounter) : FreqCounter :=
  { fc with rows := fc.rows.map (fun p => (p.1, p.2.half)) }

/-- `FrequencyCounter::clear` -/
def FreqCounter.clear (fc : FreqCounter) : FreqCounter :=
  { fc with rows := fc.rows.map (fun p => (p.1, p.2.clear)) }

/-- `TinyLFU`. The doorkeeper is the exact set of hashes `set` since the last clear; the Bloom filter's
    answers enter as oracle bits that must not be false negatives. -/
structure TinyLFU where
  fc : FreqCounter
  dk : List Nat
  incs : Nat
  resetAt : Nat
  deriving Repr

def TinyLFU.new (counters : Nat) (seeds : List Nat) : TinyLFU :=
  { fc := FreqCounter.new counters seeds, dk := [], incs := 0, resetAt := counters }

/-- A doorkeeper answer `b` for hash `h` is legal iff it is not a false negative and — the filter having been
    cleared and nothing set since — not a false positive either (an empty Bloom filter has no bit set). -/
def TinyLFU.hasLegal (t : TinyLFU) (h : Nat) (b : Bool) : Bool := (!(t.dk.contains h) || b) && (!t.dk.isEmpty || !b)

/-- `TinyLFU::estimate` given the doorkeeper's answer. -/
def TinyLFU.estimate (t : TinyLFU) (h : Nat) (dkAnswer : Bool) : Option Nat :=
  match t.fc.estimate h with
  | some e => some (e + (if dkAnswer then 1 else 0))
  | none => none

/-- `TinyLFU::reset` -/
def TinyLFU.reset (t : TinyLFU) : TinyLFU := { t with incs := 0, fc := t.fc.reset, dk := [] }

/-- `TinyLFU::clear` -/
def TinyLFU.clear (t : TinyLFU) : TinyLFU := { t with incs := 0, fc := t.fc.clear, dk := [] }

/-- `TinyLFU::increment_access_for`; `added` is the result of `add_if_missing` (legal iff `h ∈ dk → ¬added`). -/
def TinyLFU.incrementFor (t : TinyLFU) (h : Nat) (added : Bool) : Option TinyLFU :=
  let t1? : Option TinyLFU :=
    if added then some { t with dk := h :: t.dk }
    else match t.fc.increment h with
      | some fc => some { t with fc := fc }
      | none => none
  match t1? with
  | none => none
  | some t1 =>
    let t2 := { t1 with incs := t1.incs + 1 }
    some (if t2.incs ≥ t2.resetAt then t2.reset else t2)

/-- `add_if_missing` may not add a hash it holds, and MUST add into an empty filter. -/
def TinyLFU.addLegal (t : TinyLFU) (h : Nat) (added : Bool) : Bool := (!(t.dk.contains h) || !added) && (!t.dk.isEmpty || added)

end Cached
