/-
  Layer A of the model: the whole cache as a state machine whose events are
  API calls (each running its caller-side program atomically), one step of the command worker,
  one sweep of the TTL ticker, one step of the access-count consumer, and clock moves.
  Every function is a transcription of the Rust code it names.
-/
import CachedModel.Admission

namespace Cached

/-- `StoredValue` -/
structure Entry where
  value : Nat
  id : Nat
  expiry : Option Nat
  soft : Bool
  deriving DecidableEq, Repr, Inhabited

/-- stored_value.rs:67-75 `is_alive`; clock.rs:24 `has_passed = now > time` -/
def Entry.alive (e : Entry) (now : Nat) : Bool :=
  if e.soft then false
  else match e.expiry with
    | some t => !(decide (now > t))
    | none => true

/-- `ConcurrentStatsCounter` (stats/mod.rs) -/
structure Stats where
  hits : Nat := 0
  misses : Nat := 0
  keysAdded : Nat := 0
  keysDeleted : Nat := 0
  keysUpdated : Nat := 0
  keysRejected : Nat := 0
  weightAdded : Nat := 0
  weightRemoved : Nat := 0
  accessAdded : Nat := 0
  accessDropped : Nat := 0
  deriving DecidableEq, Repr, Inhabited

def Stats.toList (s : Stats) : List Nat :=
  [s.hits, s.misses, s.keysAdded, s.keysDeleted, s.keysUpdated, s.keysRejected,
   s.weightAdded, s.weightRemoved, s.accessAdded, s.accessDropped]

/-- `CommandType` -/
inductive Cmd where
  | put (id hash : Nat) (w : Int) (k v : Nat)
  | putTtl (id hash : Nat) (w : Int) (k v : Nat) (ttl : Nat)
  | delete (k : Nat)
  | updateWeight (id : Nat) (w : Int)
  | shutdown
  deriving DecidableEq, Repr, Inhabited

/-- `BufferEvent` -/
inductive BufEvent where
  | full (hs : List Nat)
  | shutdown
  deriving DecidableEq, Repr, Inhabited

inductive WorkerMode where
  | running
  | draining    -- after the `Shutdown` command: answers everything with `ShuttingDown`
  | dead        -- panicked: the receiver is gone
  deriving DecidableEq, Repr, Inhabited

/-- A client call parked at a blocking send. -/
inductive Pending where
  | send (cmd : Cmd)     -- `CommandExecutor::send` with the queue full
  | shutdownCmd          -- `shutdown()` at its send of `Shutdown` to the command queue
  | shutdownBuf          -- `shutdown()` at its send of `BufferEvent::Shutdown`
  deriving DecidableEq, Repr, Inhabited

structure Cfg where
  maxWeight : Int
  shards : Nat
  cmdCap : Nat
  poolSize : Nat
  bufSize : Nat
  counters : Nat
  sampleSize : Nat := 5         -- EVICTION_SAMPLE_SIZE
  bufChanCap : Nat := 10        -- CHANNEL_CAPACITY
  ttlEntry : Int := 24          -- Calculation::ttl_ticker_entry_size()
  hashMode : Nat := 0           -- key hash function installed by the harness
  wBase : Int := 1              -- weight function installed by the harness:
  wMod : Nat := 1               --   wBase + value % wMod (+ ttlEntry when a TTL is given)
  deriving Repr, Inhabited

def Cfg.hashOf (c : Cfg) (k : Nat) : Nat :=
  match c.hashMode with
  | 0 => k
  | 1 => 7
  | _ => k % 3

def Cfg.weightOf (c : Cfg) (v : Nat) (ttl : Bool) : Int :=
  c.wBase + ((v % c.wMod : Nat) : Int) + (if ttl then c.ttlEntry else 0)

structure State where
  cfg : Cfg
  now : Nat
  store : AMap Nat Entry
  adm : Adm
  ttl : AMap (Nat × Nat) Nat          -- (shard, id) ↦ expiry
  queue : List (Cmd × Option Nat)     -- command queue with acknowledgement handles
  acks : List Status                  -- every acknowledgement handed out, by handle
  nextId : Nat
  lfu : TinyLFU
  pool : List (List Nat)
  bufq : List BufEvent
  stats : Stats
  shutting : Bool
  worker : WorkerMode
  consumerAlive : Bool
  consumerKeep : Bool
  sweeperAlive : Bool
  sweeperKeep : Bool
  pend : AMap Nat Pending
  deriving Repr

def State.init (cfg : Cfg) (now : Nat) (seeds : List Nat) : State :=
  { cfg := cfg, now := now, store := [], adm := { max := cfg.maxWeight, used := 0, kw := [] }, ttl := [],
    queue := [], acks := [], nextId := 1, lfu := TinyLFU.new cfg.counters seeds,
    pool := List.replicate cfg.poolSize [], bufq := [], stats := {}, shutting := false,
    worker := .running, consumerAlive := true, consumerKeep := true, sweeperAlive := true,
    sweeperKeep := true, pend := [] }

inductive Out where
  | none
  | err                                        -- `Err(CommandSendError)`
  | ack (h : Nat) (st : Status)                -- `Ok(acknowledgement)`; `st` = what it holds on return
  | parked                                     -- the call blocks at a send
  | value (v : Option Nat)
  | values (vs : List (Option Nat))
  | weight (w : Int)
  | stats (l : List Nat)
  | worked (kind : String) (st : Status) (incEst : Option Nat) (popped : List SKey) (evicted : List Evicted)
  | workerPanic (p : Panic)
  | swept (evicted : List Evicted)
  | consumed
  | polled (st : Status)
  | panic (p : Panic)
  deriving Repr

def shardOf (cfg : Cfg) (expiry : Nat) : Nat := secsOf expiry % cfg.shards

/-- `TTLTicker::put` -/
def ttlPut (s : State) (id e : Nat) : State := { s with ttl := s.ttl.set (shardOf s.cfg e, id) e }
/-- `TTLTicker::delete` -/
def ttlDelete (s : State) (id e : Nat) : State := { s with ttl := s.ttl.del (shardOf s.cfg e, id) }
/-- `TTLTicker::update` -/
def ttlUpdate (s : State) (id old new : Nat) : State := ttlPut (ttlDelete s id old) id new

def setAck (acks : List Status) (h : Option Nat) (st : Status) : List Status :=
  match h with
  | some i => acks.set i st
  | none => acks

/-- `CommandExecutor::send` from client thread `c`. -/
def sendCmd (s : State) (c : Nat) (cmd : Cmd) : State × Out :=
  if s.worker = .dead then (s, .err)
  else if s.queue.length ≥ s.cfg.cmdCap then ({ s with pend := s.pend.set c (.send cmd) }, .parked)
  else
    let h := s.acks.length
    ({ s with queue := s.queue ++ [(cmd, some h)], acks := s.acks ++ [.pending] }, .ack h .pending)

/-- An acknowledgement answered on the spot (`CommandAcknowledgement::rejected / accepted`). -/
def spotAck (s : State) (st : Status) : State × Out :=
  ({ s with acks := s.acks ++ [st] }, .ack s.acks.length st)

/-- cached.rs:160-171 / 233-243: `put_with_weight`, `put_with_weight_and_ttl` after the shutdown check. -/
def clientPutChecked (s : State) (c k v : Nat) (w : Int) (ttl : Option Nat) : State × Out :=
  if s.store.contains k then spotAck s (.rejected .keyAlreadyExists)
  else
    let id := s.nextId
    let s1 := { s with nextId := id + 1 }
    match ttl with
    | none => sendCmd s1 c (.put id (s.cfg.hashOf k) w k v)
    | some t => sendCmd s1 c (.putTtl id (s.cfg.hashOf k) w k v t)

/-- `put` (cached.rs:131): the weight is computed and asserted before the shutdown check. -/
def clientPut (s : State) (c k v : Nat) : State × Out :=
  let w := s.cfg.weightOf v false
  if w ≤ 0 then (s, .panic .weightNotPositive)
  else if s.shutting then (s, .err)
  else clientPutChecked s c k v w none

/-- `put_with_weight` (cached.rs:160) -/
def clientPutW (s : State) (c k v : Nat) (w : Int) : State × Out :=
  if s.shutting then (s, .err)
  else if w ≤ 0 then (s, .panic .weightNotPositive)
  else clientPutChecked s c k v w none

/-- `put_with_ttl` (cached.rs:196) -/
def clientPutTtl (s : State) (c k v ttl : Nat) : State × Out :=
  if s.shutting then (s, .err)
  else
    let w := s.cfg.weightOf v true
    if w ≤ 0 then (s, .panic .weightNotPositive)
    else clientPutChecked s c k v w (some ttl)

/-- `put_with_weight_and_ttl` (cached.rs:233) -/
def clientPutWTtl (s : State) (c k v : Nat) (w : Int) (ttl : Nat) : State × Out :=
  if s.shutting then (s, .err)
  else if w ≤ 0 then (s, .panic .weightNotPositive)
  else clientPutChecked s c k v w (some ttl)

/-- store/mod.rs:65-81 -/
inductive ExpiryUpdate where
  | nothing
  | added (e : Nat)
  | deleted (e : Nat)
  | updated (old new : Nat)
  deriving DecidableEq, Repr

def typeOfExpiryUpdate (existing new : Option Nat) : ExpiryUpdate :=
  match existing, new with
  | none, none => .nothing
  | none, some n => .added n
  | some e, none => .deleted e
  | some e, some n => if e ≠ n then .updated e n else .nothing

/-- `put_or_update` (cached.rs:264-319) -/
def clientUpsert (s : State) (c k : Nat) (v : Option Nat) (w : Option Int) (ttl : Option Nat) (rm : Bool) :
    State × Out :=
  if s.shutting then (s, .err)
  else
    -- PutOrUpdateRequest::updated_weight
    let uw : Option Int := match w with
      | some x => some x
      | none => v.map (fun val => s.cfg.weightOf val ttl.isSome)
    match s.store.get? k with
    | none =>
      -- Store::update found nothing: behaves as a put
      match v, uw with
      | some val, some weight =>
        if weight ≤ 0 then (s, .panic .weightNotPositive)
        else
          let id := s.nextId
          let s1 := { s with nextId := id + 1 }
          match ttl with
          | some t => sendCmd s1 c (.putTtl id (s.cfg.hashOf k) weight k val t)
          | none => sendCmd s1 c (.put id (s.cfg.hashOf k) weight k val)
      | _, _ => (s, .panic .upsertValueMissing)
    | some e =>
      -- StoredValue::update, in place
      let newExpiry? : Option (Option Nat) :=
        if rm then some none
        else match ttl with
          | some t => (match addTime s.now t with | some x => some (some x) | none => none)
          | none => some e.expiry
      match newExpiry? with
      | none => (s, .panic .timeOverflow)
      | some newExpiry =>
        let e' : Entry := { e with expiry := newExpiry, value := v.getD e.value }
        let s1 := { s with store := s.store.set k e' }
        -- `weight_of(&key_id)`: a key id that is no longer charged has no weight to adjust (fix c86efeb)
        let existing : Option Int := (s1.adm.kw.get? e.id).map (·.weight)
        let (s2, uw2) : State × Option Int :=
          match typeOfExpiryUpdate e.expiry newExpiry with
          | .added n => (ttlPut s1 e.id n, match uw with | some x => some x | none => existing.map (· + s.cfg.ttlEntry))
          | .deleted old => (ttlDelete s1 e.id old, match uw with | some x => some x | none => existing.map (· - s.cfg.ttlEntry))
          | .updated old n => (ttlUpdate s1 e.id old n, uw)
          | .nothing => (s1, uw)
        match uw2 with
        | some weight =>
          if !inI64 weight then (s2, .panic .weightOverflow)
          else if weight ≤ 0 then (s2, .panic .weightNotPositive)
          else sendCmd s2 c (.updateWeight e.id weight)
        | none => spotAck s2 .accepted

/-- `delete` (cached.rs:343-348) -/
def clientDelete (s : State) (c k : Nat) : State × Out :=
  if s.shutting then (s, .err)
  else
    let store := match s.store.get? k with
      | some e => s.store.set k { e with soft := true }
      | none => s.store
    sendCmd { s with store := store } c (.delete k)

/-- `AdmissionPolicy::accept` (admission_policy.rs:220-244): non-blocking hand-over of a full buffer. -/
def acceptBuffer (s : State) (hs : List Nat) : State :=
  if s.consumerAlive && decide (s.bufq.length < s.cfg.bufChanCap) then
    { s with bufq := s.bufq ++ [.full hs], stats := { s.stats with accessAdded := s.stats.accessAdded + hs.length } }
  else
    { s with stats := { s.stats with accessDropped := s.stats.accessDropped + hs.length } }

/-- `Pool::add` / `Buffer::add` (pool.rs:46-53, 69-73) with the buffer index as an oracle input. -/
def poolAdd (s : State) (h : Nat) (o : Oracle) : Except String (State × Oracle) :=
  match o.pool with
  | [] => .error "oracle: pool indices exhausted"
  | idx :: rest =>
    match s.pool[idx]? with
    | none => .error "illegal oracle: pool index out of range"
    | some buf =>
      let (s1, buf1) := if buf.length ≥ s.cfg.bufSize then (acceptBuffer s buf, []) else (s, buf)
      .ok ({ s1 with pool := s1.pool.set idx (buf1 ++ [h]) }, { o with pool := rest })

/-- `Store::get` + `mark_key_accessed` (cached.rs:514-522, store/mod.rs:183-191) -/
def readKey (s : State) (k : Nat) (o : Oracle) : Except String (State × Option Nat × Oracle) :=
  match s.store.get? k with
  | some e =>
    if e.alive s.now then
      let s1 := { s with stats := { s.stats with hits := s.stats.hits + 1 } }
      match poolAdd s1 (s.cfg.hashOf k) o with
      | .ok (s2, o') => .ok (s2, some e.value, o')
      | .error m => .error m
    else .ok ({ s with stats := { s.stats with misses := s.stats.misses + 1 } }, none, o)
  | none => .ok ({ s with stats := { s.stats with misses := s.stats.misses + 1 } }, none, o)

def clientGet (s : State) (k : Nat) (o : Oracle) : Except String (State × Out × Oracle) :=
  if s.shutting then .ok (s, .value none, o)
  else match readKey s k o with
    | .ok (s1, v, o') => .ok (s1, .value v, o')
    | .error m => .error m

def readKeys (s : State) : List Nat → Oracle → List (Option Nat) → Except String (State × List (Option Nat) × Oracle)
  | [], o, acc => .ok (s, acc.reverse, o)
  | k :: ks, o, acc =>
    match readKey s k o with
    | .ok (s1, v, o') => readKeys s1 ks o' (v :: acc)
    | .error m => .error m

def clientMultiGet (s : State) (ks : List Nat) (o : Oracle) : Except String (State × Out × Oracle) :=
  if s.shutting then .ok (s, .values [], o)
  else match readKeys s ks o [] with
    | .ok (s1, vs, o') => .ok (s1, .values vs, o')
    | .error m => .error m

/-- The delete hook run for an evicted key (`store.delete(&key)`), plus `remove_weight`. -/
def applyEvict (s : State) (e : Evicted) : State :=
  let (_, key, w) := e
  let s1 := if s.store.contains key then
      { s with store := s.store.del key, stats := { s.stats with keysDeleted := s.stats.keysDeleted + 1 } }
    else s
  { s1 with stats := { s1.stats with weightRemoved := (s1.stats.weightRemoved + w.toNat) % u64Mod } }

/-- The TTL ticker's evict hook (cached.rs `ttl_ticker`, store/mod.rs `delete_if_key_id_matches`): as `applyEvict`, but the
    key leaves the store only if the stored value still carries the evicted key id (the key may have been deleted and
    put again, under a new id, since the ticker took the id out of the weight ledger). -/
def applyEvictId (s : State) (e : Evicted) : State :=
  if (s.store.get? e.2.1).map (·.id) == some e.1 then applyEvict s e
  else { s with stats := { s.stats with weightRemoved := (s.stats.weightRemoved + e.2.2.toNat) % u64Mod } }

/-- `CacheWeight::update_weight_stats` (cache_weight.rs:267-275), `fetch_add` wrapping in `u64`. -/
def updateWeightStats (st : Stats) (newW oldW : Int) : Stats :=
  if newW > oldW then { st with weightAdded := (st.weightAdded + (newW - oldW).toNat) % u64Mod }
  else { st with weightAdded := (st.weightAdded + (u64Mod - (oldW - newW).toNat) % u64Mod) % u64Mod }

/-- Result of the worker executing one command: the new state and the status, or a panic. -/
inductive Exec where
  | done (s : State) (st : Status) (incEst : Option Nat) (popped : List SKey) (evicted : List Evicted)
  | panicked (s : State) (p : Panic)

/-- `CommandExecutor::put` / `put_with_ttl` (command_executor.rs:188-225) -/
def workerPut (s : State) (id hash : Nat) (w : Int) (k v : Nat) (ttl : Option Nat) (o : Oracle) :
    Except String (Exec × Oracle) :=
  if s.store.contains k then .ok (.done s (.rejected .keyAlreadyExists) none [] [], o)
  else match maybeAdd s.lfu s.cfg.sampleSize s.adm id k hash w o with
    | .error m => .error m
    | .ok r =>
      let s1 := r.evicted.foldl applyEvict { s with adm := r.adm }
      -- `is_space_available_for` overflowed (cache_weight.rs:222): the worker dies where it stands, after the evictions made so far
      if r.overflow then .ok (.panicked s1 .weightOverflow, r.oracle)
      else if r.status = .accepted then
        let s2 := { s1 with stats := { s1.stats with weightAdded := (s1.stats.weightAdded + w.toNat) % u64Mod } }
        match ttl with
        | none =>
          let s3 := { s2 with store := s2.store.set k { value := v, id := id, expiry := none, soft := false },
                              stats := { s2.stats with keysAdded := s2.stats.keysAdded + 1 } }
          .ok (.done s3 .accepted r.incEst r.popped r.evicted, r.oracle)
        | some t =>
          match addTime s.now t with
          | none => .ok (.panicked s2 .timeOverflow, r.oracle)
          | some e =>
            let s3 := { s2 with store := s2.store.set k { value := v, id := id, expiry := some e, soft := false },
                                stats := { s2.stats with keysAdded := s2.stats.keysAdded + 1 } }
            .ok (.done (ttlPut s3 id e) .accepted r.incEst r.popped r.evicted, r.oracle)
      else
        let s2 := { s1 with stats := { s1.stats with keysRejected := s1.stats.keysRejected + 1 } }
        .ok (.done s2 r.status r.incEst r.popped r.evicted, r.oracle)

/-- `CacheWeight::update` (cache_weight.rs:218-234) via `CommandType::UpdateWeight` -/
def workerUpdateWeight (s : State) (id : Nat) (w : Int) : Exec :=
  match s.adm.kw.get? id with
  | none => .done s .accepted none [] []
  | some wk =>
    let delta := w - wk.weight
    if !inI64 delta || !inI64 (s.adm.used + delta) then .panicked s .weightOverflow
    else
      let st1 := { s.stats with keysUpdated := s.stats.keysUpdated + 1 }
      .done { s with adm := { s.adm with used := s.adm.used + delta, kw := s.adm.kw.set id { wk with weight := w } },
                     stats := updateWeightStats st1 w wk.weight } .accepted none [] []

/-- `CommandExecutor::delete` (command_executor.rs:227-237) -/
def workerDelete (s : State) (k : Nat) : Exec :=
  match s.store.get? k with
  | none => .done s (.rejected .keyDoesNotExist) none [] []
  | some e =>
    let s1 := { s with store := s.store.del k, stats := { s.stats with keysDeleted := s.stats.keysDeleted + 1 } }
    let (adm, ev?) := s1.adm.delete e.id
    let s2 := match ev? with
      | some (_, _, w) => { s1 with adm := adm, stats := { s1.stats with weightRemoved := (s1.stats.weightRemoved + w.toNat) % u64Mod } }
      | none => s1
    let s3 := match e.expiry with
      | some x => ttlDelete s2 e.id x
      | none => s2
    .done s3 .accepted none [] []

/-- One iteration of the worker loop (command_executor.rs:112-159). -/
def workerStep (s : State) (o : Oracle) : Except String (State × Out × Oracle) :=
  match s.worker, s.queue with
  | .dead, _ => .error "illegal event: the worker is dead"
  | _, [] => .error "illegal event: the command queue is empty"
  | .draining, (_, h) :: q =>
    .ok ({ s with queue := q, acks := setAck s.acks h .shuttingDown }, .worked "Drain" .shuttingDown none [] [], o)
  | .running, (cmd, h) :: q =>
    let s0 := { s with queue := q }
    let finish (kind : String) (r : Exec × Oracle) : Except String (State × Out × Oracle) :=
      match r with
      | (.done s1 st ie pp ev, o') => .ok ({ s1 with acks := setAck s1.acks h st }, .worked kind st ie pp ev, o')
      | (.panicked s1 p, o') => .ok ({ s1 with worker := .dead, queue := [] }, .workerPanic p, o')
    match cmd with
    | .shutdown => .ok ({ s0 with worker := .draining, acks := setAck s0.acks h .accepted }, .worked "Shutdown" .accepted none [] [], o)
    | .put id hash w k v =>
      (match workerPut s0 id hash w k v none o with | .ok r => finish "Put" r | .error m => .error m)
    | .putTtl id hash w k v t =>
      (match workerPut s0 id hash w k v (some t) o with | .ok r => finish "PutWithTTL" r | .error m => .error m)
    | .updateWeight id w => finish "UpdateWeight" (workerUpdateWeight s0 id w, o)
    | .delete k => finish "Delete" (workerDelete s0 k, o)

/-- `Store::has_unexpired_value_with_key_id` (store/mod.rs): the value stored under `k` still carries the key id `id` and its own
    deadline has not passed (`put_or_update` changes the stored deadline and the expiry index in two steps, so an index entry
    that has come due does not mean the stored value has expired). The soft-delete mark plays no part. -/
def unexpiredWithId (s : State) (k id : Nat) : Bool :=
  match s.store.get? k with
  | some e => e.id == id && (match e.expiry with | some t => !(decide (s.now > t)) | none => true)
  | none => false

/-- The sweeper's evict hook for one id (cached.rs:480-485, cache_weight.rs:236-245). -/
def sweepEvict (s : State) (id : Nat) : State × Option Evicted :=
  -- `CacheWeight::delete_if` (fix 36c87dc): the key id is taken out only if the value stored under it has itself expired
  match s.adm.kw.get? id with
  | some wk =>
    if unexpiredWithId s wk.key id then (s, none)
    else
      let (adm, ev?) := s.adm.delete id
      (match ev? with
       | some e => (applyEvictId { s with adm := adm } e, some e)
       | none => (s, none))
  | none => (s, none)

def sweepEntries (s : State) : List ((Nat × Nat) × Nat) → List Evicted → State × List Evicted
  | [], acc => (s, acc.reverse)
  | ((_, id), _) :: rest, acc =>
    let (s1, e?) := sweepEvict s id
    sweepEntries s1 rest (match e? with | some e => e :: acc | none => acc)

/-- One tick of the TTL ticker (expiration/mod.rs:96-114). -/
def sweepStep (s : State) : Except String (State × Out) :=
  if !s.sweeperAlive then .error "illegal event: the sweeper has exited"
  else
    let shard := secsOf s.now % s.cfg.shards
    let expired := s.ttl.filter (fun p => p.1.1 == shard && decide (s.now > p.2))
    let (s1, ev) := sweepEntries s expired []
    let s2 := { s1 with ttl := s1.ttl.filter (fun p => !(p.1.1 == shard && decide (s.now > p.2))) }
    .ok ({ s2 with sweeperAlive := s2.sweeperKeep }, .swept ev)

def incrementAll (t : TinyLFU) : List Nat → Oracle → Except String (TinyLFU × Oracle)
  | [], o => .ok (t, o)
  | h :: hs, o =>
    match o.dkAdd with
    | [] => .error "oracle: add_if_missing results exhausted"
    | added :: rest =>
      if !t.addLegal h added then .error "illegal oracle: doorkeeper added a hash it already holds"
      else match t.incrementFor h added with
        | some t' => incrementAll t' hs { o with dkAdd := rest }
        | none => .error "panic: sketch index out of bounds"

/-- One iteration of the access-count consumer (admission_policy.rs:80-96). -/
def consumerStep (s : State) (o : Oracle) : Except String (State × Out × Oracle) :=
  if !s.consumerAlive then .error "illegal event: the consumer has exited"
  else match s.bufq with
    | [] => .error "illegal event: the buffer queue is empty"
    | .shutdown :: _ => .ok ({ s with bufq := [], consumerAlive := false }, .consumed, o)
    | .full hs :: q =>
      match incrementAll s.lfu hs o with
      | .error m => .error m
      | .ok (t, o') =>
        if s.consumerKeep then .ok ({ s with bufq := q, lfu := t }, .consumed, o')
        else .ok ({ s with bufq := [], lfu := t, consumerAlive := false }, .consumed, o')

/-- The tail of `shutdown()` after both sends (cached.rs:461-466, admission_policy.rs:155). -/
def shutdownFinish (s : State) : State :=
  { s with consumerKeep := false, sweeperKeep := false, store := [],
           adm := { s.adm with kw := [], used := 0 }, lfu := s.lfu.clear, stats := {}, ttl := [] }

/-- `admission_policy.shutdown()`: blocking send of `BufferEvent::Shutdown`. -/
def shutdownSendBuf (s : State) (c : Nat) : State × Out :=
  if !s.consumerAlive then (shutdownFinish s, .none)
  else if s.bufq.length ≥ s.cfg.bufChanCap then ({ s with pend := s.pend.set c .shutdownBuf }, .parked)
  else (shutdownFinish { s with bufq := s.bufq ++ [.shutdown] }, .none)

/-- `command_executor.shutdown()`: blocking send of `CommandType::Shutdown`. -/
def shutdownSendCmd (s : State) (c : Nat) : State × Out :=
  if s.worker = .dead then shutdownSendBuf s c
  else if s.queue.length ≥ s.cfg.cmdCap then ({ s with pend := s.pend.set c .shutdownCmd }, .parked)
  else shutdownSendBuf { s with queue := s.queue ++ [(.shutdown, none)] } c

/-- `shutdown()` (cached.rs:457-468) -/
def clientShutdown (s : State) (c : Nat) : State × Out :=
  if s.shutting then (s, .none)
  else shutdownSendCmd { s with shutting := true } c

/-- A parked call continues. -/
def resume (s : State) (c : Nat) : Except String (State × Out) :=
  match s.pend.get? c with
  | none => .error "illegal event: nothing parked for this client"
  | some p =>
    let s0 := { s with pend := s.pend.del c }
    match p with
    | .send cmd =>
      if s.worker ≠ .dead && s.queue.length ≥ s.cfg.cmdCap then .error "illegal event: resume while the queue is full"
      else .ok (sendCmd s0 c cmd)
    | .shutdownCmd =>
      if s.worker ≠ .dead && s.queue.length ≥ s.cfg.cmdCap then .error "illegal event: resume while the queue is full"
      else .ok (shutdownSendCmd s0 c)
    | .shutdownBuf =>
      if s.consumerAlive && s.bufq.length ≥ s.cfg.bufChanCap then .error "illegal event: resume while the buffer queue is full"
      else .ok (shutdownSendBuf s0 c)

inductive Ev where
  | put (c k v : Nat)
  | putW (c k v : Nat) (w : Int)
  | putTtl (c k v ttl : Nat)
  | putWTtl (c k v : Nat) (w : Int) (ttl : Nat)
  | upsert (c k : Nat) (v : Option Nat) (w : Option Int) (ttl : Option Nat) (rm : Bool)
  | delete (c k : Nat)
  | get (k : Nat)
  | multiGet (ks : List Nat)
  | weight
  | stats
  | worker
  | sweep
  | consumer
  | advance (d : Nat)
  | shutdown (c : Nat)
  | resume (c : Nat)
  | poll (h : Nat)
  deriving Repr

/-- Layer A step. `.error` = the event or an oracle value is not one the implementation can produce. -/
def step (s : State) (ev : Ev) (o : Oracle) : Except String (State × Out × Oracle) :=
  let lift (r : State × Out) : Except String (State × Out × Oracle) := .ok (r.1, r.2, o)
  match ev with
  | .put c k v => lift (clientPut s c k v)
  | .putW c k v w => lift (clientPutW s c k v w)
  | .putTtl c k v t => lift (clientPutTtl s c k v t)
  | .putWTtl c k v w t => lift (clientPutWTtl s c k v w t)
  | .upsert c k v w t rm => lift (clientUpsert s c k v w t rm)
  | .delete c k => lift (clientDelete s c k)
  | .get k => clientGet s k o
  | .multiGet ks => clientMultiGet s ks o
  | .weight => lift (s, .weight s.adm.used)
  | .stats => lift (s, .stats s.stats.toList)
  | .worker => workerStep s o
  | .sweep => (match sweepStep s with | .ok r => lift r | .error m => .error m)
  | .consumer => consumerStep s o
  | .advance d => lift ({ s with now := s.now + d }, .none)
  | .shutdown c => lift (clientShutdown s c)
  | .resume c => (match resume s c with | .ok r => lift r | .error m => .error m)
  | .poll h => (match s.acks[h]? with
      | some st => lift (s, .polled st)
      | none => .error "illegal event: unknown acknowledgement handle")

end Cached
