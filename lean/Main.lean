import CachedModel

open Cached

partial def loop (h : IO.FS.Stream) (out : IO.FS.Stream) (d : DriverState) : IO Unit := do
  let line ← h.getLine
  if line.isEmpty then return ()
  let (d', o) := driveLine d line
  match o with
  | some s => out.putStrLn s
  | none => pure ()
  loop h out d'

def main : IO Unit := do
  let stdin ← IO.getStdin
  let stdout ← IO.getStdout
  loop stdin stdout {}
