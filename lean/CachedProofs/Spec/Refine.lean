import CachedProofs.Spec.Spec
import CachedProofs.Lemmas.Frame
import CachedProofs.Lemmas.StatsInv
import CachedProofs.Properties.C03

namespace Cached.Spec

/-! ### 1. the abstraction map -/

/-- the cell a reader could get from a stored entry: none if the entry is soft-deleted -/
def cellOf : Option Entry → Option Cell
  | some e => if e.soft then none else some ⟨e.value, e.expiry⟩
  | none => none

/-- **The abstraction map.** -/
def abs (s : State) : S :=
  { now := s.now, cells := fun k => cellOf (s.store.get? k), shut := s.shutting }

theorem cellOf_eq_some {oe : Option Entry} {c : Cell} :
    cellOf oe = some c ↔ ∃ e, oe = some e ∧ e.soft = false ∧ c = ⟨e.value, e.expiry⟩ := by
  cases oe with
  | none => simp [cellOf]
  | some e =>
    cases hs : e.soft with
    | true => simp [cellOf, hs]
    | false =>
      simp only [cellOf, hs, Bool.false_eq_true, if_false, Option.some.injEq]
      constructor
      · intro h; exact ⟨e, rfl, hs, h.symm⟩
      · rintro ⟨e', h1, _, h2⟩; cases h1; exact h2.symm

theorem cellOf_eq_none {oe : Option Entry} : cellOf oe = none ↔ oe = none ∨ ∃ e, oe = some e ∧ e.soft = true := by
  cases oe with
  | none => simp [cellOf]
  | some e => cases hs : e.soft <;> simp [cellOf, hs]

/-- the cells of `abs s`: `some ⟨e.value, e.expiry⟩` iff the store holds `e` for `k` with `e.soft = false` -/
theorem abs_cells_eq_some (s : State) (k : Nat) (c : Cell) :
    (abs s).cells k = some c ↔ ∃ e, s.store.get? k = some e ∧ e.soft = false ∧ c = ⟨e.value, e.expiry⟩ :=
  cellOf_eq_some

/-- `S.read` on the abstraction of `s` is what a read returns in `s` (`visible` of Lemmas/Frame.lean) -/
theorem read_abs (s : State) (k : Nat) : (abs s).read k = if s.shutting then none else visible s k := by
  cases hsh : s.shutting with
  | true => simp [S.read, abs, hsh]
  | false =>
    simp only [S.read, abs, visible, hsh, Bool.false_eq_true, if_false]
    cases s.store.get? k with
    | none => rfl
    | some e =>
      cases hs : e.soft <;> cases hx : e.expiry <;> simp [cellOf, Entry.alive, Cell.expired, hs, hx]
      rename_i x
      by_cases h : x < s.now
      · have : ¬ s.now ≤ x := by omega
        simp [h, this]
      · have : s.now ≤ x := by omega
        simp [h, this]

/-! ### 2. which event justifies which cause -/

/-- the running worker's next command is the put of `(k, v)` with weight `w`
    (`ttl = none`: `Put`, `ttl = some t`: `PutWithTTL` with time-to-live `t`) -/
def HeadPut (s : State) (k v : Nat) (ttl : Option Nat) (w : Int) : Prop :=
  s.worker = .running ∧ ∃ id hash h q,
    s.queue = ((match ttl with
      | none => Cmd.put id hash w k v
      | some t => Cmd.putTtl id hash w k v t), h) :: q

/-- **The event (and for the worker: the head command) that justifies a cause for key `k`.** -/
def Justified (s : State) (ev : Ev) (k : Nat) : Why → Prop
  | .unchanged => ∀ c, ev = .delete c k → s.shutting = true ∨ cellOf (s.store.get? k) = none
  | .installed v ttl => ev = .worker ∧ ∃ w, HeadPut s k v ttl w
  | .rewritten v ttl rm => ∃ c w, ev = .upsert c k v w ttl rm
  | .hidden => ∃ c, ev = .delete c k
  | .deleted => ev = .worker ∧ s.worker = .running ∧ ∃ h q, s.queue = (.delete k, h) :: q
  | .expiredRemoved => ev = .sweep
  | .evicted => ev = .worker ∧ ∃ k' v ttl w, HeadPut s k' v ttl w ∧ s.adm.max - s.adm.used < w
  | .cleared => (∃ c, ev = .shutdown c) ∨
      (∃ c, ev = .resume c ∧ s.shutting = true ∧
        (s.pend.get? c = some .shutdownCmd ∨ s.pend.get? c = some .shutdownBuf))

/-! ### 3. two facts the frame lemmas do not state: the deadline of a fresh entry and of a rewritten entry -/

/-- the entry the worker stores for an absent key: value, id, deadline `now + ttl`, not deleted -/
theorem workerPut_entry {s : State} {id hash : Nat} {w : Int} {k v : Nat} {ttl : Option Nat} {o o' : Oracle}
    {ex : Exec} (h : workerPut s id hash w k v ttl o = .ok (ex, o')) (hk : s.store.get? k = none)
    {e : Entry} (he : ex.kill.store.get? k = some e) :
    e = { value := v, id := id, expiry := ttl.map (s.now + ·), soft := false } := by
  unfold workerPut at h
  split at h
  · simp only [Except.ok.injEq, Prod.mk.injEq] at h
    obtain ⟨rfl, _⟩ := h
    simp only [Exec.kill] at he
    rw [hk] at he; cases he
  · split at h
    · cases h
    · rename_i r hm
      obtain ⟨f1, _⟩ := foldl_applyEvict r.evicted { s with adm := r.adm }
      have habs : (AMap.delKeys s.store (r.evicted.map (·.2.1))).get? k = none := by
        rw [AMap.get?_delKeys, hk]; simp
      dsimp only at h
      split at h
      · split at h
        · simp only [Except.ok.injEq, Prod.mk.injEq] at h
          obtain ⟨rfl, _⟩ := h
          simp only [Exec.kill, AMap.get?_set_same, Option.some.injEq] at he
          exact he.symm
        · split at h
          · simp only [Except.ok.injEq, Prod.mk.injEq] at h
            obtain ⟨rfl, _⟩ := h
            simp only [Exec.kill, f1] at he
            rw [habs] at he; cases he
          · rename_i t x hx
            simp only [Except.ok.injEq, Prod.mk.injEq] at h
            obtain ⟨rfl, _⟩ := h
            simp only [Exec.kill, ttlPut, AMap.get?_set_same, Option.some.injEq] at he
            rw [addTime_eq_some hx] at he
            exact he.symm
      · simp only [Except.ok.injEq, Prod.mk.injEq] at h
        obtain ⟨rfl, _⟩ := h
        simp only [Exec.kill, f1] at he
        rw [habs] at he; cases he

/-- `put_or_update` of a physically present key: nothing happens (shutting down, or `now + ttl` is not
    representable), or the entry is rewritten as requested — the given value or the old one, the requested deadline -/
theorem clientUpsert_entry (s : State) (c k : Nat) (v : Option Nat) (w : Option Int) (ttl : Option Nat) (rm : Bool)
    (e : Entry) (hk : s.store.get? k = some e) :
    (clientUpsert s c k v w ttl rm).1.store.get? k = some e ∨
    (clientUpsert s c k v w ttl rm).1.store.get? k =
      some { e with expiry := newDeadline s.now e.expiry ttl rm, value := v.getD e.value } := by
  cases hsh : s.shutting with
  | true => left; simp [clientUpsert, hsh, hk]
  | false =>
    cases hne : upsertNewExpiry? s e ttl rm with
    | none => left; rw [clientUpsert_present_overflow s c k v w ttl rm e hsh hk hne]; exact hk
    | some ne =>
      right
      rw [clientUpsert_present s c k v w ttl rm e ne hsh hk hne, (upsertFinish_frame _ _ _ _).1,
        upsertNewExpiry?_some hne]
      cases rm <;> cases ttl <;> simp [upsertMid, upsertExpiry, newDeadline]

/-- `delete(k)` on a running cache leaves no readable cell of `k` behind (the entry is soft-deleted or absent) -/
theorem clientDelete_cell (s : State) (c k : Nat) (hsh : s.shutting = false) :
    cellOf ((clientDelete s c k).1.store.get? k) = none := by
  unfold clientDelete
  simp only [hsh, Bool.false_eq_true, if_false]
  rw [sendCmd_store]
  dsimp only
  split
  · simp [cellOf]
  · rename_i h; rw [h]; rfl

/-- a key whose cell did not change: `unchanged` is justified (a `delete` call of a readable key on a running cache
    never leaves the cell as it was) -/
theorem justified_unchanged {s s' : State} {ev : Ev} {o o' : Oracle} {out : Out}
    (hs : step s ev o = .ok (s', out, o')) (k : Nat)
    (h : cellOf (s'.store.get? k) = cellOf (s.store.get? k)) : Justified s ev k .unchanged := by
  intro c hev
  subst hev
  cases hsh : s.shutting with
  | true => exact Or.inl rfl
  | false =>
    right
    simp only [step, Except.ok.injEq, Prod.mk.injEq] at hs
    obtain ⟨rfl, _, _⟩ := hs
    rw [← h]
    exact clientDelete_cell s c k hsh

theorem step_now_eq {s s' : State} {ev : Ev} {o o' : Oracle} {out : Out} (hs : step s ev o = .ok (s', out, o'))
    (hev : ∀ d, ev ≠ .advance d) : s'.now = s.now := by
  rcases (step_frame hs).1 with h | ⟨d, hd, _⟩
  · exact h
  · exact absurd hd (hev d)

/-! ### 4. THE refinement theorem -/

/-- **Every step of the model moves every key's cell by one `KeyStep`, for a cause the event justifies.**
    (`TtlInv s`: the sweeper removes only entries past their CURRENT deadline; `QInv s`: a parked `shutdown()` has
    set the flag.  Both hold at every reachable state: `refines_reach`.) -/
theorem refines {s s' : State} {ev : Ev} {o o' : Oracle} {out : Out} (ht : TtlInv s) (hq : QInv s)
    (hs : step s ev o = .ok (s', out, o')) (k : Nat) :
    ∃ why, KeyStep (abs s).now (abs s').now why ((abs s).cells k) ((abs s').cells k) ∧ Justified s ev k why := by
  have hle : s.now ≤ s'.now := step_now_le hs
  show ∃ why, KeyStep s.now s'.now why (cellOf (s.store.get? k)) (cellOf (s'.store.get? k)) ∧ Justified s ev k why
  -- a cell that ends as `none`: unchanged if it was `none`, otherwise the given cause
  have toNone : ∀ (why : Why), s'.store.get? k = none → Justified s ev k why →
      (∀ c, cellOf (s.store.get? k) = some c → KeyStep s.now s'.now why (some c) none) →
      ∃ why, KeyStep s.now s'.now why (cellOf (s.store.get? k)) (cellOf (s'.store.get? k)) ∧ Justified s ev k why := by
    intro why h1 hj hc
    rw [h1]
    cases hcell : cellOf (s.store.get? k) with
    | none => exact ⟨.unchanged, .unchanged _ hle, justified_unchanged hs k (by rw [h1, hcell]; rfl)⟩
    | some c => exact ⟨why, hc c hcell, hj⟩
  cases step_key hs k with
  | same h1 => exact ⟨.unchanged, by rw [h1]; exact .unchanged _ hle, justified_unchanged hs k (by rw [h1])⟩
  | upsert c v w t rm e e' hev h0 _ _ _ _ =>
    subst hev
    have hn : s'.now = s.now := step_now_eq hs (by intro d h; cases h)
    have hju : Justified s (.upsert c k v w t rm) k .unchanged := fun _ h => by cases h
    simp only [step, Except.ok.injEq, Prod.mk.injEq] at hs
    obtain ⟨rfl, _, _⟩ := hs
    rw [h0]
    cases hsoft : e.soft with
    | true =>
      -- an upsert of a soft-deleted entry: the dead entry is rewritten, readers see nothing
      refine ⟨.unchanged, ?_, hju⟩
      rcases clientUpsert_entry s c k v w t rm e h0 with h | h <;> rw [h] <;>
        simp only [cellOf, hsoft, if_true] <;> exact .unchanged _ hle
    | false =>
      rcases clientUpsert_entry s c k v w t rm e h0 with h | h
      · rw [h]; exact ⟨.unchanged, .unchanged _ hle, hju⟩
      · rw [h]
        refine ⟨.rewritten v t rm, ?_, c, w, rfl⟩
        simp only [cellOf, hsoft, Bool.false_eq_true, if_false]
        exact .rewritten ⟨e.value, e.expiry⟩ v t rm hn
  | softDelete c e hev h0 h1 =>
    subst hev
    have hn : s'.now = s.now := step_now_eq hs (by intro d h; cases h)
    rw [h0, h1]
    cases hsoft : e.soft with
    | true =>
      simp only [cellOf, hsoft, if_true]
      exact ⟨.unchanged, .unchanged _ hle, fun _ _ => Or.inr (by simp [cellOf, h0, hsoft])⟩
    | false =>
      simp only [cellOf, hsoft, Bool.false_eq_true, if_false, if_true]
      exact ⟨.hidden, .hidden _ hn, c, rfl⟩
  | workerDelete hh q hev hw hqq h1 =>
    subst hev
    have hn : s'.now = s.now := step_now_eq hs (by intro d h; cases h)
    exact toNone .deleted h1 ⟨rfl, hw, hh, q, hqq⟩ (fun c _ => .deleted c hn)
  | evicted id hash w k0 v hh q hev hw hqq hpress h1 =>
    subst hev
    have hn : s'.now = s.now := step_now_eq hs (by intro d h; cases h)
    refine toNone .evicted h1 ⟨rfl, ?_⟩ (fun c _ => .evicted c hn)
    rcases hqq with hqq | ⟨t, hqq⟩
    · exact ⟨k0, v, none, w, ⟨hw, id, hash, hh, q, hqq⟩, hpress⟩
    · exact ⟨k0, v, some t, w, ⟨hw, id, hash, hh, q, hqq⟩, hpress⟩
  | inserted id hash w v hh q entry hev hw hqq h0 h1 _ _ _ =>
    subst hev
    have hn : s'.now = s.now := step_now_eq hs (by intro d h; cases h)
    have hs' : workerStep s o = .ok (s', out, o') := hs
    have hk0 : ({ s with queue := q } : State).store.get? k = none := h0
    rw [h0, h1]
    have fin : ∀ (ttl : Option Nat) (kind : String) (r : Exec × Oracle),
        workerPut { s with queue := q } id hash w k v ttl o = .ok r →
        workerFinish hh kind r = .ok (s', out, o') → HeadPut s k v ttl w →
        ∃ why, KeyStep s.now s'.now why (cellOf none) (cellOf (some entry)) ∧ Justified s .worker k why := by
      intro ttl kind r hr hf hhead
      obtain ⟨ex, o1⟩ := r
      obtain ⟨g1, _, _⟩ := workerFinish_kill hf
      have := workerPut_entry hr hk0 (e := entry) (by rw [← g1]; exact h1)
      subst this
      exact ⟨.installed v ttl, .installed v ttl hn, rfl, w, hhead⟩
    rcases hqq with hqq | ⟨t, hqq⟩
    · rw [workerStep_running s o _ hh q hw hqq] at hs'
      dsimp only at hs'
      split at hs'
      · rename_i r hr
        exact fin none _ r hr hs' ⟨hw, id, hash, hh, q, hqq⟩
      · cases hs'
    · rw [workerStep_running s o _ hh q hw hqq] at hs'
      dsimp only at hs'
      split at hs'
      · rename_i r hr
        exact fin (some t) _ r hr hs' ⟨hw, id, hash, hh, q, hqq⟩
      · cases hs'
  | swept evs hev hsw h1 =>
    subst hev
    have hn : s'.now = s.now := step_now_eq hs (by intro d h; cases h)
    refine toNone .expiredRemoved h1 rfl (fun c hc => ?_)
    obtain ⟨e, he, _, rfl⟩ := cellOf_eq_some.mp hc
    obtain ⟨x, hx, hnow, _⟩ := (C10_removed_exactly ht hsw he).1.mp h1
    exact .expiredRemoved _ hn (by simp [Cell.expired, hx, hnow])
  | shutdown c hev _ h1 =>
    subst hev
    have hn : s'.now = s.now := step_now_eq hs (by intro d h; cases h)
    rw [h1]
    exact ⟨.cleared, .cleared _ hn, Or.inl ⟨c, rfl⟩⟩
  | resumedShutdown c hev hp h1 =>
    subst hev
    have hn : s'.now = s.now := step_now_eq hs (by intro d h; cases h)
    have hsh : s.shutting = true := by
      rcases hp with hp | hp
      · exact hq.parkedOk c _ hp
      · exact hq.parkedOk c _ hp
    rw [h1]
    exact ⟨.cleared, .cleared _ hn, Or.inr ⟨c, rfl, hsh, hp⟩⟩

/-- … at every reachable state, with no hypothesis but reachability -/
theorem refines_reach {cfg : Cfg} {now : Nat} {seeds : List Nat} {s s' : State} {ev : Ev} {o o' : Oracle} {out : Out}
    (hr : Reach cfg now seeds s) (hs : step s ev o = .ok (s', out, o')) (k : Nat) :
    ∃ why, KeyStep (abs s).now (abs s').now why ((abs s).cells k) ((abs s').cells k) ∧ Justified s ev k why :=
  refines (ttlinv_reach hr) (qinv_of_reach hr) hs k

/-- **The clock and the shutdown flag** (for every state, no invariant needed): the clock never runs backwards and
    moves only by a clock event; the flag is never lowered, is raised by `shutdown()` and by nothing else. -/
theorem refines_global {s s' : State} {ev : Ev} {o o' : Oracle} {out : Out} (hs : step s ev o = .ok (s', out, o')) :
    (abs s).now ≤ (abs s').now ∧ ((∀ d, ev ≠ .advance d) → (abs s').now = (abs s).now) ∧
    ((abs s).shut = true → (abs s').shut = true) ∧ ((∀ c, ev ≠ .shutdown c) → (abs s').shut = (abs s).shut) ∧
    (∀ c, ev = .shutdown c → (abs s').shut = true) := by
  refine ⟨step_now_le hs, step_now_eq hs, step_shutting hs, fun hev => ?_, fun c hev => ?_⟩
  · have e := (step_pres {} hs hev).1
    simp only [envView, Prod.mk.injEq] at e
    exact e.2
  · subst hev
    simp only [step, Except.ok.injEq, Prod.mk.injEq] at hs
    obtain ⟨rfl, _, _⟩ := hs
    exact clientShutdown_flag s c

/-! ### 5. reads -/

theorem abs_of_onlyRead {s s' : State} (h : OnlyRead s s') : abs s' = abs s := by
  obtain ⟨f1, _, _, _, _, f6, _, _, _, _, _, f12, _⟩ := h.fields
  simp only [abs, f1, f6, f12]

/-- **Reads return `S.read` of the abstract state and do not change it.**  (`multi_get` after shutdown returns the
    EMPTY list, not one `none` per key: `S.readMany`.) -/
theorem reads_agree {s s' : State} {o o' : Oracle} {out : Out} :
    (∀ k, step s (.get k) o = .ok (s', out, o') → out = .value ((abs s).read k) ∧ abs s' = abs s) ∧
    (∀ ks, step s (.multiGet ks) o = .ok (s', out, o') → out = .values ((abs s).readMany ks) ∧ abs s' = abs s) := by
  constructor
  · intro k hs
    obtain ⟨h1, h2⟩ := clientGet_spec (s := s) (k := k) (o := o) hs
    exact ⟨by rw [h2, read_abs], abs_of_onlyRead h1⟩
  · intro ks hs
    obtain ⟨h1, h2⟩ := clientMultiGet_spec (s := s) (ks := ks) (o := o) hs
    refine ⟨?_, abs_of_onlyRead h1⟩
    rw [h2]
    show _ = Out.values (if s.shutting then [] else ks.map (abs s).read)
    cases hsh : s.shutting with
    | true => rfl
    | false =>
      simp only [Bool.false_eq_true, if_false]
      congr 1
      apply List.map_congr_left
      intro a _
      simp [read_abs, hsh]

/-! ### 6. inversion of `KeyStep`, facts about `read` -/

theorem read_eq_some_iff (sp : S) (k v : Nat) :
    sp.read k = some v ↔ sp.shut = false ∧ ∃ c, sp.cells k = some c ∧ c.expired sp.now = false ∧ c.value = v := by
  unfold S.read
  cases sp.shut with
  | true => simp
  | false =>
    cases sp.cells k with
    | none => simp
    | some c => cases hx : c.expired sp.now <;> simp [hx]

/-- a cell not expired now was not expired earlier -/
theorem expired_mono {c : Cell} {now now' : Nat} (hle : now ≤ now') (h : c.expired now' = false) :
    c.expired now = false := by
  unfold Cell.expired at h ⊢
  cases hd : c.deadline with
  | none => rfl
  | some d =>
    simp only [hd, decide_eq_false_iff_not] at h ⊢
    omega

/-- a cell that exists after a step: it was there unchanged, was installed, or was rewritten -/
theorem KeyStep.to_some {now now' : Nat} {why : Why} {c : Option Cell} {x : Cell}
    (h : KeyStep now now' why c (some x)) :
    (why = .unchanged ∧ c = some x ∧ now ≤ now') ∨
    (∃ v ttl, why = .installed v ttl ∧ c = none ∧ x = ⟨v, ttl.map (now + ·)⟩ ∧ now' = now) ∨
    (∃ c0 v ttl rm, why = .rewritten v ttl rm ∧ c = some c0 ∧
      x = ⟨v.getD c0.value, newDeadline now c0.deadline ttl rm⟩ ∧ now' = now) := by
  cases h with
  | unchanged _ hle => exact Or.inl ⟨rfl, rfl, hle⟩
  | installed v ttl hn => exact Or.inr (Or.inl ⟨v, ttl, rfl, rfl, rfl, hn⟩)
  | rewritten c0 v ttl rm hn => exact Or.inr (Or.inr ⟨c0, v, ttl, rm, rfl, rfl, rfl, hn⟩)

/-- a cell that is lost in a step: the clock stood still and the cause is one of the five removals -/
theorem KeyStep.to_none {now now' : Nat} {why : Why} {x : Cell} (h : KeyStep now now' why (some x) none) :
    now' = now ∧ (why = .hidden ∨ why = .deleted ∨ (why = .expiredRemoved ∧ x.expired now = true) ∨
      why = .evicted ∨ why = .cleared) := by
  cases h with
  | hidden _ hn => exact ⟨hn, Or.inl rfl⟩
  | deleted _ hn => exact ⟨hn, Or.inr (Or.inl rfl)⟩
  | expiredRemoved _ hn hx => exact ⟨hn, Or.inr (Or.inr (Or.inl ⟨rfl, hx⟩))⟩
  | evicted _ hn => exact ⟨hn, Or.inr (Or.inr (Or.inr (Or.inl rfl)))⟩
  | cleared _ hn => exact ⟨hn, Or.inr (Or.inr (Or.inr (Or.inr rfl)))⟩

end Cached.Spec
