import CachedProofs.Spec.Spec
import CachedProofs.Lemmas.Frame
import CachedProofs.Lemmas.StatsInv
import CachedProofs.Properties.C03

namespace Cached.Spec

/-! ### 1. the abstraction map -/

/-- the cell a reader could get from a stored entry: none if the entry is soft-deleted -/
def cellOf : Option Entry → Option Cell
  | some e => if e.soft then none else some ⟨e.value, e.expiry⟩
  | none => none

/-- **The abstraction map.** -/
def abs (s : State) : S :=
  { now := s.now, cells := fun k => cellOf (s.store.get? k), shut := s.shutting }

theorem cellOf_eq_some {oe : Option Entry} {c : Cell} :
    cellOf oe = some c ↔ ∃ e, oe = some e ∧ e.soft = false ∧ c = ⟨e.value, e.expiry⟩ := by
  cases oe with
  | none => simp [cellOf]
  | some e =>
    cases hs : e.soft with
    | true => simp [cellOf, hs]
    | false =>
      simp only [cellOf, hs, Bool.false_eq_true, if_false, Option.some.injEq]
      constructor
      · intro h; exact ⟨e, rfl, rfl, h.symm⟩
      · rintro ⟨e', h1, _, h2⟩; cases h1; exact h2.symm

theorem cellOf_eq_none {oe : Option Entry} : cellOf oe = none ↔ oe = none ∨ ∃ e, oe = some e ∧ e.soft = true := by
  cases oe with
  | none => simp [cellOf]
  | some e => cases hs : e.soft <;> simp [cellOf, hs]

/-- the cells of `abs s`: `some ⟨e.value, e.expiry⟩` iff the store holds `e` for `k` with `e.soft = false` -/
theorem abs_cells_eq_some (s : State) (k : Nat) (c : Cell) :
    (abs s).cells k = some c ↔ ∃ e, s.store.get? k = some e ∧ e.soft = false ∧ c = ⟨e.value, e.expiry⟩ :=
  cellOf_eq_some

/-- `S.read` on the abstraction of `s` is what a read returns in `s` (`visible` of Lemmas/Frame.lean) -/
theorem read_abs (s : State) (k : Nat) : (abs s).read k = if s.shutting then none else visible s k := by
  cases hsh : s.shutting with
  | true => simp [S.read, abs, hsh]
  | false =>
    simp only [S.read, abs, visible, hsh, Bool.false_eq_true, if_false]
    cases s.store.get? k with
    | none => rfl
    | some e =>
      cases hs : e.soft <;> cases hx : e.expiry <;> simp [cellOf, Entry.alive, Cell.expired, hs, hx]

/-! ### 2. which event justifies which cause -/

/-- the running worker's next command is the put of `(k, v)` with weight `w`
    (`ttl = none`: `Put`, `ttl = some t`: `PutWithTTL` with time-to-live `t`) -/
def HeadPut (s : State) (k v : Nat) (ttl : Option Nat) (w : Int) : Prop :=
  s.worker = .running ∧ ∃ id hash h q,
    s.queue = ((match ttl with
      | none => Cmd.put id hash w k v
      | some t => Cmd.putTtl id hash w k v t), h) :: q

/-- **The event (and for the worker: the head command) that justifies a cause for key `k`.** -/
def Justified (s : State) (ev : Ev) (k : Nat) : Why → Prop
  | .unchanged => True
  | .installed v ttl => ev = .worker ∧ ∃ w, HeadPut s k v ttl w
  | .rewritten v ttl rm => ∃ c w, ev = .upsert c k v w ttl rm
  | .hidden => ∃ c, ev = .delete c k
  | .deleted => ev = .worker ∧ s.worker = .running ∧ ∃ h q, s.queue = (.delete k, h) :: q
  | .expiredRemoved => ev = .sweep
  | .evicted => ev = .worker ∧ ∃ k' v ttl w, HeadPut s k' v ttl w ∧ s.adm.max - s.adm.used < w
  | .cleared => (∃ c, ev = .shutdown c) ∨
      (∃ c, ev = .resume c ∧ s.shutting = true ∧
        (s.pend.get? c = some .shutdownCmd ∨ s.pend.get? c = some .shutdownBuf))

/-! ### 3. two facts the frame lemmas do not state: the deadline of a fresh entry and of a rewritten entry -/

/-- the entry the worker stores for an absent key: value, id, deadline `now + ttl`, not deleted -/
theorem workerPut_entry {s : State} {id hash : Nat} {w : Int} {k v : Nat} {ttl : Option Nat} {o o' : Oracle}
    {ex : Exec} (h : workerPut s id hash w k v ttl o = .ok (ex, o')) (hk : s.store.get? k = none)
    {e : Entry} (he : ex.kill.store.get? k = some e) :
    e = { value := v, id := id, expiry := ttl.map (s.now + ·), soft := false } := by
  unfold workerPut at h
  split at h
  · simp only [Except.ok.injEq, Prod.mk.injEq] at h
    obtain ⟨rfl, _⟩ := h
    simp only [Exec.kill] at he
    rw [hk] at he; cases he
  · split at h
    · cases h
    · rename_i r hm
      obtain ⟨f1, _⟩ := foldl_applyEvict r.evicted { s with adm := r.adm }
      have habs : (AMap.delKeys s.store (r.evicted.map (·.2.1))).get? k = none := by
        rw [AMap.get?_delKeys, hk]; simp
      dsimp only at h
      split at h
      · split at h
        · simp only [Except.ok.injEq, Prod.mk.injEq] at h
          obtain ⟨rfl, _⟩ := h
          simp only [Exec.kill, AMap.get?_set_same, Option.some.injEq] at he
          exact he.symm
        · split at h
          · simp only [Except.ok.injEq, Prod.mk.injEq] at h
            obtain ⟨rfl, _⟩ := h
            simp only [Exec.kill, f1] at he
            rw [habs] at he; cases he
          · rename_i t x hx
            simp only [Except.ok.injEq, Prod.mk.injEq] at h
            obtain ⟨rfl, _⟩ := h
            simp only [Exec.kill, ttlPut, AMap.get?_set_same, Option.some.injEq] at he
            rw [addTime_eq_some hx] at he
            exact he.symm
      · simp only [Except.ok.injEq, Prod.mk.injEq] at h
        obtain ⟨rfl, _⟩ := h
        simp only [Exec.kill, f1] at he
        rw [habs] at he; cases he

end Cached.Spec
