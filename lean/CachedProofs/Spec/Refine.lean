/-
  THE REFINEMENT: Layer A (`CachedModel/State.lean`) implements the specification `CachedProofs/Spec/Spec.lean`.

    * `abs : State → S`           cell of `k` = `⟨e.value, e.expiry⟩` iff the store holds `e` for `k` with `e.soft = false`
                                  (a soft-deleted entry is NO cell); `now`, `shut` copied.
    * `Justified s ev k why`      the event (for the worker: the head command) that may be blamed for a cause.
    * `refines`                   every step, every key: `∃ why, KeyStep … why (cell before) (cell after) ∧ Justified s ev k why`
                                  (hypotheses `TtlInv s`, `QInv s`; `refines_reach`: none but reachability);
      `refines_global`            clock: never backwards, moves only by a clock event; flag: sticky, raised only by `shutdown()`.
    * `reads_agree`               `get` returns `(abs s).read k`, `multi_get` returns `(abs s).readMany ks`, `abs` unchanged.
    * corollaries, each from `refines` / `refines_global` / `reads_agree` and the inversion lemmas of `KeyStep`
      (`KeyStep.to_some`, `KeyStep.to_none`), without going back to the model:
        `read_stable`, `read_stable_step`                         (which events can change a read at all: `mayChangeRead`)
        `no_foreign_value`                                        C02
        `delete_hides`                                            C04
        `never_serves_expired`, `not_hidden_before_deadline`, `get_never_serves_expired`, `get_not_hidden_before_deadline`   C09
        `no_loss_without_cause`                                   C03
        `run_refines` (`KeyChain`), `KeyChain.needs_worker`       runs
    * non-vacuity: every cause exhibited on a concrete run (section 9).

  WHERE THE MODEL FORCED THE DESIGN (nothing is weakened silently; points 1, 2, 3, 6 have concrete witnesses in section 9):

   1. An eighth cause, `deleted`.  "The worker's execution of a `Delete` command is `unchanged` for readers" is FALSE:
      `delete(k)` queues `Delete(k)` also when `k` is absent (nothing to soft-mark).  History  put(k) called;
      delete(k) called; worker applies the put (`installed`, readable — AFTER `delete(k)` returned); worker runs
      `Delete(k)`: a readable cell disappears.  Cause `deleted`, justified by `Delete(k)` at the head of the queue.
      (When the entry was soft-marked by the call, the worker's `Delete` is indeed `unchanged`.)
   2. `put_or_update` rewrites DEAD entries in place (the known defect):
        - soft-deleted entry: the store entry changes, the cell is `none` before and after: cause `unchanged`;
        - expired, not yet swept entry (`soft = false`): this IS a cell (expired cells are cells; `S.read` hides them),
          the step is `rewritten`; with a new deadline and NO value the old value becomes readable again.  Hence
          `no_foreign_value` has a FOURTH disjunct (upsert of `k` carrying no value, on an expired cell holding `v`);
          without it the statement is false: `no_foreign_value_resurrection`.
   3. A put of a key whose entry is physically present (also soft-deleted or expired-unswept) is refused, by the call
      (`keyAlreadyExists`) and again by the worker.  At this level that is `unchanged`: a put CALL never changes a cell,
      and `installed` starts from `none`.  The specification says nothing about acknowledgements or about a put being
      installed eventually (C05/C07/C12 do); it is an "only these changes, only for these causes" specification.
   4. `Justified s ev k .unchanged` is not `True`: it states that a `delete(k)` call on a running cache never leaves a
      readable cell as it was.  This is what makes `delete_hides` a corollary of `refines` (a pure "only these" theorem
      cannot give a "must").
   5. `Why.installed` / `Why.rewritten` carry the data of the request, so `KeyStep` fixes the new cell EXACTLY: value
      put / value given or kept; deadline `now + ttl` / removed / kept (the frame lemma `step_key` does not state
      deadlines: `workerPut_entry`, `clientUpsert_entry` below).  `KeyStep` also carries the clock: `now ≤ now'` for
      `unchanged`, `now' = now` for every real change.
   6. `multi_get` after `shutdown()` returns the EMPTY list, not one `none` per key: `S.readMany`.
   7. `cleared` is used for every key when `shutdown()` completes, also keys without a cell (`c → none` for any `c`).
   8. `evicted` is justified by ANY put at the head of the queue whose weight exceeds the free space
      `s.adm.max - s.adm.used`; free space counts expired-unswept and soft-deleted entries as used
      (`C03_counterexample_expired_unswept_still_charged`).
  `Inv s` is not needed anywhere.
-/
import CachedProofs.Spec.Spec
import CachedProofs.Lemmas.Frame
import CachedProofs.Lemmas.StatsInv
import CachedProofs.Properties.C03

namespace Cached.Spec

/-! ### 1. the abstraction map -/

/-- the cell a reader could get from a stored entry: none if the entry is soft-deleted -/
def cellOf : Option Entry → Option Cell
  | some e => if e.soft then none else some ⟨e.value, e.expiry⟩
  | none => none

/-- **The abstraction map.** -/
def abs (s : State) : S :=
  { now := s.now, cells := fun k => cellOf (s.store.get? k), shut := s.shutting }

theorem cellOf_eq_some {oe : Option Entry} {c : Cell} :
    cellOf oe = some c ↔ ∃ e, oe = some e ∧ e.soft = false ∧ c = ⟨e.value, e.expiry⟩ := by
  cases oe with
  | none => simp [cellOf]
  | some e =>
    cases hs : e.soft with
    | true => simp [cellOf, hs]
    | false =>
      simp only [cellOf, hs, Bool.false_eq_true, if_false, Option.some.injEq]
      constructor
      · intro h; exact ⟨e, rfl, hs, h.symm⟩
      · rintro ⟨e', h1, _, h2⟩; cases h1; exact h2.symm

theorem cellOf_eq_none {oe : Option Entry} : cellOf oe = none ↔ oe = none ∨ ∃ e, oe = some e ∧ e.soft = true := by
  cases oe with
  | none => simp [cellOf]
  | some e => cases hs : e.soft <;> simp [cellOf, hs]

/-- the cells of `abs s`: `some ⟨e.value, e.expiry⟩` iff the store holds `e` for `k` with `e.soft = false` -/
theorem abs_cells_eq_some (s : State) (k : Nat) (c : Cell) :
    (abs s).cells k = some c ↔ ∃ e, s.store.get? k = some e ∧ e.soft = false ∧ c = ⟨e.value, e.expiry⟩ :=
  cellOf_eq_some

/-- `S.read` on the abstraction of `s` is what a read returns in `s` (`visible` of Lemmas/Frame.lean) -/
theorem read_abs (s : State) (k : Nat) : (abs s).read k = if s.shutting then none else visible s k := by
  cases hsh : s.shutting with
  | true => simp [S.read, abs, hsh]
  | false =>
    simp only [S.read, abs, visible, hsh, Bool.false_eq_true, if_false]
    cases s.store.get? k with
    | none => rfl
    | some e =>
      cases hs : e.soft <;> cases hx : e.expiry <;> simp [cellOf, Entry.alive, Cell.expired, hs, hx]
      rename_i x
      by_cases h : x < s.now
      · have : ¬ s.now ≤ x := by omega
        simp [h, this]
      · have : s.now ≤ x := by omega
        simp [h, this]

/-! ### 2. which event justifies which cause -/

/-- the running worker's next command is the put of `(k, v)` with weight `w`
    (`ttl = none`: `Put`, `ttl = some t`: `PutWithTTL` with time-to-live `t`) -/
def HeadPut (s : State) (k v : Nat) (ttl : Option Nat) (w : Int) : Prop :=
  s.worker = .running ∧ ∃ id hash h q,
    s.queue = ((match ttl with
      | none => Cmd.put id hash w k v
      | some t => Cmd.putTtl id hash w k v t), h) :: q

/-- **The event (and for the worker: the head command) that justifies a cause for key `k`.** -/
def Justified (s : State) (ev : Ev) (k : Nat) : Why → Prop
  | .unchanged => ∀ c, ev = .delete c k → s.shutting = true ∨ cellOf (s.store.get? k) = none
  | .installed v ttl => ev = .worker ∧ ∃ w, HeadPut s k v ttl w
  | .rewritten v ttl rm => ∃ c w, ev = .upsert c k v w ttl rm
  | .hidden => ∃ c, ev = .delete c k
  | .deleted => ev = .worker ∧ s.worker = .running ∧ ∃ h q, s.queue = (.delete k, h) :: q
  | .expiredRemoved => ev = .sweep
  | .evicted => ev = .worker ∧ ∃ k' v ttl w, HeadPut s k' v ttl w ∧ s.adm.max - s.adm.used < w
  | .cleared => (∃ c, ev = .shutdown c) ∨
      (∃ c, ev = .resume c ∧ s.shutting = true ∧
        (s.pend.get? c = some .shutdownCmd ∨ s.pend.get? c = some .shutdownBuf))

/-! ### 3. two facts the frame lemmas do not state: the deadline of a fresh entry and of a rewritten entry -/

/-- the entry the worker stores for an absent key: value, id, deadline `now + ttl`, not deleted -/
theorem workerPut_entry {s : State} {id hash : Nat} {w : Int} {k v : Nat} {ttl : Option Nat} {o o' : Oracle}
    {ex : Exec} (h : workerPut s id hash w k v ttl o = .ok (ex, o')) (hk : s.store.get? k = none)
    {e : Entry} (he : ex.kill.store.get? k = some e) :
    e = { value := v, id := id, expiry := ttl.map (s.now + ·), soft := false } := by
  unfold workerPut at h
  split at h
  · simp only [Except.ok.injEq, Prod.mk.injEq] at h
    obtain ⟨rfl, _⟩ := h
    simp only [Exec.kill] at he
    rw [hk] at he; cases he
  · split at h
    · cases h
    · rename_i r hm
      obtain ⟨f1, _⟩ := foldl_applyEvict r.evicted { s with adm := r.adm }
      have habs : (AMap.delKeys s.store (r.evicted.map (·.2.1))).get? k = none := by
        rw [AMap.get?_delKeys, hk]; simp
      dsimp only at h
      split at h
      · simp only [Except.ok.injEq, Prod.mk.injEq] at h
        obtain ⟨rfl, _⟩ := h
        simp only [Exec.kill, f1] at he
        rw [habs] at he; cases he
      split at h
      · split at h
        · simp only [Except.ok.injEq, Prod.mk.injEq] at h
          obtain ⟨rfl, _⟩ := h
          simp only [Exec.kill, AMap.get?_set_same, Option.some.injEq] at he
          exact he.symm
        · split at h
          · simp only [Except.ok.injEq, Prod.mk.injEq] at h
            obtain ⟨rfl, _⟩ := h
            simp only [Exec.kill, f1] at he
            rw [habs] at he; cases he
          · rename_i t x hx
            simp only [Except.ok.injEq, Prod.mk.injEq] at h
            obtain ⟨rfl, _⟩ := h
            simp only [Exec.kill, ttlPut, AMap.get?_set_same, Option.some.injEq] at he
            rw [addTime_eq_some hx] at he
            exact he.symm
      · simp only [Except.ok.injEq, Prod.mk.injEq] at h
        obtain ⟨rfl, _⟩ := h
        simp only [Exec.kill, f1] at he
        rw [habs] at he; cases he

/-- `put_or_update` of a physically present key: nothing happens (shutting down, or `now + ttl` is not
    representable), or the entry is rewritten as requested — the given value or the old one, the requested deadline -/
theorem clientUpsert_entry (s : State) (c k : Nat) (v : Option Nat) (w : Option Int) (ttl : Option Nat) (rm : Bool)
    (e : Entry) (hk : s.store.get? k = some e) :
    (clientUpsert s c k v w ttl rm).1.store.get? k = some e ∨
    (clientUpsert s c k v w ttl rm).1.store.get? k =
      some { e with expiry := newDeadline s.now e.expiry ttl rm, value := v.getD e.value } := by
  cases hsh : s.shutting with
  | true => left; simp [clientUpsert, hsh, hk]
  | false =>
    cases hne : upsertNewExpiry? s e ttl rm with
    | none => left; rw [clientUpsert_present_overflow s c k v w ttl rm e hsh hk hne]; exact hk
    | some ne =>
      right
      rw [clientUpsert_present s c k v w ttl rm e ne hsh hk hne, (upsertFinish_frame _ _ _ _).1,
        upsertNewExpiry?_some hne]
      cases rm <;> cases ttl <;> simp [upsertMid, upsertExpiry, newDeadline]

/-- `delete(k)` on a running cache leaves no readable cell of `k` behind (the entry is soft-deleted or absent) -/
theorem clientDelete_cell (s : State) (c k : Nat) (hsh : s.shutting = false) :
    cellOf ((clientDelete s c k).1.store.get? k) = none := by
  unfold clientDelete
  simp only [hsh, Bool.false_eq_true, if_false]
  rw [sendCmd_store]
  dsimp only
  split
  · simp [cellOf]
  · rename_i h; rw [h]; rfl

/-- a key whose cell did not change: `unchanged` is justified (a `delete` call of a readable key on a running cache
    never leaves the cell as it was) -/
theorem justified_unchanged {s s' : State} {ev : Ev} {o o' : Oracle} {out : Out}
    (hs : step s ev o = .ok (s', out, o')) (k : Nat)
    (h : cellOf (s'.store.get? k) = cellOf (s.store.get? k)) : Justified s ev k .unchanged := by
  intro c hev
  subst hev
  cases hsh : s.shutting with
  | true => exact Or.inl rfl
  | false =>
    right
    simp only [step, Except.ok.injEq, Prod.mk.injEq] at hs
    obtain ⟨rfl, _, _⟩ := hs
    rw [← h]
    exact clientDelete_cell s c k hsh

theorem step_now_eq {s s' : State} {ev : Ev} {o o' : Oracle} {out : Out} (hs : step s ev o = .ok (s', out, o'))
    (hev : ∀ d, ev ≠ .advance d) : s'.now = s.now := by
  rcases (step_frame hs).1 with h | ⟨d, hd, _⟩
  · exact h
  · exact absurd hd (hev d)

/-! ### 4. THE refinement theorem -/

/-- **Every step of the model moves every key's cell by one `KeyStep`, for a cause the event justifies.**
    (`TtlInv s`: the sweeper removes only entries past their CURRENT deadline; `QInv s`: a parked `shutdown()` has
    set the flag.  Both hold at every reachable state: `refines_reach`.) -/
theorem refines {s s' : State} {ev : Ev} {o o' : Oracle} {out : Out} (ht : TtlInv s) (hq : QInv s)
    (hs : step s ev o = .ok (s', out, o')) (k : Nat) :
    ∃ why, KeyStep (abs s).now (abs s').now why ((abs s).cells k) ((abs s').cells k) ∧ Justified s ev k why := by
  have hle : s.now ≤ s'.now := step_now_le hs
  show ∃ why, KeyStep s.now s'.now why (cellOf (s.store.get? k)) (cellOf (s'.store.get? k)) ∧ Justified s ev k why
  -- a cell that ends as `none`: unchanged if it was `none`, otherwise the given cause
  have toNone : ∀ (why : Why), s'.store.get? k = none → Justified s ev k why →
      (∀ c, cellOf (s.store.get? k) = some c → KeyStep s.now s'.now why (some c) none) →
      ∃ why, KeyStep s.now s'.now why (cellOf (s.store.get? k)) (cellOf (s'.store.get? k)) ∧ Justified s ev k why := by
    intro why h1 hj hc
    rw [h1]
    cases hcell : cellOf (s.store.get? k) with
    | none => exact ⟨.unchanged, .unchanged _ hle, justified_unchanged hs k (by rw [h1, hcell]; rfl)⟩
    | some c => exact ⟨why, hc c hcell, hj⟩
  cases step_key hs k with
  | same h1 => exact ⟨.unchanged, by rw [h1]; exact .unchanged _ hle, justified_unchanged hs k (by rw [h1])⟩
  | upsert c v w t rm e e' hev h0 _ _ _ _ =>
    subst hev
    have hn : s'.now = s.now := step_now_eq hs (by intro d h; cases h)
    have hju : Justified s (.upsert c k v w t rm) k .unchanged := fun _ h => by cases h
    simp only [step, Except.ok.injEq, Prod.mk.injEq] at hs
    obtain ⟨rfl, _, _⟩ := hs
    rw [h0]
    cases hsoft : e.soft with
    | true =>
      -- an upsert of a soft-deleted entry: the dead entry is rewritten, readers see nothing
      refine ⟨.unchanged, ?_, hju⟩
      rcases clientUpsert_entry s c k v w t rm e h0 with h | h <;> rw [h] <;>
        simp only [cellOf, hsoft, if_true] <;> exact .unchanged _ hle
    | false =>
      rcases clientUpsert_entry s c k v w t rm e h0 with h | h
      · rw [h]; exact ⟨.unchanged, .unchanged _ hle, hju⟩
      · rw [h]
        refine ⟨.rewritten v t rm, ?_, c, w, rfl⟩
        simp only [cellOf, hsoft, Bool.false_eq_true, if_false]
        exact .rewritten ⟨e.value, e.expiry⟩ v t rm hn
  | softDelete c e hev h0 h1 =>
    subst hev
    have hn : s'.now = s.now := step_now_eq hs (by intro d h; cases h)
    rw [h0, h1]
    cases hsoft : e.soft with
    | true =>
      simp only [cellOf, hsoft, if_true]
      exact ⟨.unchanged, .unchanged _ hle, fun _ _ => Or.inr (by simp [cellOf, h0, hsoft])⟩
    | false =>
      simp only [cellOf, hsoft, Bool.false_eq_true, if_false, if_true]
      exact ⟨.hidden, .hidden _ hn, c, rfl⟩
  | workerDelete hh q hev hw hqq h1 =>
    subst hev
    have hn : s'.now = s.now := step_now_eq hs (by intro d h; cases h)
    exact toNone .deleted h1 ⟨rfl, hw, hh, q, hqq⟩ (fun c _ => .deleted c hn)
  | evicted id hash w k0 v hh q hev hw hqq hpress h1 =>
    subst hev
    have hn : s'.now = s.now := step_now_eq hs (by intro d h; cases h)
    refine toNone .evicted h1 ⟨rfl, ?_⟩ (fun c _ => .evicted c hn)
    rcases hqq with hqq | ⟨t, hqq⟩
    · exact ⟨k0, v, none, w, ⟨hw, id, hash, hh, q, hqq⟩, hpress⟩
    · exact ⟨k0, v, some t, w, ⟨hw, id, hash, hh, q, hqq⟩, hpress⟩
  | inserted id hash w v hh q entry hev hw hqq h0 h1 _ _ _ =>
    subst hev
    have hn : s'.now = s.now := step_now_eq hs (by intro d h; cases h)
    have hs' : workerStep s o = .ok (s', out, o') := hs
    have hk0 : ({ s with queue := q } : State).store.get? k = none := h0
    rw [h0, h1]
    have fin : ∀ (ttl : Option Nat) (kind : String) (r : Exec × Oracle),
        workerPut { s with queue := q } id hash w k v ttl o = .ok r →
        workerFinish hh kind r = .ok (s', out, o') → HeadPut s k v ttl w →
        ∃ why, KeyStep s.now s'.now why (cellOf none) (cellOf (some entry)) ∧ Justified s .worker k why := by
      intro ttl kind r hr hf hhead
      obtain ⟨ex, o1⟩ := r
      obtain ⟨g1, _, _⟩ := workerFinish_kill hf
      have := workerPut_entry hr hk0 (e := entry) (by rw [← g1]; exact h1)
      subst this
      exact ⟨.installed v ttl, .installed v ttl hn, rfl, w, hhead⟩
    rcases hqq with hqq | ⟨t, hqq⟩
    · rw [workerStep_running s o _ hh q hw hqq] at hs'
      dsimp only at hs'
      split at hs'
      · rename_i r hr
        exact fin none _ r hr hs' ⟨hw, id, hash, hh, q, hqq⟩
      · cases hs'
    · rw [workerStep_running s o _ hh q hw hqq] at hs'
      dsimp only at hs'
      split at hs'
      · rename_i r hr
        exact fin (some t) _ r hr hs' ⟨hw, id, hash, hh, q, hqq⟩
      · cases hs'
  | swept evs hev hsw h1 =>
    subst hev
    have hn : s'.now = s.now := step_now_eq hs (by intro d h; cases h)
    refine toNone .expiredRemoved h1 rfl (fun c hc => ?_)
    obtain ⟨e, he, _, rfl⟩ := cellOf_eq_some.mp hc
    obtain ⟨x, hx, hnow, _⟩ := (C10_removed_exactly ht hsw he).1.mp h1
    exact .expiredRemoved _ hn (by simp [Cell.expired, hx, hnow])
  | shutdown c hev _ h1 =>
    subst hev
    have hn : s'.now = s.now := step_now_eq hs (by intro d h; cases h)
    rw [h1]
    exact ⟨.cleared, .cleared _ hn, Or.inl ⟨c, rfl⟩⟩
  | resumedShutdown c hev hp h1 =>
    subst hev
    have hn : s'.now = s.now := step_now_eq hs (by intro d h; cases h)
    have hsh : s.shutting = true := by
      rcases hp with hp | hp
      · exact hq.parkedOk c _ hp
      · exact hq.parkedOk c _ hp
    rw [h1]
    exact ⟨.cleared, .cleared _ hn, Or.inr ⟨c, rfl, hsh, hp⟩⟩

/-- … at every reachable state, with no hypothesis but reachability -/
theorem refines_reach {cfg : Cfg} {now : Nat} {seeds : List Nat} {s s' : State} {ev : Ev} {o o' : Oracle} {out : Out}
    (hr : Reach cfg now seeds s) (hs : step s ev o = .ok (s', out, o')) (k : Nat) :
    ∃ why, KeyStep (abs s).now (abs s').now why ((abs s).cells k) ((abs s').cells k) ∧ Justified s ev k why :=
  refines (ttlinv_reach hr) (qinv_of_reach hr) hs k

/-- **The clock and the shutdown flag** (for every state, no invariant needed): the clock never runs backwards and
    moves only by a clock event; the flag is never lowered, is raised by `shutdown()` and by nothing else. -/
theorem refines_global {s s' : State} {ev : Ev} {o o' : Oracle} {out : Out} (hs : step s ev o = .ok (s', out, o')) :
    (abs s).now ≤ (abs s').now ∧ ((∀ d, ev ≠ .advance d) → (abs s').now = (abs s).now) ∧
    ((abs s).shut = true → (abs s').shut = true) ∧ ((∀ c, ev ≠ .shutdown c) → (abs s').shut = (abs s).shut) ∧
    (∀ c, ev = .shutdown c → (abs s').shut = true) := by
  refine ⟨step_now_le hs, step_now_eq hs, step_shutting hs, fun hev => ?_, fun c hev => ?_⟩
  · have e := (step_pres {} hs hev).1
    simp only [envView, Prod.mk.injEq] at e
    exact e.2
  · subst hev
    simp only [step, Except.ok.injEq, Prod.mk.injEq] at hs
    obtain ⟨rfl, _, _⟩ := hs
    exact clientShutdown_flag s c

/-! ### 5. reads -/

theorem abs_of_onlyRead {s s' : State} (h : OnlyRead s s') : abs s' = abs s := by
  obtain ⟨f1, _, _, _, _, f6, _, _, _, _, _, f12, _⟩ := h.fields
  simp only [abs, f1, f6, f12]

/-- **Reads return `S.read` of the abstract state and do not change it.**  (`multi_get` after shutdown returns the
    EMPTY list, not one `none` per key: `S.readMany`.) -/
theorem reads_agree {s s' : State} {o o' : Oracle} {out : Out} :
    (∀ k, step s (.get k) o = .ok (s', out, o') → out = .value ((abs s).read k) ∧ abs s' = abs s) ∧
    (∀ ks, step s (.multiGet ks) o = .ok (s', out, o') → out = .values ((abs s).readMany ks) ∧ abs s' = abs s) := by
  constructor
  · intro k hs
    obtain ⟨h1, h2⟩ := clientGet_spec (s := s) (k := k) (o := o) hs
    exact ⟨by rw [h2, read_abs], abs_of_onlyRead h1⟩
  · intro ks hs
    obtain ⟨h1, h2⟩ := clientMultiGet_spec (s := s) (ks := ks) (o := o) hs
    refine ⟨?_, abs_of_onlyRead h1⟩
    rw [h2]
    show _ = Out.values (if s.shutting then [] else ks.map (abs s).read)
    cases hsh : s.shutting with
    | true => rfl
    | false =>
      simp only [Bool.false_eq_true, if_false]
      congr 1
      apply List.map_congr_left
      intro a _
      simp [read_abs, hsh]

/-! ### 6. inversion of `KeyStep`, facts about `read` -/

theorem read_eq_some_iff (sp : S) (k v : Nat) :
    sp.read k = some v ↔ sp.shut = false ∧ ∃ c, sp.cells k = some c ∧ c.expired sp.now = false ∧ c.value = v := by
  unfold S.read
  cases sp.shut with
  | true => simp
  | false =>
    cases sp.cells k with
    | none => simp
    | some c => cases hx : c.expired sp.now <;> simp [hx]

/-- a cell not expired now was not expired earlier -/
theorem expired_mono {c : Cell} {now now' : Nat} (hle : now ≤ now') (h : c.expired now' = false) :
    c.expired now = false := by
  unfold Cell.expired at h ⊢
  cases hd : c.deadline with
  | none => rfl
  | some d =>
    simp only [hd, decide_eq_false_iff_not] at h ⊢
    omega

/-- a cell that exists after a step: it was there unchanged, was installed, or was rewritten -/
theorem KeyStep.to_some {now now' : Nat} {why : Why} {c : Option Cell} {x : Cell}
    (h : KeyStep now now' why c (some x)) :
    (why = .unchanged ∧ c = some x ∧ now ≤ now') ∨
    (∃ v ttl, why = .installed v ttl ∧ c = none ∧ x = ⟨v, ttl.map (now + ·)⟩ ∧ now' = now) ∨
    (∃ c0 v ttl rm, why = .rewritten v ttl rm ∧ c = some c0 ∧
      x = ⟨v.getD c0.value, newDeadline now c0.deadline ttl rm⟩ ∧ now' = now) := by
  cases h with
  | unchanged _ hle => exact Or.inl ⟨rfl, rfl, hle⟩
  | installed v ttl hn => exact Or.inr (Or.inl ⟨v, ttl, rfl, rfl, rfl, hn⟩)
  | rewritten c0 v ttl rm hn => exact Or.inr (Or.inr ⟨c0, v, ttl, rm, rfl, rfl, rfl, hn⟩)

/-- a cell that is lost in a step: the clock stood still and the cause is one of the five removals -/
theorem KeyStep.to_none {now now' : Nat} {why : Why} {x : Cell} (h : KeyStep now now' why (some x) none) :
    now' = now ∧ (why = .hidden ∨ why = .deleted ∨ (why = .expiredRemoved ∧ x.expired now = true) ∨
      why = .evicted ∨ why = .cleared) := by
  cases h with
  | hidden _ hn => exact ⟨hn, Or.inl rfl⟩
  | deleted _ hn => exact ⟨hn, Or.inr (Or.inl rfl)⟩
  | expiredRemoved _ hn hx => exact ⟨hn, Or.inr (Or.inr (Or.inl ⟨rfl, hx⟩))⟩
  | evicted _ hn => exact ⟨hn, Or.inr (Or.inr (Or.inr (Or.inl rfl)))⟩
  | cleared _ hn => exact ⟨hn, Or.inr (Or.inr (Or.inr (Or.inr rfl)))⟩

theorem KeyStep.expiredRemoved_inv {now now' : Nat} {c c' : Option Cell} (h : KeyStep now now' .expiredRemoved c c') :
    ∃ x, c = some x ∧ c' = none ∧ x.expired now = true ∧ now' = now := by
  cases h with
  | expiredRemoved x hn hx => exact ⟨x, rfl, rfl, hx, hn⟩

theorem KeyStep.hidden_inv {now now' : Nat} {c c' : Option Cell} (h : KeyStep now now' .hidden c c') : c' = none := by
  cases h; rfl

/-! ### 7. corollaries of `refines` / `reads_agree` -/

/-- **read_stable** (abstract): cause `unchanged`, clock and flag as before — the read is the same. -/
theorem read_stable {sp sp' : S} {k : Nat} (h : KeyStep sp.now sp'.now .unchanged (sp.cells k) (sp'.cells k))
    (hn : sp'.now = sp.now) (hsh : sp'.shut = sp.shut) : sp'.read k = sp.read k := by
  simp only [S.read, h.unchanged_eq, hn, hsh]

/-- the events that may change what a read of `k` returns: `put_or_update(k)`, `delete(k)`, a worker step, a clock
    move, `shutdown()`, a parked call continuing.  NOT among them: puts (of any key, they only queue a command),
    operations on other keys, reads, the access consumer, SWEEPS (they remove only what was unreadable), polls. -/
def mayChangeRead (k : Nat) : Ev → Bool
  | .upsert _ k' _ _ _ _ => k' == k
  | .delete _ k' => k' == k
  | .worker => true
  | .advance _ => true
  | .shutdown _ => true
  | .resume _ => true
  | _ => false

/-- **read_stable** (model): every other event leaves `read k` as it was. -/
theorem read_stable_step {s s' : State} {ev : Ev} {o o' : Oracle} {out : Out} (ht : TtlInv s) (hq : QInv s)
    (hs : step s ev o = .ok (s', out, o')) (k : Nat) (hev : mayChangeRead k ev = false) :
    (abs s').read k = (abs s).read k := by
  obtain ⟨_, hnow, _, hshut, _⟩ := refines_global hs
  have hn : (abs s').now = (abs s).now := hnow (by intro d h; subst h; simp [mayChangeRead] at hev)
  have hsh : (abs s').shut = (abs s).shut := hshut (by intro c h; subst h; simp [mayChangeRead] at hev)
  obtain ⟨why, hks, hj⟩ := refines ht hq hs k
  cases why with
  | unchanged => exact read_stable hks hn hsh
  | installed v ttl => obtain ⟨rfl, _⟩ := hj; simp [mayChangeRead] at hev
  | rewritten v ttl rm => obtain ⟨c, w, rfl⟩ := hj; simp [mayChangeRead] at hev
  | hidden => obtain ⟨c, rfl⟩ := hj; simp [mayChangeRead] at hev
  | deleted => obtain ⟨rfl, _⟩ := hj; simp [mayChangeRead] at hev
  | expiredRemoved =>
    obtain ⟨x, hc, hc', hx, _⟩ := hks.expiredRemoved_inv
    simp only [S.read, hc, hc', hx, if_true, ite_self]
  | evicted => obtain ⟨rfl, _⟩ := hj; simp [mayChangeRead] at hev
  | cleared => rcases hj with ⟨c, rfl⟩ | ⟨c, rfl, _⟩ <;> simp [mayChangeRead] at hev

/-- **no_foreign_value** (C02).  A value read for `k` after a step was readable before, or is the value an upsert of
    `k` carries, or the value of the put of `k` the worker applies — or (LAST disjunct, see the head of this file)
    it is the value of an EXPIRED, not yet swept cell of `k` that an upsert of `k` WITHOUT a value brought back by
    giving it a new deadline. -/
theorem no_foreign_value {s s' : State} {ev : Ev} {o o' : Oracle} {out : Out} (ht : TtlInv s) (hq : QInv s)
    (hs : step s ev o = .ok (s', out, o')) {k v : Nat} (h : (abs s').read k = some v) :
    (abs s).read k = some v ∨
    (∃ c w t rm, ev = .upsert c k (some v) w t rm) ∨
    (ev = .worker ∧ ∃ ttl w, HeadPut s k v ttl w) ∨
    (∃ c w t rm x, ev = .upsert c k none w t rm ∧ (abs s).cells k = some x ∧ x.value = v ∧
      x.expired s.now = true) := by
  obtain ⟨hsh', x', hc', hx', hv⟩ := (read_eq_some_iff _ _ _).mp h
  obtain ⟨hle, _, hst, _, _⟩ := refines_global hs
  have hsh : (abs s).shut = false := by
    cases h0 : (abs s).shut with
    | false => rfl
    | true => rw [hst h0] at hsh'; cases hsh'
  obtain ⟨why, hks, hj⟩ := refines ht hq hs k
  rw [hc'] at hks
  rcases hks.to_some with ⟨rfl, hc, _⟩ | ⟨v0, ttl, rfl, hc, rfl, _⟩ | ⟨c0, v0, ttl, rm, rfl, hc, rfl, _⟩
  · exact Or.inl ((read_eq_some_iff _ _ _).mpr ⟨hsh, x', hc, expired_mono hle hx', hv⟩)
  · obtain ⟨hev, w, hh⟩ := hj
    dsimp only at hv
    subst hv
    exact Or.inr (Or.inr (Or.inl ⟨hev, ttl, w, hh⟩))
  · obtain ⟨c, w, rfl⟩ := hj
    cases v0 with
    | some y =>
      simp only [Option.getD_some] at hv
      subst hv
      exact Or.inr (Or.inl ⟨c, w, ttl, rm, rfl⟩)
    | none =>
      simp only [Option.getD_none] at hv
      cases hx0 : c0.expired s.now with
      | false => exact Or.inl ((read_eq_some_iff _ _ _).mpr ⟨hsh, c0, hc, hx0, hv⟩)
      | true => exact Or.inr (Or.inr (Or.inr ⟨c, w, ttl, rm, c0, rfl, hc, hv, hx0⟩))

/-- **delete_hides** (C04).  When `delete(k)` returns — whatever it returns, long before the worker sees the
    command — a read of `k` reports absent. -/
theorem delete_hides {s s' : State} {o o' : Oracle} {out : Out} {c k : Nat} (ht : TtlInv s) (hq : QInv s)
    (hs : step s (.delete c k) o = .ok (s', out, o')) : (abs s').read k = none := by
  obtain ⟨_, _, hst, _, _⟩ := refines_global hs
  obtain ⟨why, hks, hj⟩ := refines ht hq hs k
  cases why with
  | unchanged =>
    rcases hj c rfl with h | h
    · exact read_shut _ _ (hst h)
    · exact read_absent _ _ (by rw [hks.unchanged_eq]; exact h)
  | hidden => exact read_absent _ _ hks.hidden_inv
  | installed v ttl => cases hj.1
  | rewritten v ttl rm => obtain ⟨_, _, h⟩ := hj; cases h
  | deleted => cases hj.1
  | expiredRemoved => cases hj
  | evicted => cases hj.1
  | cleared => rcases hj with ⟨_, h⟩ | ⟨_, h, _⟩ <;> cases h

/-- **never_serves_expired** (C09): once the clock is past the cell's deadline a read reports absent, swept or not. -/
theorem never_serves_expired (sp : S) (k : Nat) (c : Cell) (d : Nat) (hc : sp.cells k = some c)
    (hd : c.deadline = some d) (hnow : sp.now > d) : sp.read k = none := by
  simp [S.read, hc, Cell.expired, hd, hnow]

/-- **not_hidden_before_deadline** (C09): up to and including the deadline (or without one) a read of a running cache
    returns the cell's value. -/
theorem not_hidden_before_deadline (sp : S) (k : Nat) (c : Cell) (hsh : sp.shut = false) (hc : sp.cells k = some c)
    (hd : c.deadline = none ∨ ∃ d, c.deadline = some d ∧ sp.now ≤ d) : sp.read k = some c.value := by
  rcases hd with hd | ⟨d, hd, hle⟩
  · simp [S.read, hsh, hc, Cell.expired, hd]
  · have : ¬ d < sp.now := by omega
    simp [S.read, hsh, hc, Cell.expired, hd, this]

/-- … through the API: what `get` answers in the model -/
theorem get_never_serves_expired {s s' : State} {o o' : Oracle} {out : Out} {k d : Nat} {c : Cell}
    (hs : step s (.get k) o = .ok (s', out, o')) (hc : (abs s).cells k = some c) (hd : c.deadline = some d)
    (hnow : s.now > d) : out = .value none := by
  rw [(reads_agree.1 k hs).1, never_serves_expired (abs s) k c d hc hd hnow]

theorem get_not_hidden_before_deadline {s s' : State} {o o' : Oracle} {out : Out} {k : Nat} {c : Cell}
    (hs : step s (.get k) o = .ok (s', out, o')) (hsh : s.shutting = false) (hc : (abs s).cells k = some c)
    (hd : c.deadline = none ∨ ∃ d, c.deadline = some d ∧ s.now ≤ d) : out = .value (some c.value) := by
  rw [(reads_agree.1 k hs).1, not_hidden_before_deadline (abs s) k c hsh hc hd]

/-- **no_loss_without_cause** (C03).  A readable-or-expired cell of `k` disappears in one step only if `delete(k)` is
    called, the worker runs a queued `Delete(k)`, the sweeper runs after the cell's deadline, the worker applies a put
    that does not fit the free space, or `shutdown()` completes. -/
theorem no_loss_without_cause {s s' : State} {ev : Ev} {o o' : Oracle} {out : Out} (ht : TtlInv s) (hq : QInv s)
    (hs : step s ev o = .ok (s', out, o')) {k : Nat} {x : Cell} (hc : (abs s).cells k = some x)
    (hc' : (abs s').cells k = none) :
    (∃ c, ev = .delete c k) ∨
    (ev = .worker ∧ s.worker = .running ∧ ∃ h q, s.queue = (.delete k, h) :: q) ∨
    (ev = .sweep ∧ x.expired s.now = true) ∨
    (ev = .worker ∧ ∃ k' v ttl w, HeadPut s k' v ttl w ∧ s.adm.max - s.adm.used < w) ∨
    ((∃ c, ev = .shutdown c) ∨ ∃ c, ev = .resume c ∧ s.shutting = true ∧
      (s.pend.get? c = some .shutdownCmd ∨ s.pend.get? c = some .shutdownBuf)) := by
  obtain ⟨why, hks, hj⟩ := refines ht hq hs k
  rw [hc, hc'] at hks
  obtain ⟨_, rfl | rfl | ⟨rfl, hx⟩ | rfl | rfl⟩ := hks.to_none
  · exact Or.inl hj
  · exact Or.inr (Or.inl hj)
  · exact Or.inr (Or.inr (Or.inl ⟨hj, hx⟩))
  · exact Or.inr (Or.inr (Or.inr (Or.inl hj)))
  · exact Or.inr (Or.inr (Or.inr (Or.inr hj)))

/-! ### 8. runs -/

/-- the cell history of key `k` along a run: a chain of `KeyStep`s, each with a cause its event justifies -/
inductive KeyChain (k : Nat) : State → List (Ev × Oracle) → State → Prop where
  | nil (s : State) : KeyChain k s [] s
  | cons {s s1 s' : State} {ev : Ev} {o : Oracle} {l : List (Ev × Oracle)} (why : Why) :
      KeyStep (abs s).now (abs s1).now why ((abs s).cells k) ((abs s1).cells k) → Justified s ev k why →
      KeyChain k s1 l s' → KeyChain k s ((ev, o) :: l) s'

/-- **run_refines**: along every run from a reachable state every key's cell history is a chain of justified
    `KeyStep`s. -/
theorem run_refines {cfg : Cfg} {now : Nat} {seeds : List Nat} :
    ∀ (l : List (Ev × Oracle)) {s s' : State}, Reach cfg now seeds s → runEvents s l = .ok s' →
      ∀ k, KeyChain k s l s' := by
  intro l
  induction l with
  | nil => intro s s' _ h k; simp only [runEvents, Except.ok.injEq] at h; subst h; exact .nil s
  | cons x l ih =>
    intro s s' hr h k
    obtain ⟨ev, o⟩ := x
    simp only [runEvents] at h
    split at h
    · rename_i s1 out o1 hs
      obtain ⟨why, hks, hj⟩ := refines_reach hr hs k
      exact .cons why hks hj (ih (Reach.step hr hs) h k)
    · cases h

/-- a use of `run_refines`: a key without a cell at the start of a run and with one at its end — some event of the
    run is a worker step (client calls alone never make a key readable: they only queue commands) -/
theorem KeyChain.needs_worker {k : Nat} {s s' : State} {l : List (Ev × Oracle)} (h : KeyChain k s l s')
    (h0 : (abs s).cells k = none) {x : Cell} (h1 : (abs s').cells k = some x) :
    ∃ p ∈ l, p.1 = Ev.worker := by
  induction h with
  | nil s => rw [h0] at h1; cases h1
  | @cons s s1 s' ev o l why hks hj _ ih =>
    cases hc1 : (abs s1).cells k with
    | none =>
      obtain ⟨p, hp, hw⟩ := ih hc1 h1
      exact ⟨p, List.mem_cons_of_mem _ hp, hw⟩
    | some y =>
      rw [h0, hc1] at hks
      rcases hks.to_some with ⟨_, hc, _⟩ | ⟨v, ttl, rfl, _, _, _⟩ | ⟨c0, _, _, _, _, hc, _⟩
      · cases hc
      · exact ⟨(ev, o), List.mem_cons_self, hj.1⟩
      · cases hc

/-! ### 9. non-vacuity: every cause on a concrete run -/

def specCfg : Cfg := { maxWeight := 100, shards := 2, cmdCap := 4, poolSize := 1, bufSize := 1, counters := 2 }

/-- clock 5 s -/
def specInit : State := State.init specCfg 5000000000 [1, 2, 3, 4]

def oE : Oracle := {}

/-- `put_with_weight_and_ttl(1 ↦ 10, weight 5, ttl 10 s)` called -/
def specCall : List (Ev × Oracle) := [(.putWTtl 0 1 10 5 10000000000, oE)]

/-- … and applied by the worker: cell `⟨10, deadline 15 s⟩` -/
def specPut : List (Ev × Oracle) := specCall ++ [(.worker, oE)]

/-- the step `ev` (with oracle `o`) from `s` succeeds and moves the cell of `k` for the cause `why`, justified -/
def Exhibits (s : State) (ev : Ev) (o : Oracle) (k : Nat) (why : Why) : Prop :=
  ∃ s' out o', step s ev o = .ok (s', out, o') ∧
    KeyStep (abs s).now (abs s').now why ((abs s).cells k) ((abs s').cells k) ∧ Justified s ev k why

/-- `installed` -/
example : ∃ s, runEvents specInit specCall = .ok s ∧ Exhibits s .worker oE 1 (.installed 10 (some 10000000000)) := by
  refine ⟨_, rfl, _, _, _, rfl, ?_, ?_⟩
  · exact KeyStep.installed 10 (some 10000000000) rfl
  · exact ⟨rfl, 5, rfl, _, _, _, _, rfl⟩

/-- `rewritten`: new value, time-to-live removed -/
example : ∃ s, runEvents specInit specPut = .ok s ∧
    Exhibits s (.upsert 0 1 (some 11) none none true) oE 1 (.rewritten (some 11) none true) := by
  refine ⟨_, rfl, _, _, _, rfl, ?_, ?_⟩
  · exact KeyStep.rewritten ⟨10, some 15000000000⟩ (some 11) none true rfl
  · exact ⟨0, none, rfl⟩

/-- `rewritten`: value kept, new time-to-live 3 s from now (deadline 8 s) -/
example : ∃ s s' out o', runEvents specInit specPut = .ok s ∧
    step s (.upsert 0 1 none none (some 3000000000) false) oE = .ok (s', out, o') ∧
    KeyStep (abs s).now (abs s').now (.rewritten none (some 3000000000) false) ((abs s).cells 1) ((abs s').cells 1) ∧
    (abs s').cells 1 = some ⟨10, some 8000000000⟩ := by
  refine ⟨_, _, _, _, rfl, rfl, ?_, rfl⟩
  exact KeyStep.rewritten ⟨10, some 15000000000⟩ none (some 3000000000) false rfl

/-- `hidden` -/
example : ∃ s, runEvents specInit specPut = .ok s ∧ Exhibits s (.delete 0 1) oE 1 .hidden := by
  refine ⟨_, rfl, _, _, _, rfl, ?_, ?_⟩
  · exact KeyStep.hidden ⟨10, some 15000000000⟩ rfl
  · exact ⟨0, rfl⟩

/-- `expiredRemoved`: clock 17 s, past the deadline 15 s -/
example : ∃ s, runEvents specInit (specPut ++ [(.advance 12000000000, oE)]) = .ok s ∧
    Exhibits s .sweep oE 1 .expiredRemoved := by
  refine ⟨_, rfl, _, _, _, rfl, ?_, ?_⟩
  · exact KeyStep.expiredRemoved ⟨10, some 15000000000⟩ rfl rfl
  · exact rfl

/-- `evicted`: a put of weight 98 does not fit beside key 1 (weight 5, limit 100) -/
example : ∃ s, runEvents specInit (specPut ++ [(.putW 0 2 20 98, oE)]) = .ok s ∧
    Exhibits s .worker { dk := [false, false], ids := [1], pops := [some 1] } 1 .evicted := by
  refine ⟨_, rfl, _, _, _, rfl, ?_, ?_⟩
  · exact KeyStep.evicted ⟨10, some 15000000000⟩ rfl
  · exact ⟨rfl, 2, 20, none, 98, ⟨rfl, _, _, _, _, rfl⟩, by decide⟩

/-- `cleared` -/
example : ∃ s, runEvents specInit specPut = .ok s ∧ Exhibits s (.shutdown 7) oE 1 .cleared := by
  refine ⟨_, rfl, _, _, _, rfl, ?_, ?_⟩
  · exact KeyStep.cleared _ rfl
  · exact Or.inl ⟨7, rfl⟩

/-- `deleted` (point 1 of the head of this file): `put(1)` called, `delete(1)` called, the worker applies the put — key 1
    is READABLE although `delete(1)` has returned — then the worker runs `Delete(1)` -/
example : ∃ s, runEvents specInit [(.putW 0 1 10 5, oE), (.delete 0 1, oE), (.worker, oE)] = .ok s ∧
    (abs s).read 1 = some 10 ∧ Exhibits s .worker oE 1 .deleted := by
  refine ⟨_, rfl, rfl, _, _, _, rfl, ?_, ?_⟩
  · exact KeyStep.deleted ⟨10, none⟩ rfl
  · exact ⟨rfl, rfl, _, _, rfl⟩

/-- `unchanged` although the STORE changes: `put_or_update` of a soft-deleted key rewrites the dead entry in place
    (value 99); readers see nothing before and nothing after -/
example : ∃ s s' out o', runEvents specInit (specPut ++ [(.delete 0 1, oE)]) = .ok s ∧
    step s (.upsert 0 1 (some 99) none none false) oE = .ok (s', out, o') ∧
    s.store.get? 1 = some ⟨10, 1, some 15000000000, true⟩ ∧ s'.store.get? 1 = some ⟨99, 1, some 15000000000, true⟩ ∧
    KeyStep (abs s).now (abs s').now .unchanged ((abs s).cells 1) ((abs s').cells 1) ∧
    (abs s).read 1 = none ∧ (abs s').read 1 = none := by
  refine ⟨_, _, _, _, rfl, rfl, by decide, by decide, ?_, by decide, by decide⟩
  exact KeyStep.unchanged none (Nat.le_refl _)

/-- **The last disjunct of `no_foreign_value` is needed** (finding): key 1 has expired (clock 17 s, deadline 15 s), no
    sweep has visited it, a read reports absent; `put_or_update(1, remove_time_to_live)` — carrying NO value — makes
    the old value 10 readable again. -/
theorem no_foreign_value_resurrection :
    ∃ s s' out o', runEvents specInit (specPut ++ [(.advance 12000000000, oE)]) = .ok s ∧
      step s (.upsert 0 1 none none none true) oE = .ok (s', out, o') ∧
      (abs s).read 1 = none ∧ (abs s').read 1 = some 10 ∧
      (abs s).cells 1 = some ⟨10, some 15000000000⟩ ∧ (abs s').cells 1 = some ⟨10, none⟩ := by
  refine ⟨_, _, _, _, rfl, rfl, ?_, ?_, ?_, ?_⟩ <;> decide

/-- point 3 of the head of this file: key 1 has expired and is not swept — a read reports absent — yet
    `put_with_weight(1 ↦ 77)` is refused on the spot with `KeyAlreadyExists`; no cell changes -/
example : ∃ s s' h o', runEvents specInit (specPut ++ [(.advance 12000000000, oE)]) = .ok s ∧
    step s (.putW 0 1 77 5) oE = .ok (s', .ack h (.rejected .keyAlreadyExists), o') ∧
    (abs s).read 1 = none ∧ (abs s').cells 1 = (abs s).cells 1 := by
  refine ⟨_, _, _, _, rfl, rfl, ?_, ?_⟩ <;> decide

/-- `reads_agree` on a concrete state: `get` / `multi_get` answer `S.read` / `S.readMany` -/
example : ∃ s, runEvents specInit specPut = .ok s ∧
    (abs s).read 1 = some 10 ∧ (abs s).readMany [2, 1] = [none, some 10] ∧
    (∃ s1 o1, step s (.get 1) { pool := [0] } = .ok (s1, .value (some 10), o1)) ∧
    (∃ s2 o2, step s (.multiGet [2, 1]) { pool := [0] } = .ok (s2, .values [none, some 10], o2)) := by
  refine ⟨_, rfl, ?_, ?_, ⟨_, _, rfl⟩, ⟨_, _, rfl⟩⟩ <;> decide

/-- `multi_get` after `shutdown()`: the empty list -/
example : ∃ s s2 o2, runEvents specInit (specPut ++ [(.shutdown 7, oE)]) = .ok s ∧
    step s (.multiGet [2, 1]) oE = .ok (s2, .values [], o2) ∧ (abs s).readMany [2, 1] = [] :=
  ⟨_, _, _, rfl, rfl, rfl⟩

/-- `run_refines` instantiated: the whole history of key 1 along a run through put, upsert, delete, worker steps,
    a clock move and a sweep is a chain of justified `KeyStep`s -/
example : ∃ s', KeyChain 1 specInit
    (specPut ++ [(.upsert 0 1 (some 11) none none false, oE), (.worker, oE), (.delete 0 1, oE), (.worker, oE),
      (.advance 12000000000, oE), (.sweep, oE)]) s' :=
  ⟨_, run_refines _ (Reach.init (cfg := specCfg) (now := 5000000000) (seeds := [1, 2, 3, 4])) rfl 1⟩

/-- the hypotheses of `refines` / the corollaries hold at the states used above (they are reachable) -/
example (s : State) (h : runEvents specInit specPut = .ok s) : TtlInv s ∧ QInv s := by
  have hr : Reach specCfg 5000000000 [1, 2, 3, 4] s := reach_runEvents _ Reach.init h
  exact ⟨ttlinv_reach hr, qinv_of_reach hr⟩

end Cached.Spec
