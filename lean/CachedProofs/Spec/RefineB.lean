/-
  THE REFINEMENT AT ACTION GRANULARITY: Layer B (`CachedModel/LayerB.lean`: every call a sequence of separately scheduled
  atomic actions, any number of clients interleaved with the command worker, the sweeper and the consumer) implements
  the specification `CachedProofs/Spec/Spec.lean` — with the deviations listed below, each one named, and each one
  shown to be REAL by a reachable interleaving.   `abs b.g` (the `abs` of Spec/Refine.lean applied to the shared state)
  is the abstract state at every instant.

    * `WhyB`, `KeyStepB`          `Spec.Why` / `Spec.KeyStep` plus ONE cause / clause, `sweptLive` (`keyStepB_iff`).
    * `JustifiedB b a k why`      which action of which thread at which position justifies which cause for which key;
      `JustifiedH h b a k why`    … plus the facts about EARLIER actions that the state does not remember (`evicted`:
                                  the put did not fit; the sweeper's causes: `VisitedDue`, and — fix 36c87dc —
                                  `CheckedExpired`: the cell WAS expired at the sweeper's check; `sweptLive`: …
                                  and a `rewritten` step of the key followed, `RewrittenIn`).
    * `refinesB`                  every reachable `b`, every action `stepB b a o = .ok (b', o')`, EVERY key `k`:
                                  `∃ why, KeyStepB … why (cell before) (cell after) ∧ JustifiedB b a k why`
                                  (`refinesB_inv`: from `WAbsent`, `BInv`, `SweepInv`, the sweep clock);
      `refinesH`                  the same along a history `RunH` from an initial state, with `JustifiedH`;
      `refinesB_global`           clock: never backwards, moves only by `advance`; flag: never lowered, raised by the ONE
                                  action `shutdown.cas` and by nothing else.
    * `reads_agreeB`              every lookup action (`get`, `get_ref`, each position of a multi-key read) finds
                                  `S.look (abs b.g) k` for the state `b` in which THAT action runs and changes nothing;
                                  `pool.add` delivers the value found; `reads_flag_check`, `reads_agreeB_running`.
    * corollaries, each from `refinesB` / `refinesB_global` / `reads_agreeB` and the inversion lemmas of `KeyStepB`
      ALONE:  `read_stable_stepB` (`mayChangeReadB`), `expiredRemoved_keeps_look`, `cleared_keeps_read`,
      `no_foreign_valueB` (`…_read`), `delete_hidesB`, `get_never_serves_expiredB`, `get_not_hidden_before_deadlineB`
      (the abstract `never_serves_expired` / `not_hidden_before_deadline` of Spec/Refine.lean speak about `S` only and
      apply to `abs b.g` as they are), `no_loss_without_causeB`, `readable_loss_is_sweptLive`,
      `run_refinesB` (`KeyChainB`), `KeyChainB.needs_worker`;  with the history (section 9, from `refinesB` and
      `C10_layerB_removes_only_expired_at_check` of LayerB/Sweep.lean): `sweeper_removal_checked`,
      `sweptLive_needs_rewrite`, `readable_loss_to_sweeper`, `sweep_keeps_look_without_rewrite`.
    * non-vacuity: every cause on a concrete interleaving (section 10), every corollary's hypotheses (section 12).

  THE DEVIATIONS FROM Spec.lean (section 11 has the witness of each; nothing else is weakened):

   1. `sweptLive` — NEW CAUSE.  `KeyStep.expiredRemoved` demands that the removed cell be expired AT THE MOMENT OF THE
      REMOVAL.  The sweeper CHECKS the stored value at its `kw.remove` action (fix 36c87dc, `unexpiredWithId`: it goes
      on only if the value stored under the id has expired by its OWN deadline) and removes two actions later whatever
      entry the key holds under the same id; a `put_or_update` may rewrite the stored deadline of the EXPIRED, not yet
      removed entry in between (known finding D3).  `sweptLive (c)`: the sweeper removes a cell that is NOT expired.
      A user loses: "a sweep never changes what a read returns" (`read_stable`) — but only for a key that WAS expired
      (no read returned it) and was brought back by a `put_or_update` racing with its removal.
      What remains (`SweeperRemoves`, `JustifiedH`, `sweptLive_needs_rewrite`): it is the sweeper's `store.remove` of
      the id under which the key is stored; the history holds the visit at which the index deadline of that id had
      passed, AND the sweeper's check (`kw.remove`) at which the key's cell — stored under that id — WAS EXPIRED,
      AND, after the check, a `rewritten` step of that key.  Without a `rewritten` step of `k` no sweep changes a
      lookup of `k` (`sweep_keeps_look_without_rewrite`: Layer A's `read_stable` for sweeps, restored).
      Witness: `sweptLive_real`.  The two runs that witnessed it BEFORE the fix (the upsert after the sweeper's VISIT
      but before its check; the index left stale by two overlapping upserts, defect D12) now keep the key:
      `second_race_fixed`, `stale_index_key_survives`.
   2. `cleared` is the ONE action `shutdown.store_clear` (the seventh of twelve), with the flag already up — not "the end
      of `shutdown()`".  Between `shutdown.cas` and it cells exist while `read` reports absent; after it the call has not
      returned; after the call HAS returned cells may appear again (`installed` by a worker that stood at `store.put`).
      A user loses nothing a NEW read could observe (`cleared_keeps_read`; the flag is up for good) — but "after
      `shutdown()` the cache holds nothing" is false.  Witnesses: `cleared_mid_call`, `cell_after_shutdown_returned`.
   3. `installed`: the deadline is `now + ttl` for the clock of the worker's `store.put` ACTION, five actions after the
      command left the queue (the clause is unchanged; the instant it speaks about is not the dequeue).
      Witness: `installed_deadline_from_store_put_clock`.
   4. `evicted`: Layer A justifies it by a put that exceeds the free space IN THAT STATE.  Here the worker compares with a
      free space it read EARLIER (`JustifiedH`: a `wu.space` action of the history found `max − used < w`); when the
      victim goes, the put may fit without the eviction.  A user loses: "a key is evicted only when the put being
      applied does not fit".  What remains: … did not fit when the worker last looked; and the put is a put of ANOTHER
      key (`c.k ≠ k`).  Witness: `evicted_although_it_fits`.
   5. `unchanged` / `hidden` / `deleted`: "a `delete(k)` never leaves a readable cell" holds for the call's `delete.mark`
      ACTION (its second), `delete_hidesB` — not for its return: between mark and `cmd.send` the worker may install `k`
      (a put queued earlier), so `delete(k)` RETURNS with `k` readable, and the `Delete(k)` command that removes the cell
      later (cause `deleted`) is queued AFTER the cell was installed.  Witness: `delete_returns_readable`.
   6. Reads: a call looks at the flag in its FIRST action only.  A lookup finds `S.look` (= `S.read` without the flag);
      with `shutdown.cas` between the two actions a `get` returns a value in a state whose `read` is absent — even a value
      that `read` NEVER was: every thread past its flag check carries on, so cells go on changing with the flag up
      (`rewritten`: `rewritten_with_flag_up`; `installed`: `cell_after_shutdown_returned`).
      Witnesses: `readB_ignores_flag`, `get_returns_never_readable_value`.
   7. `S.readMany` ("all keys at the same instant") does not describe multi-key reads: each position at its own
      instant.  Witness: `mget_not_a_snapshot`.
  Nothing is `_partial`.
-/
import CachedProofs.Spec.Refine
import CachedProofs.LayerB.Entries
import CachedProofs.LayerB.Sweep

namespace Cached.Spec
open B

/-! ### 0. reading without the flag -/

/-- what a LOOKUP finds for `k`: the value of the key's cell unless the cell's deadline has passed.  `S.read` is
    `S.look` behind the shutdown flag (`read_eq_look`). -/
def S.look (sp : S) (k : Nat) : Option Nat :=
  match sp.cells k with
  | some c => if c.expired sp.now then none else some c.value
  | none => none

theorem read_eq_look (sp : S) (k : Nat) : sp.read k = if sp.shut then none else sp.look k := by
  unfold S.read S.look; rfl

theorem look_eq_some_iff (sp : S) (k v : Nat) :
    sp.look k = some v ↔ ∃ c, sp.cells k = some c ∧ c.expired sp.now = false ∧ c.value = v := by
  unfold S.look
  cases sp.cells k with
  | none => simp
  | some c => cases hx : c.expired sp.now <;> simp [hx]

/-! ### 1. causes and steps at action granularity -/

/-- Why the cell of a key changed in ONE ATOMIC ACTION.  `Spec.Why` plus ONE cause, `sweptLive`; the comments say
    which action it is now (formally: `JustifiedB`). -/
inductive WhyB where
  /-- nothing happened to this key -/
  | unchanged
  /-- the worker's `store.put` ACTION of a put of `(k, v)` (`ttl = none`: `Put`, `some t`: `PutWithTTL`); the deadline
      counts from the clock of THIS action (deviation 3) -/
  | installed (v : Nat) (ttl : Option Nat)
  /-- the `upsert.update` ACTION of `put_or_update(k, value := v, time_to_live := ttl, remove_time_to_live := rm)` -/
  | rewritten (v : Option Nat) (ttl : Option Nat) (rm : Bool)
  /-- the `delete.mark` ACTION of `delete(k)` (the command is not sent yet) -/
  | hidden
  /-- the worker's `store.remove` ACTION of a `Delete(k)` command whose `delete.mark` ran BEFORE the present cell was
      installed (the command itself may have been queued after: deviation 5) -/
  | deleted
  /-- the sweeper's `store.remove` ACTION, the cell being expired at that moment (no reader could see it any more) -/
  | expiredRemoved
  /-- **NEW (deviation 1).**  The sweeper's `store.remove` ACTION, the cell being NOT expired at that moment: the cell
      WAS expired when the sweeper checked it (`kw.remove`, two sweeper actions earlier) and a `put_or_update` has
      rewritten its deadline since (`JustifiedH`, `sweptLive_needs_rewrite`).
      A user loses: the guarantee that the sweeper removes only what no reader could see. -/
  | sweptLive
  /-- the worker's `store.remove` ACTION of an eviction, inside a put of ANOTHER key that did not fit when the worker
      last read the free space (deviation 4: it may fit by now) -/
  | evicted
  /-- the ONE action `shutdown.store_clear` of `shutdown()`, flag up (deviation 2: not the end of the call) -/
  | cleared
  deriving DecidableEq, Repr

/-- **All the ways the cell of one key may change in one ATOMIC ACTION** (clock `now` before, `now'` after).
    `Spec.KeyStep`, clause for clause, plus `sweptLive` (`keyStepB_iff`). -/
inductive KeyStepB (now now' : Nat) : WhyB → Option Cell → Option Cell → Prop where
  | unchanged (c : Option Cell) : now ≤ now' → KeyStepB now now' .unchanged c c
  /-- absent → present, with exactly the value put and the deadline `now + ttl`, `now` the clock of `store.put` -/
  | installed (v : Nat) (ttl : Option Nat) : now' = now →
      KeyStepB now now' (.installed v ttl) none (some ⟨v, ttl.map (now + ·)⟩)
  /-- present → present: the value replaced or kept, the deadline replaced / removed / kept, as requested -/
  | rewritten (c : Cell) (v ttl : Option Nat) (rm : Bool) : now' = now →
      KeyStepB now now' (.rewritten v ttl rm) (some c) (some ⟨v.getD c.value, newDeadline now c.deadline ttl rm⟩)
  | hidden (c : Cell) : now' = now → KeyStepB now now' .hidden (some c) none
  | deleted (c : Cell) : now' = now → KeyStepB now now' .deleted (some c) none
  /-- only a cell that no reader could see any more -/
  | expiredRemoved (c : Cell) : now' = now → c.expired now = true → KeyStepB now now' .expiredRemoved (some c) none
  /-- a cell a reader COULD see (not expired, possibly without deadline) — see `WhyB.sweptLive` -/
  | sweptLive (c : Cell) : now' = now → c.expired now = false → KeyStepB now now' .sweptLive (some c) none
  | evicted (c : Cell) : now' = now → KeyStepB now now' .evicted (some c) none
  | cleared (c : Option Cell) : now' = now → KeyStepB now now' .cleared c none

/-- the sweeper stands at the `store.remove` of the eviction of id `id`, charged for key `k`, and `k` is stored under
    that very id; the time the sweep compares with is not ahead of the clock; the id's index entry is gone -/
def SweeperRemoves (b : BState) (a : Act) (k : Nat) : Prop :=
  ∃ v now sh rest id wk, a = .sweeper v ∧ b.sw = .store now sh rest id wk ∧ wk.key = k ∧ now ≤ b.g.now ∧
    (∃ en, b.g.store.get? k = some en ∧ en.id = id) ∧ b.g.ttl.get? (sh, id) = none

/-- **The action — thread, position, locals — that justifies a cause for key `k`.**
    * `unchanged`: not `True` — a `delete.mark` of `k` never leaves a cell of `k` as it was (this makes `delete_hidesB`
      a corollary);
    * `installed v ttl`: only the worker at `store.put` of a put of `k` with this value and time-to-live;
    * `rewritten v ttl rm`: only a client at `upsert.update` of a `put_or_update` of `k` with exactly these fields;
    * `hidden`: only a client at `delete.mark` of `k`;   `deleted`: only the worker at `store.remove` of `Delete(k)`;
    * `expiredRemoved`, `sweptLive`: only the sweeper at `store.remove` (`SweeperRemoves`);
    * `evicted`: only the worker at `store.remove` of an eviction charged for `k`, inside a put of ANOTHER key;
    * `cleared`: only a client at `shutdown.store_clear`, the flag being up. -/
def JustifiedB (b : BState) (a : Act) (k : Nat) : WhyB → Prop
  | .unchanged => ∀ i, a = .client i → b.cl[i]? = some (.delMark k) → (abs b.g).cells k = none
  | .installed v ttl => a = .worker ∧ ∃ c, b.w = .storePut c ∧ c.k = k ∧ c.v = v ∧ c.ttl = ttl
  | .rewritten v ttl rm => ∃ i w, a = .client i ∧ b.cl[i]? = some (.upUpdate k v w ttl rm)
  | .hidden => ∃ i, a = .client i ∧ b.cl[i]? = some (.delMark k)
  | .deleted => a = .worker ∧ ∃ h, b.w = .delStore k h
  | .expiredRemoved => SweeperRemoves b a k
  | .sweptLive => SweeperRemoves b a k
  | .evicted => a = .worker ∧ ∃ c e s id wk, b.w = .evStore c e s id wk ∧ wk.key = k ∧ c.k ≠ k
  | .cleared => ∃ i, a = .client i ∧ b.cl[i]? = some .shutStoreClear ∧ b.g.shutting = true

/-! ### 2. frame facts -/

theorem stepB_now_eq {b b' : BState} {a : Act} {o o' : Oracle} (h : stepB b a o = .ok (b', o'))
    (ha : ∀ d, a ≠ .advance d) : b'.g.now = b.g.now := by
  cases a with
  | issue i r =>
    simp only [stepB] at h
    split at h
    · rename_i b1 hi
      simp only [Except.ok.injEq, Prod.mk.injEq] at h; obtain ⟨rfl, rfl⟩ := h
      unfold issue at hi
      split at hi
      · simp only [Except.ok.injEq] at hi; subst hi; rfl
      · cases hi
    · cases h
  | client i => exact (swB_ctrans_ttl (clientAct_trans h)).2.2.1
  | worker => exact (swB_wtrans_ttl (workerAct_trans h)).2.2.1
  | sweeper v => exact swB_strans_now (sweeperAct_trans (swB_sweeper_step h))
  | consumer =>
    simp only [stepB] at h
    split at h
    · rename_i g' out o1 hc
      simp only [Except.ok.injEq, Prod.mk.injEq] at h; obtain ⟨rfl, rfl⟩ := h
      show g'.now = b.g.now
      rw [consumerStep_frame hc]
    · cases h
  | advance d => exact absurd rfl (ha d)

theorem putExpiry_eq {now : Nat} {ttl : Option Nat} {exp : Option Nat} (h : putExpiry now ttl = some exp) :
    exp = ttl.map (now + ·) := by
  cases ttl with
  | none => simp [putExpiry] at h; subst h; rfl
  | some t =>
    simp only [putExpiry, Option.map_eq_some_iff] at h
    obtain ⟨x, hx, rfl⟩ := h
    rw [addTime_eq_some hx]; rfl

theorem upExpiry_eq {now : Nat} {ttl : Option Nat} {rm : Bool} {old exp : Option Nat}
    (h : upExpiry now ttl rm old = some exp) : exp = newDeadline now old ttl rm := by
  unfold upExpiry at h
  unfold newDeadline
  cases rm with
  | true => simp at h; subst h; rfl
  | false =>
    simp only [Bool.false_eq_true, if_false] at h ⊢
    cases ttl with
    | none => simp at h; subst h; rfl
    | some t =>
      simp only at h ⊢
      split at h
      · rename_i x hx
        simp at h; subst h
        rw [addTime_eq_some hx]
      · cases h

/-- a key whose cell did not change: `unchanged` is justified (a `delete.mark` never leaves a cell as it was) -/
theorem justified_unchangedB {b b' : BState} {a : Act} {o o' : Oracle} (h : stepB b a o = .ok (b', o')) (k : Nat)
    (hc : cellOf (b'.g.store.get? k) = cellOf (b.g.store.get? k)) : JustifiedB b a k .unchanged := by
  intro i ha hpc
  subst ha
  show cellOf (b.g.store.get? k) = none
  obtain ⟨_, _, ⟨hk, _⟩ | ⟨e, hk, rfl⟩⟩ := ent_clientAct_delMark hpc h
  · rw [hk]; rfl
  · rw [← hc]
    simp [setClient, cellOf]

/-! ### 3. THE refinement theorem at action granularity -/

/-- **Every atomic action of every thread moves every key's cell by one `KeyStepB`, for a cause the action justifies.**
    Hypotheses (all hold at every reachable state, `refinesB`): `WAbsent` (C07: no entry for the key of the put being
    applied), `BInv` (a `shutdown()` past its compare-and-swap has set the flag), `SweepInv` and the sweep clock. -/
theorem refinesB_inv {b b' : BState} {a : Act} {o o' : Oracle} (hwa : WAbsent b) (hb : BInv b) (hsi : SweepInv b)
    (hck : ∀ t, b.sw.now? = some t → t ≤ b.g.now) (h : stepB b a o = .ok (b', o')) (k : Nat) :
    ∃ why, KeyStepB (abs b.g).now (abs b'.g).now why ((abs b.g).cells k) ((abs b'.g).cells k) ∧
      JustifiedB b a k why := by
  have hle : b.g.now ≤ b'.g.now := C10_layerB_clock_monotone h
  show ∃ why, KeyStepB b.g.now b'.g.now why (cellOf (b.g.store.get? k)) (cellOf (b'.g.store.get? k)) ∧
    JustifiedB b a k why
  have same : b'.g.store.get? k = b.g.store.get? k →
      ∃ why, KeyStepB b.g.now b'.g.now why (cellOf (b.g.store.get? k)) (cellOf (b'.g.store.get? k)) ∧
        JustifiedB b a k why :=
    fun e => ⟨.unchanged, by rw [e]; exact .unchanged _ hle, justified_unchangedB h k (by rw [e])⟩
  -- a cell that ends as `none`: unchanged if it was `none`, otherwise the given cause
  have toNone : b'.g.store.get? k = none →
      (∀ c, cellOf (b.g.store.get? k) = some c → ∃ why, KeyStepB b.g.now b'.g.now why (some c) none ∧
        JustifiedB b a k why) →
      ∃ why, KeyStepB b.g.now b'.g.now why (cellOf (b.g.store.get? k)) (cellOf (b'.g.store.get? k)) ∧
        JustifiedB b a k why := by
    intro h1 hc
    cases hcell : cellOf (b.g.store.get? k) with
    | none =>
      refine ⟨.unchanged, ?_, justified_unchangedB h k (by rw [h1, hcell]; rfl)⟩
      rw [h1]; exact .unchanged _ hle
    | some c =>
      rw [h1]
      exact hc c hcell
  have heff := stepB_storeEff h
  cases heff
  case same hs => exact same (by rw [hs])
  case put c exp hwp hx hwr hs =>
    have hn : b'.g.now = b.g.now := stepB_now_eq h (by intro d hd; cases hd)
    by_cases hk : c.k = k
    · subst hk
      have habs : b.g.store.get? c.k = none := hwa c (by rw [hwp]; rfl)
      rw [hs, AMap.get?_set_same, habs, putExpiry_eq hx]
      exact ⟨.installed c.v c.ttl, .installed c.v c.ttl hn, rfl, c, hwp, rfl, rfl, rfl⟩
    · exact same (by rw [hs, AMap.get?_set_other _ _ hk])
  case del k' hh e hwd he hs =>
    have hn : b'.g.now = b.g.now := stepB_now_eq h (by intro d hd; cases hd)
    by_cases hk : k' = k
    · subst hk
      exact toNone (by rw [hs]; exact AMap.get?_del_same _ _) (fun c _ => ⟨.deleted, .deleted c hn, rfl, hh, hwd⟩)
    · exact same (by rw [hs, AMap.get?_del_other _ hk])
  case evict c inc s id wk hwe hs =>
    have hn : b'.g.now = b.g.now := stepB_now_eq h (by intro d hd; cases hd)
    by_cases hk : wk.key = k
    · subst hk
      refine toNone (by rw [hs]; exact AMap.get?_del_same _ _) (fun x hx => ?_)
      have hne : c.k ≠ wk.key := by
        intro heq
        have habs : b.g.store.get? c.k = none := hwa c (by rw [hwe]; rfl)
        rw [← heq, habs] at hx
        cases hx
      exact ⟨.evicted, .evicted x hn, rfl, c, inc, s, id, wk, hwe, rfl, hne⟩
    · exact same (by rw [hs, AMap.get?_del_other _ hk])
  case sweep v now sh rest id wk hsw hm hs =>
    have hn : b'.g.now = b.g.now := stepB_now_eq h (by intro d hd; cases hd)
    by_cases hk : wk.key = k
    · subst hk
      refine toNone (by rw [hs]; exact AMap.get?_del_same _ _) (fun x _ => ?_)
      have hj : SweeperRemoves b (.sweeper v) wk.key :=
        ⟨v, now, sh, rest, id, wk, rfl, hsw, rfl, hck now (by rw [hsw]; rfl), hm,
          hsi.gone now sh rest id (by rw [hsw]; rfl) (by rw [hsw]; rfl)⟩
      cases hx : x.expired b.g.now with
      | true => exact ⟨.expiredRemoved, .expiredRemoved x hn hx, hj⟩
      | false => exact ⟨.sweptLive, .sweptLive x hn hx, hj⟩
    · exact same (by rw [hs, AMap.get?_del_other _ hk])
  case mark i k' e hpc he hs =>
    have hn : b'.g.now = b.g.now := stepB_now_eq h (by intro d hd; cases hd)
    by_cases hk : k' = k
    · subst hk
      rw [hs, AMap.get?_set_same, he]
      cases hsoft : e.soft with
      | true =>
        refine ⟨.unchanged, ?_, fun _ _ _ => by simp [abs, he, cellOf, hsoft]⟩
        simp only [cellOf, hsoft, if_true]
        exact .unchanged _ hle
      | false =>
        simp only [cellOf, hsoft, Bool.false_eq_true, if_false, if_true]
        exact ⟨.hidden, .hidden _ hn, i, rfl, hpc⟩
    · exact same (by rw [hs, AMap.get?_set_other _ _ hk])
  case upsert i k' v w ttl rm e exp hpc he hx hs =>
    have hn : b'.g.now = b.g.now := stepB_now_eq h (by intro d hd; cases hd)
    by_cases hk : k' = k
    · subst hk
      have hju : JustifiedB b (.client i) k' .unchanged := by
        intro j hj hpc'
        cases hj
        rw [hpc] at hpc'; cases hpc'
      rw [hs, AMap.get?_set_same, he, upExpiry_eq hx]
      cases hsoft : e.soft with
      | true =>
        refine ⟨.unchanged, ?_, hju⟩
        simp only [cellOf, hsoft, if_true]
        exact .unchanged _ hle
      | false =>
        simp only [cellOf, hsoft, Bool.false_eq_true, if_false]
        exact ⟨.rewritten v ttl rm, .rewritten ⟨e.value, e.expiry⟩ v ttl rm hn, i, w, rfl, hpc⟩
    · exact same (by rw [hs, AMap.get?_set_other _ _ hk])
  case clear i hpc hs =>
    have hn : b'.g.now = b.g.now := stepB_now_eq h (by intro d hd; cases hd)
    rw [hs]
    exact ⟨.cleared, .cleared _ hn, i, rfl, hpc, hb.shutFlag i _ hpc rfl⟩

/-- **Spec.refinesB**: at every state any interleaving can reach, every atomic action of every thread moves every
    key's cell by one `KeyStepB` whose cause the action justifies. -/
theorem refinesB {cfg : Cfg} {now : Nat} {seeds : List Nat} {clients : Nat} {b b' : BState} {a : Act} {o o' : Oracle}
    (hr : B.Reach cfg now seeds clients b) (h : stepB b a o = .ok (b', o')) (k : Nat) :
    ∃ why, KeyStepB (abs b.g).now (abs b'.g).now why ((abs b.g).cells k) ((abs b'.g).cells k) ∧
      JustifiedB b a k why :=
  refinesB_inv (wabsent_reach hr) (binv_reach hr) (C10_layerB_sweepInv hr) (C10_layerB_sweep_clock hr) h k

/-! ### 4. the clock and the shutdown flag -/

/-- a client action leaves the flag alone, or it is the compare-and-swap of `shutdown()` raising it -/
theorem ctrans_flag {b b' : BState} {i : Nat} (h : CTrans b i b') :
    b'.g.shutting = b.g.shutting ∨ (b.cl[i]? = some .shutCas ∧ b.g.shutting = false ∧ b'.g.shutting = true) := by
  cases h
  case shutCas hpc hsh => exact Or.inr ⟨hpc, hsh, rfl⟩
  case getPool hp => left; rw [poolAdd_frame hp]; rfl
  case refPool hp => left; rw [poolAdd_frame hp]; rfl
  case shutLocal hg => left; rw [hg]; rfl
  case mgetStep hg => left; rw [hg]; rfl
  case mgetFin hg => left; rw [hg]; rfl
  case upAfterSame =>
    left; rcases upAfterIndex_spec b i _ _ with ⟨_, h⟩ | ⟨_, _, h⟩ | h <;> rw [h] <;> simp [finishCall, setClient, spotFinish]
  case upAfterPut id e uw _ _ _ =>
    left
    rcases upAfterIndex_spec { b with g := ttlPut b.g id e } i id uw with ⟨_, h⟩ | ⟨_, _, h⟩ | h <;> rw [h] <;>
      simp [finishCall, setClient, spotFinish, ttlPut]
  case upAfterDelete id e uw _ _ =>
    left
    rcases upAfterIndex_spec { b with g := ttlDelete b.g id e } i id uw with ⟨_, h⟩ | ⟨_, _, h⟩ | h <;> rw [h] <;>
      simp [finishCall, setClient, spotFinish, ttlDelete]
  all_goals left; simp [finishCall, setClient, spotFinish, ttlDelete]

/-- the flag changes in ONE action only: the compare-and-swap of a `shutdown()` that finds it lowered -/
theorem stepB_flag {b b' : BState} {a : Act} {o o' : Oracle} (h : stepB b a o = .ok (b', o')) :
    b'.g.shutting = b.g.shutting ∨
    (∃ i, a = .client i ∧ b.cl[i]? = some .shutCas ∧ b.g.shutting = false ∧ b'.g.shutting = true) := by
  cases a with
  | issue i r =>
    simp only [stepB] at h
    split at h
    · rename_i b1 hi
      simp only [Except.ok.injEq, Prod.mk.injEq] at h; obtain ⟨rfl, rfl⟩ := h
      unfold issue at hi
      split at hi
      · simp only [Except.ok.injEq] at hi; subst hi; exact Or.inl rfl
      · cases hi
    · cases h
  | client i =>
    rcases ctrans_flag (clientAct_trans h) with h1 | h1
    · exact Or.inl h1
    · exact Or.inr ⟨i, rfl, h1⟩
  | worker => exact Or.inl (wtrans_shutting (workerAct_trans h))
  | sweeper v => exact Or.inl (strans_frame2 (sweeperAct_trans (swB_sweeper_step h))).1
  | consumer =>
    simp only [stepB] at h
    split at h
    · rename_i g' out o1 hc
      simp only [Except.ok.injEq, Prod.mk.injEq] at h; obtain ⟨rfl, rfl⟩ := h
      left
      show g'.shutting = b.g.shutting
      rw [consumerStep_frame hc]
    · cases h
  | advance d =>
    simp only [stepB, Except.ok.injEq, Prod.mk.injEq] at h; obtain ⟨rfl, rfl⟩ := h
    exact Or.inl rfl

/-- the compare-and-swap of `shutdown()` leaves the flag raised, whatever it finds -/
theorem shutCas_raises {b b' : BState} {i : Nat} {o o' : Oracle} (h : stepB b (.client i) o = .ok (b', o'))
    (hpc : b.cl[i]? = some .shutCas) : b'.g.shutting = true := by
  rcases stepB_flag h with h1 | ⟨_, _, _, _, h1⟩
  · have h' : clientAct b i o = .ok (b', o') := h
    unfold clientAct at h'
    simp only [hpc] at h'
    split at h'
    · rename_i hsh
      rw [h1]; exact hsh
    · simp only [Except.ok.injEq, Prod.mk.injEq] at h'; obtain ⟨rfl, rfl⟩ := h'
      rfl
  · exact h1

/-- **The clock and the shutdown flag** (every state, no invariant needed): the clock never runs backwards and moves
    only by `advance`; the flag is never lowered, is raised by the compare-and-swap action of `shutdown()`
    (`shutdown.cas`) and by no other action of any thread — NOT at the end of `shutdown()`: ten more actions follow. -/
theorem refinesB_global {b b' : BState} {a : Act} {o o' : Oracle} (h : stepB b a o = .ok (b', o')) :
    (abs b.g).now ≤ (abs b'.g).now ∧ ((∀ d, a ≠ .advance d) → (abs b'.g).now = (abs b.g).now) ∧
    (∀ d, a = .advance d → (abs b'.g).now = (abs b.g).now + d) ∧
    ((abs b.g).shut = true → (abs b'.g).shut = true) ∧
    ((∀ i, a = .client i → b.cl[i]? ≠ some .shutCas) → (abs b'.g).shut = (abs b.g).shut) ∧
    (∀ i, a = .client i → b.cl[i]? = some .shutCas → (abs b'.g).shut = true) := by
  refine ⟨C10_layerB_clock_monotone h, stepB_now_eq h, ?_, stepB_shutting_mono h, fun hne => ?_, fun i ha hpc => ?_⟩
  · intro d ha; subst ha
    simp only [stepB, Except.ok.injEq, Prod.mk.injEq] at h; obtain ⟨rfl, rfl⟩ := h
    rfl
  · rcases stepB_flag h with h1 | ⟨i, ha, hpc, _⟩
    · exact h1
    · exact absurd hpc (hne i ha)
  · subst ha; exact shutCas_raises h hpc

/-! ### 5. reads -/

theorem abs_eq_of {g g' : State} (h1 : g'.store = g.store) (h2 : g'.now = g.now) (h3 : g'.shutting = g.shutting) :
    abs g' = abs g := by
  simp only [abs, h1, h2, h3]

/-- what a lookup finds, in terms of the model: the value of the key's entry if it is alive -/
theorem look_abs (g : State) (k : Nat) :
    (abs g).look k = match g.store.get? k with
      | some e => if e.alive g.now then some e.value else none
      | none => none := by
  simp only [S.look, abs]
  cases g.store.get? k with
  | none => rfl
  | some e =>
    cases hs : e.soft <;> cases hx : e.expiry <;> simp [cellOf, Entry.alive, Cell.expired, hs, hx]
    rename_i x
    by_cases h : x < g.now
    · have : ¬ g.now ≤ x := by omega
      simp [h, this]
    · have : g.now ≤ x := by omega
      simp [h, this]

theorem look_abs_hit {g : State} {k : Nat} {e : Entry} (h : g.store.get? k = some e) (ha : e.alive g.now = true) :
    (abs g).look k = some e.value := by
  rw [look_abs, h]; simp [ha]

theorem look_abs_miss {g : State} {k : Nat} (h : ∀ e, g.store.get? k = some e → e.alive g.now = false) :
    (abs g).look k = none := by
  rw [look_abs]
  cases hk : g.store.get? k with
  | none => rfl
  | some e => simp [h e hk]

/-- the positions at which a client action may change a cell or the flag -/
def pcWrites : CPc → Bool
  | .upUpdate _ _ _ _ _ | .delMark _ | .shutStoreClear | .shutCas => true
  | _ => false

/-- a client action at any other position changes nothing of the abstract state -/
theorem abs_client_quiet {b b' : BState} {i : Nat} {o o' : Oracle} {pc : CPc}
    (h : stepB b (.client i) o = .ok (b', o')) (hpc : b.cl[i]? = some pc) (hq : pcWrites pc = false) :
    abs b'.g = abs b.g := by
  refine abs_eq_of ?_ (stepB_now_eq h (by intro d hd; cases hd)) ?_
  · have heff := stepB_storeEff h
    cases heff
    case same hs => exact hs
    case mark k e _ hpc' _ => rw [hpc] at hpc'; cases hpc'; cases hq
    case upsert k v w ttl rm e exp _ _ hpc' _ => rw [hpc] at hpc'; cases hpc'; cases hq
    case clear hpc' _ => rw [hpc] at hpc'; cases hpc'; cases hq
  · rcases stepB_flag h with h1 | ⟨j, hj, hpc', _⟩
    · exact h1
    · cases hj; rw [hpc] at hpc'; cases hpc'; cases hq

/-- **Reads at action granularity.**  Every LOOKUP action — `store.get` of `get(k)`, of `get_ref(k)`, of one key `k`
    of a multi-key read — finds `S.look (abs b.g) k` for the state `b` in which THAT action runs (for a multi-key read:
    each key at its own instant, not a snapshot), and no read action changes the abstract state; the `pool.add` action
    that follows a hit delivers exactly the value found.
    `S.look`, not `S.read`: the flag is looked at by actions BEFORE the lookup only (`reads_flag_check`); if it is
    still lowered when the lookup runs the two agree (`reads_agreeB_running`), if it has been raised in between the
    lookup still finds the value (`readB_ignores_flag`, a reachable run). -/
theorem reads_agreeB {b b' : BState} {i : Nat} {o o' : Oracle} (h : stepB b (.client i) o = .ok (b', o')) :
    (∀ k, b.cl[i]? = some (.getStore k) → abs b'.g = abs b.g ∧ o' = o ∧
      match (abs b.g).look k with
      | some v => b'.cl = b.cl.set i (.getPool k v) ∧ b'.res = b.res
      | none => b'.cl = b.cl.set i .idle ∧ b'.res = b.res.set i (.value none :: b.res.getD i [])) ∧
    (∀ k, b.cl[i]? = some (.refStore k) → abs b'.g = abs b.g ∧ o' = o ∧
      match (abs b.g).look k with
      | some v => b'.cl = b.cl.set i (.refPool k v) ∧ b'.res = b.res
      | none => b'.cl = b.cl.set i .idle ∧ b'.res = b.res.set i (.value none :: b.res.getD i [])) ∧
    (∀ k ks acc iter, b.cl[i]? = some (.mgetStore k ks acc iter) → abs b'.g = abs b.g ∧ o' = o ∧
      match (abs b.g).look k with
      | some v => b'.cl = b.cl.set i (.mgetPool k v ks acc iter) ∧ b'.res = b.res
      | none => b' = mgetNext { b with g := { b.g with stats := { b.g.stats with misses := b.g.stats.misses + 1 } } }
                  i ks (acc ++ [none]) iter) ∧
    (∀ k v, b.cl[i]? = some (.getPool k v) → abs b'.g = abs b.g ∧
      b'.cl = b.cl.set i .idle ∧ b'.res = b.res.set i (.value (some v) :: b.res.getD i [])) ∧
    (∀ k v, b.cl[i]? = some (.refPool k v) → abs b'.g = abs b.g ∧
      b'.cl = b.cl.set i .idle ∧ b'.res = b.res.set i (.value (some v) :: b.res.getD i [])) ∧
    (∀ k v ks acc iter, b.cl[i]? = some (.mgetPool k v ks acc iter) → abs b'.g = abs b.g ∧
      ∃ g1, b' = mgetNext { b with g := g1 } i ks (acc ++ [some v]) iter) := by
  have h' : clientAct b i o = .ok (b', o') := h
  refine ⟨fun k hpc => ?_, fun k hpc => ?_, fun k ks acc iter hpc => ?_, fun k v hpc => ?_, fun k v hpc => ?_,
    fun k v ks acc iter hpc => ?_⟩
  · refine ⟨abs_client_quiet h hpc rfl, (C02_layerB_get_store hpc h').2.2, ?_⟩
    rcases (C02_layerB_get_store hpc h').1 with ⟨e, he, ha, h1, h2⟩ | ⟨hm, h1, h2⟩
    · rw [look_abs_hit he ha]; exact ⟨h1, h2⟩
    · rw [look_abs_miss hm]; exact ⟨h1, h2⟩
  · refine ⟨abs_client_quiet h hpc rfl, (C02_layerB_ref_store hpc h').2.2, ?_⟩
    rcases (C02_layerB_ref_store hpc h').1 with ⟨e, he, ha, h1, h2, _⟩ | ⟨hm, h1, h2, _⟩
    · rw [look_abs_hit he ha]; exact ⟨h1, h2⟩
    · rw [look_abs_miss hm]; exact ⟨h1, h2⟩
  · refine ⟨abs_client_quiet h hpc rfl, (C02_layerB_mget_store hpc h').2.2, ?_⟩
    rcases (C02_layerB_mget_store hpc h').1 with ⟨e, he, ha, h1, h2⟩ | ⟨hm, h1⟩
    · rw [look_abs_hit he ha]; exact ⟨h1, h2⟩
    · rw [look_abs_miss hm]; exact h1
  · exact ⟨abs_client_quiet h hpc rfl, C02_layerB_get_pool hpc h'⟩
  · refine ⟨abs_client_quiet h hpc rfl, ?_⟩
    unfold clientAct at h'
    simp only [hpc] at h'
    split at h'
    · simp only [Except.ok.injEq, Prod.mk.injEq] at h'; obtain ⟨rfl, rfl⟩ := h'
      exact ⟨rfl, rfl⟩
    · cases h'
  · refine ⟨abs_client_quiet h hpc rfl, ?_⟩
    obtain ⟨g1, _, hb'⟩ := C02_layerB_mget_pool hpc h'
    exact ⟨g1, hb'⟩

theorem look_eq_read {sp : S} (hs : sp.shut = false) (k : Nat) : sp.look k = sp.read k := by
  rw [read_eq_look, hs]; rfl

/-- … with the flag still lowered at the lookup, the lookup finds `S.read` -/
theorem reads_agreeB_running {b : BState} (hs : b.g.shutting = false) (k : Nat) :
    (abs b.g).look k = (abs b.g).read k := look_eq_read hs k

/-- the FIRST action of `get` / `get_ref` looks at the flag: raised, the call returns at once what `S.read` says
    (absent), and nothing changes.  A multi-key read loads the flag in actions of its own: its first action looks at
    nothing, and the load that follows — the one of `next()` / at the entry of `multi_get` —, finding the flag raised
    with nothing gathered yet, returns what `S.readMany` says (the empty list).
    STATEMENT CHANGED with the model (every flag load of a multi-key read its own action): the third clause used to say
    that the first action of a multi-key read returns `readMany ks`; it is now the two clauses about `.start (.mget …)`
    and `.mgetFlag true ks [] iter`.  (Later loads of the same read: `C13_layerB_mget_flag_outer`,
    `C13_layerB_mget_flag_inner`, `C13_layerB_mget_around_shutdown` — a `get` of the read that finds the flag raised
    answers absent for its key, which is what `S.read` says at that instant.) -/
theorem reads_flag_check {b b' : BState} {i : Nat} {o o' : Oracle} (h : stepB b (.client i) o = .ok (b', o'))
    (hs : b.g.shutting = true) :
    (∀ k, b.cl[i]? = some (.start (.get k)) → b' = finishCall b i (.value ((abs b.g).read k))) ∧
    (∀ k, b.cl[i]? = some (.start (.getRef k)) → b' = finishCall b i (.value ((abs b.g).read k))) ∧
    (∀ ks iter, b.cl[i]? = some (.start (.mget ks iter)) → b'.g = b.g ∧
      (b' = finishCall b i (.values ((abs b.g).readMany ks)) ∨ b' = setClient b i (.mgetFlag true ks [] iter))) ∧
    (∀ ks iter, b.cl[i]? = some (.mgetFlag true ks [] iter) →
      b' = finishCall b i (.values ((abs b.g).readMany ks))) ∧
    (∀ k ks acc iter, b.cl[i]? = some (.mgetFlag false (k :: ks) acc iter) →
      b' = mgetNext b i ks (acc ++ [(abs b.g).read k]) iter) := by
  have h' : clientAct b i o = .ok (b', o') := h
  have hr : ∀ k, (abs b.g).read k = none := fun k => read_shut _ _ hs
  have hm : ∀ ks, (abs b.g).readMany ks = [] := fun ks => by simp [S.readMany, abs, hs]
  refine ⟨fun k hpc => ?_, fun k hpc => ?_, fun ks iter hpc => ?_, fun ks iter hpc => ?_, fun k ks acc iter hpc => ?_⟩
  · unfold clientAct at h'
    simp only [hpc, hs, if_true, Except.ok.injEq, Prod.mk.injEq] at h'
    rw [hr]; exact h'.1.symm
  · unfold clientAct at h'
    simp only [hpc, hs, if_true, Except.ok.injEq, Prod.mk.injEq] at h'
    rw [hr]; exact h'.1.symm
  · obtain ⟨rfl, _⟩ := clientAct_mgetStart hpc h'
    refine ⟨mgetStart_g _ _ _ _, ?_⟩
    rw [hm]
    rcases mgetStart_spec b i ks iter with ⟨_, _, e⟩ | ⟨_, e⟩
    · exact Or.inl e
    · exact Or.inr e
  · have := C13_layerB_mget_flag_outer o hs hpc
    rw [this] at h'
    simp only [Except.ok.injEq, Prod.mk.injEq] at h'
    rw [hm]; exact h'.1.symm
  · have := (C13_layerB_mget_flag_inner o hs hpc).1
    rw [this] at h'
    simp only [Except.ok.injEq, Prod.mk.injEq] at h'
    rw [hr]; exact h'.1.symm

/-! ### 6. `KeyStepB` is `KeyStep` plus one clause; inversion -/

def Why.toB : Why → WhyB
  | .unchanged => .unchanged
  | .installed v ttl => .installed v ttl
  | .rewritten v ttl rm => .rewritten v ttl rm
  | .hidden => .hidden
  | .deleted => .deleted
  | .expiredRemoved => .expiredRemoved
  | .evicted => .evicted
  | .cleared => .cleared

/-- **`KeyStepB` = `KeyStep` + the clause `sweptLive`**, nothing else is changed. -/
theorem keyStepB_iff {now now' : Nat} {why : WhyB} {c c' : Option Cell} :
    KeyStepB now now' why c c' ↔
      (∃ w0 : Why, why = w0.toB ∧ KeyStep now now' w0 c c') ∨
      (why = .sweptLive ∧ ∃ x, c = some x ∧ c' = none ∧ x.expired now = false ∧ now' = now) := by
  constructor
  · intro h
    cases h with
    | unchanged c hle => exact Or.inl ⟨.unchanged, rfl, .unchanged c hle⟩
    | installed v ttl hn => exact Or.inl ⟨.installed v ttl, rfl, .installed v ttl hn⟩
    | rewritten x v ttl rm hn => exact Or.inl ⟨.rewritten v ttl rm, rfl, .rewritten x v ttl rm hn⟩
    | hidden x hn => exact Or.inl ⟨.hidden, rfl, .hidden x hn⟩
    | deleted x hn => exact Or.inl ⟨.deleted, rfl, .deleted x hn⟩
    | expiredRemoved x hn hx => exact Or.inl ⟨.expiredRemoved, rfl, .expiredRemoved x hn hx⟩
    | sweptLive x hn hx => exact Or.inr ⟨rfl, x, rfl, rfl, hx, hn⟩
    | evicted x hn => exact Or.inl ⟨.evicted, rfl, .evicted x hn⟩
    | cleared c hn => exact Or.inl ⟨.cleared, rfl, .cleared c hn⟩
  · rintro (⟨w0, rfl, h⟩ | ⟨rfl, x, rfl, rfl, hx, hn⟩)
    · cases h with
      | unchanged c hle => exact .unchanged c hle
      | installed v ttl hn => exact .installed v ttl hn
      | rewritten x v ttl rm hn => exact .rewritten x v ttl rm hn
      | hidden x hn => exact .hidden x hn
      | deleted x hn => exact .deleted x hn
      | expiredRemoved x hn hx => exact .expiredRemoved x hn hx
      | evicted x hn => exact .evicted x hn
      | cleared c hn => exact .cleared c hn
    · exact .sweptLive x hn hx

theorem KeyStepB.unchanged_eq {now now' : Nat} {c c' : Option Cell} (h : KeyStepB now now' .unchanged c c') :
    c' = c := by
  cases h; rfl

/-- a cell that exists after an action: it was there unchanged, was installed, or was rewritten -/
theorem KeyStepB.to_some {now now' : Nat} {why : WhyB} {c : Option Cell} {x : Cell}
    (h : KeyStepB now now' why c (some x)) :
    (why = .unchanged ∧ c = some x ∧ now ≤ now') ∨
    (∃ v ttl, why = .installed v ttl ∧ c = none ∧ x = ⟨v, ttl.map (now + ·)⟩ ∧ now' = now) ∨
    (∃ c0 v ttl rm, why = .rewritten v ttl rm ∧ c = some c0 ∧
      x = ⟨v.getD c0.value, newDeadline now c0.deadline ttl rm⟩ ∧ now' = now) := by
  cases h with
  | unchanged _ hle => exact Or.inl ⟨rfl, rfl, hle⟩
  | installed v ttl hn => exact Or.inr (Or.inl ⟨v, ttl, rfl, rfl, rfl, hn⟩)
  | rewritten c0 v ttl rm hn => exact Or.inr (Or.inr ⟨c0, v, ttl, rm, rfl, rfl, rfl, hn⟩)

/-- a cell that is lost in an action: the clock stood still and the cause is one of the SIX removals -/
theorem KeyStepB.to_none {now now' : Nat} {why : WhyB} {x : Cell} (h : KeyStepB now now' why (some x) none) :
    now' = now ∧ (why = .hidden ∨ why = .deleted ∨ (why = .expiredRemoved ∧ x.expired now = true) ∨
      (why = .sweptLive ∧ x.expired now = false) ∨ why = .evicted ∨ why = .cleared) := by
  cases h with
  | hidden _ hn => exact ⟨hn, Or.inl rfl⟩
  | deleted _ hn => exact ⟨hn, Or.inr (Or.inl rfl)⟩
  | expiredRemoved _ hn hx => exact ⟨hn, Or.inr (Or.inr (Or.inl ⟨rfl, hx⟩))⟩
  | sweptLive _ hn hx => exact ⟨hn, Or.inr (Or.inr (Or.inr (Or.inl ⟨rfl, hx⟩)))⟩
  | evicted _ hn => exact ⟨hn, Or.inr (Or.inr (Or.inr (Or.inr (Or.inl rfl))))⟩
  | cleared _ hn => exact ⟨hn, Or.inr (Or.inr (Or.inr (Or.inr (Or.inr rfl))))⟩

theorem KeyStepB.expiredRemoved_inv {now now' : Nat} {c c' : Option Cell}
    (h : KeyStepB now now' .expiredRemoved c c') :
    ∃ x, c = some x ∧ c' = none ∧ x.expired now = true ∧ now' = now := by
  cases h with
  | expiredRemoved x hn hx => exact ⟨x, rfl, rfl, hx, hn⟩

theorem KeyStepB.sweptLive_inv {now now' : Nat} {c c' : Option Cell}
    (h : KeyStepB now now' .sweptLive c c') :
    ∃ x, c = some x ∧ c' = none ∧ x.expired now = false ∧ now' = now := by
  cases h with
  | sweptLive x hn hx => exact ⟨x, rfl, rfl, hx, hn⟩

theorem KeyStepB.hidden_inv {now now' : Nat} {c c' : Option Cell} (h : KeyStepB now now' .hidden c c') :
    c' = none := by
  cases h; rfl

/-! ### 7. corollaries of `refinesB` / `refinesB_global` / `reads_agreeB` (none goes back into the model) -/

/-- cause `unchanged`, clock as before — a lookup finds the same -/
theorem look_stable {sp sp' : S} {k : Nat} (h : KeyStepB sp.now sp'.now .unchanged (sp.cells k) (sp'.cells k))
    (hn : sp'.now = sp.now) : sp'.look k = sp.look k := by
  simp only [S.look, h.unchanged_eq, hn]

/-- The actions that may change what a lookup / a read of `k` finds:
    clients  — `upsert.update` of `put_or_update(k)`, `delete.mark` of `delete(k)`, `shutdown.cas` (the flag),
               `shutdown.store_clear` (only lookups of calls in flight see this one: the flag is up already);
    worker   — `store.put` of a put of `k`, `store.remove` of `Delete(k)`, `store.remove` of an eviction of `k`;
    sweeper  — `store.remove` of an eviction of `k`  (Layer A: NO sweep changes a read; here `sweptLive` does);
    the clock.
    NOT among them: every other action of every call (all of `put`: it only queues a command; `id.next`, `cmd.send`,
    the index and weight actions of `put_or_update`, every action of a read, the other nine actions of `shutdown()`),
    every other action of the worker (the admission decision, `kw`, `wu`, `ttl`) and of the sweeper, the consumer. -/
def mayChangeReadB (k : Nat) (b : BState) : Act → Bool
  | .advance _ => true
  | .worker =>
    (match b.w with
     | .storePut c => c.k == k
     | .delStore k' _ => k' == k
     | .evStore _ _ _ _ wk => wk.key == k
     | _ => false)
  | .sweeper _ =>
    (match b.sw with
     | .store _ _ _ _ wk => wk.key == k
     | _ => false)
  | .client i =>
    (match b.cl[i]? with
     | some (.upUpdate k' _ _ _ _) => k' == k
     | some (.delMark k') => k' == k
     | some .shutCas => true
     | some .shutStoreClear => true
     | _ => false)
  | _ => false

/-- **read_stable** at action granularity: every other action leaves `look k` and `read k` as they were. -/
theorem read_stable_stepB {cfg : Cfg} {now : Nat} {seeds : List Nat} {clients : Nat} {b b' : BState} {a : Act}
    {o o' : Oracle} (hr : B.Reach cfg now seeds clients b) (h : stepB b a o = .ok (b', o')) (k : Nat)
    (hq : mayChangeReadB k b a = false) :
    (abs b'.g).look k = (abs b.g).look k ∧ (abs b'.g).read k = (abs b.g).read k := by
  obtain ⟨_, hnow, _, _, hshut, _⟩ := refinesB_global h
  have hn : (abs b'.g).now = (abs b.g).now := hnow (by intro d hd; subst hd; simp [mayChangeReadB] at hq)
  have hsh : (abs b'.g).shut = (abs b.g).shut := hshut (by
    intro i hi hpc; subst hi; simp [mayChangeReadB, hpc] at hq)
  have hlook : (abs b'.g).look k = (abs b.g).look k := by
    obtain ⟨why, hks, hj⟩ := refinesB hr h k
    cases why with
    | unchanged => exact look_stable hks hn
    | installed v ttl =>
      obtain ⟨rfl, c, hw, hk, _⟩ := hj
      simp [mayChangeReadB, hw, hk] at hq
    | rewritten v ttl rm =>
      obtain ⟨i, w, rfl, hpc⟩ := hj
      simp [mayChangeReadB, hpc] at hq
    | hidden =>
      obtain ⟨i, rfl, hpc⟩ := hj
      simp [mayChangeReadB, hpc] at hq
    | deleted =>
      obtain ⟨rfl, hh, hw⟩ := hj
      simp [mayChangeReadB, hw] at hq
    | expiredRemoved =>
      obtain ⟨v, n, sh, rest, id, wk, rfl, hs, hk, _⟩ := hj
      simp [mayChangeReadB, hs, hk] at hq
    | sweptLive =>
      obtain ⟨v, n, sh, rest, id, wk, rfl, hs, hk, _⟩ := hj
      simp [mayChangeReadB, hs, hk] at hq
    | evicted =>
      obtain ⟨rfl, c, e, s, id, wk, hw, hk, _⟩ := hj
      simp [mayChangeReadB, hw, hk] at hq
    | cleared =>
      obtain ⟨i, rfl, hpc, _⟩ := hj
      simp [mayChangeReadB, hpc] at hq
  exact ⟨hlook, by rw [read_eq_look, read_eq_look, hsh, hlook]⟩

/-- the sweeper's removal of an EXPIRED cell (`expiredRemoved`) changes no lookup — only `sweptLive` does -/
theorem expiredRemoved_keeps_look {sp sp' : S} {k : Nat}
    (h : KeyStepB sp.now sp'.now .expiredRemoved (sp.cells k) (sp'.cells k)) : sp'.look k = sp.look k := by
  obtain ⟨x, hc, hc', hx, _⟩ := h.expiredRemoved_inv
  simp only [S.look, hc, hc', hx, if_true]

/-- `shutdown.store_clear` changes no READ (`S.read`): the flag is up when it runs -/
theorem cleared_keeps_read {b b' : BState} {a : Act} {o o' : Oracle} {k : Nat} (h : stepB b a o = .ok (b', o'))
    (hj : JustifiedB b a k .cleared) : (abs b'.g).read k = (abs b.g).read k := by
  obtain ⟨i, _, _, hs⟩ := hj
  rw [read_shut (abs b.g) k hs, read_shut (abs b'.g) k ((refinesB_global h).2.2.2.1 hs)]

/-- **no_foreign_value** (C02) at action granularity.  A value a lookup of `k` finds after an action was found before,
    or is the value the `upsert.update` action of a `put_or_update(k)` carries, or the value of the put of `k` whose
    `store.put` action the worker runs — or (LAST disjunct, as in Layer A) the value of an EXPIRED, unswept cell of
    `k` that an `upsert.update` WITHOUT a value brought back by giving it a new deadline. -/
theorem no_foreign_valueB {cfg : Cfg} {now : Nat} {seeds : List Nat} {clients : Nat} {b b' : BState} {a : Act}
    {o o' : Oracle} (hr : B.Reach cfg now seeds clients b) (h : stepB b a o = .ok (b', o')) {k v : Nat}
    (hv : (abs b'.g).look k = some v) :
    (abs b.g).look k = some v ∨
    (∃ i w t rm, a = .client i ∧ b.cl[i]? = some (.upUpdate k (some v) w t rm)) ∨
    (a = .worker ∧ ∃ c, b.w = .storePut c ∧ c.k = k ∧ c.v = v) ∨
    (∃ i w t rm x, a = .client i ∧ b.cl[i]? = some (.upUpdate k none w t rm) ∧ (abs b.g).cells k = some x ∧
      x.value = v ∧ x.expired b.g.now = true) := by
  obtain ⟨x', hc', hx', hval⟩ := (look_eq_some_iff _ _ _).mp hv
  obtain ⟨hle, _⟩ := refinesB_global h
  obtain ⟨why, hks, hj⟩ := refinesB hr h k
  rw [hc'] at hks
  rcases hks.to_some with ⟨rfl, hc, _⟩ | ⟨v0, ttl, rfl, hc, rfl, _⟩ | ⟨c0, v0, ttl, rm, rfl, hc, rfl, _⟩
  · exact Or.inl ((look_eq_some_iff _ _ _).mpr ⟨x', hc, expired_mono hle hx', hval⟩)
  · obtain ⟨ha, c, hw, hk, hcv, _⟩ := hj
    dsimp only at hval
    subst hval
    exact Or.inr (Or.inr (Or.inl ⟨ha, c, hw, hk, hcv⟩))
  · obtain ⟨i, w, rfl, hpc⟩ := hj
    cases v0 with
    | some y =>
      simp only [Option.getD_some] at hval
      subst hval
      exact Or.inr (Or.inl ⟨i, w, ttl, rm, rfl, hpc⟩)
    | none =>
      simp only [Option.getD_none] at hval
      cases hx0 : c0.expired b.g.now with
      | false => exact Or.inl ((look_eq_some_iff _ _ _).mpr ⟨c0, hc, hx0, hval⟩)
      | true => exact Or.inr (Or.inr (Or.inr ⟨i, w, ttl, rm, c0, rfl, hpc, hc, hval, hx0⟩))

/-- … for `S.read`: a value read after an action (so the flag is down, before and after) -/
theorem no_foreign_valueB_read {cfg : Cfg} {now : Nat} {seeds : List Nat} {clients : Nat} {b b' : BState} {a : Act}
    {o o' : Oracle} (hr : B.Reach cfg now seeds clients b) (h : stepB b a o = .ok (b', o')) {k v : Nat}
    (hv : (abs b'.g).read k = some v) :
    (abs b.g).read k = some v ∨
    (∃ i w t rm, a = .client i ∧ b.cl[i]? = some (.upUpdate k (some v) w t rm)) ∨
    (a = .worker ∧ ∃ c, b.w = .storePut c ∧ c.k = k ∧ c.v = v) ∨
    (∃ i w t rm x, a = .client i ∧ b.cl[i]? = some (.upUpdate k none w t rm) ∧ (abs b.g).cells k = some x ∧
      x.value = v ∧ x.expired b.g.now = true) := by
  have hsh' : (abs b'.g).shut = false := ((read_eq_some_iff _ _ _).mp hv).1
  have hsh : (abs b.g).shut = false := by
    cases h0 : (abs b.g).shut with
    | false => rfl
    | true => rw [(refinesB_global h).2.2.2.1 h0] at hsh'; cases hsh'
  rw [← look_eq_read hsh'] at hv
  rw [← look_eq_read hsh]
  exact no_foreign_valueB hr h hv

/-- **delete_hides** (C04) at action granularity: after the `delete.mark` action of `delete(k)` — the call's second
    action; the command is not even sent yet — `k` has NO cell: every lookup and every read of `k` reports absent.
    (What Layer A states, "when `delete(k)` RETURNS a read reports absent", is false here: `delete_returns_readable`.) -/
theorem delete_hidesB {cfg : Cfg} {now : Nat} {seeds : List Nat} {clients : Nat} {b b' : BState} {i k : Nat}
    {o o' : Oracle} (hr : B.Reach cfg now seeds clients b) (h : stepB b (.client i) o = .ok (b', o'))
    (hpc : b.cl[i]? = some (.delMark k)) :
    (abs b'.g).cells k = none ∧ (abs b'.g).look k = none ∧ (abs b'.g).read k = none := by
  have hc : (abs b'.g).cells k = none := by
    obtain ⟨why, hks, hj⟩ := refinesB hr h k
    cases why with
    | unchanged => rw [hks.unchanged_eq]; exact hj i rfl hpc
    | hidden => exact hks.hidden_inv
    | installed v ttl => cases hj.1
    | rewritten v ttl rm =>
      obtain ⟨j, w, hj1, hj2⟩ := hj
      cases hj1; rw [hpc] at hj2; cases hj2
    | deleted => cases hj.1
    | expiredRemoved => obtain ⟨_, _, _, _, _, _, hj1, _⟩ := hj; cases hj1
    | sweptLive => obtain ⟨_, _, _, _, _, _, hj1, _⟩ := hj; cases hj1
    | evicted => cases hj.1
    | cleared =>
      obtain ⟨j, hj1, hj2, _⟩ := hj
      cases hj1; rw [hpc] at hj2; cases hj2
  exact ⟨hc, by simp [S.look, hc], read_absent _ _ hc⟩

/-- **never_serves_expired** (C09) through the API: the lookup action of `get(k)` in a state whose clock is past the
    cell's deadline finds nothing — swept or not, flag or not. -/
theorem get_never_serves_expiredB {b b' : BState} {i k d : Nat} {c : Cell} {o o' : Oracle}
    (h : stepB b (.client i) o = .ok (b', o')) (hpc : b.cl[i]? = some (.getStore k))
    (hc : (abs b.g).cells k = some c) (hd : c.deadline = some d) (hnow : b.g.now > d) :
    b'.cl = b.cl.set i .idle ∧ b'.res = b.res.set i (.value none :: b.res.getD i []) := by
  have hl : (abs b.g).look k = none := by
    have : (abs b.g).now > d := hnow
    simp [S.look, hc, Cell.expired, hd, this]
  have := ((reads_agreeB h).1 k hpc).2.2
  rw [hl] at this
  exact this

/-- **not_hidden_before_deadline** (C09) through the API: up to and including the deadline (or without one) the lookup
    action of `get(k)` finds the cell's value (and the `pool.add` action delivers it: `reads_agreeB`). -/
theorem get_not_hidden_before_deadlineB {b b' : BState} {i k : Nat} {c : Cell} {o o' : Oracle}
    (h : stepB b (.client i) o = .ok (b', o')) (hpc : b.cl[i]? = some (.getStore k))
    (hc : (abs b.g).cells k = some c) (hd : c.deadline = none ∨ ∃ d, c.deadline = some d ∧ b.g.now ≤ d) :
    b'.cl = b.cl.set i (.getPool k c.value) ∧ b'.res = b.res := by
  have hl : (abs b.g).look k = some c.value := by
    rcases hd with hd | ⟨d, hd, hle⟩
    · simp [S.look, hc, Cell.expired, hd]
    · have : ¬ d < (abs b.g).now := by show ¬ d < b.g.now; omega
      simp [S.look, hc, Cell.expired, hd, this]
  have := ((reads_agreeB h).1 k hpc).2.2
  rw [hl] at this
  exact this

/-- **no_loss_without_cause** (C03) at action granularity.  A cell of `k` (readable or expired) disappears in one
    action only if that action is: the `delete.mark` of a `delete(k)`; the worker's `store.remove` of a `Delete(k)`
    command; the sweeper's `store.remove` of the eviction of the id under which `k` is stored (Layer B premise: NOT
    "the cell is expired" — the cell may be readable, `sweptLive_real`); the worker's `store.remove` of an eviction of
    `k` inside a put of ANOTHER key; `shutdown.store_clear` (with the flag up). -/
theorem no_loss_without_causeB {cfg : Cfg} {now : Nat} {seeds : List Nat} {clients : Nat} {b b' : BState} {a : Act}
    {o o' : Oracle} (hr : B.Reach cfg now seeds clients b) (h : stepB b a o = .ok (b', o')) {k : Nat} {x : Cell}
    (hc : (abs b.g).cells k = some x) (hc' : (abs b'.g).cells k = none) :
    (∃ i, a = .client i ∧ b.cl[i]? = some (.delMark k)) ∨
    (a = .worker ∧ ∃ hh, b.w = .delStore k hh) ∨
    SweeperRemoves b a k ∨
    (a = .worker ∧ ∃ c e s id wk, b.w = .evStore c e s id wk ∧ wk.key = k ∧ c.k ≠ k) ∨
    (∃ i, a = .client i ∧ b.cl[i]? = some .shutStoreClear ∧ b.g.shutting = true) := by
  obtain ⟨why, hks, hj⟩ := refinesB hr h k
  rw [hc, hc'] at hks
  obtain ⟨_, rfl | rfl | ⟨rfl, _⟩ | ⟨rfl, _⟩ | rfl | rfl⟩ := hks.to_none
  · exact Or.inl hj
  · exact Or.inr (Or.inl hj)
  · exact Or.inr (Or.inr (Or.inl hj))
  · exact Or.inr (Or.inr (Or.inl hj))
  · exact Or.inr (Or.inr (Or.inr (Or.inl hj)))
  · exact Or.inr (Or.inr (Or.inr (Or.inr hj)))

/-- … and a READABLE cell (flag down, not expired) that is lost to the sweeper is lost for the cause `sweptLive`
    (the statement that needs no history; with the history: `readable_loss_to_sweeper` in section 9) -/
theorem readable_loss_is_sweptLive {cfg : Cfg} {now : Nat} {seeds : List Nat} {clients : Nat} {b b' : BState}
    {v : Option Nat} {o o' : Oracle} (hr : B.Reach cfg now seeds clients b)
    (h : stepB b (.sweeper v) o = .ok (b', o')) {k val : Nat} (hl : (abs b.g).look k = some val)
    (hl' : (abs b'.g).look k = none) :
    ∃ x, KeyStepB (abs b.g).now (abs b'.g).now .sweptLive (some x) none ∧ (abs b.g).cells k = some x ∧
      SweeperRemoves b (.sweeper v) k := by
  obtain ⟨x, hc, hx, _⟩ := (look_eq_some_iff _ _ _).mp hl
  obtain ⟨why, hks, hj⟩ := refinesB hr h k
  have hn : (abs b'.g).now = (abs b.g).now := (refinesB_global h).2.1 (by intro d hd; cases hd)
  cases hcell' : (abs b'.g).cells k with
  | some y =>
    rw [hc, hcell'] at hks
    rcases hks.to_some with ⟨_, hy, _⟩ | ⟨_, _, _, hy, _⟩ | ⟨c0, v0, ttl, rm, rfl, _, _, _⟩
    · cases hy
      have : (abs b'.g).look k = some val := by
        rw [look_eq_some_iff]; exact ⟨x, hcell', by rw [hn]; exact hx, by assumption⟩
      rw [hl'] at this; cases this
    · cases hy
    · obtain ⟨_, _, hj1, _⟩ := hj; cases hj1
  | none =>
    rw [hc, hcell'] at hks
    obtain ⟨_, rfl | rfl | ⟨rfl, hx'⟩ | ⟨rfl, _⟩ | rfl | rfl⟩ := hks.to_none
    · obtain ⟨_, hj1, _⟩ := hj; cases hj1
    · cases hj.1
    · rw [hx] at hx'; cases hx'
    · exact ⟨x, hks, hc, hj⟩
    · cases hj.1
    · obtain ⟨_, hj1, _⟩ := hj; cases hj1

/-! ### 8. runs -/

/-- the cell history of key `k` along a run of atomic actions: a chain of `KeyStepB`s, each with a cause its action
    justifies -/
inductive KeyChainB (k : Nat) : BState → List (Act × Oracle) → BState → Prop where
  | nil (b : BState) : KeyChainB k b [] b
  | cons {b b1 b' : BState} {a : Act} {o : Oracle} {l : List (Act × Oracle)} (why : WhyB) :
      KeyStepB (abs b.g).now (abs b1.g).now why ((abs b.g).cells k) ((abs b1.g).cells k) → JustifiedB b a k why →
      KeyChainB k b1 l b' → KeyChainB k b ((a, o) :: l) b'

/-- **run_refinesB**: along every interleaving from a reachable state every key's cell history is a chain of justified
    `KeyStepB`s. -/
theorem run_refinesB {cfg : Cfg} {now : Nat} {seeds : List Nat} {clients : Nat} :
    ∀ (l : List (Act × Oracle)) {b b' : BState}, B.Reach cfg now seeds clients b → runB b l = .ok b' →
      ∀ k, KeyChainB k b l b' := by
  intro l
  induction l with
  | nil => intro b b' _ h k; simp only [runB, Except.ok.injEq] at h; subst h; exact .nil b
  | cons x l ih =>
    intro b b' hr h k
    obtain ⟨a, o⟩ := x
    simp only [runB] at h
    split at h
    · rename_i b1 o1 hs
      obtain ⟨why, hks, hj⟩ := refinesB hr hs k
      exact .cons why hks hj (ih (B.Reach.step hr hs) h k)
    · cases h

/-- a use of `run_refinesB`: a key without a cell at the start of a run and with one at its end — some action of the
    run is the worker's (its `store.put`): no number of client actions makes a key readable -/
theorem KeyChainB.needs_worker {k : Nat} {b b' : BState} {l : List (Act × Oracle)} (h : KeyChainB k b l b')
    (h0 : (abs b.g).cells k = none) {x : Cell} (h1 : (abs b'.g).cells k = some x) :
    ∃ p ∈ l, p.1 = Act.worker := by
  induction h with
  | nil b => rw [h0] at h1; cases h1
  | @cons b b1 b' a o l why hks hj _ ih =>
    cases hc1 : (abs b1.g).cells k with
    | none =>
      obtain ⟨p, hp, hw⟩ := ih hc1 h1
      exact ⟨p, List.mem_cons_of_mem _ hp, hw⟩
    | some y =>
      rw [h0, hc1] at hks
      rcases hks.to_some with ⟨_, hc, _⟩ | ⟨v, ttl, rfl, _, _, _⟩ | ⟨c0, _, _, _, _, hc, _⟩
      · cases hc
      · exact ⟨(a, o), List.mem_cons_self, hj.1⟩
      · cases hc

/-! ### 9. the two premises that are facts about the PAST (histories `RunH`)

  Two Layer A premises speak about the moment of the removal and are false at that moment in Layer B (section 10):
  "the evicting put does not fit the free space" and "the swept cell is expired".  What holds is a fact about an EARLIER
  action of the same thread, which the state does not remember: `JustifiedH` adds it to `JustifiedB`.  For the sweeper
  (after fix 36c87dc): the swept cell WAS expired when the sweeper checked it at `kw.remove`, and it is not expired
  at the removal only if a `put_or_update` rewrote it in between. -/

theorem reach_runH {cfg : Cfg} {now : Nat} {seeds : List Nat} {clients : Nat} {b0 b : BState}
    {h : List (BState × Act)} (hr : B.Reach cfg now seeds clients b0) (hrun : RunH b0 h b) :
    B.Reach cfg now seeds clients b := by
  induction hrun with
  | nil => exact hr
  | step _ hs ih => exact .step ih hs

/-- the history holds the sweeper's VISIT (`sweep.entry` action) of id `id` in the sweep of shard `sh` with time `now`:
    at that instant the index held `(sh, id) ↦ e` with `e < now ≤ clock` — the deadline the INDEX held had passed -/
def VisitedDue (h : List (BState × Act)) (now sh id : Nat) : Prop :=
  ∃ p ∈ h, p.2 = .sweeper (some id) ∧ (∃ rest, p.1.sw = .entry now sh rest) ∧
    ∃ e, p.1.g.ttl.get? (sh, id) = some e ∧ e < now ∧ now ≤ p.1.g.now

theorem VisitedDue.mono {h : List (BState × Act)} {now sh id : Nat} (p : BState × Act) (hh : VisitedDue h now sh id) :
    VisitedDue (p :: h) now sh id := by
  obtain ⟨q, hq, rest⟩ := hh
  exact ⟨q, List.mem_cons_of_mem _ hq, rest⟩

/-- while the sweeper carries out the eviction of an id, the history holds the visit that found it due -/
def SweepHist (h : List (BState × Act)) : SPc → Prop
  | .kwRemove now sh _ id => VisitedDue h now sh id
  | .sub now sh _ id _ => VisitedDue h now sh id
  | .store now sh _ id _ => VisitedDue h now sh id
  | _ => True

theorem SweepHist.mono {h : List (BState × Act)} {sw : SPc} (p : BState × Act) (hh : SweepHist h sw) :
    SweepHist (p :: h) sw := by
  cases sw
  case kwRemove => exact VisitedDue.mono p hh
  case sub => exact VisitedDue.mono p hh
  case store => exact VisitedDue.mono p hh
  all_goals trivial

theorem sweepHist_sweepNext (h : List (BState × Act)) (b : BState) (n sh : Nat) (r : List (Nat × Nat)) :
    SweepHist h (sweepNext b n sh r).sw := by
  rcases swB_sweepNext_sw b n sh r with ⟨e, _⟩ | ⟨e, _⟩ <;> rw [e] <;> trivial

theorem sweepHist_step {cfg : Cfg} {now0 : Nat} {seeds : List Nat} {clients : Nat} {h : List (BState × Act)}
    {b b' : BState} {a : Act} {o o' : Oracle} (hr : B.Reach cfg now0 seeds clients b) (hi : SweepHist h b.sw)
    (hs : stepB b a o = .ok (b', o')) : SweepHist ((b, a) :: h) b'.sw := by
  by_cases ha : ∀ v, a ≠ .sweeper v
  · rw [(swB_other_step hs ha).1]; exact hi.mono _
  · obtain ⟨v, rfl⟩ := swB_is_sweeper ha
    have hact := swB_sweeper_step hs
    have hi' := hi.mono (b, .sweeper v)
    cases hsw : b.sw with
    | begin =>
      obtain ⟨_, rfl⟩ := swB_begin_spec hsw hact
      exact sweepHist_sweepNext _ _ _ _ _
    | fin =>
      rw [swB_fin_spec hsw hact]; trivial
    | entry n sh rest =>
      obtain ⟨id, e, rfl, hf, ⟨hd, rfl⟩ | ⟨_, rfl⟩⟩ := swB_entry_spec hsw hact
      · refine ⟨(b, .sweeper (some id)), List.mem_cons_self, rfl, ⟨rest, hsw⟩, e, ?_, hd, ?_⟩
        · exact (C10_layerB_sweepInv hr).listed n sh rest (by rw [hsw]; rfl) id e (List.mem_of_find?_eq_some hf)
        · exact C10_layerB_sweep_clock hr n (by rw [hsw]; rfl)
      · exact sweepHist_sweepNext _ _ _ _ _
    | kwRemove n sh rest id =>
      rw [hsw] at hi'
      rcases swB_kwRemove_spec hsw hact with ⟨wk, _, rfl⟩ | ⟨_, rfl⟩
      · exact hi'
      · exact sweepHist_sweepNext _ _ _ _ _
    | sub n sh rest id wk =>
      rw [hsw] at hi'
      obtain ⟨_, rfl⟩ := swB_sub_spec hsw hact
      exact hi'
    | store n sh rest id wk =>
      obtain ⟨_, rfl⟩ := swB_store_spec hsw hact
      exact sweepHist_sweepNext _ _ _ _ _

theorem sweepHist_run {cfg : Cfg} {now0 : Nat} {seeds : List Nat} {clients : Nat} {b0 b : BState}
    {h : List (BState × Act)} (hr : B.Reach cfg now0 seeds clients b0) (hrun : RunH b0 h b)
    (h0 : SweepHist [] b0.sw) : SweepHist h b.sw := by
  induction hrun with
  | nil => exact h0
  | step hprev hs ih => exact sweepHist_step (reach_runH hr hprev) ih hs

/-! #### the sweeper's CHECK (`kw.remove`, fix 36c87dc) in the history -/

/-- a history `h1 ++ p :: h2` (latest first) splits at `p`: a run up to the state of `p`, and a run from it -/
theorem runH_split {b0 : BState} {p : BState × Act} {h2 : List (BState × Act)} :
    ∀ (h1 : List (BState × Act)) {b : BState}, RunH b0 (h1 ++ p :: h2) b →
      RunH b0 h2 p.1 ∧ RunH p.1 (h1 ++ [p]) b := by
  intro h1
  induction h1 with
  | nil =>
    intro b hr
    obtain ⟨pb, pa⟩ := p
    cases hr with
    | step hprev hs => exact ⟨hprev, .step (.nil _) hs⟩
  | cons x h1 ih =>
    intro b hr
    cases hr with
    | step hprev hs =>
      obtain ⟨hl, hrest⟩ := ih hprev
      exact ⟨hl, .step hrest hs⟩

/-- an entry stored under an id that is nobody's fresh id, and NOT soft-deleted after an action, was there under the
    same id and not soft-deleted before it: only `store.put` lowers the mark, and it writes a fresh id -/
theorem soft_back_step {b b' : BState} {a : Act} {o o' : Oracle} (h : stepB b a o = .ok (b', o'))
    {k id : Nat} (hocc : occ b id = 0) {e' : Entry} (hk' : b'.g.store.get? k = some e') (hid : e'.id = id)
    (hsoft : e'.soft = false) : ∃ e, b.g.store.get? k = some e ∧ e.id = id ∧ e.soft = false := by
  have heff := stepB_storeEff h
  cases heff
  case same hs => exact ⟨e', by rw [← hs]; exact hk', hid, hsoft⟩
  case put c exp hwp hx hwr hs =>
    by_cases hk : c.k = k
    · subst hk
      rw [hs, AMap.get?_set_same] at hk'
      cases hk'
      have hpos : 0 < occ b c.id := by simp [occ, hwp, WPc.freshId?]
      simp only [] at hid
      rw [hid] at hpos; omega
    · rw [hs, AMap.get?_set_other _ _ hk] at hk'; exact ⟨e', hk', hid, hsoft⟩
  case del k' hh e hwd he hs =>
    by_cases hk : k' = k
    · subst hk; rw [hs, AMap.get?_del_same] at hk'; cases hk'
    · rw [hs, AMap.get?_del_other _ hk] at hk'; exact ⟨e', hk', hid, hsoft⟩
  case evict c inc s id' wk hwe hs =>
    by_cases hk : wk.key = k
    · subst hk; rw [hs, AMap.get?_del_same] at hk'; cases hk'
    · rw [hs, AMap.get?_del_other _ hk] at hk'; exact ⟨e', hk', hid, hsoft⟩
  case sweep v now sh rest id' wk hsw hm hs =>
    by_cases hk : wk.key = k
    · subst hk; rw [hs, AMap.get?_del_same] at hk'; cases hk'
    · rw [hs, AMap.get?_del_other _ hk] at hk'; exact ⟨e', hk', hid, hsoft⟩
  case mark i k' e hpc he hs =>
    by_cases hk : k' = k
    · subst hk; rw [hs, AMap.get?_set_same] at hk'; cases hk'; cases hsoft
    · rw [hs, AMap.get?_set_other _ _ hk] at hk'; exact ⟨e', hk', hid, hsoft⟩
  case upsert i k' v w ttl rm e exp hpc he hx hs =>
    by_cases hk : k' = k
    · subst hk; rw [hs, AMap.get?_set_same] at hk'; cases hk'
      exact ⟨e, he, hid, hsoft⟩
    · rw [hs, AMap.get?_set_other _ _ hk] at hk'; exact ⟨e', hk', hid, hsoft⟩
  case clear i hpc hs => rw [hs] at hk'; cases hk'

theorem occ_run {p1 b : BState} {hh : List (BState × Act)} (hrun : RunH p1 hh b) {id : Nat}
    (hocc : occ p1 id = 0) (hlt : id < p1.g.nextId) : occ b id = 0 ∧ id < b.g.nextId := by
  induction hrun with
  | nil => exact ⟨hocc, hlt⟩
  | step _ hs ih =>
    obtain ⟨h1, h2⟩ := ih
    obtain ⟨h3, h4⟩ := swB_step_occ hs id h2
    exact ⟨by omega, by omega⟩

/-- … along a run: EVERY state of the history held the entry under that id, not soft-deleted -/
theorem soft_back_run {p1 b : BState} {hh : List (BState × Act)} (hrun : RunH p1 hh b) {k id : Nat}
    (hocc : occ p1 id = 0) (hlt : id < p1.g.nextId) :
    ∀ {e : Entry}, b.g.store.get? k = some e → e.id = id → e.soft = false →
      ∀ q ∈ hh, ∃ eq, q.1.g.store.get? k = some eq ∧ eq.id = id ∧ eq.soft = false := by
  induction hrun with
  | nil => intro e _ _ _ q hq; cases hq
  | @step bm b' hh' a o o' hprev hs ih =>
    intro e hk hid hsoft q hq
    obtain ⟨em, hkm, hidm, hsm⟩ := soft_back_step hs (occ_run hprev hocc hlt).1 hk hid hsoft
    rcases List.mem_cons.mp hq with rfl | hq
    · exact ⟨em, hkm, hidm, hsm⟩
    · exact ih hkm hidm hsm q hq

/-- the part `h1` of a history holds a `rewritten` step of key `k`: the `upsert.update` action of a `put_or_update(k)`
    (justified as `rewritten`), run in a state in which `k` HAD a cell (so the step is `KeyStepB.rewritten`, not
    `unchanged`) -/
def RewrittenIn (h1 : List (BState × Act)) (k : Nat) : Prop :=
  ∃ q ∈ h1, ∃ v ttl rm cq, JustifiedB q.1 q.2 k (.rewritten v ttl rm) ∧ (abs q.1.g).cells k = some cq

/-- **The sweeper's check in the history.**  `h = h1 ++ p :: h2` (latest first) where `p` is the sweeper's `kw.remove`
    action of the eviction of `id` in the sweep `(now, sh, rest)`; `h1` — what happened since — holds exactly ONE sweeper
    action (the `wu.sub`); and IN THE STATE OF `p`: `id` was charged for key `k`, `k` was stored under `id`, and the
    cell of `k` was `c0`, EXPIRED (`c0.expired = true` for the clock of `p`: no lookup at `p` found it). -/
def CheckedExpired (h h1 : List (BState × Act)) (now sh : Nat) (rest : List (Nat × Nat)) (id k : Nat) (c0 : Cell) :
    Prop :=
  ∃ p h2, h = h1 ++ p :: h2 ∧ (∃ v, p.2 = .sweeper v) ∧ p.1.sw = .kwRemove now sh rest id ∧
    (h1.filter (fun q => swB_isSweeper q.2)).length = 1 ∧
    (∃ wk, p.1.g.adm.kw.get? id = some wk ∧ wk.key = k) ∧
    (∃ e0, p.1.g.store.get? k = some e0 ∧ e0.id = id) ∧
    (abs p.1.g).cells k = some c0 ∧ c0.expired (abs p.1.g).now = true

/-- **What the history holds when the sweeper's `store.remove` takes a cell away** (from
    `C10_layerB_removes_only_expired_at_check` of LayerB/Sweep.lean, plus: the soft-delete mark is never lowered under
    one id).  The sweeper stands at `store.remove` of the eviction of `id`, key `wk.key` is stored under `id` and has a
    cell.  Then the history holds the sweeper's check of this eviction, at which the key's cell `c0` was EXPIRED; and
    the cell removed now IS `c0` (and is expired now as well) — or a `rewritten` step of the key lies in between. -/
theorem sweeper_removal_checked {cfg : Cfg} {now0 : Nat} {seeds : List Nat} {clients : Nat}
    {b0 b b' : BState} {h : List (BState × Act)} {v : Option Nat} {o o' : Oracle} {now sh id : Nat}
    {rest : List (Nat × Nat)} {wk : WKey} {e : Entry}
    (hr0 : B.Reach cfg now0 seeds clients b0) (hrun : RunH b0 h b) (h0 : b0.sw.victim? = none)
    (hs : stepB b (.sweeper v) o = .ok (b', o')) (hsw : b.sw = .store now sh rest id wk)
    (hk : b.g.store.get? wk.key = some e) (hid : e.id = id) (hsoft : e.soft = false) :
    ∃ h1 c0, CheckedExpired h h1 now sh rest id wk.key c0 ∧
      (((⟨e.value, e.expiry⟩ : Cell) = c0 ∧ c0.expired b.g.now = true) ∨ RewrittenIn h1 wk.key) := by
  obtain ⟨_, h1, p, h2, rfl, hp, hpsw, hn, hkw, hu, hnow, e0, t, hk0, hid0, ht, hgt, hcase⟩ :=
    C10_layerB_removes_only_expired_at_check hr0 hrun h0 hs hsw hk hid
  obtain ⟨hrun2, hrun1⟩ := runH_split h1 hrun
  have hrp := reach_runH hr0 hrun2
  obtain ⟨hocc, hlt⟩ := (binv_reach hrp).freshIds.2.2.2.2.1 id (by rw [← hid0]; exact store_id_used hk0)
  have hall := soft_back_run hrun1 hocc hlt hk hid hsoft
  obtain ⟨e0', hk0', _, hs0⟩ := hall p (by simp)
  rw [hk0] at hk0'; cases hk0'
  have hc0 : (abs p.1.g).cells wk.key = some ⟨e0.value, e0.expiry⟩ := by
    show cellOf (p.1.g.store.get? wk.key) = _
    rw [hk0]; simp [cellOf, hs0]
  have hx0 : Cell.expired ⟨e0.value, e0.expiry⟩ (abs p.1.g).now = true := by
    show Cell.expired ⟨e0.value, e0.expiry⟩ p.1.g.now = true
    simp [Cell.expired, ht, hgt]
  refine ⟨h1, _, ⟨p, h2, rfl, hp, hpsw, hn, ⟨wk, hkw, rfl⟩, ⟨e0, hk0, hid0⟩, hc0, hx0⟩, ?_⟩
  rcases hcase with ⟨h5, h6, h7⟩ | ⟨q, hq, i, v', w, ttl, rm, hqa, hqpc⟩
  · left
    exact ⟨by rw [h5, h6, ht], by simp [Cell.expired, ht, h7]⟩
  · right
    obtain ⟨eq, hkq, _, hsq⟩ := hall q (List.mem_append_left _ hq)
    refine ⟨q, hq, v', ttl, rm, ⟨eq.value, eq.expiry⟩, ⟨i, w, hqa, hqpc⟩, ?_⟩
    show cellOf (q.1.g.store.get? wk.key) = _
    rw [hkq]; simp [cellOf, hsq]

/-- `JustifiedB` plus the facts about the past: for `evicted` the put being applied DID NOT FIT when the worker first
    read the free space (`wu.space` at `space0`); for the sweeper's two causes
    * the deadline the INDEX held for the id had passed when the sweeper VISITED it (`VisitedDue`), and
    * (fix 36c87dc) the key's cell, stored under that id, WAS EXPIRED when the sweeper CHECKED it at `kw.remove`
      (`CheckedExpired`), and
      - `expiredRemoved`: the cell removed now is that very cell, or a `rewritten` step of the key lies in between;
      - `sweptLive`: a `rewritten` step of the key lies between the check and the removal — NOTHING else makes the
        sweeper remove a cell that is not expired. -/
def JustifiedH (h : List (BState × Act)) (b : BState) (a : Act) (k : Nat) (why : WhyB) : Prop :=
  JustifiedB b a k why ∧
  match why with
  | .evicted => ∃ c e s id wk, b.w = .evStore c e s id wk ∧
      (∃ p ∈ h, p.2 = .worker ∧ p.1.w = .space0 c ∧ p.1.g.adm.max - p.1.g.adm.used < c.w) ∧
      (∃ p ∈ h, p.2 = .worker ∧ (p.1.w = .space0 c ∨ ∃ e' s', p.1.w = .evSpace c e' s') ∧
        p.1.g.adm.max - p.1.g.adm.used < c.w)
  | .expiredRemoved => ∃ now sh rest id wk, b.sw = .store now sh rest id wk ∧ VisitedDue h now sh id ∧
      ∃ h1 c0, CheckedExpired h h1 now sh rest id k c0 ∧ ((abs b.g).cells k = some c0 ∨ RewrittenIn h1 k)
  | .sweptLive => ∃ now sh rest id wk, b.sw = .store now sh rest id wk ∧ VisitedDue h now sh id ∧
      ∃ h1 c0, CheckedExpired h h1 now sh rest id k c0 ∧ RewrittenIn h1 k
  | _ => True

/-- **refinesH**: along every interleaving from an initial state (worker at `recv`, sweeper at `sweep.begin`), with
    the history `h` so far: every action moves every key's cell by one `KeyStepB` for a cause that the action AND THE
    HISTORY justify. -/
theorem refinesH {cfg : Cfg} {now : Nat} {seeds : List Nat} {clients : Nat} {b0 b b' : BState}
    {h : List (BState × Act)} {a : Act} {o o' : Oracle} (hr0 : B.Reach cfg now seeds clients b0)
    (hw0 : b0.w = .recv) (hs0 : b0.sw = .begin) (hrun : RunH b0 h b) (hs : stepB b a o = .ok (b', o')) (k : Nat) :
    ∃ why, KeyStepB (abs b.g).now (abs b'.g).now why ((abs b.g).cells k) ((abs b'.g).cells k) ∧
      JustifiedH h b a k why := by
  have hr := reach_runH hr0 hrun
  have hsh : SweepHist h b.sw := sweepHist_run hr0 hrun (by rw [hs0]; trivial)
  have hv0 : b0.sw.victim? = none := by rw [hs0]; rfl
  obtain ⟨why, hks, hj⟩ := refinesB hr hs k
  refine ⟨why, hks, hj, ?_⟩
  cases why with
  | evicted =>
    obtain ⟨_, c, e, s, id, wk, hw, _, _⟩ := hj
    exact ⟨c, e, s, id, wk, hw, C03_layerB_eviction_under_pressure hrun hw0 hw⟩
  | expiredRemoved =>
    obtain ⟨v, n, sh, rest, id, wk, rfl, hsw, rfl, _, ⟨en, hen, hid⟩, _⟩ := hj
    rw [hsw] at hsh
    obtain ⟨x, hc, _, _, _⟩ := hks.expiredRemoved_inv
    obtain ⟨e, he, hsoft, rfl⟩ := cellOf_eq_some.mp (show cellOf (b.g.store.get? wk.key) = some x from hc)
    rw [hen] at he; cases he
    obtain ⟨h1, c0, hchk, hcase⟩ := sweeper_removal_checked hr0 hrun hv0 hs hsw hen hid hsoft
    refine ⟨n, sh, rest, id, wk, hsw, hsh, h1, c0, hchk, ?_⟩
    rcases hcase with ⟨heq, _⟩ | hrw
    · exact Or.inl (by rw [hc, heq])
    · exact Or.inr hrw
  | sweptLive =>
    obtain ⟨v, n, sh, rest, id, wk, rfl, hsw, rfl, _, ⟨en, hen, hid⟩, _⟩ := hj
    rw [hsw] at hsh
    obtain ⟨x, hc, _, hx, _⟩ := hks.sweptLive_inv
    obtain ⟨e, he, hsoft, rfl⟩ := cellOf_eq_some.mp (show cellOf (b.g.store.get? wk.key) = some x from hc)
    rw [hen] at he; cases he
    obtain ⟨h1, c0, hchk, hcase⟩ := sweeper_removal_checked hr0 hrun hv0 hs hsw hen hid hsoft
    refine ⟨n, sh, rest, id, wk, hsw, hsh, h1, c0, hchk, ?_⟩
    rcases hcase with ⟨heq, hexp⟩ | hrw
    · rw [← heq] at hexp
      have hx' : Cell.expired ⟨en.value, en.expiry⟩ b.g.now = false := hx
      rw [hx'] at hexp; cases hexp
    · exact hrw
  | _ => trivial

/-- a cell lost in an action of the SWEEPER: it is the sweeper's `store.remove` of the id under which the key is stored -/
theorem sweeper_loss {cfg : Cfg} {now : Nat} {seeds : List Nat} {clients : Nat} {b b' : BState} {v : Option Nat}
    {o o' : Oracle} (hr : B.Reach cfg now seeds clients b) (h : stepB b (.sweeper v) o = .ok (b', o')) {k : Nat}
    {x : Cell} (hc : (abs b.g).cells k = some x) (hc' : (abs b'.g).cells k = none) :
    SweeperRemoves b (.sweeper v) k := by
  rcases no_loss_without_causeB hr h hc hc' with ⟨_, h1, _⟩ | ⟨h1, _⟩ | h1 | ⟨h1, _⟩ | ⟨_, h1, _⟩
  · cases h1
  · cases h1
  · exact h1
  · cases h1
  · cases h1

/-- **sweptLive_needs_rewrite: `sweptLive` without an intervening `rewritten` step is impossible** (fix 36c87dc).
    Along any interleaving from a reachable state in which the sweeper is not in the middle of an eviction: if an
    action of the sweeper takes away a cell of `k` that is NOT expired, then it is the `store.remove` of the eviction
    of the id `k` is stored under, the history holds the sweeper's check (`kw.remove`) of this eviction at which the
    cell of `k` — under the same id — WAS EXPIRED, and AFTER that check a `rewritten` step of `k`
    (`upsert.update` of a `put_or_update(k)`: known finding D3, it revives an expired entry in place). -/
theorem sweptLive_needs_rewrite {cfg : Cfg} {now0 : Nat} {seeds : List Nat} {clients : Nat} {b0 b b' : BState}
    {h : List (BState × Act)} {v : Option Nat} {o o' : Oracle} (hr0 : B.Reach cfg now0 seeds clients b0)
    (hrun : RunH b0 h b) (h0 : b0.sw.victim? = none) (hs : stepB b (.sweeper v) o = .ok (b', o')) {k : Nat}
    {x : Cell} (hc : (abs b.g).cells k = some x) (hx : x.expired (abs b.g).now = false)
    (hc' : (abs b'.g).cells k = none) :
    ∃ now sh rest id wk h1 c0, b.sw = .store now sh rest id wk ∧ wk.key = k ∧
      CheckedExpired h h1 now sh rest id k c0 ∧ RewrittenIn h1 k := by
  obtain ⟨_, n, sh, rest, id, wk, _, hsw, rfl, _, ⟨en, hen, hid⟩, _⟩ := sweeper_loss (reach_runH hr0 hrun) hs hc hc'
  obtain ⟨e, he, hsoft, rfl⟩ := cellOf_eq_some.mp (show cellOf (b.g.store.get? wk.key) = some x from hc)
  rw [hen] at he; cases he
  obtain ⟨h1, c0, hchk, hcase⟩ := sweeper_removal_checked hr0 hrun h0 hs hsw hen hid hsoft
  refine ⟨n, sh, rest, id, wk, h1, c0, hsw, rfl, hchk, ?_⟩
  rcases hcase with ⟨heq, hexp⟩ | hrw
  · rw [← heq] at hexp
    have hx' : Cell.expired ⟨en.value, en.expiry⟩ b.g.now = false := hx
    rw [hx'] at hexp; cases hexp
  · exact hrw

/-- **readable_loss_to_sweeper** (with the history): a READABLE cell (not expired) that is lost to the sweeper is lost
    for the cause `sweptLive`, WAS EXPIRED at the sweeper's check, and was rewritten by a `put_or_update` after it. -/
theorem readable_loss_to_sweeper {cfg : Cfg} {now0 : Nat} {seeds : List Nat} {clients : Nat} {b0 b b' : BState}
    {h : List (BState × Act)} {v : Option Nat} {o o' : Oracle} (hr0 : B.Reach cfg now0 seeds clients b0)
    (hrun : RunH b0 h b) (h0 : b0.sw.victim? = none) (hs : stepB b (.sweeper v) o = .ok (b', o')) {k val : Nat}
    (hl : (abs b.g).look k = some val) (hl' : (abs b'.g).look k = none) :
    ∃ x, KeyStepB (abs b.g).now (abs b'.g).now .sweptLive (some x) none ∧ (abs b.g).cells k = some x ∧
      SweeperRemoves b (.sweeper v) k ∧
      ∃ now sh rest id wk h1 c0, b.sw = .store now sh rest id wk ∧ wk.key = k ∧
        CheckedExpired h h1 now sh rest id k c0 ∧ RewrittenIn h1 k := by
  obtain ⟨x, hks, hc, hj⟩ := readable_loss_is_sweptLive (reach_runH hr0 hrun) hs hl hl'
  obtain ⟨x', hx', _, hx, _⟩ := hks.sweptLive_inv
  cases hx'
  obtain ⟨_, n, sh, rest, id, wk, _, hsw, hkey, _, ⟨en, hen, hid⟩, _⟩ := hj
  have hc' : (abs b'.g).cells k = none := by
    subst hkey
    show cellOf (b'.g.store.get? wk.key) = none
    rw [(C10_layerB_storeRemove_matching hsw (swB_sweeper_step hs) hen hid).2]; rfl
  exact ⟨x, hks, hc, ⟨_, n, sh, rest, id, wk, rfl, hsw, hkey, by assumption, ⟨en, hen, hid⟩, by assumption⟩,
    sweptLive_needs_rewrite hr0 hrun h0 hs hc hx hc'⟩

/-- **Layer A's `read_stable` for sweeps, restored for keys nobody rewrites**: along any interleaving from a reachable
    state in which the sweeper is not in the middle of an eviction and whose history holds NO `rewritten` step of `k`
    (no `upsert.update` action of a `put_or_update(k)`), NO action of the sweeper changes what a lookup or a read of
    `k` finds. -/
theorem sweep_keeps_look_without_rewrite {cfg : Cfg} {now0 : Nat} {seeds : List Nat} {clients : Nat}
    {b0 b b' : BState} {h : List (BState × Act)} {v : Option Nat} {o o' : Oracle}
    (hr0 : B.Reach cfg now0 seeds clients b0) (hrun : RunH b0 h b) (h0 : b0.sw.victim? = none)
    (hs : stepB b (.sweeper v) o = .ok (b', o')) (k : Nat)
    (hno : ∀ q ∈ h, ∀ v ttl rm, ¬ JustifiedB q.1 q.2 k (.rewritten v ttl rm)) :
    (abs b'.g).look k = (abs b.g).look k ∧ (abs b'.g).read k = (abs b.g).read k := by
  have hr := reach_runH hr0 hrun
  obtain ⟨_, hnow, _, _, hshut, _⟩ := refinesB_global hs
  have hn : (abs b'.g).now = (abs b.g).now := hnow (by intro d hd; cases hd)
  have hsh : (abs b'.g).shut = (abs b.g).shut := hshut (by intro i hi; cases hi)
  have hlook : (abs b'.g).look k = (abs b.g).look k := by
    obtain ⟨why, hks, hj⟩ := refinesB hr hs k
    cases why with
    | unchanged => exact look_stable hks hn
    | expiredRemoved => exact expiredRemoved_keeps_look hks
    | sweptLive =>
      exfalso
      obtain ⟨x, hc, hc', hx, _⟩ := hks.sweptLive_inv
      obtain ⟨_, _, _, _, _, h1, _, _, _, ⟨p, h2, rfl, _⟩, q, hq, v', ttl, rm, _, hjq, _⟩ :=
        sweptLive_needs_rewrite hr0 hrun h0 hs hc hx hc'
      exact hno q (List.mem_append_left _ hq) v' ttl rm hjq
    | installed v ttl => cases hj.1
    | rewritten v ttl rm => obtain ⟨_, _, hj1, _⟩ := hj; cases hj1
    | hidden => obtain ⟨_, hj1, _⟩ := hj; cases hj1
    | deleted => cases hj.1
    | evicted => cases hj.1
    | cleared => obtain ⟨_, hj1, _⟩ := hj; cases hj1
  exact ⟨hlook, by rw [read_eq_look, read_eq_look, hsh, hlook]⟩

/-! ### 10. non-vacuity: every cause on a concrete interleaving

  Configuration `cfgEx` (weight limit 10, ONE expiry shard, `counters := 2`), two clients, clock 0 (`entInit`). -/

/-- the action `a` (with oracle `o`) runs in `b` and moves the cell of `k` for the cause `why`, justified -/
def ExhibitsB (b : BState) (a : Act) (o : Oracle) (k : Nat) (why : WhyB) : Prop :=
  ∃ b' o', stepB b a o = .ok (b', o') ∧
    KeyStepB (abs b.g).now (abs b'.g).now why ((abs b.g).cells k) ((abs b'.g).cells k) ∧ JustifiedB b a k why

/-- `put_with_weight_and_ttl(1 ↦ 100, weight 3, ttl 5)` called by client 0 and sent (4 actions) -/
def putB : List (Act × Oracle) := call 0 (.putW 1 100 3 (some 5)) 4

/-- … and applied by the worker (7 actions: `recv`, `store.present`, `wu.space`, `kw.insert`, `wu.add`, `store.put`,
    `ttl.put`): cell `⟨100, deadline 5⟩`, id 1 -/
def baseB : List (Act × Oracle) := putB ++ workerN 7

/-- every state of these runs is reachable -/
theorem reach_ent {l : List (Act × Oracle)} {b : BState} (h : runB entInit l = .ok b) :
    B.Reach cfgEx 0 [1, 2, 3, 4] 2 b := ent_reach_run h

/-- `installed`: the worker's `store.put` action (its sixth) -/
example : ∃ b, runB entInit (putB ++ workerN 5) = .ok b ∧ ExhibitsB b .worker noO 1 (.installed 100 (some 5)) := by
  refine ⟨_, rfl, _, _, rfl, ?_, ?_⟩
  · exact KeyStepB.installed 100 (some 5) rfl
  · exact ⟨rfl, _, rfl, rfl, rfl, rfl⟩

/-- `rewritten`: the `upsert.update` action of `put_or_update(1, value 101, remove_time_to_live)` -/
example : ∃ b, runB entInit (baseB ++ call 1 (.upsert 1 (some 101) none none true) 1) = .ok b ∧
    ExhibitsB b (.client 1) noO 1 (.rewritten (some 101) none true) := by
  refine ⟨_, rfl, _, _, rfl, ?_, ?_⟩
  · exact KeyStepB.rewritten ⟨100, some 5⟩ (some 101) none true rfl
  · exact ⟨1, none, rfl, rfl⟩

/-- `rewritten`: value kept, new time-to-live 1000 from the clock of THAT action (3): deadline 1003 -/
example : ∃ b b' o', runB entInit (baseB ++ [(.advance 3, noO)] ++ call 1 (.upsert 1 none none (some 1000) false) 1) = .ok b ∧
    stepB b (.client 1) noO = .ok (b', o') ∧
    KeyStepB (abs b.g).now (abs b'.g).now (.rewritten none (some 1000) false) ((abs b.g).cells 1) ((abs b'.g).cells 1) ∧
    (abs b'.g).cells 1 = some ⟨100, some 1003⟩ := by
  refine ⟨_, _, _, rfl, rfl, ?_, rfl⟩
  exact KeyStepB.rewritten ⟨100, some 5⟩ none (some 1000) false rfl

/-- `hidden`: the `delete.mark` action of `delete(1)` -/
example : ∃ b, runB entInit (baseB ++ call 1 (.delete 1) 1) = .ok b ∧ ExhibitsB b (.client 1) noO 1 .hidden := by
  refine ⟨_, rfl, _, _, rfl, ?_, ?_⟩
  · exact KeyStepB.hidden ⟨100, some 5⟩ rfl
  · exact ⟨1, rfl, rfl⟩

/-- `deleted`: `put(1)` is called and sent; `delete(1)` is called: its `delete.mark` finds nothing, its command is
    sent; the worker applies the put (key 1 is READABLE although `delete(1)` has returned), takes the `Delete(1)`
    command and stands at its `store.remove` -/
example : ∃ b, runB entInit (putB ++ call 1 (.delete 1) 3 ++ workerN 8) = .ok b ∧
    (abs b.g).read 1 = some 100 ∧ ExhibitsB b .worker noO 1 .deleted := by
  refine ⟨_, rfl, rfl, _, _, rfl, ?_, ?_⟩
  · exact KeyStepB.deleted ⟨100, some 5⟩ rfl
  · exact ⟨rfl, _, rfl⟩

/-- the sweeper up to the `store.remove` of the eviction of id 1: `sweep.begin`, the visit of id 1, `kw.remove`, `wu.sub` -/
def sweepTo : List (Act × Oracle) :=
  [(.sweeper none, noO), (.sweeper (some 1), noO), (.sweeper none, noO), (.sweeper none, noO)]

/-- `expiredRemoved`: clock 10, past the deadline 5; the sweeper's `store.remove` -/
example : ∃ b, runB entInit (baseB ++ [(.advance 10, noO)] ++ sweepTo) = .ok b ∧
    ExhibitsB b (.sweeper none) noO 1 .expiredRemoved := by
  refine ⟨_, rfl, _, _, rfl, ?_, ?_⟩
  · exact KeyStepB.expiredRemoved ⟨100, some 5⟩ rfl rfl
  · exact ⟨none, _, _, _, _, _, rfl, rfl, rfl, by decide, ⟨_, rfl, rfl⟩, rfl⟩

/-- the race that is left (known finding D3; `C10_layerB_upsert_after_check_loses_key` of LayerB/Sweep.lean): clock 10,
    the deadline 5 of key 1 (id 1) has passed; the sweeper visits id 1 and CHECKS it (`kw.remove`: the stored value has
    expired by its own deadline, the charge goes); THEN the `upsert.update` action of `put_or_update(1, time_to_live
    1000)` gives the expired entry the deadline 1010; the sweeper goes on (`wu.sub`) to its `store.remove` -/
def sweptLiveRun : List (Act × Oracle) :=
  baseB ++ [(.advance 10, noO), (.sweeper none, noO), (.sweeper (some 1), noO), (.sweeper none, noO)] ++
  call 0 (.upsert 1 none none (some 1000) false) 2 ++ [(.sweeper none, noO)]

/-- `sweptLive` -/
example : ∃ b, runB entInit sweptLiveRun = .ok b ∧ ExhibitsB b (.sweeper none) noO 1 .sweptLive := by
  refine ⟨_, rfl, _, _, rfl, ?_, ?_⟩
  · exact KeyStepB.sweptLive ⟨100, some 1010⟩ rfl rfl
  · exact ⟨none, _, _, _, _, _, rfl, rfl, rfl, by decide, ⟨_, rfl, rfl⟩, rfl⟩

/-- the second race of LayerB/Sweep.lean as it was BEFORE fix 36c87dc (it was the `sweptLive` run then): the `upsert.update`
    comes after the sweeper's VISIT of id 1 but BEFORE its check; the last two sweeper actions were `kw.remove` and
    `wu.sub` then — now the first of them SKIPS (the stored deadline 1010 is ahead) and the second ends the sweep -/
def secondRaceRun : List (Act × Oracle) :=
  baseB ++ [(.advance 10, noO), (.sweeper none, noO), (.sweeper (some 1), noO)] ++
  call 0 (.upsert 1 none none (some 1000) false) 2 ++ [(.sweeper none, noO), (.sweeper none, noO)]

/-- `evicted`: key 1 (weight 3) is in; a put of key 2 with weight 8 does not fit (`pressureRun` of LayerB/Entries.lean);
    the worker's `store.remove` of the eviction of key 1 -/
example : ∃ b, runB entInit pressureRun = .ok b ∧ ExhibitsB b .worker noO 1 .evicted := by
  refine ⟨_, rfl, _, _, rfl, ?_, ?_⟩
  · exact KeyStepB.evicted ⟨100, none⟩ rfl
  · exact ⟨rfl, _, _, _, _, _, rfl, rfl, by decide⟩

/-- `cleared`: the seventh action of `shutdown()`, `shutdown.store_clear`; the flag is up since the second -/
example : ∃ b, runB entInit (baseB ++ call 1 .shutdown 6) = .ok b ∧ ExhibitsB b (.client 1) noO 1 .cleared := by
  refine ⟨_, rfl, _, _, rfl, ?_, ?_⟩
  · exact KeyStepB.cleared _ rfl
  · exact ⟨1, rfl, rfl, rfl⟩

/-- `unchanged` although the STORE changes: `upsert.update` of a soft-deleted key rewrites the dead entry in place
    (value 99); no cell before, none after -/
example : ∃ b b' o', runB entInit (baseB ++ call 1 (.delete 1) 3 ++ call 1 (.upsert 1 (some 99) (some 3) none false) 1) = .ok b ∧
    stepB b (.client 1) noO = .ok (b', o') ∧
    b.g.store.get? 1 = some ⟨100, 1, some 5, true⟩ ∧ b'.g.store.get? 1 = some ⟨99, 1, some 5, true⟩ ∧
    KeyStepB (abs b.g).now (abs b'.g).now .unchanged ((abs b.g).cells 1) ((abs b'.g).cells 1) := by
  refine ⟨_, _, _, rfl, rfl, by decide, by decide, ?_⟩
  exact KeyStepB.unchanged none (Nat.le_refl _)

/-- `reads_agreeB` on a concrete state: the lookup action of `get(1)` finds `look 1 = read 1 = some 100`, the `pool.add`
    action delivers it -/
example : ∃ b b1 b2 o1 o2, runB entInit (baseB ++ call 1 (.get 1) 1) = .ok b ∧
    b.cl[1]? = some (.getStore 1) ∧ (abs b.g).look 1 = some 100 ∧ (abs b.g).read 1 = some 100 ∧
    stepB b (.client 1) noO = .ok (b1, o1) ∧ b1.cl[1]? = some (.getPool 1 100) ∧
    stepB b1 (.client 1) { pool := [0] } = .ok (b2, o2) ∧ b2.res[1]? = some [.value (some 100)] := by
  refine ⟨_, _, _, _, _, rfl, rfl, ?_, ?_, rfl, rfl, rfl, rfl⟩ <;> decide

/-- `run_refinesB` / `KeyChainB.needs_worker` instantiated -/
example : ∃ b', KeyChainB 1 entInit
    (baseB ++ call 1 (.upsert 1 (some 101) (some 3) none false) 4 ++ call 1 (.delete 1) 3 ++ workerN 4) b' :=
  ⟨_, run_refinesB _ (B.Reach.init (cfg := cfgEx) (now := 0) (seeds := [1, 2, 3, 4]) (clients := 2) []) rfl 1⟩

/-- `refinesH` instantiated: the evicting step of `pressureRun` with its history — the put of key 2 did not fit
    when the worker first read the free space -/
example : ∃ h b b' o', RunH entInit h b ∧ stepB b .worker noO = .ok (b', o') ∧
    ∃ why, KeyStepB (abs b.g).now (abs b'.g).now why ((abs b.g).cells 1) ((abs b'.g).cells 1) ∧
      JustifiedH h b .worker 1 why := by
  have hh : ∃ h b, histOf entInit pressureRun [] = .ok (h, b) ∧ ∃ b' o', stepB b .worker noO = .ok (b', o') :=
    ⟨_, _, rfl, _, _, rfl⟩
  obtain ⟨h, b, hrun, b', o', hs⟩ := hh
  have hr := runH_histOf (b0 := entInit) _ (.nil _) hrun
  exact ⟨h, b, b', o', hr, hs,
    refinesH (B.Reach.init (cfg := cfgEx) (now := 0) (seeds := [1, 2, 3, 4]) (clients := 2) []) rfl rfl hr hs 1⟩

set_option maxRecDepth 10000

/-- `refinesH` / `sweptLive_needs_rewrite` / `readable_loss_to_sweeper` instantiated on `sweptLiveRun`: the hypotheses
    hold (the cell `⟨100, deadline 1010⟩` is readable at clock 10 and is lost to the sweeper), so the history holds the
    check at which the cell was expired and a `rewritten` step after it -/
example : ∃ h b b', RunH entInit h b ∧ stepB b (.sweeper none) noO = .ok (b', noO) ∧
    (abs b.g).look 1 = some 100 ∧ (abs b'.g).look 1 = none ∧
    (∃ why, KeyStepB (abs b.g).now (abs b'.g).now why ((abs b.g).cells 1) ((abs b'.g).cells 1) ∧
      JustifiedH h b (.sweeper none) 1 why) ∧
    ∃ now sh rest id wk h1 c0, b.sw = .store now sh rest id wk ∧ wk.key = 1 ∧
      CheckedExpired h h1 now sh rest id 1 c0 ∧ RewrittenIn h1 1 := by
  have hh : ∃ h b b', RunH entInit h b ∧ stepB b (.sweeper none) noO = .ok (b', noO) ∧
      (abs b.g).look 1 = some 100 ∧ (abs b'.g).look 1 = none := by
    have h1 : ∃ h b, histOf entInit sweptLiveRun [] = .ok (h, b) ∧ ∃ b', stepB b (.sweeper none) noO = .ok (b', noO) ∧
        (abs b.g).look 1 = some 100 ∧ (abs b'.g).look 1 = none := ⟨_, _, rfl, _, rfl, rfl, rfl⟩
    obtain ⟨h, b, hrun, b', hs, hl, hl'⟩ := h1
    exact ⟨h, b, b', runH_histOf (b0 := entInit) _ (.nil _) hrun, hs, hl, hl'⟩
  obtain ⟨h, b, b', hrun, hs, hl, hl'⟩ := hh
  have hr0 := B.Reach.init (cfg := cfgEx) (now := 0) (seeds := [1, 2, 3, 4]) (clients := 2) []
  obtain ⟨_, _, _, _, hrest⟩ := readable_loss_to_sweeper hr0 hrun rfl hs hl hl'
  exact ⟨h, b, b', hrun, hs, hl, hl', refinesH hr0 rfl rfl hrun hs 1, hrest⟩

/-- `CheckedExpired` / `RewrittenIn` on `sweptLiveRun`, explicitly: the check is the 4th action from the end of the
    history (after it: the `issue`, two client actions — the second is the `upsert.update` —, `wu.sub`); in its state the
    cell of key 1 was `⟨100, deadline 5⟩` at clock 10 — expired; the cell removed is `⟨100, deadline 1010⟩` -/
example : ∃ h b, histOf entInit sweptLiveRun [] = .ok (h, b) ∧
    (match h with
     | q3 :: q2 :: _q1 :: _q0 :: p :: _ =>
       (match p.2, p.1.sw with | .sweeper none, .kwRemove 10 0 [] 1 => true | _, _ => false) &&
       decide ((abs p.1.g).cells 1 = some ⟨100, some 5⟩) && Cell.expired ⟨100, some 5⟩ (abs p.1.g).now &&
       (match q3.2, q3.1.sw with | .sweeper none, .sub 10 0 [] 1 _ => true | _, _ => false) &&
       (match q2.2, q2.1.cl[0]? with
        | .client 0, some (CPc.upUpdate 1 none none (some 1000) false) => true
        | _, _ => false) &&
       decide ((abs q2.1.g).cells 1 = some ⟨100, some 5⟩) && decide ((abs b.g).cells 1 = some ⟨100, some 1010⟩)
     | _ => false) = true := ⟨_, _, rfl, by decide⟩

/-- the action `q` is not the `upsert.update` of a `put_or_update(k)` -/
def noRewriteOf (k : Nat) (q : BState × Act) : Bool :=
  match q.2 with
  | .client i => (match q.1.cl[i]? with | some (.upUpdate k' _ _ _ _) => k' != k | _ => true)
  | _ => true

theorem noRewriteOf_spec {k : Nat} {h : List (BState × Act)} (hall : h.all (noRewriteOf k) = true) :
    ∀ q ∈ h, ∀ v ttl rm, ¬ JustifiedB q.1 q.2 k (.rewritten v ttl rm) := by
  intro q hq v ttl rm ⟨i, w, ha, hpc⟩
  have := List.all_eq_true.mp hall q hq
  simp [noRewriteOf, ha, hpc] at this

/-- `sweep_keeps_look_without_rewrite`: its hypotheses hold on the ordinary sweep (no `put_or_update` at all: the
    expired key 1 is removed, cause `expiredRemoved`, and no lookup changes) -/
example : ∃ h b b', RunH entInit h b ∧ stepB b (.sweeper none) noO = .ok (b', noO) ∧
    (∀ q ∈ h, ∀ v ttl rm, ¬ JustifiedB q.1 q.2 1 (.rewritten v ttl rm)) ∧
    (abs b.g).cells 1 = some ⟨100, some 5⟩ ∧ (abs b'.g).cells 1 = none ∧ (abs b'.g).look 1 = (abs b.g).look 1 := by
  have h1 : ∃ h b, histOf entInit (baseB ++ [(.advance 10, noO)] ++ sweepTo) [] = .ok (h, b) ∧
      h.all (noRewriteOf 1) = true ∧ ∃ b', stepB b (.sweeper none) noO = .ok (b', noO) ∧
      (abs b.g).cells 1 = some ⟨100, some 5⟩ ∧ (abs b'.g).cells 1 = none :=
    ⟨_, _, rfl, by decide, _, rfl, rfl, rfl⟩
  obtain ⟨h, b, hrun, hall, b', hs, hc, hc'⟩ := h1
  have hr := runH_histOf (b0 := entInit) _ (.nil _) hrun
  exact ⟨h, b, b', hr, hs, noRewriteOf_spec hall, hc, hc',
    (sweep_keeps_look_without_rewrite (B.Reach.init (cfg := cfgEx) (now := 0) (seeds := [1, 2, 3, 4]) (clients := 2) [])
      hr rfl hs 1 (noRewriteOf_spec hall)).1⟩

/-! ### 11. the deviations from Spec.lean are REAL: the Layer A clause is false on a reachable interleaving -/

/-- **Deviation 1 (`sweptLive`) is still REAL after fix 36c87dc.**  `KeyStep.expiredRemoved` demands that the cell the
    sweeper removes be expired at the moment of the removal.  FALSE at action granularity: on `sweptLiveRun` (the
    `upsert.update` comes AFTER the sweeper's check, known finding D3) the sweeper's `store.remove` takes away the
    cell `⟨100, deadline 1010⟩` of key 1 at clock 10 — a `get(1)` returned 100 before the action and returns nothing
    after it — and neither of the two causes Layer A allows a sweep (`unchanged`, `expiredRemoved`) fits.
    (The cell WAS expired — deadline 5 — when the sweeper checked it, and was rewritten since: `sweptLive_needs_rewrite`;
    the run on which this theorem was proved before the fix is now `second_race_fixed`.) -/
theorem sweptLive_real :
    ∃ b b', B.Reach cfgEx 0 [1, 2, 3, 4] 2 b ∧ stepB b (.sweeper none) noO = .ok (b', noO) ∧
      SweeperRemoves b (.sweeper none) 1 ∧ b.g.now = 10 ∧
      (abs b.g).cells 1 = some ⟨100, some 1010⟩ ∧ (abs b'.g).cells 1 = none ∧
      (abs b.g).read 1 = some 100 ∧ (abs b'.g).read 1 = none ∧
      ¬ KeyStep (abs b.g).now (abs b'.g).now .expiredRemoved ((abs b.g).cells 1) ((abs b'.g).cells 1) ∧
      ¬ KeyStep (abs b.g).now (abs b'.g).now .unchanged ((abs b.g).cells 1) ((abs b'.g).cells 1) := by
  have hrun : ∃ b, runB entInit sweptLiveRun = .ok b ∧ ∃ b', stepB b (.sweeper none) noO = .ok (b', noO) ∧
      SweeperRemoves b (.sweeper none) 1 ∧ b.g.now = 10 ∧
      (abs b.g).cells 1 = some ⟨100, some 1010⟩ ∧ (abs b'.g).cells 1 = none ∧
      (abs b.g).read 1 = some 100 ∧ (abs b'.g).read 1 = none := by
    refine ⟨_, rfl, _, rfl, ⟨none, _, _, _, _, _, rfl, rfl, rfl, by decide, ⟨_, rfl, rfl⟩, rfl⟩, rfl, rfl, rfl, rfl, rfl⟩
  obtain ⟨b, hr, b', hs, hj, hn, hc, hc', hrd, hrd'⟩ := hrun
  refine ⟨b, b', reach_ent hr, hs, hj, hn, hc, hc', hrd, hrd', ?_, ?_⟩
  · intro h
    rw [hc, hc'] at h
    obtain ⟨x, hx, _, hexp, _⟩ := h.expiredRemoved_inv
    cases hx
    have : (abs b.g).now = 10 := hn
    rw [this] at hexp
    revert hexp; decide
  · intro h
    rw [hc, hc'] at h
    have := h.unchanged_eq
    cases this

/-- two `put_or_update`s of key 1 interleave: client 0 (`time_to_live 1000`) rewrites the stored deadline 5 → 1000, then
    client 1 (`remove_time_to_live`) rewrites 1000 → none; client 1 brings the index up to date first (`ttl.delete`: the
    entry `(0, 1)` goes), then client 0 (`ttl.update`: remove, insert `(0, 1) ↦ 1000`); both calls return, the worker
    runs both `UpdateWeight` commands; much later (clock 2000) the sweeper visits id 1 (`sweepTo`; after fix 36c87dc
    its last two actions are the `kw.remove` that SKIPS and `sweep.end`, no longer `kw.remove` and `wu.sub`) -/
def staleIndexRun : List (Act × Oracle) :=
  baseB ++ call 0 (.upsert 1 none (some 3) (some 1000) false) 2 ++ call 1 (.upsert 1 none (some 3) none true) 5 ++
  List.replicate 4 (.client 0, noO) ++ workerN 4 ++ [(.advance 2000, noO)] ++ sweepTo

/-- **The run that witnessed `sweptLive` before fix 36c87dc now keeps the key (`sweptLive_real` as it was: D13).**
    On `secondRaceRun` the `upsert.update` extends the deadline after the sweeper's VISIT but before its check: the
    sweeper's `kw.remove` action finds the stored value unexpired (deadline 1010, clock 10), SKIPS, and the sweep ends.
    The cell `⟨100, deadline 1010⟩` is there before and after every remaining sweeper action, `read 1 = 100`
    throughout, the charge stays. -/
theorem second_race_fixed :
    ∃ b1 b2 b b', B.Reach cfgEx 0 [1, 2, 3, 4] 2 b1 ∧
      b1.sw = .kwRemove 10 0 [] 1 ∧ unexpiredWithId b1.g 1 1 = true ∧        -- the check: the stored value is unexpired
      stepB b1 (.sweeper none) noO = .ok (b2, noO) ∧ b2.sw = .fin ∧ abs b2.g = abs b1.g ∧   -- … the sweeper skips
      stepB b2 (.sweeper none) noO = .ok (b, noO) ∧ runB entInit secondRaceRun = .ok b ∧
      stepB b (.sweeper none) noO = .ok (b', noO) ∧ b.g.now = 10 ∧          -- the step that removed the cell before the fix
      (abs b.g).cells 1 = some ⟨100, some 1010⟩ ∧ (abs b'.g).cells 1 = some ⟨100, some 1010⟩ ∧
      (abs b.g).read 1 = some 100 ∧ (abs b'.g).read 1 = some 100 ∧
      b'.g.adm.kw.get? 1 = some ⟨1, 1, 3⟩ ∧ b'.g.adm.used = 3 ∧
      KeyStepB (abs b.g).now (abs b'.g).now .unchanged ((abs b.g).cells 1) ((abs b'.g).cells 1) := by
  have hrun : ∃ b1, runB entInit (secondRaceRun.take (secondRaceRun.length - 2)) = .ok b1 ∧
      b1.sw = .kwRemove 10 0 [] 1 ∧ unexpiredWithId b1.g 1 1 = true ∧
      ∃ b2, stepB b1 (.sweeper none) noO = .ok (b2, noO) ∧ b2.sw = .fin ∧ abs b2.g = abs b1.g ∧
      ∃ b, stepB b2 (.sweeper none) noO = .ok (b, noO) ∧ runB entInit secondRaceRun = .ok b ∧
      ∃ b', stepB b (.sweeper none) noO = .ok (b', noO) ∧ b.g.now = 10 ∧
      (abs b.g).cells 1 = some ⟨100, some 1010⟩ ∧ (abs b'.g).cells 1 = some ⟨100, some 1010⟩ ∧
      (abs b.g).read 1 = some 100 ∧ (abs b'.g).read 1 = some 100 ∧
      b'.g.adm.kw.get? 1 = some ⟨1, 1, 3⟩ ∧ b'.g.adm.used = 3 :=
    ⟨_, rfl, rfl, rfl, _, rfl, rfl, rfl, _, rfl, rfl, _, rfl, rfl, rfl, rfl, rfl, rfl, rfl, rfl⟩
  obtain ⟨b1, hr1, h1, h2, b2, h3, h4, h5, b, h6, h7, b', h8, h9, hc, hc', hrd, hrd', hkw, hu⟩ := hrun
  refine ⟨b1, b2, b, b', reach_ent hr1, h1, h2, h3, h4, h5, h6, h7, h8, h9, hc, hc', hrd, hrd', hkw, hu, ?_⟩
  rw [hc, hc']
  exact .unchanged _ (C10_layerB_clock_monotone h8)

/-- **The FINDING `sweptLive_stale_index` (defect D12) is repaired: on the SAME run the key survives.**  Two interleaved
    `put_or_update`s of one key leave the expiry index out of step with the stored value (each brings the index from
    the deadline IT read to the deadline IT wrote; the two index updates may run in the opposite order of the two store
    updates — this is NOT repaired): the stored value has NO deadline while the index says `1000`.  With every client
    idle, the queue empty and the worker at `recv`, the sweeper at clock 2000 visits id 1 (the stale index entry goes)
    and at `kw.remove` finds the stored value unexpired: it SKIPS (before fix 36c87dc it removed the cell
    `⟨100, no deadline⟩`).  After the sweep the cell is still there, still charged, `read 1 = 100`, and a `get(1)`
    returns 100. -/
theorem stale_index_key_survives :
    ∃ b0 b, B.Reach cfgEx 0 [1, 2, 3, 4] 2 b ∧
      runB entInit (staleIndexRun.take (staleIndexRun.length - 4)) = .ok b0 ∧         -- before the sweep:
      b0.g.ttl = [((0, 1), 1000)] ∧ (abs b0.g).cells 1 = some ⟨100, none⟩ ∧ b0.g.now = 2000 ∧  -- index stale and due
      b0.cl = [.idle, .idle] ∧ b0.g.queue = [] ∧ (match b0.w with | .recv => True | _ => False) ∧
      b0.g.acks = [.accepted, .accepted, .accepted] ∧
      runB entInit staleIndexRun = .ok b ∧ (match b.sw with | .begin => True | _ => False) ∧   -- after the whole sweep:
      b.g.ttl = [] ∧                                                                   -- the stale index entry is gone
      (abs b.g).cells 1 = some ⟨100, none⟩ ∧ (abs b.g).read 1 = some 100 ∧               -- the key is NOT
      b.g.adm.kw.get? 1 = some ⟨1, 1, 3⟩ ∧ b.g.adm.used = 3 ∧
      (match runB entInit (staleIndexRun ++ call 1 (.get 1) 2 ++ [(.client 1, { pool := [0] })]) with
       | .ok b2 => decide (b2.res[1]? = some [.value (some 100), .ack 1 .pending])      -- `get(1)` returns 100
       | .error _ => false) = true := by
  have hrun : ∃ b0, runB entInit (staleIndexRun.take (staleIndexRun.length - 4)) = .ok b0 ∧
      b0.g.ttl = [((0, 1), 1000)] ∧ (abs b0.g).cells 1 = some ⟨100, none⟩ ∧ b0.g.now = 2000 ∧
      b0.cl = [.idle, .idle] ∧ b0.g.queue = [] ∧ (match b0.w with | .recv => True | _ => False) ∧
      b0.g.acks = [.accepted, .accepted, .accepted] ∧
      ∃ b, runB entInit staleIndexRun = .ok b ∧ (match b.sw with | .begin => True | _ => False) ∧
      b.g.ttl = [] ∧ (abs b.g).cells 1 = some ⟨100, none⟩ ∧ (abs b.g).read 1 = some 100 ∧
      b.g.adm.kw.get? 1 = some ⟨1, 1, 3⟩ ∧ b.g.adm.used = 3 :=
    ⟨_, rfl, rfl, rfl, rfl, rfl, rfl, trivial, rfl, _, rfl, trivial, rfl, rfl, rfl, rfl, rfl⟩
  obtain ⟨b0, h0, h1, h2, h3, h4, h5, h6, h7, b, hr, rest⟩ := hrun
  obtain ⟨r1, r2, r3, r4, r5, r6⟩ := rest
  exact ⟨b0, b, reach_ent hr, h0, h1, h2, h3, h4, h5, h6, h7, hr, r1, r2, r3, r4, r5, r6, by decide⟩

/-- … and the skip itself on that run: the sweeper at `kw.remove` of id 1, the charge there, the stored value under id 1
    without deadline (`unexpiredWithId = true`); the action moves on to `sweep.end` and changes nothing else -/
example : ∃ b b', runB entInit (staleIndexRun.take (staleIndexRun.length - 2)) = .ok b ∧
    b.sw = .kwRemove 2000 0 [] 1 ∧ b.g.adm.kw.get? 1 = some ⟨1, 1, 3⟩ ∧ unexpiredWithId b.g 1 1 = true ∧
    stepB b (.sweeper none) noO = .ok (b', noO) ∧ b'.sw = .fin ∧ b'.g = b.g :=
  ⟨_, _, rfl, rfl, rfl, rfl, rfl, rfl, rfl⟩

/-- **Deviation 2 (`cleared`).**  "`shutdown()` ran to its end" is not when the cells go: they go in the SEVENTH of the
    call's twelve actions, `shutdown.store_clear`.  The flag is up since the second action (`shutdown.cas`): in between,
    cells exist although `read` reports absent; and after the clearing action the call has not returned. -/
theorem cleared_mid_call :
    ∃ b b', B.Reach cfgEx 0 [1, 2, 3, 4] 2 b ∧ stepB b (.client 1) noO = .ok (b', noO) ∧
      b.cl[1]? = some .shutStoreClear ∧ (abs b.g).shut = true ∧ (abs b.g).cells 1 = some ⟨100, some 5⟩ ∧
      (abs b.g).read 1 = none ∧ (abs b.g).look 1 = some 100 ∧
      (abs b'.g).cells 1 = none ∧ b'.cl[1]? = some .shutKwClear ∧ b'.res[1]? = some [] := by
  have hrun : ∃ b, runB entInit (baseB ++ call 1 .shutdown 6) = .ok b ∧ ∃ b', stepB b (.client 1) noO = .ok (b', noO) ∧
      b.cl[1]? = some .shutStoreClear ∧ (abs b.g).shut = true ∧ (abs b.g).cells 1 = some ⟨100, some 5⟩ ∧
      (abs b.g).read 1 = none ∧ (abs b.g).look 1 = some 100 ∧
      (abs b'.g).cells 1 = none ∧ b'.cl[1]? = some .shutKwClear ∧ b'.res[1]? = some [] :=
    ⟨_, rfl, _, rfl, rfl, rfl, rfl, rfl, rfl, rfl, rfl, rfl⟩
  obtain ⟨b, hr, b', hs, rest⟩ := hrun
  exact ⟨b, b', reach_ent hr, hs, rest⟩

/-- … and "after `shutdown()` no key has a cell" is FALSE: the worker stands at the `store.put` of a put of key 1 while
    `shutdown()` runs all its twelve actions and RETURNS; then `store.put` runs: cause `installed`, with the flag up
    (no read will ever see the cell, but it is there — and its weight is charged: D10). -/
theorem cell_after_shutdown_returned :
    ∃ b b', B.Reach cfgEx 0 [1, 2, 3, 4] 2 b ∧ stepB b .worker noO = .ok (b', noO) ∧
      b.cl[1]? = some .idle ∧ b.res[1]? = some [.none] ∧ (abs b.g).shut = true ∧ b.g.store = [] ∧
      (abs b'.g).cells 1 = some ⟨100, some 5⟩ ∧
      KeyStepB (abs b.g).now (abs b'.g).now (.installed 100 (some 5)) ((abs b.g).cells 1) ((abs b'.g).cells 1) ∧
      JustifiedB b .worker 1 (.installed 100 (some 5)) := by
  have hrun : ∃ b, runB entInit (putB ++ workerN 5 ++ call 1 .shutdown 12) = .ok b ∧
      ∃ b', stepB b .worker noO = .ok (b', noO) ∧
      b.cl[1]? = some .idle ∧ b.res[1]? = some [.none] ∧ (abs b.g).shut = true ∧ b.g.store = [] ∧
      (abs b'.g).cells 1 = some ⟨100, some 5⟩ ∧
      KeyStepB (abs b.g).now (abs b'.g).now (.installed 100 (some 5)) ((abs b.g).cells 1) ((abs b'.g).cells 1) ∧
      JustifiedB b .worker 1 (.installed 100 (some 5)) :=
    ⟨_, rfl, _, rfl, rfl, rfl, rfl, rfl, rfl, KeyStepB.installed 100 (some 5) rfl, rfl, _, rfl, rfl, rfl, rfl⟩
  obtain ⟨b, hr, b', hs, rest⟩ := hrun
  exact ⟨b, b', reach_ent hr, hs, rest⟩

/-- **Deviation 3 (`installed`).**  The deadline of an installed cell is `now + ttl` for the clock of the worker's
    `store.put` ACTION — not the clock at which the worker took the command from the queue (Layer A: one instant).
    Here the command `put(1 ↦ 100, ttl 5)` is received at clock 0, the clock moves by 7 before `store.put`: deadline 12;
    with the clock of `worker.recv` the clause `KeyStep.installed` is false. -/
theorem installed_deadline_from_store_put_clock :
    ∃ b0 b b', B.Reach cfgEx 0 [1, 2, 3, 4] 2 b0 ∧ b0.g.now = 0 ∧
      b0.g.queue = [(.putTtl 1 1 3 1 100 5, some 0)] ∧ (match b0.w with | .recv => True | _ => False) ∧
      runB b0 (workerN 5 ++ [(.advance 7, noO)]) = .ok b ∧ stepB b .worker noO = .ok (b', noO) ∧
      JustifiedB b .worker 1 (.installed 100 (some 5)) ∧
      (abs b'.g).cells 1 = some ⟨100, some 12⟩ ∧
      KeyStepB (abs b.g).now (abs b'.g).now (.installed 100 (some 5)) ((abs b.g).cells 1) ((abs b'.g).cells 1) ∧
      ¬ KeyStepB (abs b0.g).now (abs b'.g).now (.installed 100 (some 5)) ((abs b.g).cells 1) ((abs b'.g).cells 1) := by
  have hrun : ∃ b0, runB entInit putB = .ok b0 ∧ b0.g.now = 0 ∧
      b0.g.queue = [(.putTtl 1 1 3 1 100 5, some 0)] ∧ (match b0.w with | .recv => True | _ => False) ∧
      ∃ b, runB b0 (workerN 5 ++ [(.advance 7, noO)]) = .ok b ∧ ∃ b', stepB b .worker noO = .ok (b', noO) ∧
      JustifiedB b .worker 1 (.installed 100 (some 5)) ∧
      (abs b.g).cells 1 = none ∧ (abs b'.g).cells 1 = some ⟨100, some 12⟩ ∧
      KeyStepB (abs b.g).now (abs b'.g).now (.installed 100 (some 5)) ((abs b.g).cells 1) ((abs b'.g).cells 1) :=
    ⟨_, rfl, rfl, rfl, trivial, _, rfl, _, rfl, ⟨rfl, _, rfl, rfl, rfl, rfl⟩, rfl, rfl,
      KeyStepB.installed 100 (some 5) rfl⟩
  obtain ⟨b0, hr0, hn0, hq, hw, b, hr, b', hs, hj, hc, hc', hks⟩ := hrun
  refine ⟨b0, b, b', reach_ent hr0, hn0, hq, hw, hr, hs, hj, hc', hks, ?_⟩
  intro h
  rw [hc, hc'] at h
  have h0 : (abs b0.g).now = 0 := hn0
  rw [h0] at h
  cases h

/-- key 1 (weight 3, deadline 5) and key 2 (weight 4, no deadline) are in: total 7 of 10 -/
def twoKeysB : List (Act × Oracle) := baseB ++ call 0 (.putW 2 200 4 none) 4 ++ workerN 6

/-- a put of key 3 with weight 5 does not fit (free space 3): the worker enters the eviction loop and picks key 2 as
    victim; the clock passes key 1's deadline and the sweeper evicts key 1 (total 4, free space 6 ≥ 5); the worker
    carries on with its victim: `kw.remove`, `wu.sub`, and stands at `store.remove` of key 2 -/
def evictFitsRun : List (Act × Oracle) :=
  twoKeysB ++ call 1 (.putW 3 300 5 none) 4 ++
  [(.worker, noO), (.worker, noO), (.worker, { dk := [false] }),
   (.worker, { dk := [false, false], ids := [1, 2], pops := [some 2] })] ++
  [(.advance 10, noO)] ++ sweepTo ++ [(.sweeper none, noO)] ++ workerN 2

/-- **Deviation 4 (`evicted`).**  Layer A justifies `evicted` by a put whose weight exceeds the free space IN THE STATE
    of the eviction.  FALSE at action granularity: the decision rests on a free-space read of an EARLIER action
    (`JustifiedH`); by the time the victim goes the put may fit without it.  On `evictFitsRun` the readable cell of
    key 2 is evicted for a put of weight 5 although the free space WITH key 2 still charged is 6. -/
theorem evicted_although_it_fits :
    ∃ b b' c inc s id wk, B.Reach cfgEx 0 [1, 2, 3, 4] 2 b ∧ stepB b .worker noO = .ok (b', noO) ∧
      b.w = .evStore c inc s id wk ∧ wk.key = 2 ∧ c.k = 3 ∧ c.w = 5 ∧
      b.g.adm.max - (b.g.adm.used + wk.weight) = 6 ∧ ¬ (b.g.adm.max - (b.g.adm.used + wk.weight) < c.w) ∧
      (abs b.g).read 2 = some 200 ∧ (abs b'.g).cells 2 = none ∧
      KeyStepB (abs b.g).now (abs b'.g).now .evicted ((abs b.g).cells 2) ((abs b'.g).cells 2) ∧
      JustifiedB b .worker 2 .evicted := by
  have hrun : ∃ b, runB entInit evictFitsRun = .ok b ∧ ∃ b' c inc s id wk, stepB b .worker noO = .ok (b', noO) ∧
      b.w = .evStore c inc s id wk ∧ wk.key = 2 ∧ c.k = 3 ∧ c.w = 5 ∧
      b.g.adm.max - (b.g.adm.used + wk.weight) = 6 ∧ ¬ (b.g.adm.max - (b.g.adm.used + wk.weight) < c.w) ∧
      (abs b.g).read 2 = some 200 ∧ (abs b'.g).cells 2 = none ∧
      KeyStepB (abs b.g).now (abs b'.g).now .evicted ((abs b.g).cells 2) ((abs b'.g).cells 2) ∧
      JustifiedB b .worker 2 .evicted :=
    ⟨_, rfl, _, _, _, _, _, _, rfl, rfl, rfl, rfl, rfl, by decide, by decide, rfl, rfl,
      KeyStepB.evicted ⟨200, none⟩ rfl, rfl, _, _, _, _, _, rfl, rfl, by decide⟩
  obtain ⟨b, hr, b', c, inc, s, id, wk, hs, rest⟩ := hrun
  exact ⟨b, b', c, inc, s, id, wk, reach_ent hr, hs, rest⟩

/-- **Deviation 5 (`delete_hides`, and the comment of `Why.deleted`).**  Layer A: when `delete(k)` returns a read of `k`
    reports absent.  FALSE at action granularity — it holds after the call's `delete.mark` action (`delete_hidesB`),
    not at its return: `put(1)` is called and sent; `delete(1)` runs its `delete.mark` (nothing to mark); the worker
    applies the put; `delete(1)` sends its command and RETURNS — key 1 is readable.  (And the `Delete(1)` command that
    will remove the cell — cause `deleted` — is queued AFTER the cell was installed, not before as in Layer A: it is the
    MARK that came before.) -/
theorem delete_returns_readable :
    ∃ b b', B.Reach cfgEx 0 [1, 2, 3, 4] 2 b ∧ stepB b (.client 1) noO = .ok (b', noO) ∧
      b.cl[1]? = some (.send (.delete 1)) ∧ b.g.queue = [] ∧ (abs b.g).cells 1 = some ⟨100, some 5⟩ ∧
      b'.cl[1]? = some .idle ∧ b'.res[1]? = some [.ack 1 .pending] ∧ b'.g.queue = [(.delete 1, some 1)] ∧
      (abs b'.g).read 1 = some 100 := by
  have hrun : ∃ b, runB entInit (putB ++ call 1 (.delete 1) 2 ++ workerN 7) = .ok b ∧
      ∃ b', stepB b (.client 1) noO = .ok (b', noO) ∧
      b.cl[1]? = some (.send (.delete 1)) ∧ b.g.queue = [] ∧ (abs b.g).cells 1 = some ⟨100, some 5⟩ ∧
      b'.cl[1]? = some .idle ∧ b'.res[1]? = some [.ack 1 .pending] ∧ b'.g.queue = [(.delete 1, some 1)] ∧
      (abs b'.g).read 1 = some 100 :=
    ⟨_, rfl, _, rfl, rfl, rfl, rfl, rfl, rfl, rfl, rfl⟩
  obtain ⟨b, hr, b', hs, rest⟩ := hrun
  exact ⟨b, b', reach_ent hr, hs, rest⟩

/-- **Deviation 6 (reads).**  Layer A: `get(k)` returns `S.read`, which is absent once the flag is up.  FALSE at action
    granularity: a read looks at the flag in its first action and at the store in its second; `shutdown.cas` in
    between: the lookup runs in a state whose `read 1` is absent, finds 100 (`look`), and `get(1)` returns 100. -/
theorem readB_ignores_flag :
    ∃ b b1 b2 o2, B.Reach cfgEx 0 [1, 2, 3, 4] 2 b ∧ b.cl[0]? = some (.getStore 1) ∧
      (abs b.g).shut = true ∧ (abs b.g).read 1 = none ∧ (abs b.g).look 1 = some 100 ∧
      stepB b (.client 0) noO = .ok (b1, noO) ∧ b1.cl[0]? = some (.getPool 1 100) ∧
      stepB b1 (.client 0) { pool := [0] } = .ok (b2, o2) ∧ b2.res[0]? = some [.value (some 100), .ack 0 .pending] := by
  have hrun : ∃ b, runB entInit (baseB ++ call 0 (.get 1) 1 ++ call 1 .shutdown 2) = .ok b ∧
      b.cl[0]? = some (.getStore 1) ∧
      (abs b.g).shut = true ∧ (abs b.g).read 1 = none ∧ (abs b.g).look 1 = some 100 ∧
      ∃ b1, stepB b (.client 0) noO = .ok (b1, noO) ∧ b1.cl[0]? = some (.getPool 1 100) ∧
      ∃ b2 o2, stepB b1 (.client 0) { pool := [0] } = .ok (b2, o2) ∧
        b2.res[0]? = some [.value (some 100), .ack 0 .pending] :=
    ⟨_, rfl, rfl, rfl, rfl, rfl, _, rfl, rfl, _, _, rfl, rfl⟩
  obtain ⟨b, hr, h1, h2, h3, h4, b1, h5, h6, b2, o2, h7, h8⟩ := hrun
  exact ⟨b, b1, b2, o2, reach_ent hr, h1, h2, h3, h4, h5, h6, h7, h8⟩

/-- three clients -/
def init3 : BState := BState.init cfgEx 0 [1, 2, 3, 4] 3

/-- `get(1)` (client 0) and `put_or_update(1, value 777)` (client 1) have passed their flag check; `shutdown()`
    (client 2) raises the flag; `upsert.update` writes 777 — cause `rewritten`, flag up; the lookup of `get(1)` finds
    777 and the call returns it -/
def neverReadableRun : List (Act × Oracle) :=
  baseB ++ call 0 (.get 1) 1 ++ call 1 (.upsert 1 (some 777) (some 3) none false) 1 ++ call 2 .shutdown 2 ++
  [(.client 1, noO), (.client 0, noO), (.client 0, { pool := [0] })]

/-- … so `get(1)` RETURNS 777 although at NO instant of the run `read 1` was 777 (before the flag: 100; after: absent):
    with a `shutdown()` racing, a read in flight is not linearizable against `S.read`.  (All that holds is
    `reads_agreeB`: the value is `look 1` at the lookup action.) -/
theorem get_returns_never_readable_value :
    (match runB init3 neverReadableRun with
     | .ok b => decide (b.res[0]? = some [.value (some 777), .ack 0 .pending])
     | .error _ => false) = true ∧
    (List.range (neverReadableRun.length + 1)).all (fun n =>
      match runB init3 (neverReadableRun.take n) with
      | .ok b => decide ((abs b.g).read 1 ≠ some 777)
      | .error _ => false) = true := by
  constructor <;> decide

/-- cells go on changing with the flag up: the `upsert.update` action of `neverReadableRun` (cause `rewritten`) -/
theorem rewritten_with_flag_up :
    ∃ b, runB init3 (neverReadableRun.take 19) = .ok b ∧ (abs b.g).shut = true ∧
      ExhibitsB b (.client 1) noO 1 (.rewritten (some 777) none false) := by
  refine ⟨_, rfl, rfl, _, _, rfl, ?_, ?_⟩
  · exact KeyStepB.rewritten ⟨100, some 5⟩ (some 777) none false rfl
  · exact ⟨1, some 3, rfl, rfl⟩

/-- `multi_get([1, 1])` by client 0: (first action, the load at the entry, the load inside `get`,) the lookup of the
    first position finds 100 (`pool.add` follows); `delete(1)` by client 1 runs its `delete.mark`; (the load inside the
    second `get`, then) the lookup of the second position finds nothing; the call returns -/
def mgetRaceRun : List (Act × Oracle) :=
  baseB ++ call 0 (.mget [1, 1] false) 4 ++ [(.client 0, { pool := [0] })] ++ call 1 (.delete 1) 2 ++
    [(.client 0, noO), (.client 0, noO)]

/-- **Deviation 7 (`S.readMany`).**  Layer A: `multi_get(ks)` is one `read` per key, all at the SAME instant.  FALSE at
    action granularity: every position is looked up at its own instant (`reads_agreeB`, third clause).
    `multi_get([1, 1])` returns `[100, absent]`, which `readMany [1, 1]` is in NO abstract state. -/
theorem mget_not_a_snapshot :
    (match runB entInit mgetRaceRun with
     | .ok b => decide (b.res[0]? = some [.values [some 100, none], .ack 0 .pending])
     | .error _ => false) = true ∧
    ∀ sp : S, sp.readMany [1, 1] ≠ [some 100, none] := by
  refine ⟨by decide, fun sp h => ?_⟩
  unfold S.readMany at h
  split at h
  · cases h
  · simp only [List.map_cons, List.map_nil, List.cons.injEq, and_true] at h
    rw [h.1] at h
    cases h.2

/-! ### 12. the hypotheses of the corollaries are satisfiable (concrete states) -/

/-- `read_stable_stepB`: with key 1 readable, the sweeper's visit of id 1 (not due: clock 3) is no action that may
    change a read of key 1 — nor is any action of a `put` of key 2, nor the consumer … -/
example : ∃ b, runB entInit (baseB ++ [(.advance 3, noO), (.sweeper none, noO)]) = .ok b ∧
    (abs b.g).read 1 = some 100 ∧ mayChangeReadB 1 b (.sweeper (some 1)) = false ∧
    (∃ b' o', stepB b (.sweeper (some 1)) noO = .ok (b', o')) ∧
    mayChangeReadB 1 b (.issue 1 (.putW 2 200 4 none)) = false ∧ mayChangeReadB 1 b .consumer = false :=
  ⟨_, rfl, rfl, rfl, ⟨_, _, rfl⟩, rfl, rfl⟩

/-- … while the eight kinds of action listed in `mayChangeReadB` are recognised -/
example : ∃ b, runB entInit (baseB ++ call 1 (.delete 1) 1) = .ok b ∧ mayChangeReadB 1 b (.client 1) = true ∧
    mayChangeReadB 2 b (.client 1) = false := ⟨_, rfl, rfl, rfl⟩

/-- `no_foreign_valueB`, second disjunct: after the `upsert.update` action the lookup finds the value the call carries -/
example : ∃ b b' o', runB entInit (baseB ++ call 1 (.upsert 1 (some 101) none none true) 1) = .ok b ∧
    stepB b (.client 1) noO = .ok (b', o') ∧ (abs b'.g).look 1 = some 101 ∧ (abs b.g).look 1 = some 100 ∧
    b.cl[1]? = some (.upUpdate 1 (some 101) none none true) := ⟨_, _, _, rfl, rfl, rfl, rfl, rfl⟩

/-- `no_foreign_valueB`, LAST disjunct (as in Layer A): key 1 has expired (clock 10 > 5) and is not swept;
    `upsert.update` of `put_or_update(1, remove_time_to_live)` — carrying no value — makes 100 readable again -/
example : ∃ b b' o', runB entInit (baseB ++ [(.advance 10, noO)] ++ call 1 (.upsert 1 none (some 3) none true) 1) = .ok b ∧
    stepB b (.client 1) noO = .ok (b', o') ∧ (abs b.g).look 1 = none ∧ (abs b'.g).look 1 = some 100 ∧
    (abs b.g).cells 1 = some ⟨100, some 5⟩ ∧ (abs b'.g).cells 1 = some ⟨100, none⟩ :=
  ⟨_, _, _, rfl, rfl, rfl, rfl, rfl, rfl⟩

/-- `delete_hidesB`: the hypothesis (client 1 at `delete.mark` of key 1, key 1 readable) and the conclusion -/
example : ∃ b b' o', runB entInit (baseB ++ call 1 (.delete 1) 1) = .ok b ∧ b.cl[1]? = some (.delMark 1) ∧
    (abs b.g).read 1 = some 100 ∧ stepB b (.client 1) noO = .ok (b', o') ∧ (abs b'.g).read 1 = none ∧
    (abs b'.g).cells 1 = none := ⟨_, _, _, rfl, rfl, rfl, rfl, rfl, rfl⟩

/-- `get_never_serves_expiredB` / `get_not_hidden_before_deadlineB`: at the deadline (clock 5) the lookup of `get(1)`
    still finds 100, one tick later (clock 6) nothing — the entry is in the store both times -/
example : ∃ b5 b6, runB entInit (baseB ++ [(.advance 5, noO)] ++ call 1 (.get 1) 1) = .ok b5 ∧
    runB entInit (baseB ++ [(.advance 6, noO)] ++ call 1 (.get 1) 1) = .ok b6 ∧
    b5.cl[1]? = some (.getStore 1) ∧ b6.cl[1]? = some (.getStore 1) ∧
    (abs b5.g).cells 1 = some ⟨100, some 5⟩ ∧ (abs b6.g).cells 1 = some ⟨100, some 5⟩ ∧
    (∃ b' o', stepB b5 (.client 1) noO = .ok (b', o') ∧ b'.cl[1]? = some (.getPool 1 100)) ∧
    (∃ b' o', stepB b6 (.client 1) noO = .ok (b', o') ∧ b'.res[1]? = some [.value none]) :=
  ⟨_, _, rfl, rfl, rfl, rfl, rfl, rfl, ⟨_, _, rfl, rfl⟩, ⟨_, _, rfl, rfl⟩⟩

/-- `no_loss_without_causeB` / `readable_loss_is_sweptLive` instantiated on `sweptLiveRun` (with the history:
    `readable_loss_to_sweeper`, instantiated in section 10) -/
example (b b' : BState) (h1 : runB entInit sweptLiveRun = .ok b) (h2 : stepB b (.sweeper none) noO = .ok (b', noO))
    (hl : (abs b.g).look 1 = some 100) (hl' : (abs b'.g).look 1 = none) :
    ∃ x, KeyStepB (abs b.g).now (abs b'.g).now .sweptLive (some x) none ∧ (abs b.g).cells 1 = some x ∧
      SweeperRemoves b (.sweeper none) 1 :=
  readable_loss_is_sweptLive (reach_ent h1) h2 hl hl'

example : ∃ b b', runB entInit sweptLiveRun = .ok b ∧ stepB b (.sweeper none) noO = .ok (b', noO) ∧
    (abs b.g).look 1 = some 100 ∧ (abs b'.g).look 1 = none := ⟨_, _, rfl, rfl, rfl, rfl⟩

/-- the invariants `refinesB_inv` asks for hold at the states used above (they are reachable) -/
example (b : BState) (h : runB entInit sweptLiveRun = .ok b) :
    WAbsent b ∧ BInv b ∧ SweepInv b ∧ ∀ t, b.sw.now? = some t → t ≤ b.g.now :=
  have hr := reach_ent h
  ⟨wabsent_reach hr, binv_reach hr, C10_layerB_sweepInv hr, C10_layerB_sweep_clock hr⟩

end Cached.Spec
