/-
  WHAT A USER OF THE CACHE MAY RELY ON.

  This file is the whole specification.  It mentions neither the store, the soft-delete flag, ids, weights, the
  TinyLFU sketch, the command queue, acknowledgements nor the expiry index — only, for every key, the CELL a reader
  could get (a value and an optional deadline), a clock and the shutdown flag.

    * `S.read`      what `get` returns: the value of the key's cell unless the cache is shut down or the cell's
                    deadline has passed (`now > deadline`);   `S.readMany`: `multi_get`.
    * `Why`         the causes for which the cell of a key may change.
    * `KeyStep`     for each cause, how the cell changes — ALL the ways a cell may change; anything else never happens.

  `CachedProofs/Spec/Refine.lean` maps every state of the model (`CachedModel/State.lean`) to an `S` (`abs`), proves
  that EVERY step of the model moves EVERY key's cell by one `KeyStep` whose cause is justified by the event
  (`Spec.refines`, `Justified`), that reads return `S.read` (`Spec.reads_agree`), and derives C02/C03/C04/C09 from it.
-/

namespace Cached.Spec

/-- what a reader could get for a key, before looking at the clock -/
structure Cell where
  value : Nat
  deadline : Option Nat
  deriving DecidableEq, Repr

/-- clock.rs `has_passed`: STRICTLY later than the deadline; no deadline never expires -/
def Cell.expired (c : Cell) (now : Nat) : Bool :=
  match c.deadline with
  | some d => decide (now > d)
  | none => false

/-- the abstract state -/
structure S where
  now : Nat
  cells : Nat → Option Cell
  shut : Bool

/-- `get(k)` -/
def S.read (sp : S) (k : Nat) : Option Nat :=
  if sp.shut then none
  else match sp.cells k with
    | some c => if c.expired sp.now then none else some c.value
    | none => none

/-- `multi_get(ks)`: one `read` per key, all at the same instant; after shutdown the EMPTY list -/
def S.readMany (sp : S) (ks : List Nat) : List (Option Nat) :=
  if sp.shut then [] else ks.map sp.read

/-- Why the cell of a key changed. -/
inductive Why where
  /-- nothing happened to this key -/
  | unchanged
  /-- the worker applied a queued `put(k, v)` (`ttl = none`) / `put_with_ttl(k, v, t)` (`ttl = some t`) and accepted it -/
  | installed (v : Nat) (ttl : Option Nat)
  /-- `put_or_update(k, value := v, time_to_live := ttl, remove_time_to_live := rm)` was called on a present key -/
  | rewritten (v : Option Nat) (ttl : Option Nat) (rm : Bool)
  /-- `delete(k)` was CALLED (the command has not run yet) -/
  | hidden
  /-- the worker ran a `Delete(k)` command that had been queued BEFORE the present cell was installed -/
  | deleted
  /-- the sweeper removed a cell whose deadline had passed (no reader could see it any more) -/
  | expiredRemoved
  /-- memory pressure: the worker applied a put that did not fit into the free space -/
  | evicted
  /-- `shutdown()` ran to its end -/
  | cleared
  deriving DecidableEq, Repr

/-- the deadline `put_or_update` asks for: removed, `now + ttl`, or the old one -/
def newDeadline (now : Nat) (old ttl : Option Nat) (rm : Bool) : Option Nat :=
  if rm then none else match ttl with
    | some t => some (now + t)
    | none => old

/-- **All the ways the cell of one key may change in one step** (clock `now` before, `now'` after).
    The clock never runs backwards, and stands still in every step that changes a cell. -/
inductive KeyStep (now now' : Nat) : Why → Option Cell → Option Cell → Prop where
  | unchanged (c : Option Cell) : now ≤ now' → KeyStep now now' .unchanged c c
  /-- absent → present, with exactly the value put and the deadline `now + ttl` -/
  | installed (v : Nat) (ttl : Option Nat) : now' = now →
      KeyStep now now' (.installed v ttl) none (some ⟨v, ttl.map (now + ·)⟩)
  /-- present → present: the value replaced or kept, the deadline replaced / removed / kept, as requested -/
  | rewritten (c : Cell) (v ttl : Option Nat) (rm : Bool) : now' = now →
      KeyStep now now' (.rewritten v ttl rm) (some c) (some ⟨v.getD c.value, newDeadline now c.deadline ttl rm⟩)
  | hidden (c : Cell) : now' = now → KeyStep now now' .hidden (some c) none
  | deleted (c : Cell) : now' = now → KeyStep now now' .deleted (some c) none
  /-- only a cell that no reader could see any more -/
  | expiredRemoved (c : Cell) : now' = now → c.expired now = true → KeyStep now now' .expiredRemoved (some c) none
  | evicted (c : Cell) : now' = now → KeyStep now now' .evicted (some c) none
  | cleared (c : Option Cell) : now' = now → KeyStep now now' .cleared c none

theorem KeyStep.unchanged_eq {now now' : Nat} {c c' : Option Cell} (h : KeyStep now now' .unchanged c c') : c' = c := by
  cases h; rfl

/-! ### trivial facts about reading (all by unfolding) -/

theorem read_shut (sp : S) (k : Nat) (h : sp.shut = true) : sp.read k = none := by simp [S.read, h]

theorem read_absent (sp : S) (k : Nat) (h : sp.cells k = none) : sp.read k = none := by simp [S.read, h]

theorem read_cell (sp : S) (k : Nat) (c : Cell) (hs : sp.shut = false) (h : sp.cells k = some c) :
    sp.read k = if c.expired sp.now then none else some c.value := by simp [S.read, hs, h]

end Cached.Spec
