/-
  C12  Every acknowledgement resolves exactly once to the command's real outcome.

  All statements are about `CachedModel/Ack.lean` (`Cached.AckB`), the small-step slice of
  src/cache/command/acknowledgement.rs: the completing worker's three accesses (`setStatus`, `setFlag`,
  `wake`) interleaved with the accesses of any number of polling tasks (`lockRegister p w`, `loadFlag p`,
  `finishPoll p`).
  Quantifiers: every outcome `final`, every number of pollers `n`, EVERY schedule (list of actions) —
  hence every interleaving, any number of polls per task, arbitrary waker changes between polls.
  `Reachable final n s` (Lemmas/Ack.lean) is `∃ acts, run (init final n) acts = some s`.
  The inductive invariant `Inv` and its preservation proof are in Lemmas/Ack.lean.
-/
import CachedProofs.Lemmas.Ack

namespace Cached
namespace AckB

/-- the definitions the statements below are phrased with, restated so that they can be read here -/
theorem Reachable_def (final : Status) (n : Nat) (s : St) :
    Reachable final n s ↔ ∃ acts, run (init final n) acts = some s := Iff.rfl

theorem lastRegistered_nil : lastRegistered [] = none := rfl

theorem lastRegistered_append_register (pre post : List Act) (p w : Nat)
    (hpost : ∀ a ∈ post, ∀ p' w', a ≠ .lockRegister p' w') :
    lastRegistered (pre ++ .lockRegister p w :: post) = some w := by
  have hp : lastRegistered post = none := by
    induction post with
    | nil => rfl
    | cons a rest ih =>
      have h1 := ih (fun a ha => hpost a (List.mem_cons_of_mem _ ha))
      have h2 := hpost a List.mem_cons_self
      cases a <;> first | (simp only [lastRegistered, h1]; done) | exact absurd rfl (h2 _ _)
  induction pre with
  | nil => simp [lastRegistered, hp]
  | cons a rest ih => simp [lastRegistered, ih]

/-- The inductive invariant (`Inv`, Lemmas/Ack.lean: holds initially, preserved by every enabled step)
    holds in every reachable state; the recorded outcome and the number of pollers never change. -/
theorem C12_invariant {final : Status} {n : Nat} {s : St} (hr : Reachable final n s) :
    Inv s ∧ s.final = final ∧ s.pollers.length = n := hr.inv

/-- Mutual exclusion on the waker slot: the lock is `some p` exactly when poller `p` is inside a poll,
    and then every other poller is between polls. -/
theorem C12_mutex {final : Status} {n : Nat} {s : St} (hr : Reachable final n s) (p : Nat) :
    (s.lock = some p ↔ ∃ q, s.pollers[p]? = some q ∧ (q.pc = .registered ∨ q.pc = .sawDone)) ∧
    (s.lock = some p → ∀ (j : Nat) (q : Poller), j ≠ p → s.pollers[j]? = some q → q.pc = .idle) := by
  obtain ⟨inv, -, -⟩ := hr.inv
  refine ⟨inv.lock_iff p, fun hl j q hj hq => inv.others_idle j q hq ?_⟩
  rw [hl]
  intro h
  exact hj (Option.some.inj h).symm

/-! ### 1. the real outcome, never a stale `Pending` status -/

/-- Every poll result ever returned is `Pending` or `Ready(final)`. -/
theorem C12_real_outcome {final : Status} {n : Nat} {s : St} (hr : Reachable final n s) :
    ∀ q ∈ s.pollers, ∀ r ∈ q.results, r = .pending ∨ r = .ready final := by
  obtain ⟨inv, hf, -⟩ := hr.inv
  intro q hq r hres
  obtain ⟨p, hp⟩ := List.mem_iff_getElem?.mp hq
  cases r with
  | pending => exact Or.inl rfl
  | ready x => right; rw [(inv.ready_final p q x hp hres).1, hf]

/-- No poll ever resolves to `Ready(Pending)` (unless the command's outcome itself were `Pending`,
    which `done` is never called with). -/
theorem C12_no_pending {final : Status} {n : Nat} {s : St} (hr : Reachable final n s)
    (hfin : final ≠ .pending) : ∀ q ∈ s.pollers, ∀ r ∈ q.results, r ≠ .ready .pending := by
  intro q hq r hres heq
  rcases C12_real_outcome hr q hq r hres with h | h
  · rw [h] at heq; cases heq
  · rw [h] at heq; cases heq; exact hfin rfl

/-! ### 2. stability: after the first `Ready(s)`, every later poll returns `Ready(s)` -/

/-- A `Ready(x)` was returned only after the flag was published, and `x` is the real outcome. -/
theorem C12_ready_implies_flag {final : Status} {n : Nat} {s : St} {q : Poller} {x : Status}
    (hr : Reachable final n s) (hq : q ∈ s.pollers) (hres : .ready x ∈ q.results) :
    s.flag = true ∧ x = final := by
  obtain ⟨inv, hf, -⟩ := hr.inv
  obtain ⟨p, hp⟩ := List.mem_iff_getElem?.mp hq
  obtain ⟨h1, h2⟩ := inv.ready_final p q x hp hres
  exact ⟨h2, by rw [h1, hf]⟩

/-- The flag is never unset. -/
theorem C12_flag_monotone {s s' : St} {a : Act}
    (hflag : s.flag = true) (hs : step s a = some s') : s'.flag = true := by
  rcases step_cases hs with ⟨-, -, rfl⟩ | ⟨-, -, rfl⟩ | ⟨-, -, -, rfl⟩ | ⟨p, w, q, -, -, -, -, rfl⟩ |
    ⟨p, q, -, -, -, -, rfl⟩ | ⟨p, q, -, -, -, -, rfl⟩ | ⟨p, q, -, -, -, rfl⟩ <;> first | exact hflag | rfl

/-- Once the flag is published, every poll that completes yields `Ready(final)`; no other result is
    ever appended. -/
theorem C12_stable {final : Status} {n : Nat} {s s' : St} {a : Act}
    (hr : Reachable final n s) (hflag : s.flag = true) (hs : step s a = some s') :
    ∀ (p : Nat) (q q' : Poller), s.pollers[p]? = some q → s'.pollers[p]? = some q' →
      q'.results = q.results ∨ q'.results = .ready final :: q.results := by
  obtain ⟨inv, hf, -⟩ := hr.inv
  intro p q q' hq hq'
  rcases step_results hs hq hq' with h | ⟨-, hff, -, -⟩ | ⟨-, -, h⟩
  · exact Or.inl h
  · rw [hflag] at hff; cases hff
  · right
    have hc : s.cpc ≠ .beforeStatus := by
      rcases inv.flag_iff.mp hflag with h | h <;> rw [h] <;> decide
    rw [h, inv.status_after hc, hf]

/-- Stability over whole schedules: if some poll has returned `Ready(x)` in `s`, then in every later
    state every poller's results are its results in `s` with only `Ready(x)`s put in front. -/
theorem C12_stable_run {final : Status} {n : Nat} {x : Status} : ∀ (acts : List Act) {s s' : St} {q0 : Poller},
    Reachable final n s → q0 ∈ s.pollers → .ready x ∈ q0.results → run s acts = some s' →
    ∀ (p : Nat) (q q' : Poller), s.pollers[p]? = some q → s'.pollers[p]? = some q' →
      ∃ k, q'.results = List.replicate k (.ready x) ++ q.results := by
  intro acts
  induction acts with
  | nil =>
    intro s s' q0 _ _ _ hrun p q q' hq hq'
    simp only [run, Option.some.injEq] at hrun
    subst hrun
    rw [hq] at hq'; cases hq'
    exact ⟨0, rfl⟩
  | cons a rest ih =>
    intro s s' q0 hr hq0 hres hrun p q q' hq hq'
    simp only [run] at hrun
    cases hs : step s a with
    | none => simp [hs] at hrun
    | some s1 =>
      simp only [hs] at hrun
      obtain ⟨hflag, hx⟩ := C12_ready_implies_flag hr hq0 hres
      -- poller `p` in the intermediate state
      have hlen := step_pollers_length hs
      have hp1 : p < s1.pollers.length := by
        rw [hlen]
        rcases Nat.lt_or_ge p s.pollers.length with hl | hl
        · exact hl
        · rw [List.getElem?_eq_none hl] at hq; cases hq
      obtain ⟨q1, hq1⟩ : ∃ q1, s1.pollers[p]? = some q1 := ⟨_, List.getElem?_eq_getElem hp1⟩
      -- some poller of `s1` still has a `Ready(x)`
      obtain ⟨i, hi⟩ := List.mem_iff_getElem?.mp hq0
      have hi1 : i < s1.pollers.length := by
        rw [hlen]
        rcases Nat.lt_or_ge i s.pollers.length with hl | hl
        · exact hl
        · rw [List.getElem?_eq_none hl] at hi; cases hi
      have hqi : s1.pollers[i]? = some s1.pollers[i] := List.getElem?_eq_getElem hi1
      have hres1 : .ready x ∈ (s1.pollers[i]).results := by
        rcases C12_stable hr hflag hs i q0 _ hi hqi with h | h <;> rw [h]
        · exact hres
        · exact List.mem_cons_of_mem _ hres
      obtain ⟨k, hk⟩ := ih (hr.step hs) (List.mem_iff_getElem?.mpr ⟨i, hqi⟩) hres1 hrun p q1 q' hq1 hq'
      rcases C12_stable hr hflag hs p q q1 hq hq1 with h | h
      · exact ⟨k, by rw [hk, h]⟩
      · refine ⟨k + 1, ?_⟩
        rw [hk, h, hx, List.replicate_succ', List.append_assoc]
        rfl

/-! ### 3. `Pending` only before publication -/

/-- A poll can return `Pending` only while the flag is unset — hence before the wake section has run, so
    the waker it has just registered will be woken (see `C12_woken`) — and it has released the waker lock. -/
theorem C12_pending_only_before_publication {final : Status} {n : Nat} {s s' : St} {p : Nat} {q q' : Poller}
    (hr : Reachable final n s) (hs : step s (.loadFlag p) = some s')
    (hq : s.pollers[p]? = some q) (hq' : s'.pollers[p]? = some q')
    (hres : q'.results = .pending :: q.results) :
    (s.cpc = .beforeStatus ∨ s.cpc = .beforeFlag) ∧ s.flag = false ∧ s.wakes = [] ∧ s'.lock = none := by
  obtain ⟨inv, -, -⟩ := hr.inv
  rcases step_results hs hq hq' with h | ⟨-, hff, hl, -⟩ | ⟨h, -, -⟩
  · rw [h] at hres
    exact absurd hres.symm (List.cons_ne_self _ _)
  · have hnf : ¬ (s.cpc = .beforeWake ∨ s.cpc = .finished) := by
      intro h; rw [inv.flag_iff.mpr h] at hff; cases hff
    have hc : s.cpc = .beforeStatus ∨ s.cpc = .beforeFlag := by
      cases hcpc : s.cpc <;> simp_all
    refine ⟨hc, hff, inv.wakes_nil ?_, hl⟩
    intro h; exact hnf (Or.inr h)
  · cases h

/-! ### 4. the most recent poller is woken, exactly once -/

/-- At most one wake is ever issued, and only by the completed `done`. -/
theorem C12_wake_once {final : Status} {n : Nat} {s : St} (hr : Reachable final n s) :
    s.wakes.length ≤ 1 ∧ (s.wakes.length = 1 → s.cpc = .finished) := by
  obtain ⟨inv, -, -⟩ := hr.inv
  refine ⟨inv.wakes_le, fun h => ?_⟩
  apply Classical.byContradiction
  intro hne
  rw [inv.wakes_nil hne] at h
  cases h

/-- The task that most recently polled before the wake section is woken: whatever happened before
    (`pre`) and after (`post`), if `w` is the waker of the last registration in `pre`, `w` is in `wakes`. -/
theorem C12_woken {final : Status} {n : Nat} {s : St} {pre post : List Act} {w : Nat}
    (hrun : run (init final n) (pre ++ [Act.wake] ++ post) = some s)
    (hlast : lastRegistered pre = some w) : w ∈ s.wakes := by
  obtain ⟨m2, h12, hpost⟩ := (run_append _ _).mp hrun
  obtain ⟨m1, hpre, hwake⟩ := (run_snoc _ _).mp h12
  have hslot := run_slot pre _ _ hpre
  rw [hlast] at hslot
  refine run_wakes_mem post m2 s hpost ?_
  simp only [step] at hwake
  split at hwake
  · simp only [Option.some.injEq] at hwake
    subst hwake
    simp only [hslot]
    exact List.mem_cons_self
  · cases hwake

/-- ... and it is the only one woken. -/
theorem C12_woken_exactly {final : Status} {n : Nat} {s : St} {pre post : List Act} {w : Nat}
    (hrun : run (init final n) (pre ++ [Act.wake] ++ post) = some s)
    (hlast : lastRegistered pre = some w) : s.wakes = [w] := by
  have hmem := C12_woken hrun hlast
  have hlen := (C12_wake_once ⟨_, hrun⟩).1
  cases hw : s.wakes with
  | nil => rw [hw] at hmem; cases hmem
  | cons a rest =>
    rw [hw] at hmem hlen
    cases rest with
    | nil =>
      rcases List.mem_cons.mp hmem with h | h
      · rw [h]
      · cases h
    | cons b rest' => simp only [List.length_cons] at hlen; omega

/-- If nobody polled before the wake section, nobody is woken (and nobody needs to be: every later poll
    sees the flag, `C12_stable`). -/
theorem C12_no_spurious_wake {final : Status} {n : Nat} {s : St} {pre post : List Act}
    (hrun : run (init final n) (pre ++ [Act.wake] ++ post) = some s)
    (hlast : lastRegistered pre = none) : s.wakes = [] := by
  obtain ⟨m2, h12, hpost⟩ := (run_append _ _).mp hrun
  obtain ⟨m1, hpre, hwake⟩ := (run_snoc _ _).mp h12
  have hslot := run_slot pre _ _ hpre
  rw [hlast] at hslot
  have hm1 : m1.wakes = [] := by
    obtain ⟨inv, -, -⟩ := (show Reachable final n m1 from ⟨pre, hpre⟩).inv
    simp only [step] at hwake
    split at hwake
    · rename_i hc; exact inv.wakes_nil (by rw [hc.1]; decide)
    · cases hwake
  have hm2 : m2.wakes = [] ∧ m2.cpc = .finished := by
    simp only [step] at hwake
    split at hwake
    · simp only [Option.some.injEq] at hwake
      subst hwake
      refine ⟨?_, rfl⟩
      simp only [hslot]
      exact hm1
    · cases hwake
  -- after `finished` no step changes `wakes`
  have hkeep : ∀ (acts : List Act) (t t' : St), (t.wakes = [] ∧ t.cpc = .finished) → run t acts = some t' →
      (t'.wakes = [] ∧ t'.cpc = .finished) := by
    refine run_induction (P := fun t => t.wakes = [] ∧ t.cpc = .finished) ?_
    rintro t a t' ⟨hw, hc⟩ hs
    rcases step_cases hs with ⟨-, h, rfl⟩ | ⟨-, h, rfl⟩ | ⟨-, h, -, rfl⟩ | ⟨p, w, q, -, -, -, -, rfl⟩ |
      ⟨p, q, -, -, -, -, rfl⟩ | ⟨p, q, -, -, -, -, rfl⟩ | ⟨p, q, -, -, -, rfl⟩ <;>
      first | exact ⟨hw, hc⟩ | (rw [hc] at h; cases h)
  exact (hkeep post m2 s hm2 hpost).1

/-! ### 5. effects before resolution -/

/-- When a poll has resolved, `done` has already stored the status and published the flag.  (`done` is
    called by the worker only after the command's effects; that call order is outside this slice.) -/
theorem C12_effect_before_resolution {final : Status} {n : Nat} {s : St} {q : Poller} {x : Status}
    (hr : Reachable final n s) (hq : q ∈ s.pollers) (hres : .ready x ∈ q.results) :
    s.status = final ∧ s.cpc ≠ .beforeStatus ∧ s.cpc ≠ .beforeFlag := by
  obtain ⟨inv, hf, -⟩ := hr.inv
  obtain ⟨hflag, -⟩ := C12_ready_implies_flag hr hq hres
  have hc := inv.flag_iff.mp hflag
  have h1 : s.cpc ≠ .beforeStatus := by rcases hc with h | h <;> rw [h] <;> decide
  have h2 : s.cpc ≠ .beforeFlag := by rcases hc with h | h <;> rw [h] <;> decide
  exact ⟨by rw [inv.status_after h1, hf], h1, h2⟩

/-! ### 6. progress -/

/-- Whoever holds the waker lock can always take a step, and is back to `idle` with the lock released after
    at most two of its own steps (`loadFlag`, then possibly `finishPoll`) — the critical section is finite
    and never waits for anybody. -/
theorem C12_poll_finishes {final : Status} {n : Nat} {s : St} {p : Nat}
    (hr : Reachable final n s) (hl : s.lock = some p) :
    ((step s (.loadFlag p)).isSome ∨ (step s (.finishPoll p)).isSome) ∧
    ∃ acts s' q', acts.length ≤ 2 ∧ (∀ a ∈ acts, a = .loadFlag p ∨ a = .finishPoll p) ∧
      run s acts = some s' ∧ s'.lock = none ∧ s'.pollers[p]? = some q' ∧ q'.pc = .idle := by
  obtain ⟨inv, -, -⟩ := hr.inv
  obtain ⟨q, hq, hpc⟩ := inv.lock_holder p hl
  -- the last step of a poll
  have fin : ∀ (t : St) (qt : Poller), t.pollers[p]? = some qt → qt.pc = .sawDone →
      ∃ t' q', step t (.finishPoll p) = some t' ∧ t'.lock = none ∧ t'.pollers[p]? = some q' ∧ q'.pc = .idle := by
    intro t qt ht hpt
    refine ⟨setPoller { t with lock := none } p { qt with pc := .idle, results := .ready t.status :: qt.results },
      { qt with pc := .idle, results := .ready t.status :: qt.results },
      by simp only [step, ht, hpt, if_true], rfl, ?_, rfl⟩
    · rw [getElem?_setPoller (s := { t with lock := none }) ht]; simp only [if_true]
  rcases hpc with hpc | hpc
  · cases hflag : s.flag with
    | false =>
      have hs : step s (.loadFlag p) = some (setPoller { s with lock := none } p
          { q with pc := .idle, results := .pending :: q.results }) := by
        simp [step, hq, hpc, hflag]
      refine ⟨Or.inl (by rw [hs]; rfl), [.loadFlag p],
        setPoller { s with lock := none } p { q with pc := .idle, results := .pending :: q.results },
        { q with pc := .idle, results := .pending :: q.results }, by simp, by simp, by simp only [run, hs], rfl, ?_, rfl⟩
      rw [getElem?_setPoller (s := { s with lock := none }) hq]; simp only [if_true]
    | true =>
      have hs : step s (.loadFlag p) = some (setPoller s p { q with pc := .sawDone }) := by
        simp [step, hq, hpc, hflag]
      have h1 : (setPoller s p { q with pc := .sawDone }).pollers[p]? = some { q with pc := .sawDone } := by
        rw [getElem?_setPoller hq]; simp only [if_true]
      obtain ⟨t', q', ht', hl', hq', hidle⟩ := fin _ _ h1 rfl
      refine ⟨Or.inl (by rw [hs]; rfl), [.loadFlag p, .finishPoll p], t', q', by simp, by simp,
        by simp only [run, hs, ht'], hl', hq', hidle⟩
  · obtain ⟨t', q', ht', hl', hq', hidle⟩ := fin s q hq hpc
    exact ⟨Or.inr (by rw [ht']; rfl), [.finishPoll p], t', q', by simp, by simp, by simp only [run, ht'], hl', hq', hidle⟩

/-- Until `done` has finished, the completer can advance, or the lock holder can (and then the completer
    can, `C12_poll_finishes`): nobody waits for ever. -/
theorem C12_progress {final : Status} {n : Nat} {s : St} (hr : Reachable final n s) (hc : s.cpc ≠ .finished) :
    (∃ a, (a = .setStatus ∨ a = .setFlag ∨ a = .wake) ∧ (step s a).isSome) ∨
    (∃ p, s.lock = some p ∧ ((step s (.loadFlag p)).isSome ∨ (step s (.finishPoll p)).isSome)) := by
  cases hcpc : s.cpc with
  | beforeStatus => exact Or.inl ⟨.setStatus, Or.inl rfl, by simp [step, hcpc]⟩
  | beforeFlag => exact Or.inl ⟨.setFlag, Or.inr (Or.inl rfl), by simp [step, hcpc]⟩
  | finished => exact absurd hcpc hc
  | beforeWake =>
    cases hl : s.lock with
    | none => exact Or.inl ⟨.wake, Or.inr (Or.inr rfl), by simp [step, hcpc, hl]⟩
    | some p => exact Or.inr ⟨p, rfl, (C12_poll_finishes hr hl).1⟩

/-- The only thing the wake section ever waits for is the (finite) critical section of a poll. -/
theorem C12_wake_enabled_iff {final : Status} {n : Nat} {s : St} (_hr : Reachable final n s) :
    (step s .wake).isSome ↔ s.cpc = .beforeWake ∧ s.lock = none := by
  simp only [step]
  split <;> simp_all

/-! ### 7. sensitivity: the order of the two stores matters -/

/-- `step` with the completer's first two stores swapped — flag first, status second — which is the order
    `done` had before it was repaired.  Every other action is that of `step`. -/
def stepFlagFirst (s : St) : Act → Option St
  | .setStatus => if s.cpc = .beforeStatus then some { s with flag := true, cpc := .beforeFlag } else none
  | .setFlag => if s.cpc = .beforeFlag then some { s with status := s.final, cpc := .beforeWake } else none
  | .wake =>
    if s.cpc = .beforeWake ∧ s.lock = none then
      some { s with cpc := .finished, wakes := (match s.slot with | some w => w :: s.wakes | none => s.wakes) }
    else none
  | .lockRegister p w =>
    match s.pollers[p]? with
    | some q =>
      if q.pc = .idle ∧ s.lock = none then
        some (setPoller { s with lock := some p, slot := some w } p { q with pc := .registered, waker := w })
      else none
    | none => none
  | .loadFlag p =>
    match s.pollers[p]? with
    | some q =>
      if q.pc = .registered then
        if s.flag then some (setPoller s p { q with pc := .sawDone })
        else some (setPoller { s with lock := none } p { q with pc := .idle, results := .pending :: q.results })
      else none
    | none => none
  | .finishPoll p =>
    match s.pollers[p]? with
    | some q =>
      if q.pc = .sawDone then
        some (setPoller { s with lock := none } p { q with pc := .idle, results := .ready s.status :: q.results })
      else none
    | none => none

def runFlagFirst (s : St) : List Act → Option St
  | [] => some s
  | a :: rest => match stepFlagFirst s a with
    | some s' => runFlagFirst s' rest
    | none => none

/-- the copy differs from `step` in the completer's two stores only -/
theorem stepFlagFirst_eq_step (s : St) (a : Act) (h1 : a ≠ .setStatus) (h2 : a ≠ .setFlag) :
    stepFlagFirst s a = step s a := by
  cases a <;> first | rfl | exact absurd rfl h1 | exact absurd rfl h2

/-- Flag first: a poll squeezed between the two stores resolves to `Ready(Pending)` although the command
    was accepted — the acknowledgement resolves to something that is not the command's outcome. -/
example :
    (runFlagFirst (init .accepted 1) [.setStatus, .lockRegister 0 7, .loadFlag 0, .finishPoll 0]).map
      (fun s => s.pollers.map (·.results)) = some [[.ready .pending]] := by decide

/-- So `C12_no_pending` (and with it `C12_real_outcome`, `C12_stable`, `C12_effect_before_resolution`) is
    false of the flag-first order ... -/
example : ∃ acts s q, runFlagFirst (init .accepted 1) acts = some s ∧ q ∈ s.pollers ∧
    .ready .pending ∈ q.results :=
  ⟨[.setStatus, .lockRegister 0 7, .loadFlag 0, .finishPoll 0], _, { waker := 7, results := [.ready .pending] }, rfl,
    by decide, by decide⟩

/-- ... while in the repaired order the same poll, at the same place, returns `Pending` and cannot finish
    with a `Ready` at all. -/
example :
    (run (init .accepted 1) [.setStatus, .lockRegister 0 7, .loadFlag 0]).map
      (fun s => s.pollers.map (·.results)) = some [[.pending]] ∧
    run (init .accepted 1) [.setStatus, .lockRegister 0 7, .loadFlag 0, .finishPoll 0] = none := by decide

/-! ### 8. non-vacuity -/

/-- two pollers; poller 0 polls `Pending` with waker 5, poller 1 polls `Pending` with waker 6 after the
    status is stored but before the flag, poller 0 comes back with a NEW waker 8, sees the flag and resolves;
    `done` wakes 8 — the last registered waker — once; poller 1 then polls (unwoken) and resolves too. -/
def demo : List Act :=
  [.lockRegister 0 5, .loadFlag 0, .setStatus, .lockRegister 1 6, .loadFlag 1, .lockRegister 0 8, .setFlag,
   .loadFlag 0, .finishPoll 0, .wake, .lockRegister 1 6, .loadFlag 1, .finishPoll 1]

example : run (init .accepted 2) demo = some
    { final := .accepted, status := .accepted, flag := true, slot := some 6, lock := none, cpc := .finished,
      pollers := [{ pc := .idle, waker := 8, results := [.ready .accepted, .pending] },
                  { pc := .idle, waker := 6, results := [.ready .accepted, .pending] }],
      wakes := [8] } := by decide

example : Reachable .accepted 2
    { final := .accepted, status := .accepted, flag := true, slot := some 6, lock := none, cpc := .finished,
      pollers := [{ pc := .idle, waker := 8, results := [.ready .accepted, .pending] },
                  { pc := .idle, waker := 6, results := [.ready .accepted, .pending] }],
      wakes := [8] } := ⟨demo, by decide⟩

/-- the premises of `C12_woken` are met by that run -/
example : demo = [.lockRegister 0 5, .loadFlag 0, .setStatus, .lockRegister 1 6, .loadFlag 1, .lockRegister 0 8,
      .setFlag, .loadFlag 0, .finishPoll 0] ++ [Act.wake] ++ [.lockRegister 1 6, .loadFlag 1, .finishPoll 1] ∧
    lastRegistered [.lockRegister 0 5, .loadFlag 0, .setStatus, .lockRegister 1 6, .loadFlag 1,
      .lockRegister 0 8, .setFlag, .loadFlag 0, .finishPoll 0] = some 8 ∧
    (run (init .accepted 2) demo).map (·.wakes) = some [8] := by decide

/-- the wake section waits for a poll in progress: while poller 0 holds the waker lock `wake` is not
    enabled, the poller's own steps are, and afterwards `wake` is -/
example :
    (run (init .shuttingDown 1) [.setStatus, .setFlag, .lockRegister 0 3, .wake]) = none ∧
    (run (init .shuttingDown 1) [.setStatus, .setFlag, .lockRegister 0 3, .loadFlag 0, .finishPoll 0, .wake]).map
      (fun s => (s.wakes, s.pollers.map (·.results))) = some ([3], [[.ready .shuttingDown]]) := by decide

/-- mutual exclusion is really exercised: a second poller cannot enter while the first is inside -/
example : run (init .accepted 2) [.lockRegister 0 1, .lockRegister 1 2] = none := by decide

end AckB
end Cached
