/-
  C14  Frequency estimates never under-count, saturate safely and age by halving.

  All statements are about `CachedModel/Sketch.lean`, the transcription of src/cache/lfu/*.rs that the
  correspondence check runs against the real `Row`, `FrequencyCounter` and `TinyLFU` on every run.
  Quantifiers: every byte value and nibble (decided exhaustively by the kernel), every row, position,
  hash, seed list, access stream, every even `total ≥ 2` (what `next_power_2(..).max(2)` produces).
-/
import CachedProofs.Lemmas.Sketch
import CachedProofs.Lemmas.NextPower2

namespace Cached

/-- Well-formed sketch: at least one row, `total` even and ≥ 2, every row `total/2` bytes long. -/
def FreqCounter.WF (fc : FreqCounter) : Prop := RowsWF fc.total fc.rows ∧ fc.rows ≠ []

/-- Byte level, all 256 × 2 cases: an increment is `min (c+1) 15` (saturates, never wraps),
    leaves the sibling nibble alone (no carry), and ageing halves each nibble rounding down. -/
theorem C14_byte_level (b : Byte) (odd : Bool) :
    nib (incNib b odd) odd = min (nib b odd + 1) 15 ∧
    nib (incNib b odd) (!odd) = nib b (!odd) ∧
    nib (halfByte b) odd = nib b odd / 2 ∧
    nib b odd < 16 :=
  ⟨nib_incNib_same b odd, nib_incNib_other b odd, nib_halfByte b odd, nib_lt_16 b odd⟩

/-- Row level: incrementing position `p` changes exactly that counter, to `min (c+1) 15`. -/
theorem C14_row_increment (r r' : Row) (p : Nat) (h : r.incrementAt p = some r') :
    r'.getAt p = (r.getAt p).map (fun c => min (c + 1) 15) ∧
    (∀ q, q ≠ p → r'.getAt q = r.getAt q) ∧ r'.length = r.length :=
  ⟨Row.getAt_incrementAt_same h, fun _ hq => Row.getAt_incrementAt_other h hq, Row.incrementAt_length h⟩

/-- No index is ever out of bounds in a well-formed sketch: increments and estimates are defined. -/
theorem C14_in_bounds (fc : FreqCounter) (wf : fc.WF) (h : Nat) :
    (∃ fc', fc.increment h = some fc' ∧ fc'.WF) ∧ (∃ e, fc.estimate h = some e ∧ e ≤ 15) := by
  obtain ⟨rows', hr, wf'⟩ := incRows_isSome wf.1 h
  obtain ⟨e, he, _⟩ := estRows_isSome wf.1 h 255
  refine ⟨⟨{ fc with rows := rows' }, by simp [FreqCounter.increment, hr], wf', ?_⟩, e, he, estRows_le_15 wf.2 h 255 e he⟩
  intro hnil
  simp only at hnil
  subst hnil
  cases hrows : fc.rows with
  | nil => exact wf.2 hrows
  | cons p rest =>
    obtain ⟨s, r⟩ := p
    rw [hrows] at hr
    simp only [incRows] at hr
    split at hr <;> simp at hr

/-- Incrementing `h` raises its estimate by exactly one, saturating at 15; incrementing any other hash
    never lowers it. -/
theorem C14_increment_effect (fc fc' : FreqCounter) (wf : fc.WF) (h h' e : Nat)
    (hinc : fc.increment h' = some fc') (he : fc.estimate h = some e) :
    (h' = h → fc'.estimate h = some (min (e + 1) 15)) ∧ (∃ e', fc'.estimate h = some e' ∧ e ≤ e') := by
  unfold FreqCounter.increment at hinc
  cases hr : incRows fc.total h' fc.rows with
  | none => simp [hr] at hinc
  | some rows' =>
    simp only [hr, Option.some.injEq] at hinc
    subst hinc
    constructor
    · intro heq
      subst heq
      exact estRows_self_incRows h' fc.rows rows' 255 255 e hr (Or.inr ⟨rfl, rfl, wf.2⟩) he
    · exact estRows_mono_incRows h h' fc.rows rows' 255 255 e hr (Nat.le_refl _) he

/-- the quantity that never under-counts: sketch estimate plus the doorkeeper bit -/
def TinyLFU.potential (t : TinyLFU) (h : Nat) : Option Nat :=
  (t.fc.estimate h).map (fun e => e + (if t.dk.contains h then 1 else 0))

/-- A run of recorded accesses `(hash, result of add_if_missing)` without ageing. -/
def TinyLFU.run (t : TinyLFU) : List (Nat × Bool) → Option TinyLFU
  | [] => some t
  | (h, added) :: rest =>
    if !t.addLegal h added then none
    else match t.incrementFor h added with
      | some t' => TinyLFU.run t' rest
      | none => none

theorem TinyLFU.incrementFor_noReset {t t' : TinyLFU} {h : Nat} {added : Bool}
    (hlt : t.incs + 1 < t.resetAt) (hi : t.incrementFor h added = some t') :
    t'.incs = t.incs + 1 ∧ t'.resetAt = t.resetAt ∧
    ((added = true ∧ t'.dk = h :: t.dk ∧ t'.fc = t.fc) ∨
     (added = false ∧ t'.dk = t.dk ∧ t.fc.increment h = some t'.fc)) := by
  unfold TinyLFU.incrementFor at hi
  cases added with
  | true =>
    simp only [if_true] at hi
    have : ¬ (t.incs + 1 ≥ t.resetAt) := by omega
    simp only [this, if_false, Option.some.injEq] at hi
    subst hi
    simp
  | false =>
    simp only [Bool.false_eq_true, if_false] at hi
    cases hfc : t.fc.increment h with
    | none => simp [hfc] at hi
    | some fc' =>
      simp only [hfc] at hi
      have : ¬ (t.incs + 1 ≥ t.resetAt) := by omega
      simp only [this, if_false, Option.some.injEq] at hi
      subst hi
      simp

theorem TinyLFU.incrementFor_wf {t t' : TinyLFU} {h : Nat} {added : Bool} (wf : t.fc.WF)
    (hi : t.incrementFor h added = some t') : t'.fc.WF := by
  have hreset : ∀ fc : FreqCounter, fc.WF → fc.reset.WF := by
    intro fc w
    refine ⟨⟨w.1.1, w.1.2.1, ?_⟩, ?_⟩
    · intro p hp
      simp only [FreqCounter.reset, List.mem_map] at hp
      obtain ⟨q, hq, rfl⟩ := hp
      simp [Row.half, w.1.2.2 q hq, FreqCounter.reset]
    · simp only [FreqCounter.reset]
      intro hnil
      exact w.2 (List.map_eq_nil_iff.mp hnil)
  unfold TinyLFU.incrementFor at hi
  cases added with
  | true =>
    simp only [if_true] at hi
    split at hi
    · simp only [Option.some.injEq] at hi; subst hi; exact hreset _ wf
    · simp only [Option.some.injEq] at hi; subst hi; exact wf
  | false =>
    simp only [Bool.false_eq_true, if_false] at hi
    cases hfc : t.fc.increment h with
    | none => simp [hfc] at hi
    | some fc' =>
      obtain ⟨⟨fc'', h1, w''⟩, _⟩ := C14_in_bounds t.fc wf h
      rw [hfc] at h1
      cases h1
      simp only [hfc] at hi
      split at hi
      · simp only [Option.some.injEq] at hi; subst hi; exact hreset _ w''
      · simp only [Option.some.injEq] at hi; subst hi; exact w''

/-- **Never under-counts.** Within one ageing window, after any legal run of recorded accesses
    (any interleaving with other hashes, any Bloom-filter false positives), the estimate of `h`
    — for every legal doorkeeper answer — is at least the number of recorded accesses of `h`, capped at 15,
    and never more than 16. -/
theorem C14_never_undercounts (h : Nat) :
    ∀ (stream : List (Nat × Bool)) (t t' : TinyLFU) (n : Nat), t.fc.WF →
      t.incs + stream.length < t.resetAt →
      (∃ p, t.potential h = some p ∧ min n 15 ≤ p) →
      t.run stream = some t' →
      ∃ p', t'.potential h = some p' ∧ min (n + (stream.filter (fun a => a.1 == h)).length) 15 ≤ p' := by
  intro stream
  induction stream with
  | nil =>
    intro t t' n _ _ hp hrun
    simp only [TinyLFU.run, Option.some.injEq] at hrun
    subst hrun
    simpa using hp
  | cons a rest ih =>
    intro t t' n wf hlen hp hrun
    obtain ⟨h', added⟩ := a
    simp only [TinyLFU.run] at hrun
    split at hrun
    · cases hrun
    · rename_i hlegal
      cases hi : t.incrementFor h' added with
      | none => simp [hi] at hrun
      | some t1 =>
        simp only [hi] at hrun
        simp only [List.length_cons] at hlen
        obtain ⟨hincs, hres, hcase⟩ := TinyLFU.incrementFor_noReset (by omega) hi
        have wf1 := TinyLFU.incrementFor_wf wf hi
        obtain ⟨p, hpot, hpn⟩ := hp
        unfold TinyLFU.potential at hpot
        cases hest : t.fc.estimate h with
        | none => simp [hest] at hpot
        | some e =>
          simp only [hest, Option.map_some, Option.some.injEq] at hpot
          have he15 : e ≤ 15 := estRows_le_15 wf.2 h 255 e hest
          -- potential after this access
          have step : ∃ p1, t1.potential h = some p1 ∧
              min (n + (if h' == h then 1 else 0)) 15 ≤ p1 := by
            rcases hcase with ⟨hadd, hdk, hfc⟩ | ⟨hadd, hdk, hfc⟩
            · -- the doorkeeper took it
              subst hadd
              unfold TinyLFU.potential
              rw [hfc, hest, hdk]
              refine ⟨_, rfl, ?_⟩
              by_cases hh : h' = h
              · subst hh
                have hnot : t.dk.contains h' = false := by
                  simp only [TinyLFU.addLegal, Bool.not_true, Bool.or_false, Bool.or_true, Bool.and_true,
                    Bool.not_eq_true'] at hlegal
                  simpa using hlegal
                have hnew : (h' :: t.dk).contains h' = true := by simp
                rw [hnot] at hpot
                rw [hnew]
                simp only [Bool.false_eq_true, if_false] at hpot
                simp only [beq_self_eq_true, if_true]
                omega
              · have hb : (h' == h) = false := by simp [hh]
                have hnew : (h' :: t.dk).contains h = t.dk.contains h := by
                  simp [Ne.symm hh]
                rw [hnew]
                simp only [hb, Bool.false_eq_true, if_false]
                omega
            · -- the sketch counted it
              obtain ⟨hself, e', he', hle⟩ := C14_increment_effect t.fc t1.fc wf h h' e hfc hest
              unfold TinyLFU.potential
              rw [hdk]
              by_cases hh : h' = h
              · rw [hself hh]
                refine ⟨_, rfl, ?_⟩
                have hb : (h' == h) = true := by simp [hh]
                simp only [hb, if_true]
                cases hc : t.dk.contains h <;> simp only [hc, Bool.false_eq_true, if_false, if_true] at hpot ⊢ <;> omega
              · rw [he']
                refine ⟨_, rfl, ?_⟩
                have hb : (h' == h) = false := by simp [hh]
                simp only [hb, Bool.false_eq_true, if_false]
                cases hc : t.dk.contains h <;> simp only [hc, Bool.false_eq_true, if_false, if_true] at hpot ⊢ <;> omega
          obtain ⟨p1, hp1, hb1⟩ := step
          have := ih t1 t' (n + (if h' == h then 1 else 0)) wf1 (by omega) ⟨p1, hp1, hb1⟩ hrun
          obtain ⟨p', hp', hb'⟩ := this
          refine ⟨p', hp', ?_⟩
          simp only [List.filter_cons]
          by_cases hh : (h' == h) = true
          · simp only [hh, if_true, List.length_cons] at hb' ⊢; omega
          · simp only [hh] at hb' ⊢; simpa using hb'

/-- The estimate reported for `h` (any legal doorkeeper answer `b`) dominates the potential and is at most 16. -/
theorem C14_estimate_bounds (t : TinyLFU) (wf : t.fc.WF) (h : Nat) (b : Bool) (legal : t.hasLegal h b = true)
    (p : Nat) (hp : t.potential h = some p) :
    ∃ e, t.estimate h b = some e ∧ p ≤ e ∧ e ≤ 16 := by
  unfold TinyLFU.potential at hp
  unfold TinyLFU.estimate
  cases hest : t.fc.estimate h with
  | none => simp [hest] at hp
  | some e =>
    have he15 : e ≤ 15 := estRows_le_15 wf.2 h 255 e hest
    simp only [hest, Option.map_some, Option.some.injEq] at hp
    refine ⟨_, rfl, ?_, ?_⟩
    · unfold TinyLFU.hasLegal at legal
      cases hc : t.dk.contains h <;> cases b <;> simp_all <;> omega
    · split <;> omega

/-- **Ageing.** The access that makes the number of recorded accesses reach `resetAt` — and no earlier one —
    halves every counter (rounding down), clears the doorkeeper and restarts the count. -/
theorem C14_ageing (t t' : TinyLFU) (h : Nat) (added : Bool) (hi : t.incrementFor h added = some t') :
    (t.incs + 1 < t.resetAt → t'.incs = t.incs + 1 ∧ (added = true → t'.fc = t.fc)) ∧
    (t.incs + 1 ≥ t.resetAt → t'.incs = 0 ∧ t'.dk = [] ∧
      ∃ fc1, (if added then some t.fc else t.fc.increment h) = some fc1 ∧ t'.fc = fc1.reset) := by
  constructor
  · intro hlt
    obtain ⟨h1, _, hc⟩ := TinyLFU.incrementFor_noReset hlt hi
    refine ⟨h1, ?_⟩
    intro ha
    rcases hc with ⟨_, _, hfc⟩ | ⟨hf, _, _⟩
    · exact hfc
    · simp [ha] at hf
  · intro hge
    unfold TinyLFU.incrementFor at hi
    cases added with
    | true =>
      simp only [if_true] at hi
      simp only [hge, if_true, Option.some.injEq] at hi
      subst hi
      exact ⟨rfl, rfl, t.fc, rfl, rfl⟩
    | false =>
      simp only [Bool.false_eq_true, if_false] at hi
      cases hfc : t.fc.increment h with
      | none => simp [hfc] at hi
      | some fc' =>
        simp only [hfc] at hi
        simp only [hge, if_true, Option.some.injEq] at hi
        subst hi
        exact ⟨rfl, rfl, fc', rfl, rfl⟩

/-- **Ageing clears the first-access filter.**  In the state right after ageing the filter holds nothing, so every
    answer it may legally give is "absent": no key carries the `+1` of the filter any more (its estimate is the bare
    sketch estimate, which was just halved), and the next recorded access of ANY key is taken by the filter as a first
    access instead of being counted.  (The legality predicates are what the correspondence check enforces on the
    doorkeeper answers tapped from the real Bloom filter: a filter that is not cleared on ageing gives an answer this
    theorem excludes, and the driver rejects it.) -/
theorem C14_ageing_clears_filter (t t' : TinyLFU) (h : Nat) (added : Bool) (hi : t.incrementFor h added = some t')
    (hge : t.incs + 1 ≥ t.resetAt) :
    t'.dk = [] ∧ (∀ h' b, t'.hasLegal h' b = true → b = false) ∧ (∀ h' a, t'.addLegal h' a = true → a = true) ∧
    (∀ h' b, t'.hasLegal h' b = true → t'.estimate h' b = t'.fc.estimate h') := by
  have hdk : t'.dk = [] := ((C14_ageing t t' h added hi).2 hge).2.1
  have hhas : ∀ h' b, t'.hasLegal h' b = true → b = false := by
    intro h' b hl
    unfold TinyLFU.hasLegal at hl
    rw [hdk] at hl
    cases b <;> simp_all
  refine ⟨hdk, hhas, ?_, ?_⟩
  · intro h' a hl
    unfold TinyLFU.addLegal at hl
    rw [hdk] at hl
    cases a <;> simp_all
  · intro h' b hl
    have hb := hhas h' b hl
    subst hb
    unfold TinyLFU.estimate
    cases t'.fc.estimate h' <;> simp

/-- the premises are met: two counters, ageing at the second recorded access; the key seen once before ageing has
    estimate 1 before and 0 after, and a doorkeeper that still answered "present" would be rejected -/
example :
    ((TinyLFU.new 2 [1, 2, 3, 4]).incrementFor 7 true).bind (fun t1 => (t1.incrementFor 9 true).map (fun t2 =>
      [t1.hasLegal 7 true, t1.estimate 7 true == some 1, decide (t1.incs + 1 ≥ t1.resetAt),
       t2.hasLegal 7 true, t2.hasLegal 7 false, t2.estimate 7 false == some 0, t2.addLegal 7 false, t2.addLegal 7 true]))
    = some [true, true, true, false, true, true, false, true] := by decide

/-- what "halved" means for every counter of every row -/
theorem C14_reset_halves (fc : FreqCounter) (seed : Nat) (row : Row) (hmem : (seed, row) ∈ fc.rows) (p : Nat) :
    (seed, row.half) ∈ fc.reset.rows ∧ row.half.getAt p = (row.getAt p).map (fun c => c / 2) :=
  ⟨List.mem_map.mpr ⟨(seed, row), hmem, rfl⟩, Row.half_getAt row p⟩

/-- `next_power_2` (with the repaired lower bound 2): always a power of two ≥ 2 (in particular even), and for
    `1 ≤ c ≤ 2^63` the LEAST power of two not below `c` — proved in the kernel on the 64-bit or-shift cascade. -/
theorem C14_next_power_of_two (c : Nat) :
    (∃ j, 1 ≤ j ∧ j ≤ 63 ∧ nextPower2 c = 2 ^ j) ∧ nextPower2 c % 2 = 0 ∧ 2 ≤ nextPower2 c ∧
    (1 ≤ c → c ≤ 2 ^ 63 → c ≤ nextPower2 c) ∧ (2 ≤ c → c ≤ 2 ^ 63 → nextPower2 c < 2 * c) := by
  refine ⟨nextPower2_isPow2 c, nextPower2_even c, nextPower2_ge_two c, ?_, ?_⟩
  · intro h1 h2
    obtain ⟨_, _, h⟩ := nextPower2_pow2 c h1 h2
    exact h
  · intro h1 h2
    exact nextPower2_lt_double c h1 h2

/-- Every sketch the crate builds (any `counters`, any non-empty seed list — the crate uses four) is well formed,
    so by `C14_in_bounds` no increment or estimate ever indexes out of bounds (the repaired `counters = 1` defect). -/
theorem C14_fresh_sketch_wf (counters : Nat) (seeds : List Nat) (hs : seeds ≠ []) :
    (FreqCounter.new counters seeds).WF := by
  refine ⟨freqCounter_new_rowsWF counters seeds, ?_⟩
  simp only [FreqCounter.new]
  intro h
  exact hs (List.map_eq_nil_iff.mp h)

/-- Non-vacuity: a concrete sketch is well formed, and the premises of `C14_never_undercounts` are met by a
    concrete run with a false positive and a foreign hash in it. -/
example : (FreqCounter.new 10 [1, 2, 3, 4]).total = 16 ∧ (FreqCounter.new 1 [5]).total = 2 := by decide

example :
    let t := TinyLFU.new 16 [11, 22, 33, 44]
    (t.run [(7, true), (7, false), (9, false), (7, false)]).isSome = true ∧
    t.incs + 4 < t.resetAt ∧ t.potential 7 = some 0 := by decide

end Cached
