/-
  C03  No spurious loss.

  The frame of ONE key's entry in Layer A (`CachedModel/State.lean`), for every state satisfying the invariants
  (`Inv` of Lemmas/Inv.lean, `TtlInv` of Lemmas/TtlInv.lean, `QInv` of Lemmas/Queue.lean — all three hold at every
  reachable state: `inv_reach`, `ttlinv_reach`, `qinv_of_reach`), every event, oracle, configuration.

    * `C03_only_these_remove`        a present key becomes absent in one event only if (a) the worker executes a
                                     `Delete` of THIS key, (b) the sweeper runs after the key's CURRENT deadline,
                                     (c) the worker executes a put that does not fit (memory pressure), or
                                     (d) `shutdown()` clears the cache;
    * `C03_only_these_alter`         a present key's entry changes (and stays) only by `put_or_update` or `delete` of
                                     THIS key, and keeps its id;
    * `C03_no_pressure_no_eviction`  a put that fits evicts nothing; `C03_demand_fits_means_no_pressure`;
    * `Quiet k`, `C03_retained`      along any sequence of events without operation on `k` itself, without memory
                                     pressure and without shutdown — traffic on other keys, reads, access counting,
                                     sketch ageing, sweeps, clock moves below the deadline, acknowledgement polls —
                                     the entry of `k` stays THE VERY SAME entry, and (`C03_retained_read`) every
                                     completed read returns its value;
      `C03_accepted_put_retained`    from the worker step that accepted the put onwards.

    * `C03_counterexample_expired_unswept_still_charged`  OBSERVATION: the weight that counts is that of all
                                     CHARGED keys, including keys past their time-to-live that are not yet swept;
                                     a concrete history in which the readable keys plus the incoming put fit and a
                                     live key is evicted all the same (and the put then rejected).

  Hypothesis added to the requested statements: `QInv s` in `C03_only_these_remove` / `C03_retained` (needed for case
  (d): a parked `shutdown()` that continues has set the `shutting` flag — not implied by `Inv`/`TtlInv`).  `Inv s` is
  not needed for `C03_only_these_remove` and `C03_only_these_alter`; they are stated without it.

  Helper lemmas: `CachedProofs/Lemmas/Frame.lean` (`KeyCh`, `step_key`, `step_now_le`, `workerPut_fits`).
-/
import CachedProofs.Lemmas.Frame
import CachedProofs.Properties.C07
import CachedProofs.Properties.C09
import CachedProofs.Properties.C10

namespace Cached

/-! ### 1. what removes a key -/

/-- **Only these remove a key.** -/
theorem C03_only_these_remove {s s' : State} {ev : Ev} {o o' : Oracle} {out : Out} {k : Nat} {e : Entry}
    (ht : TtlInv s) (hq : QInv s) (hs : step s ev o = .ok (s', out, o'))
    (hk : s.store.get? k = some e) (hk' : s'.store.get? k = none) :
    (ev = .worker ∧ s.worker = .running ∧ ∃ h q, s.queue = (.delete k, h) :: q) ∨
    (ev = .sweep ∧ ∃ x, e.expiry = some x ∧ s.now > x) ∨
    (ev = .worker ∧ s.worker = .running ∧ ∃ id hash w k' v h q,
      (s.queue = (.put id hash w k' v, h) :: q ∨ ∃ t, s.queue = (.putTtl id hash w k' v t, h) :: q) ∧
      s.adm.max - s.adm.used < w) ∨
    (s'.shutting = true ∧ ∃ c, ev = .shutdown c ∨ ev = .resume c) := by
  cases step_key hs k with
  | same h1 => rw [h1, hk] at hk'; cases hk'
  | upsert c v w t rm e0 e1 _ _ h1 => rw [h1] at hk'; cases hk'
  | softDelete c e0 _ _ h1 => rw [h1] at hk'; cases hk'
  | workerDelete hh q hev hw hqq _ => exact Or.inl ⟨hev, hw, hh, q, hqq⟩
  | evicted id hash w k0 v hh q hev hw hqq hpress _ =>
    exact Or.inr (Or.inr (Or.inl ⟨hev, hw, id, hash, w, k0, v, hh, q, hqq, hpress⟩))
  | inserted id hash w v hh q entry _ _ _ h0 => rw [hk] at h0; cases h0
  | swept evs hev hsw _ =>
    obtain ⟨x, hx, hnow, _⟩ := (C10_removed_exactly ht hsw hk).1.mp hk'
    exact Or.inr (Or.inl ⟨hev, x, hx, hnow⟩)
  | shutdown c hev hflag _ => exact Or.inr (Or.inr (Or.inr ⟨hflag, c, Or.inl hev⟩))
  | resumedShutdown c hev hp _ =>
    refine Or.inr (Or.inr (Or.inr ⟨?_, c, Or.inr hev⟩))
    have hsh : s.shutting = true := by
      rcases hp with hp | hp
      · exact hq.parkedOk c _ hp
      · exact hq.parkedOk c _ hp
    exact (qmono_step (by rw [hev]; simp) hs).shutting hsh

/-- … at every reachable state, with no hypothesis but reachability -/
theorem C03_only_these_remove_reach {cfg : Cfg} {now : Nat} {seeds : List Nat}
    {s s' : State} {ev : Ev} {o o' : Oracle} {out : Out} {k : Nat} {e : Entry}
    (hr : Reach cfg now seeds s) (hs : step s ev o = .ok (s', out, o'))
    (hk : s.store.get? k = some e) (hk' : s'.store.get? k = none) :
    (ev = .worker ∧ s.worker = .running ∧ ∃ h q, s.queue = (.delete k, h) :: q) ∨
    (ev = .sweep ∧ ∃ x, e.expiry = some x ∧ s.now > x) ∨
    (ev = .worker ∧ s.worker = .running ∧ ∃ id hash w k' v h q,
      (s.queue = (.put id hash w k' v, h) :: q ∨ ∃ t, s.queue = (.putTtl id hash w k' v t, h) :: q) ∧
      s.adm.max - s.adm.used < w) ∨
    (s'.shutting = true ∧ ∃ c, ev = .shutdown c ∨ ev = .resume c) :=
  C03_only_these_remove (ttlinv_reach hr) (qinv_of_reach hr) hs hk hk'

/-! ### 2. what alters a key -/

/-- **Only these alter a key's entry** (value, deadline, deletion flag; the id never changes): `put_or_update` of
    this key (the deletion flag stays, the value is the given one or the old one) and `delete` of this key (only the
    deletion flag is set).  Nothing else — traffic on other keys, reads, access counting, sketch ageing in the
    consumer, sweeps, worker steps, clock moves, polls — alters it.  For EVERY state (no invariant needed). -/
theorem C03_only_these_alter {s s' : State} {ev : Ev} {o o' : Oracle} {out : Out} {k : Nat} {e e' : Entry}
    (hs : step s ev o = .ok (s', out, o')) (hk : s.store.get? k = some e) (hk' : s'.store.get? k = some e')
    (hne : e' ≠ e) :
    ((∃ c v w t rm, ev = .upsert c k v w t rm ∧ e'.soft = e.soft ∧ e'.value = v.getD e.value) ∨
     (∃ c, ev = .delete c k ∧ e' = { e with soft := true })) ∧ e'.id = e.id := by
  cases step_key hs k with
  | same h1 =>
    rw [h1, hk] at hk'
    simp only [Option.some.injEq] at hk'
    exact absurd hk'.symm hne
  | upsert c v w t rm e0 e1 hev h0 h1 i1 i2 i3 =>
    rw [hk] at h0
    simp only [Option.some.injEq] at h0
    subst h0
    rw [hk'] at h1
    simp only [Option.some.injEq] at h1
    subst h1
    exact ⟨Or.inl ⟨c, v, w, t, rm, hev, i2, i3⟩, i1⟩
  | softDelete c e0 hev h0 h1 =>
    rw [hk] at h0
    simp only [Option.some.injEq] at h0
    subst h0
    rw [hk'] at h1
    simp only [Option.some.injEq] at h1
    subst h1
    exact ⟨Or.inr ⟨c, hev, rfl⟩, rfl⟩
  | workerDelete hh q _ _ _ h1 => rw [h1] at hk'; cases hk'
  | evicted id hash w k0 v hh q _ _ _ _ h1 => rw [h1] at hk'; cases hk'
  | inserted id hash w v hh q entry _ _ _ h0 => rw [hk] at h0; cases h0
  | swept evs _ _ h1 => rw [h1] at hk'; cases hk'
  | shutdown c _ _ h1 => rw [h1] at hk'; cases hk'
  | resumedShutdown c _ _ h1 => rw [h1] at hk'; cases hk'

/-! ### 3. no pressure, no eviction -/

/-- **A put that fits evicts nothing.**  The worker executes a put (with or without time-to-live) of weight `w` that
    fits into the free space: every OTHER key keeps its entry (case (c) of `C03_only_these_remove` is impossible);
    if the key was absent the put is accepted without any admission activity (`.worked _ .accepted none [] []`: no
    estimate, nothing popped, nothing evicted) and stored — or, for a deadline that is not representable, the worker
    panics, still evicting nothing; if the key was present the put is refused and nothing changes.
    STATEMENT CHANGED (hypothesis `hmaxI`: the configured limit is an `i64` — it is one, `Weight = i64`; Layer G): the
    code computes the free space `max_weight - weight_used` in `i64`; with the total not negative (`Inv`) and the put's
    weight positive (`Inv`: every queued command carries a positive weight) that difference lies in `[w, max]`, which is
    inside `i64` exactly because `max` is. -/
theorem C03_no_pressure_no_eviction {s s' : State} {o o' : Oracle} {out : Out} (hi : Inv s)
    (hmaxI : s.cfg.maxWeight ≤ i64Max)
    {id hash : Nat} {w : Int} {k0 v : Nat} {h : Option Nat} {q : List (Cmd × Option Nat)}
    (hw : s.worker = .running)
    (hq : s.queue = (.put id hash w k0 v, h) :: q ∨ ∃ t, s.queue = (.putTtl id hash w k0 v t, h) :: q)
    (hfit : w ≤ s.adm.max - s.adm.used) (hs : step s .worker o = .ok (s', out, o')) :
    (∀ k, k ≠ k0 → s'.store.get? k = s.store.get? k) ∧
    (s.store.get? k0 = none →
      ((∃ kind, out = .worked kind .accepted none [] []) ∧
        ∃ entry, s'.store.get? k0 = some entry ∧ entry.value = v ∧ entry.id = id ∧ entry.soft = false) ∨
      (out = .workerPanic .timeOverflow ∧ s'.store.get? k0 = none)) ∧
    (∀ e, s.store.get? k0 = some e →
      s'.store.get? k0 = some e ∧ ∃ kind, out = .worked kind (.rejected .keyAlreadyExists) none [] []) := by
  have hmax : w ≤ s.adm.max := by have := hi.used_nonneg; omega
  have hwpos : 0 < w := by
    rcases hq with hq | ⟨t, hq⟩
    · exact hi.cmdsPositive (.put id hash w k0 v) (by simp [pendingCmds, hq])
    · exact hi.cmdsPositive (.putTtl id hash w k0 v t) (by simp [pendingCmds, hq])
  have hno : s.adm.spaceOverflow = false := by
    rw [Adm.spaceOverflow_eq_false_iff]
    have h0 := hi.used_nonneg
    have hm := hi.maxFixed
    simp only [i64Min, i64Max] at hmaxI ⊢
    omega
  refine ⟨?_, ?_, ?_⟩
  · intro k hkk
    cases step_key hs k with
    | same h1 => exact h1
    | upsert c v w t rm e0 e1 hev => cases hev
    | softDelete c e0 hev => cases hev
    | workerDelete hh q' _ _ hq' _ =>
      rcases hq with hq | ⟨t, hq⟩ <;> (rw [hq] at hq'; simp at hq')
    | evicted id' hash' w' k' v' hh q' _ _ hq' hpress _ =>
      have : w' = w := by
        rcases hq with hq | ⟨t, hq⟩ <;> rcases hq' with hq' | ⟨t', hq'⟩ <;>
          (rw [hq] at hq'; simp at hq') <;>
          (obtain ⟨⟨⟨_, _, hw', _⟩, _⟩, _⟩ := hq'; exact hw'.symm)
      omega
    | inserted id' hash' w' v' hh q' entry _ _ hq' _ =>
      exfalso
      apply hkk
      rcases hq with hq | ⟨t, hq⟩ <;> rcases hq' with hq' | ⟨t', hq'⟩ <;>
        (rw [hq] at hq'; simp at hq') <;>
        (obtain ⟨⟨⟨_, _, _, hk', _⟩, _⟩, _⟩ := hq'; exact hk'.symm)
    | swept evs hev => cases hev
    | shutdown c hev => cases hev
    | resumedShutdown c hev => cases hev
  · intro hk
    have hk0 : ({ s with queue := q } : State).store.get? k0 = none := hk
    have hs' : workerStep s o = .ok (s', out, o') := hs
    rcases hq with hq | ⟨t, hq⟩
    · rw [workerStep_running s o _ h q hw hq] at hs'
      dsimp only at hs'
      rcases workerPut_fits { s with queue := q } id hash w k0 v none o hk0 hmax hno hfit with
        ⟨s1, entry, h1, h2, h3, h4, h5⟩ | ⟨s1, t, ht, _⟩
      · rw [h1] at hs'
        simp only [workerFinish, Except.ok.injEq, Prod.mk.injEq] at hs'
        obtain ⟨rfl, rfl, _⟩ := hs'
        exact Or.inl ⟨⟨_, rfl⟩, entry, by show s1.store.get? k0 = _; rw [h2]; simp, h3, h4, h5⟩
      · cases ht
    · rw [workerStep_running s o _ h q hw hq] at hs'
      dsimp only at hs'
      rcases workerPut_fits { s with queue := q } id hash w k0 v (some t) o hk0 hmax hno hfit with
        ⟨s1, entry, h1, h2, h3, h4, h5⟩ | ⟨s1, t', _, _, h1, h2⟩
      · rw [h1] at hs'
        simp only [workerFinish, Except.ok.injEq, Prod.mk.injEq] at hs'
        obtain ⟨rfl, rfl, _⟩ := hs'
        exact Or.inl ⟨⟨_, rfl⟩, entry, by show s1.store.get? k0 = _; rw [h2]; simp, h3, h4, h5⟩
      · rw [h1] at hs'
        simp only [workerFinish, Except.ok.injEq, Prod.mk.injEq] at hs'
        obtain ⟨rfl, rfl, _⟩ := hs'
        exact Or.inr ⟨rfl, by show s1.store.get? k0 = _; rw [h2]; exact hk⟩
  · intro e hk
    have hk0 : ({ s with queue := q } : State).store.get? k0 = some e := hk
    have hs' : workerStep s o = .ok (s', out, o') := hs
    rcases hq with hq | ⟨t, hq⟩
    · rw [workerStep_running s o _ h q hw hq] at hs'
      dsimp only at hs'
      rw [C07_worker_recheck { s with queue := q } id hash k0 v w none o e hk0] at hs'
      simp only [workerFinish, Except.ok.injEq, Prod.mk.injEq] at hs'
      obtain ⟨rfl, rfl, _⟩ := hs'
      exact ⟨hk, _, rfl⟩
    · rw [workerStep_running s o _ h q hw hq] at hs'
      dsimp only at hs'
      rw [C07_worker_recheck { s with queue := q } id hash k0 v w (some t) o e hk0] at hs'
      simp only [workerFinish, Except.ok.injEq, Prod.mk.injEq] at hs'
      obtain ⟨rfl, rfl, _⟩ := hs'
      exact ⟨hk, _, rfl⟩

/-! ### 5. "the combined weight never exceeds the cache weight" means no pressure -/

/-- With the accounting invariant the running total IS the combined weight of the keys held (`sumW s.adm.kw`).  So
    if the combined weight of all keys — those held plus the incoming one — does not exceed the cache weight, the
    incoming put fits: the hypothesis of `C03_no_pressure_no_eviction`, and the condition `Quiet` asks of worker
    steps. -/
theorem C03_demand_fits_means_no_pressure {s : State} (hi : Inv s) {w : Int}
    (h : sumW s.adm.kw + w ≤ s.adm.max) : w ≤ s.adm.max - s.adm.used ∧ w ≤ s.adm.max := by
  have h1 := hi.sum
  have h2 := hi.used_nonneg
  omega

/-! ### 4. quiet histories retain the entry -/

/-- An event that is "quiet for `k`": not `put_or_update` of `k`, not `delete` of `k`, not `shutdown()`, not a parked
    call continuing while the shutdown flag is set (`s'.shutting = false` is required of a `resume`), and — if it is
    a worker step — the head command is not `Delete(k)` and, if it is a put, the put fits
    (`w ≤ s.adm.max - s.adm.used`).  Everything else is allowed: operations on other keys, puts of `k` itself (they
    are refused while `k` is present), reads of any key, consumer steps, sweeps, clock moves, polls, worker steps
    executing `UpdateWeight` or `Shutdown`. -/
def quietEv (k : Nat) (s s' : State) : Ev → Bool
  | .upsert _ k' _ _ _ _ => k' != k
  | .delete _ k' => k' != k
  | .shutdown _ => false
  | .resume _ => !s'.shutting
  | .worker =>
    match s.queue with
    | (.delete k', _) :: _ => k' != k
    | (.put _ _ w _ _, _) :: _ => decide (w ≤ s.adm.max - s.adm.used)
    | (.putTtl _ _ w _ _ _, _) :: _ => decide (w ≤ s.adm.max - s.adm.used)
    | _ => true
  | _ => true

/-- "No operation on `k` itself, no memory pressure, no shutdown": the reflexive-transitive closure of quiet steps. -/
inductive Quiet (k : Nat) : State → State → Prop where
  | refl (s : State) : Quiet k s s
  | step {s s1 s' : State} {ev : Ev} {o o' : Oracle} {out : Out} :
      Quiet k s s1 → Cached.step s1 ev o = .ok (s', out, o') → quietEv k s1 s' ev = true → Quiet k s s'

theorem Quiet.head {k : Nat} {s s1 s' : State} {ev : Ev} {o o' : Oracle} {out : Out}
    (hs : Cached.step s ev o = .ok (s1, out, o')) (hq : quietEv k s s1 ev = true) (h : Quiet k s1 s') :
    Quiet k s s' := by
  induction h with
  | refl => exact Quiet.step (Quiet.refl s) hs hq
  | step _ hs2 hq2 ih => exact Quiet.step ih hs2 hq2

/-- an executable check: run the events, checking each for quietness -/
def quietRun (k : Nat) (s : State) : List (Ev × Oracle) → Option State
  | [] => some s
  | (ev, o) :: rest =>
    match Cached.step s ev o with
    | .ok (s', _, _) => if quietEv k s s' ev then quietRun k s' rest else none
    | .error _ => none

theorem quiet_of_quietRun {k : Nat} : ∀ (l : List (Ev × Oracle)) (s s' : State),
    quietRun k s l = some s' → Quiet k s s' ∧ runEvents s l = .ok s' := by
  intro l
  induction l with
  | nil =>
    intro s s' h
    simp only [quietRun, Option.some.injEq] at h
    subst h
    exact ⟨Quiet.refl _, rfl⟩
  | cons x l ih =>
    intro s s' h
    obtain ⟨ev, o⟩ := x
    simp only [quietRun] at h
    split at h
    · rename_i s1 out o1 hs
      split at h
      · rename_i hq
        obtain ⟨h1, h2⟩ := ih _ _ h
        exact ⟨Quiet.head hs hq h1, by simp only [runEvents, hs]; exact h2⟩
      · cases h
    · cases h

/-- the invariants and the clock along a quiet history -/
theorem Quiet.invs {k : Nat} {s s' : State} (h : Quiet k s s') (hi : Inv s) (ht : TtlInv s) (hq : QInv s) :
    Inv s' ∧ TtlInv s' ∧ QInv s' ∧ s.now ≤ s'.now := by
  induction h with
  | refl => exact ⟨hi, ht, hq, Nat.le_refl _⟩
  | step _ hs _ ih =>
    obtain ⟨i1, i2, i3, i4⟩ := ih
    exact ⟨inv_step i1 hs, ttlinv_step i1 i2 hs, qinv_step i3 hs, Nat.le_trans i4 (step_now_le hs)⟩

/-- **No spurious loss.**  Along a quiet history (no operation on `k` itself, no memory pressure, no shutdown),
    while the clock has not passed the key's deadline — `s'.now ≤ x` at the END suffices, the clock never runs
    backwards — the entry of `k` is THE VERY SAME entry: same value, id, deadline, not deleted. -/
theorem C03_retained {k : Nat} {s s' : State} {e : Entry} (hi : Inv s) (ht : TtlInv s) (hq : QInv s)
    (hQ : Quiet k s s') (hk : s.store.get? k = some e)
    (hlive : e.expiry = none ∨ ∃ x, e.expiry = some x ∧ s'.now ≤ x) : s'.store.get? k = some e := by
  induction hQ with
  | refl => exact hk
  | @step s1 s2 ev o o' out hQ1 hs hqe ih =>
    obtain ⟨i1, i2, i3, _⟩ := hQ1.invs hi ht hq
    have hle := step_now_le hs
    have hlive1 : e.expiry = none ∨ ∃ x, e.expiry = some x ∧ s1.now ≤ x := by
      rcases hlive with h | ⟨x, hx, hnow⟩
      · exact Or.inl h
      · exact Or.inr ⟨x, hx, Nat.le_trans hle hnow⟩
    have hk1 := ih hlive1
    cases step_key hs k with
    | same h1 => rw [h1]; exact hk1
    | upsert c v w t rm e0 e1 hev => subst hev; simp [quietEv] at hqe
    | softDelete c e0 hev => subst hev; simp [quietEv] at hqe
    | workerDelete hh q hev _ hq' _ => subst hev; simp [quietEv, hq'] at hqe
    | evicted id hash w k0 v hh q hev _ hq' hpress _ =>
      subst hev
      rcases hq' with hq' | ⟨t, hq'⟩ <;> (simp [quietEv, hq'] at hqe; omega)
    | inserted id hash w v hh q entry _ _ _ h0 => rw [hk1] at h0; cases h0
    | swept evs _ hsw _ => exact C10_never_removes_live i2 hsw hk1 hlive1
    | shutdown c hev => subst hev; simp [quietEv] at hqe
    | resumedShutdown c hev hp _ =>
      subst hev
      have hsh : s1.shutting = true := by
        rcases hp with hp | hp
        · exact i3.parkedOk c _ hp
        · exact i3.parkedOk c _ hp
      have := (qmono_step (by simp) hs).shutting hsh
      simp [quietEv, this] at hqe

/-- … hence every completed read of `k` at the end of a quiet history returns the entry's value. -/
theorem C03_retained_read {k : Nat} {s s' : State} {e : Entry} (hi : Inv s) (ht : TtlInv s) (hq : QInv s)
    (hQ : Quiet k s s') (hk : s.store.get? k = some e) (hsoft : e.soft = false)
    (hlive : e.expiry = none ∨ ∃ x, e.expiry = some x ∧ s'.now ≤ x)
    (s'' : State) (o o' : Oracle) (r : Option Nat) (hr : readKey s' k o = .ok (s'', r, o')) :
    r = some e.value :=
  C09_not_hidden s' s'' k o o' e r (C03_retained hi ht hq hQ hk hlive) hsoft hlive hr

/-- **From the acknowledgement on.**  The worker step that ACCEPTS the put of `(k, v)` (its acknowledgement now holds
    `Accepted`) stores a live entry with value `v`; from the state after that step, along every quiet history that
    stays within the time-to-live, every completed read of `k` returns `v`. -/
theorem C03_accepted_put_retained {s0 s s' : State} {o0 o0' : Oracle} {kind : String} {ie : Option Nat}
    {pp : List SKey} {evs : List Evicted} {id hash : Nat} {w : Int} {k v : Nat} {h : Option Nat}
    {q : List (Cmd × Option Nat)}
    (hi : Inv s0) (ht : TtlInv s0) (hq : QInv s0) (hw : s0.worker = .running)
    (hqueue : s0.queue = (.put id hash w k v, h) :: q ∨ ∃ t, s0.queue = (.putTtl id hash w k v t, h) :: q)
    (hk0 : s0.store.get? k = none)
    (hs : step s0 .worker o0 = .ok (s, .worked kind .accepted ie pp evs, o0')) (hQ : Quiet k s s') :
    ∃ e, s.store.get? k = some e ∧ e.value = v ∧ e.id = id ∧ e.soft = false ∧
      ((e.expiry = none ∨ ∃ x, e.expiry = some x ∧ s'.now ≤ x) →
        s'.store.get? k = some e ∧
        ∀ (s'' : State) (o o' : Oracle) (r : Option Nat), readKey s' k o = .ok (s'', r, o') → r = some v) := by
  have i1 := inv_step hi hs
  have i2 := ttlinv_step hi ht hs
  have i3 := qinv_step hq hs
  have hent : ∃ e, s.store.get? k = some e ∧ e.value = v ∧ e.id = id ∧ e.soft = false := by
    cases step_key hs k with
    | same h1 =>
      -- the key is still absent: then the put was not accepted
      exfalso
      have hs' : workerStep s0 o0 = .ok (s, .worked kind .accepted ie pp evs, o0') := hs
      rcases hqueue with hq0 | ⟨t, hq0⟩
      · rw [workerStep_running s0 o0 _ h q hw hq0] at hs'
        dsimp only at hs'
        split at hs'
        · rename_i r hr
          obtain ⟨ex, o1⟩ := r
          cases ex with
          | done s1 st ie' pp' ev' =>
            simp only [workerFinish, Except.ok.injEq, Prod.mk.injEq, Out.worked.injEq] at hs'
            obtain ⟨rfl, ⟨_, rfl, _⟩, _⟩ := hs'
            have := C09_deadline_put_none _ _ _ _ _ _ _ _ _ _ _ _ hr
            have h2 : s1.store.get? k = none := by rw [← hk0]; exact h1
            rw [h2] at this; cases this
          | panicked s1 p => simp [workerFinish] at hs'
        · cases hs'
      · rw [workerStep_running s0 o0 _ h q hw hq0] at hs'
        dsimp only at hs'
        split at hs'
        · rename_i r hr
          obtain ⟨ex, o1⟩ := r
          cases ex with
          | done s1 st ie' pp' ev' =>
            simp only [workerFinish, Except.ok.injEq, Prod.mk.injEq, Out.worked.injEq] at hs'
            obtain ⟨rfl, ⟨_, rfl, _⟩, _⟩ := hs'
            have := (C09_deadline_put _ _ _ _ _ _ _ _ _ _ _ _ _ hr).1
            have h2 : s1.store.get? k = none := by rw [← hk0]; exact h1
            rw [h2] at this; cases this
          | panicked s1 p => simp [workerFinish] at hs'
        · cases hs'
    | upsert c v w t rm e0 e1 hev => cases hev
    | softDelete c e0 hev => cases hev
    | workerDelete hh q' _ _ hq' _ =>
      rcases hqueue with hq0 | ⟨t, hq0⟩ <;> (rw [hq0] at hq'; simp at hq')
    | evicted id' hash' w' k' v' hh q' _ _ _ _ h1 =>
      -- the incoming key itself is never among the evicted: it was absent; `s.store.get? k = none` contradicts acceptance
      exfalso
      have hs' : workerStep s0 o0 = .ok (s, .worked kind .accepted ie pp evs, o0') := hs
      rcases hqueue with hq0 | ⟨t, hq0⟩
      · rw [workerStep_running s0 o0 _ h q hw hq0] at hs'
        dsimp only at hs'
        split at hs'
        · rename_i r hr
          obtain ⟨ex, o1⟩ := r
          cases ex with
          | done s1 st ie' pp' ev' =>
            simp only [workerFinish, Except.ok.injEq, Prod.mk.injEq, Out.worked.injEq] at hs'
            obtain ⟨rfl, ⟨_, rfl, _⟩, _⟩ := hs'
            have := C09_deadline_put_none _ _ _ _ _ _ _ _ _ _ _ _ hr
            have h2 : s1.store.get? k = none := h1
            rw [h2] at this; cases this
          | panicked s1 p => simp [workerFinish] at hs'
        · cases hs'
      · rw [workerStep_running s0 o0 _ h q hw hq0] at hs'
        dsimp only at hs'
        split at hs'
        · rename_i r hr
          obtain ⟨ex, o1⟩ := r
          cases ex with
          | done s1 st ie' pp' ev' =>
            simp only [workerFinish, Except.ok.injEq, Prod.mk.injEq, Out.worked.injEq] at hs'
            obtain ⟨rfl, ⟨_, rfl, _⟩, _⟩ := hs'
            have := (C09_deadline_put _ _ _ _ _ _ _ _ _ _ _ _ _ hr).1
            have h2 : s1.store.get? k = none := h1
            rw [h2] at this; cases this
          | panicked s1 p => simp [workerFinish] at hs'
        · cases hs'
    | inserted id' hash' w' v' hh q' entry _ _ hq' _ h1 j1 j2 j3 =>
      refine ⟨entry, h1, ?_, ?_, j3⟩
      · rw [j2]
        rcases hqueue with hq0 | ⟨t, hq0⟩ <;> rcases hq' with hq' | ⟨t', hq'⟩ <;>
          (rw [hq0] at hq'; simp at hq') <;>
          (obtain ⟨⟨⟨_, _, _, hv'⟩, _⟩, _⟩ := hq'; first | exact hv'.symm | exact hv'.1.symm)
      · rw [j1]
        rcases hqueue with hq0 | ⟨t, hq0⟩ <;> rcases hq' with hq' | ⟨t', hq'⟩ <;>
          (rw [hq0] at hq'; simp at hq') <;>
          (obtain ⟨⟨⟨hid', _⟩, _⟩, _⟩ := hq'; exact hid'.symm)
    | swept evs' hev => cases hev
    | shutdown c hev => cases hev
    | resumedShutdown c hev => cases hev
  obtain ⟨e, he, hv, hid, hsoft⟩ := hent
  refine ⟨e, he, hv, hid, hsoft, fun hlive => ⟨C03_retained i1 i2 i3 hQ he hlive, ?_⟩⟩
  intro s'' o o' r hr
  rw [← hv]
  exact C03_retained_read i1 i2 i3 hQ he hsoft hlive s'' o o' r hr

/-! ### 6. non-vacuity: concrete histories -/

def c03Cfg : Cfg := { maxWeight := 100, shards := 2, cmdCap := 4, poolSize := 1, bufSize := 1, counters := 2 }

def c03Init : State := State.init c03Cfg 5000000000 [1, 2, 3, 4]

def c03O : Oracle := {}

/-- `put_with_weight_and_ttl(1 ↦ 10, weight 5, ttl 10 s)` accepted at clock 5 s: deadline 15 s -/
def c03Put : List (Ev × Oracle) := [(.putWTtl 0 1 10 5 10000000000, c03O), (.worker, c03O)]

/-- traffic on key 2 (put, two hits, upsert, weight update, delete), a put of key 1 itself (refused), a consumer
    step (sketch ageing), sweeps, a poll and clock moves that stay below the deadline of key 1 -/
def c03Traffic : List (Ev × Oracle) :=
  [(.putW 0 2 20 5, c03O), (.worker, c03O), (.get 2, { pool := [0] }), (.get 2, { pool := [0] }),
   (.consumer, { dkAdd := [true] }), (.upsert 0 2 (some 21) none none false, c03O), (.worker, c03O),
   (.putW 0 1 99 5, c03O), (.sweep, c03O), (.advance 1000000000, c03O), (.sweep, c03O), (.poll 0, c03O),
   (.delete 0 2, c03O), (.worker, c03O), (.advance 8000000000, c03O), (.sweep, c03O), (.multiGet [2, 3], c03O)]

/-- the traffic is a quiet history for key 1 (a concrete `Quiet` derivation via `quiet_of_quietRun`), key 1 keeps
    THE SAME entry and is read with its value at the end (clock 14 s ≤ deadline 15 s) -/
example :
    (match runEvents c03Init c03Put with
     | .ok s =>
       (match quietRun 1 s c03Traffic with
        | some s' =>
          (match step s' (.get 1) { pool := [0] } with
           | .ok (_, .value v, _) =>
             decide (v = some 10 ∧ s'.store.get? 1 = s.store.get? 1 ∧
                     s.store.get? 1 = some ⟨10, 1, some 15000000000, false⟩ ∧ s'.now = 14000000000 ∧
                     s'.store.get? 2 = none)
           | _ => false)
        | none => false)
     | _ => false) = true := by decide

/-- `C03_retained` instantiated on that history: all its hypotheses hold -/
example (s s' : State) (h1 : runEvents c03Init c03Put = .ok s) (h2 : quietRun 1 s c03Traffic = some s')
    (e : Entry) (hk : s.store.get? 1 = some e) (hlive : e.expiry = none ∨ ∃ x, e.expiry = some x ∧ s'.now ≤ x) :
    s'.store.get? 1 = some e := by
  have hr : Reach c03Cfg 5000000000 [1, 2, 3, 4] s := reach_runEvents _ Reach.init h1
  exact C03_retained (inv_reach hr) (ttlinv_reach hr) (qinv_of_reach hr) (quiet_of_quietRun _ _ _ h2).1 hk hlive

/-- past the deadline (clock 17 s: the sweeper visits shard 1, the shard of second 15) the sweeper removes the key — case (b) of `C03_only_these_remove` — and a `delete` of the key
    executed by the worker removes it — case (a) -/
example :
    (match runEvents c03Init (c03Put ++ [(.advance 12000000000, c03O)]),
           runEvents c03Init (c03Put ++ [(.delete 0 1, c03O)]) with
     | .ok s, .ok t =>
       (match step s .sweep c03O, step t .worker c03O with
        | .ok (s', _, _), .ok (t', _, _) =>
          decide ((s.store.get? 1).isSome ∧ s'.store.get? 1 = none ∧ s.now > 15000000000 ∧
                  (t.store.get? 1).isSome ∧ t'.store.get? 1 = none)
        | _, _ => false)
     | _, _ => false) = true := by decide

/-- memory pressure — case (c): a put of weight 98 does not fit beside key 1 (weight 5, limit 100) and evicts it -/
example :
    (match runEvents c03Init (c03Put ++ [(.putW 0 2 20 98, c03O)]) with
     | .ok s =>
       (match step s .worker { dk := [false, false], ids := [1], pops := [some 1] } with
        | .ok (s', _, _) =>
          decide ((s.store.get? 1).isSome ∧ s'.store.get? 1 = none ∧ (s'.store.get? 2).isSome ∧
                  quietEv 1 s s' .worker = false)
        | _ => false)
     | _ => false) = true := by decide

/-- shutdown — case (d) -/
example :
    (match runEvents c03Init c03Put with
     | .ok s =>
       (match step s (.shutdown 7) c03O with
        | .ok (s', _, _) => decide ((s.store.get? 1).isSome ∧ s'.store.get? 1 = none ∧ s'.shutting = true)
        | _ => false)
     | _ => false) = true := by decide

/-- `C03_only_these_alter`: an upsert and a delete of key 1 alter its entry, keeping the id -/
example :
    (match runEvents c03Init c03Put with
     | .ok s =>
       (match step s (.upsert 0 1 (some 11) none none true) c03O, step s (.delete 0 1) c03O with
        | .ok (s', _, _), .ok (t', _, _) =>
          decide (s'.store.get? 1 = some ⟨11, 1, none, false⟩ ∧ t'.store.get? 1 = some ⟨10, 1, some 15000000000, true⟩)
        | _, _ => false)
     | _ => false) = true := by decide

/-- `C03_no_pressure_no_eviction` / `C03_demand_fits_means_no_pressure`: the put of key 2 (weight 5) beside key 1
    (weight 5, limit 100) fits and is accepted with no admission activity -/
example :
    (match runEvents c03Init (c03Put ++ [(.putW 0 2 20 5, c03O)]) with
     | .ok s =>
       (match step s .worker c03O with
        | .ok (s', .worked kind st ie pp ev, _) =>
          decide (kind = "Put" ∧ st = .accepted ∧ ie = none ∧ pp = [] ∧ ev = [] ∧ sumW s.adm.kw + 5 ≤ s.adm.max ∧
                  s'.store.get? 1 = s.store.get? 1 ∧ s.worker = .running)
        | _ => false)
     | _ => false) = true := by decide

/-- the hypotheses of `C03_accepted_put_retained`: the queued put of the absent key 1 is accepted by the worker -/
example :
    (match runEvents c03Init [(.putWTtl 0 1 10 5 10000000000, c03O)] with
     | .ok s0 =>
       (match step s0 .worker c03O with
        | .ok (_, .worked kind st _ _ _, _) =>
          decide (s0.worker = .running ∧ s0.queue = [(.putTtl 1 1 5 1 10 10000000000, some 0)] ∧
                  s0.store.get? 1 = none ∧ kind = "PutWithTTL" ∧ st = .accepted)
        | _ => false)
     | _ => false) = true := by decide

/-! ### 7. what "the combined weight of all keys" has to mean -/

/-- key 1 (weight 5, no time-to-live) and key 2 (weight 90, time-to-live 1 s) are accepted, key 2 is read twice and
    the consumer counts the access; the clock moves 2 s past key 2's deadline; the sweeper runs (at second 7 it
    visits shard 1, key 2's deadline lies in shard 0) -/
def c03Lingering : List (Ev × Oracle) :=
  [(.putW 0 1 10 5, c03O), (.worker, c03O), (.putWTtl 0 2 20 90 1000000000, c03O), (.worker, c03O),
   (.get 2, { pool := [0] }), (.get 2, { pool := [0] }), (.consumer, { dkAdd := [true] }),
   (.advance 2000000000, c03O), (.sweep, c03O)]

/-- **Observation (the limit of C03's hypothesis).**  The weight that decides about memory pressure is the total of
    all CHARGED keys, `s.adm.used = sumW s.adm.kw` — this includes keys that are past their time-to-live and not yet
    swept (and soft-deleted keys whose `Delete` is not yet executed).  Here key 2 has expired (it reads as absent,
    and a sweep has run), the only readable key is key 1 with weight 5, and a put of weight 90 is issued: readable
    weight plus incoming weight is 95 ≤ 100, yet the free space is 5, admission runs, and the live, never-accessed
    key 1 is evicted — after which the put is REJECTED (`noSpace`) because the expired key 2 has the higher
    estimate.  So "the combined weight of all keys never exceeds the cache weight" protects a key only if expired
    but unswept keys are counted in (as `C03_demand_fits_means_no_pressure` does); read as "all readable keys" the
    property is false of the code. -/
theorem C03_counterexample_expired_unswept_still_charged :
    (match runEvents c03Init (c03Lingering ++ [(.putW 0 3 30 90, c03O)]) with
     | .ok s =>
       (match step s (.get 2) c03O, step s (.get 1) { pool := [0] },
              step s .worker { dk := [false, false, true], ids := [1, 2], pops := [some 1, some 2] } with
        | .ok (_, .value v2, _), .ok (_, .value v1, _), .ok (s', .worked _ st _ _ ev, _) =>
          decide (v2 = none ∧ v1 = some 10 ∧ s.adm.used = 95 ∧ s.adm.max = 100 ∧
                  st = .rejected .noSpace ∧ ev = [(1, 1, 5)] ∧
                  s'.store.get? 1 = none ∧ s'.store.get? 3 = none ∧ (s'.store.get? 2).isSome)
        | _, _, _ => false)
     | _ => false) = true := by decide

end Cached
