/-
  C04  Delete hides the key immediately and releases it completely.

    * `C04_hidden_at_once`      the moment `delete(k)` returns — whatever it returns: a pending acknowledgement, a
                                parked call (queue full), or an error (worker dead) — the stored entry of `k` carries
                                the soft-delete flag and every read of `k` (get, multi-get: `readKey`) misses;
    * `C04_soft_is_permanent`   no event ever clears the flag of that incarnation: in one step the entry disappears or
                                stays flagged WITH THE SAME ID (a new id needs a step of its own, after the removal);
      `C04_never_read_again`    hence along every sequence of events no entry with that id is ever readable again:
                                a value read for `k` later comes from another incarnation (a later put);
    * `C04_released`            executing the delete: accepted; the key, its charge and its index entry are gone, the
                                total falls by exactly the charged weight, nothing else moves
                                (`C04_released_inv`: under the invariants the entry IS charged, and no index entry of
                                its id is left at all); `C04_worker_executes_delete`: the worker step around it;
    * `C04_absent_rejected`     deleting an absent key: rejected with `KeyDoesNotExist`, the state is unchanged;
    * `C04_can_put_again`       after the release a put of `k` is not refused as existing, admission alone decides.
-/
import CachedProofs.LayerB.Theorems
import CachedProofs.Lemmas.TtlInv
import CachedProofs.Properties.C07

namespace Cached

/-! ### hidden at once -/

/-- what `delete(k)` can return -/
def Out.isDeleteReturn : Out → Prop
  | .ack _ .pending => True     -- queued: acknowledgement still pending
  | .parked => True             -- the caller blocks at the full queue (the flag is already set)
  | .err => True                -- the worker is gone (the flag is set all the same)
  | _ => False

/-- **Delete hides the key immediately**: when `delete(k)` returns — before the worker has seen the command, even if
    the call parks or fails — the entry of `k` is flagged, and every read of `k` returns nothing (and counts a miss). -/
theorem C04_hidden_at_once (s : State) (c k : Nat) (e : Entry) (hsh : s.shutting = false)
    (hk : s.store.get? k = some e) :
    (clientDelete s c k).1.store.get? k = some { e with soft := true } ∧
    (clientDelete s c k).2.isDeleteReturn ∧
    ∀ o : Oracle, ∃ s'', readKey (clientDelete s c k).1 k o = .ok (s'', none, o) := by
  have hcd : clientDelete s c k =
      sendCmd { s with store := s.store.set k { e with soft := true } } c (.delete k) := by
    simp [clientDelete, hsh, hk]
  have hst : (clientDelete s c k).1.store.get? k = some { e with soft := true } := by
    rw [hcd, (sendCmd_fields _ c _).2.1]
    simp
  refine ⟨hst, ?_, ?_⟩
  · rw [hcd]
    unfold sendCmd
    split
    · trivial
    · split <;> trivial
  · intro o
    unfold readKey
    rw [hst]
    simp [Entry.alive]

/-- the same through the API call: `get(k)` right after `delete(k)` returns `None` -/
theorem C04_get_after_delete (s : State) (c k : Nat) (e : Entry) (hsh : s.shutting = false)
    (hk : s.store.get? k = some e) (o : Oracle) :
    ∃ s'', clientGet (clientDelete s c k).1 k o = .ok (s'', .value none, o) := by
  obtain ⟨_, _, h3⟩ := C04_hidden_at_once s c k e hsh hk
  obtain ⟨s'', hr⟩ := h3 o
  have hsh' : (clientDelete s c k).1.shutting = false := by
    have hcd : clientDelete s c k =
        sendCmd { s with store := s.store.set k { e with soft := true } } c (.delete k) := by
      simp [clientDelete, hsh, hk]
    rw [hcd]
    unfold sendCmd
    split
    · exact hsh
    · split <;> exact hsh
  refine ⟨s'', ?_⟩
  unfold clientGet
  simp only [hsh', Bool.false_eq_true, if_false]
  rw [hr]

/-! ### the flag is permanent -/

/-- **The soft-delete flag of an incarnation is never cleared.**  In one event the flagged entry of `k` either
    disappears or stays flagged with the same id.  (This is stronger than "flagged or another id": a key cannot be
    removed and stored again in one event, so a new id only appears after the old entry was removed.) -/
theorem C04_soft_is_permanent {s s' : State} {ev : Ev} {o o' : Oracle} {out : Out}
    (hs : step s ev o = .ok (s', out, o')) {k : Nat} {e : Entry} (hk : s.store.get? k = some e)
    (hsoft : e.soft = true) :
    s'.store.get? k = none ∨ ∃ e', s'.store.get? k = some e' ∧ e'.soft = true ∧ e'.id = e.id := by
  rcases (evo_step hs k).key with h | h | ⟨e0, e', h0, h1, h2, h3⟩ | ⟨h0, _⟩
  · exact Or.inr ⟨e, by rw [h, hk], hsoft, rfl⟩
  · exact Or.inl h
  · rw [hk] at h0
    simp only [Option.some.injEq] at h0
    subst h0
    exact Or.inr ⟨e', h1, h3 hsoft, h2⟩
  · rw [hk] at h0; cases h0

/-- the form asked for: afterwards the key is absent, or still flagged, or belongs to another incarnation -/
theorem C04_soft_is_permanent' {s s' : State} {ev : Ev} {o o' : Oracle} {out : Out}
    (hs : step s ev o = .ok (s', out, o')) {k : Nat} {e : Entry} (hk : s.store.get? k = some e)
    (hsoft : e.soft = true) :
    s'.store.get? k = none ∨ ∃ e', s'.store.get? k = some e' ∧ (e'.soft = true ∨ e'.id ≠ e.id) := by
  rcases C04_soft_is_permanent hs hk hsoft with h | ⟨e', h1, h2, _⟩
  · exact Or.inl h
  · exact Or.inr ⟨e', h1, Or.inl h2⟩

/-- **A deleted incarnation is never read again.**  From a state (with the accounting invariant, e.g. any reachable
    one) in which the entry of `k` with id `i` is flagged, along every sequence of events: whenever `k` holds an entry
    with id `i` it is still flagged, hence not alive; so every value a read of `k` returns comes from an entry with
    another id — a later put. -/
theorem C04_never_read_again {s s' : State} (h : Inv s) {k : Nat} {e : Entry} (hk : s.store.get? k = some e)
    (hsoft : e.soft = true) (l : List (Ev × Oracle)) (hr : runEvents s l = .ok s') :
    (∀ e', s'.store.get? k = some e' → e'.id = e.id → e'.soft = true ∧ e'.alive s'.now = false) ∧
    (∀ (o o' : Oracle) (s'' : State) (v : Nat), readKey s' k o = .ok (s'', some v, o') →
      ∃ e', s'.store.get? k = some e' ∧ e'.id ≠ e.id ∧ e'.value = v) := by
  obtain ⟨h1, h2⟩ := h.stored_id hk
  have b0 : Buried e.id k s := by
    refine ⟨h1, h2, ?_⟩
    intro e' he' _
    rw [hk] at he'
    simp only [Option.some.injEq] at he'
    subst he'; exact hsoft
  obtain ⟨_, _, b3⟩ := buried_run l b0 hr
  refine ⟨?_, ?_⟩
  · intro e' he' hid
    have := b3 e' he' hid
    exact ⟨this, by simp [Entry.alive, this]⟩
  · intro o o' s'' v hread
    obtain ⟨e', he', halive, hv⟩ := readable_present s' s'' k o o' v hread
    refine ⟨e', he', ?_, hv⟩
    intro hid
    have := b3 e' he' hid
    simp [Entry.alive, this] at halive

/-! ### released completely -/

/-- **Executing the delete of a present key releases it completely**: the answer is `Accepted` (no evictions, no
    sample activity); the key is gone and no other key is touched; its id is un-charged and no other charge is touched;
    the total falls by exactly the weight the id was charged with (and the limit stays); the index entry for the
    entry's deadline is gone and no other index entry is touched. -/
theorem C04_released (s : State) (k : Nat) (e : Entry) (hk : s.store.get? k = some e) :
    ∃ s', workerDelete s k = .done s' .accepted none [] [] ∧
      s'.store.get? k = none ∧ (∀ k', k' ≠ k → s'.store.get? k' = s.store.get? k') ∧
      s'.adm.kw.get? e.id = none ∧ (∀ i, i ≠ e.id → s'.adm.kw.get? i = s.adm.kw.get? i) ∧
      (∀ wk, s.adm.kw.get? e.id = some wk → s'.adm.used = s.adm.used - wk.weight) ∧
      (s.adm.kw.get? e.id = none → s'.adm.used = s.adm.used) ∧ s'.adm.max = s.adm.max ∧
      (∀ x, e.expiry = some x → s'.ttl.get? (shardOf s.cfg x, e.id) = none ∧
        ∀ a, a ≠ (shardOf s.cfg x, e.id) → s'.ttl.get? a = s.ttl.get? a) ∧
      (e.expiry = none → s'.ttl = s.ttl) ∧ s'.nextId = s.nextId ∧ s'.queue = s.queue ∧ s'.worker = s.worker := by
  have hstore : ∀ k', k' ≠ k → (s.store.del k).get? k' = s.store.get? k' :=
    fun k' h => AMap.get?_del_other _ (fun heq => h heq.symm)
  have hkw : ∀ i, i ≠ e.id → (s.adm.kw.del e.id).get? i = s.adm.kw.get? i :=
    fun i h => AMap.get?_del_other _ (fun heq => h heq.symm)
  have httl : ∀ (m : AMap (Nat × Nat) Nat) (x : Nat) (a : Nat × Nat), a ≠ (shardOf s.cfg x, e.id) →
      (m.del (shardOf s.cfg x, e.id)).get? a = m.get? a :=
    fun m x a h => AMap.get?_del_other _ (fun heq => h heq.symm)
  unfold workerDelete
  rw [hk]
  dsimp only
  cases hg : s.adm.kw.get? e.id with
  | none =>
    rw [Adm.delete_none hg]
    dsimp only
    cases hx : e.expiry with
    | none =>
      refine ⟨_, rfl, by simp, hstore, hg, fun _ _ => rfl, ?_, fun _ => rfl, rfl, ?_, fun _ => rfl, rfl, rfl, rfl⟩
      · intro wk h; cases h
      · intro x h; cases h
    | some x =>
      refine ⟨_, rfl, by simp [ttlDelete], hstore, hg, fun _ _ => rfl, ?_, fun _ => rfl, rfl, ?_, ?_, rfl, rfl, rfl⟩
      · intro wk h; cases h
      · intro y h
        simp only [Option.some.injEq] at h
        subst h
        exact ⟨by simp [ttlDelete], fun a ha => httl _ _ a ha⟩
      · intro h; cases h
  | some wk =>
    rw [Adm.delete_some hg]
    dsimp only
    cases hx : e.expiry with
    | none =>
      refine ⟨_, rfl, by simp, hstore, by simp, hkw, ?_, ?_, rfl, ?_, fun _ => rfl, rfl, rfl, rfl⟩
      · intro wk' h
        simp only [Option.some.injEq] at h
        subst h; rfl
      · intro h; cases h
      · intro x h; cases h
    | some x =>
      refine ⟨_, rfl, by simp [ttlDelete], hstore, by simp [ttlDelete], hkw, ?_, ?_, rfl, ?_, ?_, rfl, rfl, rfl⟩
      · intro wk' h
        simp only [Option.some.injEq] at h
        subst h; rfl
      · intro h; cases h
      · intro y h
        simp only [Option.some.injEq] at h
        subst h
        exact ⟨by simp [ttlDelete], fun a ha => httl _ _ a ha⟩
      · intro h; cases h

/-- Under the invariant of the index (every reachable state, whatever the worker's past): the deleted entry WAS
    charged, under this very key, so its weight really is released; and afterwards no index entry of its id is left
    in any shard — nothing of this incarnation will ever come due. -/
theorem C04_released_inv {s : State} (t : TtlInv s) (k : Nat) (e : Entry) (hk : s.store.get? k = some e) :
    ∃ s' wk, workerDelete s k = .done s' .accepted none [] [] ∧
      s.adm.kw.get? e.id = some wk ∧ wk.key = k ∧ s'.adm.used = s.adm.used - wk.weight ∧
      s'.adm.kw.get? e.id = none ∧ s'.store.get? k = none ∧ ∀ sh, s'.ttl.get? (sh, e.id) = none := by
  obtain ⟨s', h0, h1, _, h3, _, h5, _, _, h8, h9, _⟩ := C04_released s k e hk
  obtain ⟨wk, hw, hkey⟩ := t.charged hk
  refine ⟨s', wk, h0, hw, hkey, h5 wk hw, h3, h1, ?_⟩
  intro sh
  cases hx : e.expiry with
  | none =>
    rw [h9 hx]
    cases hg : s.ttl.get? (sh, e.id) with
    | none => rfl
    | some y =>
      have := ((t.sync hk sh y).mp hg).1
      rw [hx] at this; cases this
  | some x =>
    obtain ⟨a1, a2⟩ := h8 x hx
    by_cases hsh : sh = shardOf s.cfg x
    · rw [hsh]; exact a1
    · rw [a2 (sh, e.id) (by intro heq; simp only [Prod.mk.injEq] at heq; exact hsh heq.1)]
      cases hg : s.ttl.get? (sh, e.id) with
      | none => rfl
      | some y =>
        obtain ⟨b1, b2⟩ := (t.sync hk sh y).mp hg
        rw [hx] at b1
        simp only [Option.some.injEq] at b1
        subst b1
        exact absurd b2 hsh

/-- **Deleting a key that is not in the cache** is answered `Rejected(KeyDoesNotExist)` and changes nothing at all. -/
theorem C04_absent_rejected (s : State) (k : Nat) (hk : s.store.get? k = none) :
    workerDelete s k = .done s (.rejected .keyDoesNotExist) none [] [] := by
  simp [workerDelete, hk]

/-- The worker step that executes a `Delete`: it runs `workerDelete` on the state without the command and completes
    the command's acknowledgement with the status — `Accepted` iff the key was (physically) present,
    `Rejected(KeyDoesNotExist)` iff it was absent; the worker never panics on a delete. -/
theorem C04_worker_executes_delete (s : State) (o : Oracle) (k : Nat) (h : Option Nat) (q : List (Cmd × Option Nat))
    (hw : s.worker = .running) (hq : s.queue = (.delete k, h) :: q) :
    ∃ s1 st, workerDelete { s with queue := q } k = .done s1 st none [] [] ∧
      workerStep s o = .ok ({ s1 with acks := setAck s1.acks h st }, .worked "Delete" st none [] [], o) ∧
      (st = .accepted ↔ (s.store.get? k).isSome = true) ∧ (st = .rejected .keyDoesNotExist ↔ s.store.get? k = none) := by
  have key : ∀ s1 st, workerDelete { s with queue := q } k = .done s1 st none [] [] →
      workerStep s o = .ok ({ s1 with acks := setAck s1.acks h st }, .worked "Delete" st none [] [], o) := by
    intro s1 st h1
    unfold workerStep
    split
    · rename_i hd
      rw [hw] at hd; cases hd
    · rename_i he _
      rw [hq] at he; cases he
    · rename_i hd _
      rw [hw] at hd; cases hd
    · rename_i cmd hh q' hw' hq'
      rw [hq] at hq'
      cases hq'
      dsimp only
      rw [h1]
  cases hk : s.store.get? k with
  | none =>
    have h1 := C04_absent_rejected { s with queue := q } k hk
    exact ⟨_, _, h1, key _ _ h1, by simp, by simp⟩
  | some e =>
    obtain ⟨s', h1, _⟩ := C04_released { s with queue := q } k e hk
    exact ⟨s', _, h1, key _ _ h1, by simp, by simp⟩

/-! ### the key can be put again -/

/-- **After the release the key can be put again**: in the state the executed delete leaves, `k` is absent, so none of
    the four put variants is answered `KeyAlreadyExists` on the spot, and when the worker executes such a put (the key
    still being absent) the status is admission's alone: accepted, not enough space, or heavier than the cache. -/
theorem C04_can_put_again (s : State) (k : Nat) (e : Entry) (hk : s.store.get? k = some e) :
    ∃ s', workerDelete s k = .done s' .accepted none [] [] ∧ s'.store.get? k = none ∧
      (∀ (c v ttl : Nat) (w : Int),
        (clientPut s' c k v).2.isExists = false ∧ (clientPutW s' c k v w).2.isExists = false ∧
        (clientPutTtl s' c k v ttl).2.isExists = false ∧ (clientPutWTtl s' c k v w ttl).2.isExists = false) ∧
      (∀ (s2 s3 : State) (id hash v : Nat) (w : Int) (ttl : Option Nat) (o o' : Oracle) (st : Status) (ie : Option Nat)
          (pp : List SKey) (ev : List Evicted), s2.store.get? k = none →
        workerPut s2 id hash w k v ttl o = .ok (.done s3 st ie pp ev, o') →
        st = .accepted ∨ st = .rejected .noSpace ∨ st = .rejected .tooHeavy) := by
  obtain ⟨s', h0, h1, _⟩ := C04_released s k e hk
  refine ⟨s', h0, h1, ?_, ?_⟩
  · intro c v ttl w
    exact C07_absent_not_rejected_on_the_spot s' c k v ttl w h1
  · intro s2 s3 id hash v w ttl o o' st ie pp ev hk2 hp
    exact C07_absent_decided_by_admission s2 s3 id hash k v w ttl o o' st ie pp ev hk2 hp

/-! ### non-vacuity: a concrete history -/

def c04Init : State :=
  State.init { maxWeight := 100, shards := 2, cmdCap := 4, poolSize := 1, bufSize := 2, counters := 2 } 5000000000 [1, 2, 3, 4]

def c04O : Oracle := {}

/-- put(1) acknowledged -/
def c04Put : List (Ev × Oracle) := [(.putW 0 1 10 5, c04O), (.worker, c04O)]

/-- before the delete the key is read (hypotheses of `C04_hidden_at_once`: present, not shutting down) -/
example :
    (match runEvents c04Init c04Put with
     | .ok s =>
       (match step s (.get 1) { pool := [0] } with
        | .ok (_, .value v, _) => decide (v = some 10 ∧ s.shutting = false ∧ s.adm.used = 5 ∧ s.acks = [.accepted])
        | _ => false)
     | _ => false) = true := by decide

/-- delete(1) has returned, the worker has not executed it yet: the read returns nothing, the weight is still
    counted, the delete's acknowledgement is still pending -/
example :
    (match runEvents c04Init (c04Put ++ [(.delete 0 1, c04O)]) with
     | .ok s =>
       (match step s (.get 1) c04O with
        | .ok (_, .value v, _) =>
          decide (v = none ∧ s.store.get? 1 = some ⟨10, 1, none, true⟩ ∧ s.adm.used = 5 ∧ s.acks = [.accepted, .pending])
        | _ => false)
     | _ => false) = true := by decide

/-- the worker executes the delete: accepted, the key is gone, the weight is back to 0 -/
example :
    (match runEvents c04Init (c04Put ++ [(.delete 0 1, c04O), (.worker, c04O)]) with
     | .ok s => decide (s.store.get? 1 = none ∧ s.adm.used = 0 ∧ s.adm.kw.get? 1 = none ∧ s.acks = [.accepted, .accepted])
     | _ => false) = true := by decide

/-- a second delete: rejected, key does not exist, nothing changes -/
example :
    (match runEvents c04Init (c04Put ++ [(.delete 0 1, c04O), (.worker, c04O), (.delete 0 1, c04O), (.worker, c04O)]) with
     | .ok s => decide (s.store.get? 1 = none ∧ s.adm.used = 0 ∧
                        s.acks = [.accepted, .accepted, .rejected .keyDoesNotExist])
     | _ => false) = true := by decide

/-- the key is put again: accepted, under a new id -/
example :
    (match runEvents c04Init (c04Put ++ [(.delete 0 1, c04O), (.worker, c04O), (.delete 0 1, c04O), (.worker, c04O),
                                          (.putW 0 1 11 4, c04O), (.worker, c04O)]) with
     | .ok s => decide (s.store.get? 1 = some ⟨11, 2, none, false⟩ ∧ s.adm.used = 4 ∧
                        s.acks = [.accepted, .accepted, .rejected .keyDoesNotExist, .accepted])
     | _ => false) = true := by decide

/-- delete of a key with a time-to-live: its index entry goes with it (`C04_released`, `C04_released_inv`) -/
example :
    (match runEvents c04Init [(.putWTtl 0 1 10 5 1000000000, c04O), (.worker, c04O)] with
     | .ok s =>
       (match runEvents s [(.delete 0 1, c04O), (.worker, c04O)] with
        | .ok s' => decide (s.ttl = [((0, 1), 6000000000)] ∧ s'.ttl = [] ∧ s'.adm.used = 0 ∧ s'.store.get? 1 = none)
        | _ => false)
     | _ => false) = true := by decide

/-- hypotheses of `C04_never_read_again`: a reachable state (so `Inv` holds) with a flagged entry -/
example (s : State) (h : runEvents c04Init (c04Put ++ [(.delete 0 1, c04O)]) = .ok s) : Inv s :=
  inv_reach (reach_runEvents _ Reach.init h)

end Cached
