/-
  C10  The sweeper removes exactly the expired keys and reclaims their weight.

  One sweep (`sweepStep`, one tick of the TTL ticker) visits the shard `secsOf now % shards` and takes the entries
  `due s` (those of that shard whose deadline has passed) out of the expiry index.  Under the invariant `TtlInv`
  of the index (Lemmas/TtlInv.lean, proved for every reachable state: `ttlinv_reach`) this file shows:

    * `C10_index_after_sweep`   exactly the due entries leave the index;
    * `C10_removed_exactly`     a stored key disappears iff its CURRENT deadline lies in the visited shard and has
                                passed; every other key keeps its entry unchanged, absent keys stay absent;
      `C10_never_removes_live`  no deadline / deadline in the future (in particular: extended or removed by a later
                                upsert, because only the current expiry counts): the key stays;
      `C10_other_shard_untouched`  deadline in another shard: the key stays (until that shard's turn);
      `C10_never_removes_unexpired`, `C10_evicts_only_expired`  for EVERY state (no invariant), by the sweeper's check
                                against the store (fix 36c87dc): a value that has not expired by its own stored
                                deadline stays, and every eviction is of an id whose stored value failed the check;
    * `C10_weight_reclaimed`    the evicted ids are exactly the charged ids with a due index entry, the total falls by
                                the sum of their weights, they are no longer charged, all other charges are unchanged;
    * `C10_stale_harmless`      a due entry whose id is no longer charged (evicted earlier; a deleted key has no entry
                                left at all, see C04_released) is just dropped; `C10_all_stale_noop`;
    * `C10_eventually`, `C10_fair_ticks`, `C10_unfair_ticks`  liveness: a sweep of the right shard after the deadline
                                removes the key and releases its weight, and with a one-second tick every shard is
                                visited again and again.

  None of the statements needs the worker to be alive: `TtlInv` carries the part of the key/weight correspondence
  that survives a worker panic (`TtlInv.heldW`), so the sweeper is correct even then.  A sweep only exists while the
  ticker thread is alive (`sweepStep` is an illegal event otherwise); after `shutdown()` it makes one more sweep at
  most.
-/
import CachedProofs.Lemmas.TtlInv
import CachedProofs.LayerB.Sweep

namespace Cached

/-- **Exactly the due entries of the visited shard leave the index, nothing else** (no invariant needed). -/
theorem C10_index_after_sweep {s s' : State} {ev : List Evicted} (hs : sweepStep s = .ok (s', .swept ev)) :
    s'.ttl = s.ttl.filter (fun p => !due s p) := by
  obtain ⟨s1, _, _, _, h, _⟩ := sweepStep_spec hs
  exact h

/-- The clock and the configuration are not touched by a sweep. -/
theorem C10_sweep_frame {s s' : State} {ev : List Evicted} (hs : sweepStep s = .ok (s', .swept ev)) :
    s'.now = s.now ∧ s'.cfg = s.cfg := by
  obtain ⟨s1, _, _, _, _, h1, h2⟩ := sweepStep_spec hs
  exact ⟨h1, h2⟩

/-- **A stored key disappears in a sweep iff its current deadline lies in the visited shard and has passed**;
    otherwise its entry is unchanged.  (Stored entries are always charged, `TtlInv.charged`, so "charged" is not
    a separate condition; the worker may be dead.) -/
theorem C10_removed_exactly {s s' : State} {ev : List Evicted} (t : TtlInv s)
    (hs : sweepStep s = .ok (s', .swept ev)) {k : Nat} {e : Entry} (hk : s.store.get? k = some e) :
    (s'.store.get? k = none ↔
      ∃ x, e.expiry = some x ∧ s.now > x ∧ shardOf s.cfg x = secsOf s.now % s.cfg.shards) ∧
    (s'.store.get? k = none ∨ s'.store.get? k = some e) := by
  obtain ⟨s1, sp, h1, h2, _, _, _⟩ := sweepStep_spec hs
  have hget : s'.store.get? k = if k ∈ ev.map (·.2.1) then none else some e := by
    rw [h1, sp.store t.heldW, AMap.get?_delKeys, hk]
  obtain ⟨wk, hw, hkey⟩ := t.charged hk
  refine ⟨?_, ?_⟩
  · rw [hget]
    constructor
    · intro h
      split at h
      · rename_i hmem
        obtain ⟨e', he', hk'⟩ := List.mem_map.mp hmem
        obtain ⟨hin, hh, hg⟩ := sp.evIn e' he'
        have hid : e.id = e'.1 := t.heldW.2 e'.1 _ e hg (by simp only; rw [hk']; exact hk)
        obtain ⟨sh, x, hx, hd⟩ := (mem_dueIds t.noDup e'.1).mp hin
        rw [← hid] at hx
        obtain ⟨hexp, hsh⟩ := (t.sync hk sh x).mp hx
        simp only [due, Bool.and_eq_true, beq_iff_eq, decide_eq_true_eq] at hd
        exact ⟨x, hexp, hd.2, by rw [← hsh]; exact hd.1⟩
      · cases h
    · intro ⟨x, hexp, hnow, hsh⟩
      have hx := t.indexedU k e x hk hexp
      have hd : due s ((shardOf s.cfg x, e.id), x) = true := by
        simp only [due, Bool.and_eq_true, beq_iff_eq, decide_eq_true_eq]
        exact ⟨hsh, hnow⟩
      have hin : e.id ∈ (s.ttl.filter (due s)).map (·.1.2) := (mem_dueIds t.noDup e.id).mpr ⟨_, x, hx, hd⟩
      have := sp.evAll_due t (dueList_filter t.noDup) e.id hin wk hw
      have hmem : k ∈ ev.map (·.2.1) := List.mem_map.mpr ⟨_, this, hkey⟩
      simp [hmem]
  · rw [hget]
    split
    · exact Or.inl rfl
    · exact Or.inr rfl

/-- An absent key stays absent: a sweep never adds anything to the store. -/
theorem C10_absent_stays_absent {s s' : State} {ev : List Evicted} (hs : sweepStep s = .ok (s', .swept ev))
    {k : Nat} (hk : s.store.get? k = none) : s'.store.get? k = none := by
  obtain ⟨s1, sp, h1, _⟩ := sweepStep_spec hs
  obtain ⟨ks, _, hks⟩ := sp.storeSub
  rw [h1, hks, AMap.get?_delKeys, hk]
  simp

/-- **A sweep never removes a live key**: a key without time-to-live, or whose deadline has not passed.  The
    deadline that counts is the entry's CURRENT one (`TtlInv.current` / `TtlInv.sync`): after an upsert that extended
    or removed the time-to-live, the old deadline coming due removes nothing. -/
theorem C10_never_removes_live {s s' : State} {ev : List Evicted} (t : TtlInv s)
    (hs : sweepStep s = .ok (s', .swept ev)) {k : Nat} {e : Entry} (hk : s.store.get? k = some e)
    (hlive : e.expiry = none ∨ ∃ x, e.expiry = some x ∧ s.now ≤ x) : s'.store.get? k = some e := by
  obtain ⟨h1, h2⟩ := C10_removed_exactly t hs hk
  rcases h2 with h2 | h2
  · obtain ⟨x, hx, hnow, _⟩ := h1.mp h2
    rcases hlive with hl | ⟨y, hy, hle⟩
    · rw [hl] at hx; cases hx
    · rw [hy] at hx
      simp only [Option.some.injEq] at hx
      subst hx
      omega
  · exact h2

/-- A key whose deadline lies in another shard than the visited one stays, even if the deadline has passed
    (it goes when its own shard is visited, `C10_eventually`). -/
theorem C10_other_shard_untouched {s s' : State} {ev : List Evicted} (t : TtlInv s)
    (hs : sweepStep s = .ok (s', .swept ev)) {k : Nat} {e : Entry} {x : Nat} (hk : s.store.get? k = some e)
    (hx : e.expiry = some x) (hsh : shardOf s.cfg x ≠ secsOf s.now % s.cfg.shards) : s'.store.get? k = some e := by
  obtain ⟨h1, h2⟩ := C10_removed_exactly t hs hk
  rcases h2 with h2 | h2
  · obtain ⟨y, hy, _, hs'⟩ := h1.mp h2
    rw [hx] at hy
    simp only [Option.some.injEq] at hy
    subst hy
    exact absurd hs' hsh
  · exact h2

/-- **A sweep never removes a value that has not expired by its OWN stored deadline — in EVERY state** (no invariant:
    whatever the expiry index says, whoever is charged for what, worker dead or alive).  This is what the sweeper's
    check against the store (`Store::has_unexpired_value_with_key_id`, fix 36c87dc) guarantees on its own; under
    `TtlInv` (every reachable state of Layer A) it adds nothing to `C10_never_removes_live`, because there a due index
    entry means the stored value has expired (`TtlInv.due_expired`) — at Layer B, where `put_or_update` changes the
    stored deadline and the index in two steps, it is what keeps the key (D12, D13). -/
theorem C10_never_removes_unexpired {s s' : State} {ev : List Evicted} (hs : sweepStep s = .ok (s', .swept ev))
    {k : Nat} {e : Entry} (hk : s.store.get? k = some e)
    (hlive : e.expiry = none ∨ ∃ x, e.expiry = some x ∧ s.now ≤ x) : s'.store.get? k = some e := by
  obtain ⟨_, _, rfl⟩ := sweepStep_eq hs
  exact sweepEntries_keeps_unexpired _ s [] hk (unexpiredWithId_eq_true.mpr ⟨e, hk, rfl, hlive⟩)

/-- **Every eviction a sweep reports is of a key id whose stored value failed the check**: under the charged key nothing
    is stored, or a value with another id, or a value whose own deadline has passed — in EVERY state. -/
theorem C10_evicts_only_expired {s s' : State} {ev : List Evicted} (hs : sweepStep s = .ok (s', .swept ev))
    {id key : Nat} {w : Int} (hm : (id, key, w) ∈ ev) :
    s.store.get? key = none ∨ (∃ e, s.store.get? key = some e ∧ e.id ≠ id) ∨
    (∃ e x, s.store.get? key = some e ∧ e.id = id ∧ e.expiry = some x ∧ s.now > x) := by
  obtain ⟨s1, sp, _⟩ := sweepStep_spec hs
  have h := sp.evExpired _ hm
  simp only at h
  cases hg : s.store.get? key with
  | none => exact Or.inl rfl
  | some e =>
    by_cases hid : e.id = id
    · refine Or.inr (Or.inr ?_)
      cases hx : e.expiry with
      | none =>
        rw [unexpiredWithId_eq_true.mpr ⟨e, hg, hid, Or.inl hx⟩] at h
        cases h
      | some x =>
        by_cases hnow : s.now ≤ x
        · rw [unexpiredWithId_eq_true.mpr ⟨e, hg, hid, Or.inr ⟨x, hx, hnow⟩⟩] at h
          cases h
        · exact ⟨e, x, rfl, hid, hx, by omega⟩
    · exact Or.inr (Or.inl ⟨e, rfl, hid⟩)

/-- **The weight of the removed keys is reclaimed.**  `ev` (the evictions the sweep reports, as (id, key, weight))
    lists, without repetition, exactly the charged ids that have a due index entry, with the key and the weight they
    were charged for; the total falls by the sum of these weights; the ids are no longer charged afterwards; every
    other id is charged exactly as before; the limit is untouched. -/
theorem C10_weight_reclaimed {s s' : State} {ev : List Evicted} (t : TtlInv s)
    (hs : sweepStep s = .ok (s', .swept ev)) :
    (ev.map (·.1)).Nodup ∧
    (∀ id key w, (id, key, w) ∈ ev ↔
      ∃ sh x hash, s.ttl.get? (sh, id) = some x ∧ due s ((sh, id), x) = true ∧
        s.adm.kw.get? id = some ⟨key, hash, w⟩) ∧
    s'.adm.used = s.adm.used - (ev.map (·.2.2)).sum ∧
    (∀ e ∈ ev, s'.adm.kw.get? e.1 = none) ∧
    (∀ i, i ∉ ev.map (·.1) → s'.adm.kw.get? i = s.adm.kw.get? i) ∧
    s'.adm.max = s.adm.max := by
  obtain ⟨s1, sp, _, h2, _, _, _⟩ := sweepStep_spec hs
  refine ⟨sp.evNodup, ?_, by rw [h2]; exact sp.used, ?_, ?_, by rw [h2]; exact sp.max⟩
  · intro id key w
    constructor
    · intro hm
      obtain ⟨hin, hash, hg⟩ := sp.evIn _ hm
      obtain ⟨sh, x, hx, hd⟩ := (mem_dueIds t.noDup id).mp hin
      exact ⟨sh, x, hash, hx, hd, hg⟩
    · intro ⟨sh, x, hash, hx, hd, hg⟩
      exact sp.evAll_due t (dueList_filter t.noDup) id ((mem_dueIds t.noDup id).mpr ⟨sh, x, hx, hd⟩) _ hg
  · intro e he
    rw [h2, sp.kw]
    simp [List.mem_map.mpr ⟨e, he, rfl⟩]
  · intro i hi
    rw [h2, sp.kw]
    simp [hi]

/-- **A stale index entry is harmless.**  If a due entry's id is not charged any more (its key was evicted earlier;
    the key may have been put again since, under a new id) the sweep only drops that entry: no eviction is reported
    for the id, it stays un-charged, and no stored key — in particular not a new incarnation of the same key —
    carries it, so what happens to every stored key is decided by its own current deadline alone
    (`C10_removed_exactly`). -/
theorem C10_stale_harmless {s s' : State} {ev : List Evicted} (t : TtlInv s)
    (hs : sweepStep s = .ok (s', .swept ev)) {sh i x : Nat} (hx : s.ttl.get? (sh, i) = some x)
    (hd : due s ((sh, i), x) = true) (hstale : s.adm.kw.get? i = none) :
    (∀ e ∈ ev, e.1 ≠ i) ∧ s'.adm.kw.get? i = none ∧ (∀ k e, s.store.get? k = some e → e.id ≠ i) ∧
    s'.ttl.get? (sh, i) = none := by
  obtain ⟨s1, sp, _, h2, h3, _, _⟩ := sweepStep_spec hs
  refine ⟨?_, ?_, ?_, ?_⟩
  · intro e he heq
    obtain ⟨_, hh, hg⟩ := sp.evIn e he
    rw [heq, hstale] at hg
    cases hg
  · rw [h2, sp.kw]
    split
    · rfl
    · exact hstale
  · intro k e hk heq
    obtain ⟨wk, hw, _⟩ := t.charged hk
    rw [heq, hstale] at hw
    cases hw
  · rw [h3, AMap.get?_filter t.noDup, hx]
    simp [hd]

/-- If every due entry is stale the sweep changes nothing but the index. -/
theorem C10_all_stale_noop {s s' : State} {ev : List Evicted} (hs : sweepStep s = .ok (s', .swept ev))
    (hstale : ∀ p ∈ s.ttl, due s p = true → s.adm.kw.get? p.1.2 = none) :
    ev = [] ∧ s'.store = s.store ∧ s'.adm = s.adm ∧ s'.stats = s.stats := by
  obtain ⟨_, hev, rfl⟩ := sweepStep_eq hs
  have := sweepEntries_all_stale (s.ttl.filter (due s)) s []
    (fun p hp => hstale p (List.mem_filter.mp hp).1 (List.mem_filter.mp hp).2)
  rw [this] at hev
  rw [this]
  exact ⟨hev, rfl, rfl, rfl⟩

/-- **Every key whose current deadline has passed is removed by the next sweep of its shard, and its weight is
    released**: the key leaves the store, its id is un-charged, and the eviction (id, key, charged weight) is among
    those by whose weights the total falls. -/
theorem C10_eventually {s s' : State} {ev : List Evicted} (t : TtlInv s)
    (hs : sweepStep s = .ok (s', .swept ev)) {k : Nat} {e : Entry} {x : Nat} (hk : s.store.get? k = some e)
    (hx : e.expiry = some x) (hpast : s.now > x) (hshard : secsOf s.now % s.cfg.shards = shardOf s.cfg x) :
    s'.store.get? k = none ∧ s'.adm.kw.get? e.id = none ∧
    ∃ wk, s.adm.kw.get? e.id = some wk ∧ wk.key = k ∧ (e.id, k, wk.weight) ∈ ev ∧
      s'.adm.used = s.adm.used - (ev.map (·.2.2)).sum := by
  obtain ⟨h1, _⟩ := C10_removed_exactly t hs hk
  obtain ⟨_, w2, w3, w4, _, _⟩ := C10_weight_reclaimed t hs
  obtain ⟨wk, hw, hkey⟩ := t.charged hk
  have hidx := t.indexedU k e x hk hx
  have hd : due s ((shardOf s.cfg x, e.id), x) = true := by
    simp only [due, Bool.and_eq_true, beq_iff_eq, decide_eq_true_eq]
    exact ⟨hshard.symm, hpast⟩
  have hmem : (e.id, k, wk.weight) ∈ ev := by
    refine (w2 e.id k wk.weight).mpr ⟨_, x, wk.hash, hidx, hd, ?_⟩
    rw [hw, ← hkey]
  exact ⟨h1.mpr ⟨x, hx, hpast, hshard.symm⟩, w4 _ hmem, wk, hw, hkey, hmem, w3⟩

/-- The same for a reachable state, where both invariants hold. -/
theorem C10_eventually_reach {cfg : Cfg} {now0 : Nat} {seeds : List Nat} {s s' : State} {ev : List Evicted}
    (hr : Reach cfg now0 seeds s) (hs : sweepStep s = .ok (s', .swept ev)) {k : Nat} {e : Entry} {x : Nat}
    (hk : s.store.get? k = some e) (hx : e.expiry = some x) (hpast : s.now > x)
    (hshard : secsOf s.now % s.cfg.shards = shardOf s.cfg x) :
    s'.store.get? k = none ∧ s'.adm.kw.get? e.id = none := by
  obtain ⟨h1, h2, _⟩ := C10_eventually (ttlinv_reach hr) hs hk hx hpast hshard
  exact ⟨h1, h2⟩

/-- **With a one-second tick every shard is visited again and again**: for a tick train `t0 + n * 1 s`, every
    shard `r` and every time bound `B` there is a tick at or after `B` that visits `r`. -/
theorem C10_fair_ticks (shards : Nat) (hpos : 0 < shards) (t0 r B : Nat) (hr : r < shards) :
    ∃ n, t0 + n * 1000000000 ≥ B ∧ secsOf (t0 + n * 1000000000) % shards = r := by
  have hsec : ∀ n, secsOf (t0 + n * 1000000000) = secsOf t0 + n := by
    intro n
    unfold secsOf nsPerSec
    exact Nat.add_mul_div_right t0 n (by decide)
  -- choose `n` with `secsOf t0 + n = shards * K + r` for a large `K`
  have hK : secsOf t0 + B + 1 ≤ shards * (secsOf t0 + B + 1) := Nat.le_mul_of_pos_left _ hpos
  refine ⟨shards * (secsOf t0 + B + 1) + r - secsOf t0, ?_, ?_⟩
  · generalize shards * (secsOf t0 + B + 1) = X at hK
    omega
  · rw [hsec]
    have : secsOf t0 + (shards * (secsOf t0 + B + 1) + r - secsOf t0) = shards * (secsOf t0 + B + 1) + r := by
      generalize shards * (secsOf t0 + B + 1) = X at hK
      omega
    rw [this, Nat.mul_add_mod, Nat.mod_eq_of_lt hr]

/-- A tick that shares a factor with the number of shards does NOT have this property: with a two-second tick and
    256 shards the parity of the visited shard never changes, so half of the shards are never swept. -/
theorem C10_unfair_ticks (t0 n : Nat) :
    (secsOf (t0 + n * 2000000000) % 256) % 2 = (secsOf t0 % 256) % 2 := by
  have hsec : secsOf (t0 + n * 2000000000) = secsOf t0 + 2 * n := by
    unfold secsOf nsPerSec
    have : t0 + n * 2000000000 = t0 + (2 * n) * 1000000000 := by omega
    rw [this]
    exact Nat.add_mul_div_right t0 (2 * n) (by decide)
  rw [hsec]
  omega

/-- a small concrete instance: two shards, two-second tick starting at 0 — shard 1 is not visited -/
example : ∀ n, n < 50 → secsOf (0 + n * 2000000000) % 2 ≠ 1 := by decide

/-! ### non-vacuity: concrete histories (two shards, limit 100 resp. 10) -/

/-- `init` at 5 s; `put_with_weight_and_ttl(1, weight 5, ttl 1 s)` executed: deadline 6 s, shard 0. -/
def c10Cfg : Cfg := { maxWeight := 100, shards := 2, cmdCap := 4, poolSize := 1, bufSize := 2, counters := 2 }

/-- no choices needed -/
def c10O : Oracle := {}

def c10Put : List (Ev × Oracle) := [(.putWTtl 0 1 10 5 1000000000, c10O), (.worker, c10O)]

/-- the put is indexed under its deadline's shard and charged -/
example :
    (match runEvents (State.init c10Cfg 5000000000 [1, 2, 3, 4]) c10Put with
     | .ok s => decide (s.store.get? 1 = some ⟨10, 1, some 6000000000, false⟩ ∧ s.ttl = [((0, 1), 6000000000)] ∧
                        s.adm.used = 5 ∧ s.adm.kw.get? 1 = some ⟨1, 1, 5⟩)
     | _ => false) = true := by decide

/-- the clock moves past the deadline (8 s: shard 0) and the sweep of the right shard removes the key and releases
    its weight (hypotheses of `C10_eventually`, and its conclusion, on a concrete run) -/
example :
    (match runEvents (State.init c10Cfg 5000000000 [1, 2, 3, 4]) (c10Put ++ [(.advance 3000000000, c10O)]) with
     | .ok s =>
       (match sweepStep s with
        | .ok (s', .swept ev) =>
          decide (s.now > 6000000000 ∧ secsOf s.now % s.cfg.shards = shardOf s.cfg 6000000000 ∧
                  s'.store.get? 1 = none ∧ s'.adm.used = 0 ∧ s'.adm.kw.get? 1 = none ∧ s'.ttl = [] ∧ ev = [(1, 1, 5)])
        | _ => false)
     | _ => false) = true := by decide

/-- a sweep in the other shard (7 s: shard 1) leaves it, although the deadline has passed
    (`C10_other_shard_untouched`) -/
example :
    (match runEvents (State.init c10Cfg 5000000000 [1, 2, 3, 4]) (c10Put ++ [(.advance 2000000000, c10O), (.sweep, c10O)]) with
     | .ok s => decide (s.now > 6000000000 ∧ s.store.get? 1 = some ⟨10, 1, some 6000000000, false⟩ ∧ s.adm.used = 5 ∧
                        s.ttl = [((0, 1), 6000000000)])
     | _ => false) = true := by decide

/-- a sweep of the right shard before the deadline (6 s sharp: not yet passed) leaves it (`C10_never_removes_live`) -/
example :
    (match runEvents (State.init c10Cfg 5000000000 [1, 2, 3, 4]) (c10Put ++ [(.advance 1000000000, c10O), (.sweep, c10O)]) with
     | .ok s => decide (s.now = 6000000000 ∧ s.store.get? 1 = some ⟨10, 1, some 6000000000, false⟩ ∧ s.adm.used = 5)
     | _ => false) = true := by decide

/-- a key whose time-to-live was removed by an upsert survives the sweep at its old deadline -/
example :
    (match runEvents (State.init c10Cfg 5000000000 [1, 2, 3, 4])
        (c10Put ++ [(.upsert 0 1 none (some 5) none true, c10O), (.worker, c10O), (.advance 3000000000, c10O), (.sweep, c10O)]) with
     | .ok s => decide (s.now = 8000000000 ∧ s.store.get? 1 = some ⟨10, 1, none, false⟩ ∧ s.adm.used = 5 ∧ s.ttl = [])
     | _ => false) = true := by decide

/-- a key whose time-to-live was extended (to 9 s: shard 1) by an upsert survives the sweep at its old deadline -/
example :
    (match runEvents (State.init c10Cfg 5000000000 [1, 2, 3, 4])
        (c10Put ++ [(.upsert 0 1 none (some 5) (some 4000000000) false, c10O), (.worker, c10O),
                    (.advance 3000000000, c10O), (.sweep, c10O)]) with
     | .ok s => decide (s.now = 8000000000 ∧ s.store.get? 1 = some ⟨10, 1, some 9000000000, false⟩ ∧ s.adm.used = 5 ∧
                        s.ttl = [((1, 1), 9000000000)])
     | _ => false) = true := by decide

/-- `C10_never_removes_unexpired` where `TtlInv` FAILS (the situation of D12/D13 at Layer B, frozen into a Layer A
    state): the index still holds the OLD deadline 6 s of id 1, due at 8 s, while the stored value already carries the
    extended deadline 9 s.  The sweep drops the index entry and leaves key 1 stored and charged (before the fix: key 1
    was removed and its weight reclaimed). -/
def c10OutOfStep : State :=
  { (State.init c10Cfg 8000000000 [1, 2, 3, 4]) with
    store := [(1, ⟨10, 1, some 9000000000, false⟩)], ttl := [((0, 1), 6000000000)],
    adm := { max := 100, used := 5, kw := [(1, ⟨1, 1, 5⟩)] }, nextId := 2 }

example :
    c10OutOfStep.store.get? 1 = some ⟨10, 1, some 9000000000, false⟩ ∧ c10OutOfStep.now ≤ 9000000000 ∧
    due c10OutOfStep ((0, 1), 6000000000) = true ∧
    (match sweepStep c10OutOfStep with
     | .ok (s', .swept ev) =>
       decide (ev = [] ∧ s'.store.get? 1 = some ⟨10, 1, some 9000000000, false⟩ ∧ s'.adm.used = 5 ∧
               s'.adm.kw.get? 1 = some ⟨1, 1, 5⟩ ∧ s'.ttl = [])
     | _ => false) = true := by decide

/-- limit 10: key 1 (id 1, ttl, deadline 2 s) is evicted by the admission of key 2, which leaves a stale index
    entry; key 1 is put again (id 3, no ttl) -/
def c10Stale : List (Ev × Oracle) :=
  [(.putWTtl 0 1 100 6 1000000000, c10O), (.worker, c10O), (.putW 0 2 200 7, c10O),
   (.worker, { dk := [false, false], ids := [1], pops := [some 1] }), (.putW 0 1 300 3, c10O), (.worker, c10O),
   (.advance 3000000000, c10O)]

def c10StaleInit : State :=
  State.init { maxWeight := 10, shards := 2, cmdCap := 4, poolSize := 1, bufSize := 2, counters := 2 } 1000000000 [1, 2, 3, 4]

/-- hypotheses of `C10_stale_harmless` on this run: a due entry whose id is not charged, the key stored again -/
example :
    (match runEvents c10StaleInit c10Stale with
     | .ok s => decide (s.ttl = [((0, 1), 2000000000)] ∧ due s ((0, 1), 2000000000) = true ∧ s.adm.kw.get? 1 = none ∧
                        s.store.get? 1 = some ⟨300, 3, none, false⟩ ∧ s.adm.used = 10)
     | _ => false) = true := by decide

/-- …and the sweep drops the stale entry without touching the new incarnation (or anything else) -/
example :
    (match runEvents c10StaleInit (c10Stale ++ [(.sweep, c10O)]) with
     | .ok s => decide (s.ttl = [] ∧ s.store.get? 1 = some ⟨300, 3, none, false⟩ ∧ s.store.get? 2 ≠ none ∧
                        s.adm.used = 10 ∧ s.adm.kw.get? 3 = some ⟨1, 1, 3⟩)
     | _ => false) = true := by decide

/-- a deleted key leaves no index entry behind: put with ttl, delete, put again (no ttl), sweep at the old deadline -/
example :
    (match runEvents (State.init c10Cfg 5000000000 [1, 2, 3, 4])
        (c10Put ++ [(.delete 0 1, c10O), (.worker, c10O), (.putW 0 1 11 4, c10O), (.worker, c10O),
                    (.advance 3000000000, c10O), (.sweep, c10O)]) with
     | .ok s => decide (s.ttl = [] ∧ s.store.get? 1 = some ⟨11, 2, none, false⟩ ∧ s.adm.used = 4)
     | _ => false) = true := by decide

/-- the states of these runs are reachable, so `Inv` and `TtlInv` hold for them -/
example (s : State) (h : runEvents c10StaleInit c10Stale = .ok s) : Inv s ∧ TtlInv s :=
  ⟨inv_reach (reach_runEvents _ Reach.init h), ttlinv_reach (reach_runEvents _ Reach.init h)⟩

end Cached
