/-
  C09  Expired values are never served.

  Statements about `CachedModel/State.lean` (Layer A; a read is one atomic action there and in Layer B alike):
  for every state, key, oracle, time-to-live, clock value.
-/
import CachedProofs.Lemmas.AMap
import CachedModel.State

namespace Cached

/-- `now = deadline` is still alive, one nanosecond later is not (clock.rs:24 `has_passed = now > time`). -/
theorem C09_boundary (e : Entry) (t : Nat) (he : e.expiry = some t) (hs : e.soft = false) :
    e.alive t = true ∧ e.alive (t + 1) = false ∧ ∀ now, e.alive now = decide (now ≤ t) := by
  refine ⟨?_, ?_, ?_⟩ <;> simp [Entry.alive, he, hs]
  intro now
  by_cases h : now ≤ t
  · have : ¬ t < now := by omega
    simp [h, this]
  · have : t < now := by omega
    simp [h, this]

/-- a key without a time-to-live never expires -/
theorem C09_no_ttl_never_expires (e : Entry) (he : e.expiry = none) (hs : e.soft = false) (now : Nat) :
    e.alive now = true := by simp [Entry.alive, he, hs]

/-- **Never served.** Once the clock is past the stored deadline every read of the key reports absent —
    whether or not the sweeper has run (the entry is still physically present here). The read counts a miss
    and changes nothing else. -/
theorem C09_never_served (s : State) (k : Nat) (o : Oracle) (e : Entry) (t : Nat)
    (hk : s.store.get? k = some e) (he : e.expiry = some t) (hnow : s.now > t) :
    readKey s k o = .ok ({ s with stats := { s.stats with misses := s.stats.misses + 1 } }, none, o) := by
  have : e.alive s.now = false := by simp [Entry.alive, he, hnow]
  simp [readKey, hk, this]

/-- **Never hidden.** While the clock has not passed the deadline (or there is none) and the key is not
    deleted, every read that completes returns the stored value. -/
theorem C09_not_hidden (s s' : State) (k : Nat) (o o' : Oracle) (e : Entry) (v : Option Nat)
    (hk : s.store.get? k = some e) (hs : e.soft = false)
    (hlive : e.expiry = none ∨ ∃ t, e.expiry = some t ∧ s.now ≤ t)
    (hr : readKey s k o = .ok (s', v, o')) : v = some e.value := by
  have halive : e.alive s.now = true := by
    rcases hlive with h | ⟨t, h, hle⟩
    · simp [Entry.alive, h, hs]
    · simp [Entry.alive, h, hs]; omega
  simp only [readKey, hk, halive, if_true] at hr
  split at hr
  · simp only [Except.ok.injEq, Prod.mk.injEq] at hr; exact hr.2.1.symm
  · cases hr

/-- all single-key read variants are this one function; the multi-key variants fold it over the keys -/
theorem C09_variants_agree (s : State) (k : Nat) (o : Oracle) (hs : s.shutting = false) :
    clientGet s k o = (match readKey s k o with | .ok (s1, v, o') => .ok (s1, .value v, o') | .error m => .error m) ∧
    clientMultiGet s [k] o = (match readKey s k o with | .ok (s1, v, o') => .ok (s1, .values [v], o') | .error m => .error m) := by
  constructor
  · simp only [clientGet, hs, Bool.false_eq_true, if_false]
    cases readKey s k o with
    | error m => rfl
    | ok r => rfl
  · simp only [clientMultiGet, hs, Bool.false_eq_true, if_false, readKeys]
    cases readKey s k o with
    | error m => rfl
    | ok r => obtain ⟨s1, v, o'⟩ := r; simp

/-- the deadline of a put with time-to-live is the worker's clock plus the time-to-live -/
theorem C09_deadline_put (s s1 : State) (id hash k v ttl : Nat) (w : Int) (o o' : Oracle) (ie : Option Nat)
    (pp : List SKey) (ev : List Evicted)
    (h : workerPut s id hash w k v (some ttl) o = .ok (.done s1 .accepted ie pp ev, o')) :
    s1.store.get? k = some { value := v, id := id, expiry := some (s.now + ttl), soft := false } ∧
      addTime s.now ttl = some (s.now + ttl) := by
  unfold workerPut at h
  split at h
  · simp at h
  · split at h
    · cases h
    · rename_i r hr
      split at h
      · simp at h
      split at h
      · cases hadd : addTime s.now ttl with
        | none => simp [hadd] at h
        | some x =>
          have hx : x = s.now + ttl := by
            unfold addTime at hadd; split at hadd <;> simp at hadd; exact hadd.symm
          subst hx
          simp only [hadd, Except.ok.injEq, Prod.mk.injEq, Exec.done.injEq] at h
          obtain ⟨⟨hs1, _⟩, _⟩ := h
          subst hs1
          exact ⟨by simp [ttlPut], rfl⟩
      · rename_i hst
        simp only [Except.ok.injEq, Prod.mk.injEq, Exec.done.injEq] at h
        exact absurd h.1.2.1 hst

/-- a put without time-to-live stores no deadline -/
theorem C09_deadline_put_none (s s1 : State) (id hash k v : Nat) (w : Int) (o o' : Oracle) (ie : Option Nat)
    (pp : List SKey) (ev : List Evicted)
    (h : workerPut s id hash w k v none o = .ok (.done s1 .accepted ie pp ev, o')) :
    s1.store.get? k = some { value := v, id := id, expiry := none, soft := false } := by
  unfold workerPut at h
  split at h
  · simp at h
  · split at h
    · cases h
    · split at h
      · simp at h
      split at h
      · simp only [Except.ok.injEq, Prod.mk.injEq, Exec.done.injEq] at h
        obtain ⟨⟨hs1, _⟩, _⟩ := h
        subst hs1
        simp
      · rename_i hst
        simp only [Except.ok.injEq, Prod.mk.injEq, Exec.done.injEq] at h
        exact absurd h.1.2.1 hst

/-- an upsert of a physically present key moves the deadline exactly as requested, at the caller's clock:
    removed, set to `now + ttl`, or left alone; the value is replaced iff one was given. -/
theorem C09_deadline_upsert (s : State) (c k : Nat) (v : Option Nat) (w : Option Int) (ttl : Option Nat) (rm : Bool)
    (e : Entry) (hsh : s.shutting = false) (hk : s.store.get? k = some e)
    (hov : ∀ t, ttl = some t → rm = false → addTime s.now t = some (s.now + t)) :
    ∃ e', (clientUpsert s c k v w ttl rm).1.store.get? k = some e' ∧ e'.id = e.id ∧ e'.soft = e.soft ∧
      e'.value = v.getD e.value ∧
      e'.expiry = (if rm then none else match ttl with | some t => some (s.now + t) | none => e.expiry) := by
  have key : ∀ (s2 : State) (cmd : Cmd), (sendCmd s2 c cmd).1.store = s2.store := by
    intro s2 cmd; unfold sendCmd; split <;> (try split) <;> rfl
  unfold clientUpsert
  simp only [hsh, Bool.false_eq_true, if_false, hk]
  cases rm with
  | true =>
    simp only [if_true]
    refine ⟨{ e with expiry := none, value := v.getD e.value }, ?_, rfl, rfl, rfl, rfl⟩
    cases hty : typeOfExpiryUpdate e.expiry none <;>
      (simp only []; repeat' split) <;>
      simp [key, spotAck, ttlPut, ttlDelete, ttlUpdate]
  | false =>
    simp only [Bool.false_eq_true, if_false]
    cases ttl with
    | none =>
      refine ⟨{ e with expiry := e.expiry, value := v.getD e.value }, ?_, rfl, rfl, rfl, rfl⟩
      cases hty : typeOfExpiryUpdate e.expiry e.expiry <;>
        (simp only []; repeat' split) <;>
        simp [key, spotAck, ttlPut, ttlDelete, ttlUpdate]
    | some t =>
      have := hov t rfl rfl
      simp only [this]
      refine ⟨{ e with expiry := some (s.now + t), value := v.getD e.value }, ?_, rfl, rfl, rfl, rfl⟩
      cases hty : typeOfExpiryUpdate e.expiry (some (s.now + t)) <;>
        (simp only []; repeat' split) <;>
        simp [key, spotAck, ttlPut, ttlDelete, ttlUpdate]

/-- clock moves, sweeps of other keys, access counting never alter a stored deadline: the only functions that
    write `expiry` are `workerPut` and `clientUpsert` (frame lemmas for the rest). -/
theorem C09_frame_advance (s : State) (d : Nat) (o : Oracle) :
    ∃ s', step s (.advance d) o = .ok (s', .none, o) ∧ s'.store = s.store ∧ s'.now = s.now + d := by
  exact ⟨_, rfl, rfl, rfl⟩

theorem C09_frame_consumer (s s' : State) (o o' : Oracle) (out : Out) (h : consumerStep s o = .ok (s', out, o')) :
    s'.store = s.store ∧ s'.now = s.now := by
  unfold consumerStep at h
  split at h
  · cases h
  · split at h
    · cases h
    · simp only [Except.ok.injEq, Prod.mk.injEq] at h; obtain ⟨rfl, _, _⟩ := h; exact ⟨rfl, rfl⟩
    · split at h
      · cases h
      · split at h <;> (simp only [Except.ok.injEq, Prod.mk.injEq] at h; obtain ⟨rfl, _, _⟩ := h; exact ⟨rfl, rfl⟩)

/-- Non-vacuity: a concrete entry at its boundary. -/
example : ({ value := 7, id := 1, expiry := some 1000, soft := false } : Entry).alive 1000 = true ∧
          ({ value := 7, id := 1, expiry := some 1000, soft := false } : Entry).alive 1001 = false := by decide

end Cached
