/-
  C17  Valid calls never panic or kill a background worker.

  Statements about `CachedModel/State.lean` (Layer A). A panic in the calling thread is the output `.panic p`; a panic
  of the command worker is the output `.workerPanic p` of its step together with `worker := .dead`; an index out of
  bounds inside the sketch (worker or access-count consumer) is the step result `.error sketchPanic`.

  The property is FALSE of the code at a few boundaries. What is proved:
    * `C17_put_no_panic`, `C17_other_calls_no_panic`: every call but `put_or_update` is panic-free under the
      documented precondition (positive weight) alone;
    * `C17_upsert_no_panic`: `put_or_update` is panic-free under the side conditions (a)–(f) — (a), (b) are documented
      preconditions, (c)–(f) are NOT: `C17_counterexample_time_overflow_caller`, `C17_counterexample_ttl_removal`,
      `C17_counterexample_weight_overflow_caller` show they are needed;
    * `C17_worker_no_panic`: the worker survives a step unless `now + ttl` of a queued put, or the `i64` arithmetic of a
      queued weight update, overflows: `C17_counterexample_worker_time_overflow`,
      `C17_counterexample_worker_weight_overflow` (all five counterexamples are reached from the initial state by API
      calls with valid arguments) — and, for a queued put, provided the weight accounting is in order (`Adm.Sound`: the
      total is the sum of the positive charges, total and capacity are non-negative `i64`s): `is_space_available_for`
      computes `max_weight - weight_used` in `i64`, and `C17_counterexample_worker_space_overflow` shows a NEGATIVE total
      under capacity `i64::MAX` killing the worker there. No run of Layer A reaches a negative total
      (`C17_adm_sound_of_inv`: every state satisfying the Layer A invariant is sound); at action granularity known finding
      D10 does (`LayerB/NoPanic.lean`, `C17_layerB_space_overflow_needs_negative_total`);
    * `C17_dead_worker_consequences`: a dead worker stays dead, its step is never enabled again (so the
      acknowledgements of commands it had not executed stay pending, as in the counterexamples), every later send fails;
    * `C17_sweeper_consumer_never_panic`, `C17_no_sketch_panic`: the sweeper has no panic site; the consumer and the
      worker index the sketch in bounds whenever the sketch is well formed (`FreqCounter.WF`, C14);
    * `C17_step_no_panic`, `C17_run_no_panic`: the summary over all events of the model, and over sequences of them.
-/
import CachedProofs.Lemmas.Upsert
import CachedProofs.Lemmas.Inv
import CachedProofs.Properties.G17

namespace Cached

/-! ### calls other than `put_or_update` -/

/-- the four puts: a positive weight (explicit, or computed by the weight function) is all that is needed -/
theorem C17_put_no_panic (s : State) (c k v t : Nat) (w : Int) (p : Panic) :
    (0 < w → (clientPutW s c k v w).2 ≠ .panic p ∧ (clientPutWTtl s c k v w t).2 ≠ .panic p) ∧
    (0 < s.cfg.weightOf v false → (clientPut s c k v).2 ≠ .panic p) ∧
    (0 < s.cfg.weightOf v true → (clientPutTtl s c k v t).2 ≠ .panic p) := by
  refine ⟨fun hw => ⟨?_, ?_⟩, fun hw => ?_, fun hw => ?_⟩
  · unfold clientPutW
    split; simp; split; (exfalso; omega); exact clientPutChecked_no_panic _ _ _ _ _ _ _
  · unfold clientPutWTtl
    split; simp; split; (exfalso; omega); exact clientPutChecked_no_panic _ _ _ _ _ _ _
  · unfold clientPut
    simp only []
    split; (exfalso; omega); split; simp; exact clientPutChecked_no_panic _ _ _ _ _ _ _
  · unfold clientPutTtl
    split; simp; simp only []; split; (exfalso; omega); exact clientPutChecked_no_panic _ _ _ _ _ _ _

/-- delete, shutdown, a resumed (parked) call, the reads, clock moves, polling an acknowledgement, the weight and
    statistics getters: no panic site at all -/
theorem C17_other_calls_no_panic (s : State) (o : Oracle) (p : Panic) :
    (∀ c k, (clientDelete s c k).2 ≠ .panic p) ∧
    (∀ c, (clientShutdown s c).2 ≠ .panic p) ∧
    (∀ c r, resume s c = .ok r → r.2 ≠ .panic p) ∧
    (∀ k s' out o', clientGet s k o = .ok (s', out, o') → out ≠ .panic p) ∧
    (∀ ks s' out o', clientMultiGet s ks o = .ok (s', out, o') → out ≠ .panic p) ∧
    (∀ d s' out o', step s (.advance d) o = .ok (s', out, o') → out ≠ .panic p) ∧
    (∀ h s' out o', step s (.poll h) o = .ok (s', out, o') → out ≠ .panic p) ∧
    (∀ s' out o', step s .weight o = .ok (s', out, o') → out ≠ .panic p) ∧
    (∀ s' out o', step s .stats o = .ok (s', out, o') → out ≠ .panic p) := by
  refine ⟨?_, ?_, ?_, ?_, ?_, ?_, ?_, ?_, ?_⟩
  · intro c k
    unfold clientDelete; split; simp; exact sendCmd_no_panic _ _ _ _
  · exact fun c => clientShutdown_no_panic s c p
  · exact fun c r h => resume_no_panic s c r h p
  · intro k s' out o' h
    unfold clientGet at h
    split at h
    · simp only [Except.ok.injEq, Prod.mk.injEq] at h; obtain ⟨_, rfl, _⟩ := h; simp
    · split at h
      · simp only [Except.ok.injEq, Prod.mk.injEq] at h; obtain ⟨_, rfl, _⟩ := h; simp
      · cases h
  · intro ks s' out o' h
    unfold clientMultiGet at h
    split at h
    · simp only [Except.ok.injEq, Prod.mk.injEq] at h; obtain ⟨_, rfl, _⟩ := h; simp
    · split at h
      · simp only [Except.ok.injEq, Prod.mk.injEq] at h; obtain ⟨_, rfl, _⟩ := h; simp
      · cases h
  · intro d s' out o' h
    simp only [step, Except.ok.injEq, Prod.mk.injEq] at h; obtain ⟨_, rfl, _⟩ := h; simp
  · intro hd s' out o' h
    simp only [step] at h
    split at h
    · simp only [Except.ok.injEq, Prod.mk.injEq] at h; obtain ⟨_, rfl, _⟩ := h; simp
    · cases h
  · intro s' out o' h
    simp only [step, Except.ok.injEq, Prod.mk.injEq] at h; obtain ⟨_, rfl, _⟩ := h; simp
  · intro s' out o' h
    simp only [step, Except.ok.injEq, Prod.mk.injEq] at h; obtain ⟨_, rfl, _⟩ := h; simp

/-! ### `put_or_update` -/

/-- **`put_or_update` does not panic** under:
    (a) an explicit weight is positive, and (when no explicit weight is given) the weight function is positive on the
        given value — the documented precondition;
    (b) a physically absent key comes with a value — the documented precondition;
    (c) for a present key, `now + ttl` is representable;
    (d) when the request only removes the TTL of a present key that has one (no weight, no value) AND the key id is
        charged: the charged weight exceeds `ttlEntry` (and the difference is an `i64`);
    (e) when the request only adds a TTL to a present key that has none AND the key id is charged: charged weight
        `+ ttlEntry` is a positive `i64`;
    (f) the weight that is sent (explicit, or the weight function's) is an `i64`.
    `chargedWeight s id` is the weight charged for `id` (0 if none — but since fix c86efeb (d) and (e) are asked only
    when the id IS charged: for an id that is not charged no weight is computed, nothing is sent and nothing panics;
    before the fix the call computed `0 ± ttlEntry`, so (d) could not hold for such an id).
    Each hypothesis is only asked where it is used, which makes the theorem stronger than with unconditional (a)–(f). -/
theorem C17_upsert_no_panic (s : State) (c k : Nat) (v : Option Nat) (w : Option Int) (ttl : Option Nat) (rm : Bool)
    (ha1 : ∀ x, w = some x → 0 < x)
    (ha2 : ∀ val, v = some val → w = none → 0 < s.cfg.weightOf val ttl.isSome)
    (hb : s.store.get? k = none → v.isSome = true)
    (hc : ∀ e t, s.store.get? k = some e → ttl = some t → rm = false → ∃ x, addTime s.now t = some x)
    (hd : ∀ e a, s.store.get? k = some e → e.expiry = some a → rm = true → w = none → v = none →
      (s.adm.kw.get? e.id).isSome = true →
      s.cfg.ttlEntry < chargedWeight s e.id ∧ inI64 (chargedWeight s e.id - s.cfg.ttlEntry) = true)
    (he : ∀ e t, s.store.get? k = some e → e.expiry = none → rm = false → ttl = some t → w = none → v = none →
      (s.adm.kw.get? e.id).isSome = true →
      0 < chargedWeight s e.id + s.cfg.ttlEntry ∧ inI64 (chargedWeight s e.id + s.cfg.ttlEntry) = true)
    (hf1 : ∀ e x, s.store.get? k = some e → w = some x → inI64 x = true)
    (hf2 : ∀ e val, s.store.get? k = some e → v = some val → w = none → inI64 (s.cfg.weightOf val ttl.isSome) = true)
    (p : Panic) : (clientUpsert s c k v w ttl rm).2 ≠ .panic p := by
  cases hsh : s.shutting with
  | true => simp [clientUpsert, hsh]
  | false =>
    cases hk : s.store.get? k with
    | none =>
      have hv := hb hk
      cases v with
      | none => simp at hv
      | some val =>
        unfold clientUpsert
        simp only [hsh, Bool.false_eq_true, if_false, hk]
        cases w with
        | none =>
          have : ¬ s.cfg.weightOf val ttl.isSome ≤ 0 := by have := ha2 val rfl rfl; omega
          simp only [Option.map_some, this, if_false]
          cases ttl <;> exact sendCmd_no_panic _ _ _ _
        | some x =>
          have : ¬ x ≤ 0 := by have := ha1 x rfl; omega
          simp only [this, if_false]
          cases ttl <;> exact sendCmd_no_panic _ _ _ _
    | some e =>
      cases hne : upsertNewExpiry? s e ttl rm with
      | none =>
        obtain ⟨hrm, t, ht, hadd⟩ := upsertNewExpiry?_none hne
        obtain ⟨x, hx⟩ := hc e t hk ht hrm
        rw [hx] at hadd; cases hadd
      | some ne =>
        have hne' := upsertNewExpiry?_some hne
        rw [clientUpsert_present s c k v w ttl rm e ne hsh hk hne]
        apply upsertFinish_no_panic
        intro x hx
        unfold upsertWeight at hx
        cases w with
        | some y =>
          simp only [Option.some.injEq] at hx; subst hx
          exact ⟨hf1 e y hk rfl, ha1 y rfl⟩
        | none =>
          cases v with
          | some val =>
            simp only [Option.some.injEq] at hx; subst hx
            exact ⟨hf2 e val hk rfl rfl, ha2 val rfl rfl⟩
          | none =>
            simp only [] at hx
            cases hexp : e.expiry with
            | none =>
              cases ne with
              | none => simp [hexp] at hx
              | some n =>
                simp only [hexp, Option.map_eq_some_iff] at hx
                obtain ⟨y, hy, rfl⟩ := hx
                obtain ⟨wk, hwk, _⟩ := chargedWeight?_some_iff.mp hy
                rw [← chargedWeight_of_some hy]
                cases rm with
                | true => simp [upsertExpiry] at hne'
                | false =>
                  cases ttl with
                  | none => simp [upsertExpiry, hexp] at hne'
                  | some t =>
                    obtain ⟨h1, h2⟩ := he e t hk hexp rfl rfl rfl rfl (by rw [hwk]; rfl)
                    exact ⟨h2, h1⟩
            | some a =>
              cases ne with
              | some n => simp [hexp] at hx
              | none =>
                simp only [hexp, Option.map_eq_some_iff] at hx
                obtain ⟨y, hy, rfl⟩ := hx
                obtain ⟨wk, hwk, _⟩ := chargedWeight?_some_iff.mp hy
                rw [← chargedWeight_of_some hy]
                cases rm with
                | false =>
                  cases ttl with
                  | none => simp [upsertExpiry, hexp] at hne'
                  | some t => simp [upsertExpiry] at hne'
                | true =>
                  obtain ⟨h1, h2⟩ := hd e a hk hexp rfl rfl rfl (by rw [hwk]; rfl)
                  exact ⟨h2, by omega⟩

def c17Cfg : Cfg := { maxWeight := 100, shards := 2, cmdCap := 4, poolSize := 1, bufSize := 2, counters := 2 }

/-- `put_with_weight_and_ttl(k=1, v=10, w=5, ttl 1 s)` at second 3, executed: key 1 charged 5, deadline second 4 -/
def c17Light : State :=
  { (State.init c17Cfg 3000000000 [1, 2, 3, 4]) with
    store := [(1, { value := 10, id := 1, expiry := some 4000000000, soft := false })],
    adm := { max := 100, used := 5, kw := [(1, { key := 1, hash := 1, weight := 5 })] },
    ttl := [((0, 1), 4000000000)], nextId := 2, acks := [.accepted],
    stats := { keysAdded := 1, weightAdded := 5 } }

/-- **(d) is needed.** A key charged 5 with a time-to-live; `put_or_update(k).remove_time_to_live()` computes
    `5 - 24`, and `assert!(weight > 0)` panics in the caller — AFTER the entry's deadline and its expiry-index entry
    were already removed (the returned state); the weight charged for the key is still 5. -/
theorem C17_counterexample_ttl_removal :
    runEvents_Upsert (State.init c17Cfg 3000000000 [1, 2, 3, 4]) [.putWTtl 0 1 10 5 1000000000, .worker] = .ok c17Light ∧
    chargedWeight c17Light 1 = 5 ∧ c17Light.cfg.ttlEntry = 24 ∧
    ∃ s', clientUpsert c17Light 0 1 none none none true = (s', .panic .weightNotPositive) ∧
      s'.store.get? 1 = some { value := 10, id := 1, expiry := none, soft := false } ∧ s'.ttl = [] ∧
      s'.adm.kw.get? 1 = some { key := 1, hash := 1, weight := 5 } :=
  ⟨rfl, rfl, rfl, _, rfl, rfl, rfl, rfl⟩

/-- **A pure time-to-live change of a key id that is not charged cannot panic** (fix c86efeb, defect D14): for a
    present key whose id is not charged (evicted, swept or deleted by the background threads while the caller-side
    program was under way — at Layer A no reachable state is like that, `TtlInv.charged`), a request without weight and
    value computes no weight, sends nothing, and is answered Accepted on the spot; only (c) is needed.  Before the fix
    the call computed `0 ± ttlEntry`: a time-to-live removal panicked on `0 - 24` whatever the caller did. -/
theorem C17_upsert_uncharged_ttl_only (s : State) (c k : Nat) (ttl : Option Nat) (rm : Bool) (e : Entry)
    (hsh : s.shutting = false) (hk : s.store.get? k = some e) (hu : s.adm.kw.get? e.id = none)
    (hc : ∀ t, ttl = some t → rm = false → ∃ x, addTime s.now t = some x) :
    (clientUpsert s c k none none ttl rm).2 = .ack s.acks.length .accepted ∧
    (clientUpsert s c k none none ttl rm).1.queue = s.queue ∧ (clientUpsert s c k none none ttl rm).1.pend = s.pend := by
  have hov' : ∀ t, ttl = some t → rm = false → addTime s.now t = some (s.now + t) :=
    fun t h1 h2 => (addTime_some_iff _ _).mp (hc t h1 h2)
  rw [clientUpsert_present s c k none none ttl rm e _ hsh hk (upsertNewExpiry?_eq s e ttl rm hov')]
  have hw : upsertWeight s e none none ttl (upsertExpiry s e ttl rm) = none := by
    unfold upsertWeight
    rw [chargedWeight?_eq_none hu]
    cases e.expiry <;> cases upsertExpiry s e ttl rm <;> rfl
  rw [hw]
  exact ⟨rfl, rfl, rfl⟩

/-- non-vacuity, and the run of `C17_counterexample_ttl_removal` with the key id NOT charged: the removal of the
    time-to-live is answered Accepted on the spot (before the fix: panic on `0 - 24`) -/
example :
    let s := { c17Light with adm := { max := 100, used := 0, kw := [] } }
    s.shutting = false ∧ s.store.get? 1 = some { value := 10, id := 1, expiry := some 4000000000, soft := false } ∧
    s.adm.kw.get? 1 = none ∧
    ∃ s', clientUpsert s 0 1 none none none true = (s', .ack 1 .accepted) ∧
      s'.store.get? 1 = some { value := 10, id := 1, expiry := none, soft := false } ∧ s'.ttl = [] ∧ s'.queue = [] :=
  ⟨rfl, rfl, rfl, _, rfl, rfl, rfl, rfl⟩

/-- **(c) is needed.** `put_or_update(k).time_to_live(Duration::MAX)` on a present key: `now + ttl` overflows in the
    caller (nothing was changed yet). -/
theorem C17_counterexample_time_overflow_caller :
    addTime c17Light.now 18446744073709551615999999999 = none ∧
    clientUpsert c17Light 0 1 none none (some 18446744073709551615999999999) false =
      (c17Light, .panic .timeOverflow) :=
  ⟨by decide, rfl⟩

def c17BigCfg : Cfg :=
  { maxWeight := 9223372036854775807, shards := 2, cmdCap := 4, poolSize := 1, bufSize := 2, counters := 2 }

/-- `put_with_weight(k=1, v=10, w = i64::MAX - 10)` into a cache of weight `i64::MAX`, executed -/
def c17Heavy : State :=
  { (State.init c17BigCfg 3000000000 [1, 2, 3, 4]) with
    store := [(1, { value := 10, id := 1, expiry := none, soft := false })],
    adm := { max := 9223372036854775807, used := 9223372036854775797,
             kw := [(1, { key := 1, hash := 1, weight := 9223372036854775797 })] },
    nextId := 2, acks := [.accepted],
    stats := { keysAdded := 1, weightAdded := 9223372036854775797 } }

/-- **(e) is needed.** Adding a time-to-live to that key computes `(i64::MAX - 10) + 24`: overflow in the caller,
    after the deadline and the expiry-index entry were already written. -/
theorem C17_counterexample_weight_overflow_caller :
    runEvents_Upsert (State.init c17BigCfg 3000000000 [1, 2, 3, 4]) [.putW 0 1 10 9223372036854775797, .worker] = .ok c17Heavy ∧
    inI64 (chargedWeight c17Heavy 1 + c17Heavy.cfg.ttlEntry) = false ∧
    ∃ s', clientUpsert c17Heavy 0 1 none none (some 1000000000) false = (s', .panic .weightOverflow) ∧
      s'.store.get? 1 = some { value := 10, id := 1, expiry := some 4000000000, soft := false } ∧
      s'.ttl = [((0, 1), 4000000000)] :=
  ⟨rfl, by decide, _, rfl, rfl, rfl⟩

/-! ### the command worker -/

/-- **The worker survives a step** (no `.workerPanic`, `worker` does not become `.dead`) provided: if the head command
    is a put with time-to-live, `now + ttl` is representable (it is evaluated at the worker's clock); if it is a weight
    update of a charged id, neither the difference to the old weight nor the new total overflows `i64`; if it is a put
    (with or without time-to-live), the weight accounting is in order (`Adm.Sound`), so that no total `maybe_add` passes
    through is negative and `max_weight - weight_used` stays inside `i64`.
    STATEMENT CHANGED (hypotheses `hsp`, `hspT`): `is_space_available_for` panics on `i64` overflow
    (`C17_counterexample_worker_space_overflow`); every state of a Layer A run meets them (`C17_adm_sound_of_inv`). -/
theorem C17_worker_no_panic (s s' : State) (o o' : Oracle) (out : Out)
    (hput : ∀ id hash w k v t h q, s.queue = (.putTtl id hash w k v t, h) :: q → ∃ x, addTime s.now t = some x)
    (hupd : ∀ id w h q wk, s.queue = (.updateWeight id w, h) :: q → s.adm.kw.get? id = some wk →
      inI64 (w - wk.weight) = true ∧ inI64 (s.adm.used + (w - wk.weight)) = true)
    (hsp : ∀ id hash w k v h q, s.queue = (.put id hash w k v, h) :: q → s.adm.Sound)
    (hspT : ∀ id hash w k v t h q, s.queue = (.putTtl id hash w k v t, h) :: q → s.adm.Sound)
    (h : workerStep s o = .ok (s', out, o')) :
    (∀ p, out ≠ .workerPanic p) ∧ (∀ p, out ≠ .panic p) ∧ s'.worker ≠ .dead := by
  cases hw : s.worker with
  | dead => simp [workerStep, hw] at h
  | draining =>
    cases hq : s.queue with
    | nil => simp [workerStep, hw, hq] at h
    | cons pr q =>
      simp only [workerStep, hw, hq, Except.ok.injEq, Prod.mk.injEq] at h
      obtain ⟨rfl, rfl, _⟩ := h
      simp
  | running =>
    cases hq : s.queue with
    | nil => simp [workerStep, hw, hq] at h
    | cons pr q =>
      obtain ⟨cmd, hd⟩ := pr
      rw [workerStep_running s o cmd hd q hw hq] at h
      have hrun : ({ s with queue := q } : State).worker = .running := hw
      cases cmd with
      | shutdown =>
        simp only [Except.ok.injEq, Prod.mk.injEq] at h
        obtain ⟨rfl, rfl, _⟩ := h
        simp
      | put id hash w k v =>
        simp only [] at h
        split at h
        · rename_i r hr
          obtain ⟨r, o1⟩ := r
          obtain ⟨hdone, hwk⟩ := workerPut_done (s := { s with queue := q }) (by intro t ht; cases ht)
            (fun res hres => maybeAdd_no_overflow (a := s.adm) (hsp _ _ _ _ _ _ _ hq) hres) hr
          obtain ⟨h1, h2, h3⟩ := workerFinish_done hdone h
          exact ⟨h1, h2, by rw [h3, hwk, hrun]; simp⟩
        · cases h
      | putTtl id hash w k v t =>
        simp only [] at h
        split at h
        · rename_i r hr
          obtain ⟨r, o1⟩ := r
          obtain ⟨hdone, hwk⟩ := workerPut_done (s := { s with queue := q })
            (by intro t' ht; cases ht; exact hput _ _ _ _ _ _ _ _ hq)
            (fun res hres => maybeAdd_no_overflow (a := s.adm) (hspT _ _ _ _ _ _ _ _ hq) hres) hr
          obtain ⟨h1, h2, h3⟩ := workerFinish_done hdone h
          exact ⟨h1, h2, by rw [h3, hwk, hrun]; simp⟩
        · cases h
      | updateWeight id w =>
        obtain ⟨hdone, hwk⟩ := workerUpdateWeight_done { s with queue := q } id w (fun wk hk => hupd _ _ _ _ wk hq hk)
        obtain ⟨h1, h2, h3⟩ := workerFinish_done hdone h
        exact ⟨h1, h2, by rw [h3, hwk, hrun]; simp⟩
      | delete k =>
        obtain ⟨hdone, hwk⟩ := workerDelete_done { s with queue := q } k
        obtain ⟨h1, h2, h3⟩ := workerFinish_done hdone h
        exact ⟨h1, h2, by rw [h3, hwk, hrun]; simp⟩

/-- **The time-to-live condition is needed** (§8-D8). `put_with_weight_and_ttl(k=1, v=10, w=5, Duration::MAX)` is
    accepted by the caller and queued; the worker's admission lets the key in (weight 5 charged), then panics in `now + ttl`: it is
    dead, the command's acknowledgement stays pending forever, the weight stays charged although no entry was stored. -/
theorem C17_counterexample_worker_time_overflow :
    ∃ s1 s2, step (State.init c17Cfg 3000000000 [1, 2, 3, 4]) (.putWTtl 0 1 10 5 18446744073709551615999999999) {} =
        .ok (s1, .ack 0 .pending, {}) ∧
      step s1 .worker {} = .ok (s2, .workerPanic .timeOverflow, {}) ∧
      s2.worker = .dead ∧ s2.acks[0]? = some .pending ∧
      s2.adm.kw.get? 1 = some { key := 1, hash := 1, weight := 5 } ∧ s2.adm.used = 5 ∧ s2.store.get? 1 = none ∧
      (clientPutW s2 0 2 20 5).2 = .err :=
  ⟨_, _, rfl, rfl, rfl, rfl, rfl, rfl, rfl, rfl⟩

/-- key 1 charged `i64::MAX - 10`, key 2 charged 5, `put_or_update(k=2).weight(100)` sent (valid: positive) -/
def c17Full : State :=
  { (State.init c17BigCfg 3000000000 [1, 2, 3, 4]) with
    store := [(2, { value := 20, id := 2, expiry := none, soft := false }),
              (1, { value := 10, id := 1, expiry := none, soft := false })],
    adm := { max := 9223372036854775807, used := 9223372036854775802,
             kw := [(2, { key := 2, hash := 2, weight := 5 }), (1, { key := 1, hash := 1, weight := 9223372036854775797 })] },
    nextId := 3, acks := [.accepted, .accepted, .pending], queue := [(.updateWeight 2 100, some 2)],
    stats := { keysAdded := 2, weightAdded := 9223372036854775802 } }

/-- **The weight condition is needed** (§8-D9, boundary only). The running total `i64::MAX - 5 + 95` overflows in the
    worker: it is dead and the acknowledgement stays pending. -/
theorem C17_counterexample_worker_weight_overflow :
    runEvents_Upsert (State.init c17BigCfg 3000000000 [1, 2, 3, 4])
      [.putW 0 1 10 9223372036854775797, .worker, .putW 0 2 20 5, .worker, .upsert 0 2 none (some 100) none false] =
      .ok c17Full ∧
    ∃ s2, step c17Full .worker {} = .ok (s2, .workerPanic .weightOverflow, {}) ∧
      s2.worker = .dead ∧ s2.acks[2]? = some .pending :=
  ⟨rfl, _, rfl, rfl, rfl⟩

/-- capacity `i64::MAX`, the total at −3 with nothing charged (the state known finding D10 leaves behind at action
    granularity: `shutdown()` zeroed `weight_used` under a delete that had yet to subtract), one put queued -/
def c17Negative : State :=
  { (State.init c17BigCfg 3000000000 [1, 2, 3, 4]) with
    adm := { max := 9223372036854775807, used := -3, kw := [] },
    nextId := 3, acks := [.accepted, .accepted, .pending], queue := [(.put 2 2 1 2 20, some 2)] }

/-- **The accounting condition is needed.** `max_weight - weight_used = i64::MAX + 3` overflows in
    `is_space_available_for`: the worker is dead, the put's acknowledgement stays pending, nothing else has changed. Every
    other precondition of the worker's step holds (there is no time-to-live and no weight update). The state is NOT
    reachable at call granularity (`C17_adm_sound_of_inv`); it is at action granularity, through known finding D10
    (`corpus/C17_D10_space_overflow.in`, replayed on the crate). -/
theorem C17_counterexample_worker_space_overflow :
    c17Negative.adm.spaceOverflow = true ∧ ¬ c17Negative.adm.Sound ∧
    ∃ s2, step c17Negative .worker {} = .ok (s2, .workerPanic .weightOverflow, {}) ∧
      s2.worker = .dead ∧ s2.acks[2]? = some .pending ∧ s2.adm = c17Negative.adm ∧ s2.store = [] ∧
      (clientPutW s2 0 3 30 5).2 = .err := by
  refine ⟨by decide, ?_, _, rfl, rfl, rfl, rfl, rfl, rfl⟩
  intro hs
  have := hs.spaceOverflow_false
  revert this; decide

/-- **Every state that satisfies the Layer A invariant** (`Inv`: every state of a run from `State.init`, Lemmas/Inv.lean)
    **is sound** as soon as the configured capacity is a non-negative `i64` (Layer G: `0 < total_cache_weight`, an `i64`)
    and the total is within `i64` (it is one): the total is the sum of the positive charges, hence not negative. -/
theorem C17_adm_sound_of_inv {s : State} (h : Inv s) (h0 : 0 ≤ s.cfg.maxWeight) (hm : s.cfg.maxWeight ≤ i64Max)
    (hu : s.adm.used ≤ i64Max) : s.adm.Sound :=
  ⟨h.kwNoDup, h.sum, h.positive, by rw [h.maxFixed]; exact h0, by rw [h.maxFixed]; exact hm, hu⟩

/-- **Why the side conditions matter.** Once the worker is dead: every send fails (so every later put, delete and
    weight-changing `put_or_update` returns an error), the worker never runs again (queued commands are never
    executed, their acknowledgements never completed), and no event revives it. -/
theorem C17_dead_worker_consequences (s : State) (hdead : s.worker = .dead) :
    (∀ c cmd, sendCmd s c cmd = (s, .err)) ∧
    (∀ o, workerStep s o = .error "illegal event: the worker is dead") ∧
    (∀ ev o s' out o', step s ev o = .ok (s', out, o') → s'.worker = .dead) := by
  refine ⟨fun c cmd => sendCmd_dead s c cmd hdead, ?_, ?_⟩
  · intro o; simp [workerStep, hdead]
  · intro ev o s' out o' h
    cases ev with
    | worker => simp [step, workerStep, hdead] at h
    | _ => rw [step_worker_frame rfl h, hdead]

/-! ### sweeper, access-count consumer, sketch -/

/-- The sweeper has no panic site: a sweep either is an illegal event (the sweeper has exited) or answers `.swept _`.
    The consumer's step answers `.consumed` or fails with an illegal-event / illegal-oracle error or with the sketch's
    index-out-of-bounds panic — and that one cannot happen while the sketch is well formed; likewise `estimate`. -/
theorem C17_sweeper_consumer_never_panic (s : State) (o : Oracle) :
    (∀ s' out, sweepStep s = .ok (s', out) → ∃ ev, out = .swept ev) ∧
    (∀ m, sweepStep s = .error m → m = "illegal event: the sweeper has exited") ∧
    (∀ s' out o', consumerStep s o = .ok (s', out, o') → out = .consumed) ∧
    (∀ m, consumerStep s o = .error m →
      m = "illegal event: the consumer has exited" ∨ m = "illegal event: the buffer queue is empty" ∨
      m = "oracle: add_if_missing results exhausted" ∨
      m = "illegal oracle: doorkeeper added a hash it already holds" ∨ m = sketchPanic) ∧
    (s.lfu.fc.WF → (∀ hs, incrementAll s.lfu hs o ≠ .error sketchPanic) ∧ consumerStep s o ≠ .error sketchPanic ∧
      ∀ h, estimateO s.lfu h o ≠ .error sketchPanic) := by
  refine ⟨fun s' out h => (sweepStep_ok h).1, ?_, fun s' out o' h => (consumerStep_ok h).1, ?_, ?_⟩
  · intro m h
    unfold sweepStep at h
    split at h
    · simp only [Except.error.injEq] at h; exact h.symm
    · cases h
  · intro m h
    have hinc : ∀ (hs : List Nat) (t : TinyLFU) (o : Oracle) (m : String), incrementAll t hs o = .error m →
        m = "oracle: add_if_missing results exhausted" ∨
        m = "illegal oracle: doorkeeper added a hash it already holds" ∨ m = sketchPanic := by
      intro hs
      induction hs with
      | nil => intro t o m h; simp [incrementAll] at h
      | cons x hs ih =>
        intro t o m h
        unfold incrementAll at h
        split at h
        · simp only [Except.error.injEq] at h; exact Or.inl h.symm
        · split at h
          · simp only [Except.error.injEq] at h; exact Or.inr (Or.inl h.symm)
          · split at h
            · exact ih _ _ _ h
            · simp only [Except.error.injEq] at h; exact Or.inr (Or.inr h.symm)
    unfold consumerStep at h
    split at h
    · simp only [Except.error.injEq] at h; exact Or.inl h.symm
    · split at h
      · simp only [Except.error.injEq] at h; exact Or.inr (Or.inl h.symm)
      · cases h
      · split at h
        · rename_i m' hm
          simp only [Except.error.injEq] at h; subst h
          exact Or.inr (Or.inr (hinc _ _ _ _ hm))
        · split at h <;> cases h
  · intro wf
    exact ⟨fun hs => incrementAll_no_sketch_panic hs _ _ wf, consumerStep_no_sketch_panic s o wf,
      fun h => estimateO_no_sketch_panic _ wf h o⟩

/-- No step of the model — API call, worker, sweeper, consumer — indexes the sketch out of bounds while the sketch is
    well formed. -/
theorem C17_no_sketch_panic (s : State) (ev : Ev) (o : Oracle) (wf : s.lfu.fc.WF) :
    step s ev o ≠ .error sketchPanic := by
  cases ev with
  | worker => exact workerStep_no_sketch_panic s o wf
  | consumer => exact consumerStep_no_sketch_panic s o wf
  | get k =>
    simp only [step]
    unfold clientGet
    split
    · simp
    · split
      · simp
      · rename_i m hm
        intro hc; simp only [Except.error.injEq] at hc; subst hc
        exact readKey_no_sketch_panic _ _ _ hm
  | multiGet ks =>
    simp only [step]
    unfold clientMultiGet
    split
    · simp
    · split
      · simp
      · rename_i m hm
        intro hc; simp only [Except.error.injEq] at hc; subst hc
        exact readKeys_no_sketch_panic _ _ _ _ hm
  | sweep =>
    simp only [step]
    split
    · simp
    · rename_i m hm
      intro hc; simp only [Except.error.injEq] at hc; subst hc
      have := (C17_sweeper_consumer_never_panic s o).2.1 _ hm
      simp [sketchPanic] at this
  | resume c =>
    simp only [step]
    split
    · simp
    · rename_i m hm
      intro hc; simp only [Except.error.injEq] at hc; subst hc
      unfold resume at hm
      split at hm
      · simp [sketchPanic] at hm
      · simp only [] at hm
        split at hm <;> split at hm <;> simp [sketchPanic] at hm
  | poll h =>
    simp only [step]
    split <;> simp [sketchPanic]
  | _ => simp [step]

/-! ### summary -/

/-- the preconditions of one event: the documented ones (positive weights, a value for an absent key) and the
    side conditions (c)–(f) / the worker's, that the counterexamples show to be necessary -/
def Ev.pre (s : State) : Ev → Prop
  | .put _ _ v => 0 < s.cfg.weightOf v false
  | .putW _ _ _ w => 0 < w
  | .putTtl _ _ v _ => 0 < s.cfg.weightOf v true
  | .putWTtl _ _ _ w _ => 0 < w
  | .upsert _ k v w ttl rm =>
    (∀ x, w = some x → 0 < x) ∧
    (∀ val, v = some val → w = none → 0 < s.cfg.weightOf val ttl.isSome) ∧
    (s.store.get? k = none → v.isSome = true) ∧
    (∀ e t, s.store.get? k = some e → ttl = some t → rm = false → ∃ x, addTime s.now t = some x) ∧
    (∀ e a, s.store.get? k = some e → e.expiry = some a → rm = true → w = none → v = none →
      (s.adm.kw.get? e.id).isSome = true →
      s.cfg.ttlEntry < chargedWeight s e.id ∧ inI64 (chargedWeight s e.id - s.cfg.ttlEntry) = true) ∧
    (∀ e t, s.store.get? k = some e → e.expiry = none → rm = false → ttl = some t → w = none → v = none →
      (s.adm.kw.get? e.id).isSome = true →
      0 < chargedWeight s e.id + s.cfg.ttlEntry ∧ inI64 (chargedWeight s e.id + s.cfg.ttlEntry) = true) ∧
    (∀ e x, s.store.get? k = some e → w = some x → inI64 x = true) ∧
    (∀ e val, s.store.get? k = some e → v = some val → w = none → inI64 (s.cfg.weightOf val ttl.isSome) = true)
  | .worker =>
    (∀ id hash w k v t h q, s.queue = (.putTtl id hash w k v t, h) :: q → ∃ x, addTime s.now t = some x) ∧
    (∀ id w h q wk, s.queue = (.updateWeight id w, h) :: q → s.adm.kw.get? id = some wk →
      inI64 (w - wk.weight) = true ∧ inI64 (s.adm.used + (w - wk.weight)) = true) ∧
    (∀ id hash w k v h q, s.queue = (.put id hash w k v, h) :: q → s.adm.Sound) ∧
    (∀ id hash w k v t h q, s.queue = (.putTtl id hash w k v t, h) :: q → s.adm.Sound)
  | _ => True

/-- **Summary.** A step whose event meets its preconditions does not panic in the caller, does not report a worker
    panic, and leaves a live worker alive — hence so does
    every sequence of such steps. -/
theorem C17_step_no_panic (s s' : State) (ev : Ev) (o o' : Oracle) (out : Out) (hpre : ev.pre s)
    (h : step s ev o = .ok (s', out, o')) :
    (∀ p, out ≠ .panic p) ∧ (∀ p, out ≠ .workerPanic p) ∧ (s.worker ≠ .dead → s'.worker ≠ .dead) := by
  have frame : ev.isWorker = false → (s.worker ≠ .dead → s'.worker ≠ .dead) :=
    fun hev hne => by rw [step_worker_frame hev h]; exact hne
  have nwp : ev.isWorker = false → ∀ p, out ≠ .workerPanic p := fun hev p => step_ne_workerPanic hev h p
  have hoth := fun p => C17_other_calls_no_panic s o p
  cases ev with
  | worker =>
    obtain ⟨h1, h2, h3⟩ := C17_worker_no_panic s s' o o' out hpre.1 hpre.2.1 hpre.2.2.1 hpre.2.2.2 h
    exact ⟨h2, h1, fun _ => h3⟩
  | put c k v =>
    refine ⟨fun p => ?_, nwp rfl, frame rfl⟩
    simp only [step, Except.ok.injEq, Prod.mk.injEq] at h; obtain ⟨_, rfl, _⟩ := h
    exact (C17_put_no_panic s c k v 0 0 p).2.1 hpre
  | putW c k v w =>
    refine ⟨fun p => ?_, nwp rfl, frame rfl⟩
    simp only [step, Except.ok.injEq, Prod.mk.injEq] at h; obtain ⟨_, rfl, _⟩ := h
    exact ((C17_put_no_panic s c k v 0 w p).1 hpre).1
  | putTtl c k v t =>
    refine ⟨fun p => ?_, nwp rfl, frame rfl⟩
    simp only [step, Except.ok.injEq, Prod.mk.injEq] at h; obtain ⟨_, rfl, _⟩ := h
    exact (C17_put_no_panic s c k v t 0 p).2.2 hpre
  | putWTtl c k v w t =>
    refine ⟨fun p => ?_, nwp rfl, frame rfl⟩
    simp only [step, Except.ok.injEq, Prod.mk.injEq] at h; obtain ⟨_, rfl, _⟩ := h
    exact ((C17_put_no_panic s c k v t w p).1 hpre).2
  | upsert c k v w ttl rm =>
    refine ⟨fun p => ?_, nwp rfl, frame rfl⟩
    simp only [step, Except.ok.injEq, Prod.mk.injEq] at h; obtain ⟨_, rfl, _⟩ := h
    obtain ⟨a1, a2, b, c', d, e, f1, f2⟩ := hpre
    exact C17_upsert_no_panic s c k v w ttl rm a1 a2 b c' d e f1 f2 p
  | delete c k =>
    refine ⟨fun p => ?_, nwp rfl, frame rfl⟩
    simp only [step, Except.ok.injEq, Prod.mk.injEq] at h; obtain ⟨_, rfl, _⟩ := h
    exact (hoth p).1 c k
  | get k => exact ⟨fun p => (hoth p).2.2.2.1 k s' out o' h, nwp rfl, frame rfl⟩
  | multiGet ks => exact ⟨fun p => (hoth p).2.2.2.2.1 ks s' out o' h, nwp rfl, frame rfl⟩
  | weight => exact ⟨fun p => (hoth p).2.2.2.2.2.2.2.1 s' out o' h, nwp rfl, frame rfl⟩
  | stats => exact ⟨fun p => (hoth p).2.2.2.2.2.2.2.2 s' out o' h, nwp rfl, frame rfl⟩
  | sweep =>
    refine ⟨fun p => ?_, nwp rfl, frame rfl⟩
    simp only [step] at h
    split at h
    · rename_i r hr
      simp only [Except.ok.injEq, Prod.mk.injEq] at h; obtain ⟨_, rfl, _⟩ := h
      obtain ⟨ev, hev⟩ := (sweepStep_ok (s' := r.1) (out := r.2) hr).1
      simp [hev]
    · cases h
  | consumer =>
    refine ⟨fun p => ?_, nwp rfl, frame rfl⟩
    rw [(consumerStep_ok h).1]; simp
  | advance d => exact ⟨fun p => (hoth p).2.2.2.2.2.1 d s' out o' h, nwp rfl, frame rfl⟩
  | shutdown c =>
    refine ⟨fun p => ?_, nwp rfl, frame rfl⟩
    simp only [step, Except.ok.injEq, Prod.mk.injEq] at h; obtain ⟨_, rfl, _⟩ := h
    exact (hoth p).2.1 c
  | resume c =>
    refine ⟨fun p => ?_, nwp rfl, frame rfl⟩
    simp only [step] at h
    split at h
    · rename_i r hr
      simp only [Except.ok.injEq, Prod.mk.injEq] at h; obtain ⟨_, rfl, _⟩ := h
      exact (hoth p).2.2.1 c r hr
    · cases h
  | poll hd => exact ⟨fun p => (hoth p).2.2.2.2.2.2.1 hd s' out o' h, nwp rfl, frame rfl⟩

/-- a history in which every event meets its preconditions in the state it runs in, with the outputs it produced -/
inductive ValidRun : State → List (Ev × Out) → State → Prop
  | nil (s : State) : ValidRun s [] s
  | cons {s s' s'' : State} {ev : Ev} {o o' : Oracle} {out : Out} {tr : List (Ev × Out)} :
      ev.pre s → step s ev o = .ok (s', out, o') → ValidRun s' tr s'' → ValidRun s ((ev, out) :: tr) s''

/-- **No sequence** of such steps panics in a caller or kills the worker. -/
theorem C17_run_no_panic {s s' : State} {tr : List (Ev × Out)} (hr : ValidRun s tr s') (hw : s.worker ≠ .dead) :
    s'.worker ≠ .dead ∧ ∀ ev out, (ev, out) ∈ tr → (∀ p, out ≠ .panic p) ∧ (∀ p, out ≠ .workerPanic p) := by
  induction hr with
  | nil s => exact ⟨hw, by simp⟩
  | @cons s s1 s2 ev o o' out tr hpre hstep _ ih =>
    obtain ⟨h1, h2, h3⟩ := C17_step_no_panic s s1 ev o o' out hpre hstep
    obtain ⟨ih1, ih2⟩ := ih (h3 hw)
    refine ⟨ih1, ?_⟩
    intro ev' out' hmem
    simp only [List.mem_cons, Prod.mk.injEq] at hmem
    rcases hmem with ⟨rfl, rfl⟩ | hmem
    · exact ⟨h1, h2⟩
    · exact ih2 _ _ hmem

/-! ### Non-vacuity -/

/-- the sketch of a freshly built cache is well formed (hypothesis of `C17_no_sketch_panic` and of the last part of
    `C17_sweeper_consumer_never_panic`) -/
example : (State.init c17Cfg 3000000000 [1, 2, 3, 4]).lfu.fc.WF := by
  refine ⟨⟨by decide, by decide, by decide⟩, by decide⟩

/-- the puts: valid arguments, and the call indeed goes through -/
example : (0 : Int) < 5 ∧ 0 < c17Light.cfg.weightOf 20 false ∧ 0 < c17Light.cfg.weightOf 20 true ∧
    (clientPutW c17Light 0 2 20 5).2 = .ack 1 .pending ∧ (clientPutTtl c17Light 0 2 20 1000000000).2 = .ack 1 .pending :=
  ⟨by decide, by decide, by decide, rfl, rfl⟩

/-- key 1 charged 29 (= 5 + the TTL surcharge 24) with a time-to-live -/
def c17Ok : State :=
  { c17Light with adm := { max := 100, used := 29, kw := [(1, { key := 1, hash := 1, weight := 29 })] } }

/-- (a)–(f) hold, non-trivially in (d), for a TTL removal on it; the call is queued as `UpdateWeight(1, 5)` -/
example : Ev.pre c17Ok (.upsert 0 1 none none none true) ∧
    clientUpsert c17Ok 0 1 none none none true =
      ({ c17Ok with store := [(1, { value := 10, id := 1, expiry := none, soft := false })], ttl := [],
                    queue := [(.updateWeight 1 5, some 1)], acks := [.accepted, .pending] }, .ack 1 .pending) := by
  refine ⟨⟨nofun, nofun, ?_, nofun, ?_, nofun, nofun, nofun⟩, rfl⟩
  · intro h; exact absurd h (by decide)
  · intro e a hk _ _ _ _ _
    have : e = { value := 10, id := 1, expiry := some 4000000000, soft := false } := by
      have h2 : c17Ok.store.get? 1 = some { value := 10, id := 1, expiry := some 4000000000, soft := false } := rfl
      rw [h2] at hk; exact (Option.some.inj hk).symm
    subst this
    decide

/-- (c) holds, non-trivially, for a TTL change with a new value and explicit weight on the same key -/
example : Ev.pre c17Ok (.upsert 0 1 (some 11) (some 7) (some 2000000000) false) := by
  refine ⟨?_, nofun, ?_, ?_, nofun, nofun, ?_, nofun⟩
  · intro x hx; cases hx; decide
  · intro h; exact absurd h (by decide)
  · intro e t _ ht _; cases ht; exact ⟨5000000000, by decide⟩
  · intro e x _ hx; cases hx; decide

/-- the worker's preconditions hold, non-trivially, for a queued put with a one-second time-to-live and for a queued
    weight update of a charged id; the worker then survives (by `C17_worker_no_panic`, and by evaluation) -/
example :
    let s1 : State := { c17Light with queue := [(.putTtl 2 2 5 2 20 1000000000, some 1)], acks := [.accepted, .pending] }
    let s2 : State := { c17Light with queue := [(.updateWeight 1 7, some 1)], acks := [.accepted, .pending] }
    Ev.pre s1 .worker ∧ Ev.pre s2 .worker ∧
    (match workerStep s1 {} with | .ok (s', _, _) => s'.worker | .error _ => .dead) = .running ∧
    (match workerStep s2 {} with | .ok (s', _, _) => s'.adm.kw.get? 1 | .error _ => none) =
      some { key := 1, hash := 1, weight := 7 } := by
  have hsound : c17Light.adm.Sound := by
    refine ⟨by show ([1] : List Nat).Nodup; decide, by decide, ?_, by decide, by decide, by decide⟩
    intro id wk hg
    have h2 : c17Light.adm.kw = [(1, { key := 1, hash := 1, weight := 5 })] := rfl
    rw [h2] at hg
    simp only [AMap.get?] at hg
    split at hg
    · cases hg; decide
    · cases hg
  refine ⟨⟨?_, ?_, ?_, ?_⟩, ⟨?_, ?_, ?_, ?_⟩, rfl, rfl⟩
  · intro id hash w k v t h q hq
    simp only [List.cons.injEq, Prod.mk.injEq, Cmd.putTtl.injEq] at hq
    obtain ⟨⟨⟨_, _, _, _, _, rfl⟩, _⟩, _⟩ := hq
    exact ⟨4000000000, by decide⟩
  · intro id w h q wk hq; simp at hq
  · intro id hash w k v h q hq; simp at hq
  · intro id hash w k v t h q _; exact hsound
  · intro id hash w k v t h q hq; simp at hq
  · intro id w h q wk hq hk
    simp only [List.cons.injEq, Prod.mk.injEq, Cmd.updateWeight.injEq] at hq
    obtain ⟨⟨⟨rfl, rfl⟩, _⟩, _⟩ := hq
    have h2 : c17Light.adm.kw.get? 1 = some { key := 1, hash := 1, weight := 5 } := rfl
    have hk' : c17Light.adm.kw.get? 1 = some wk := hk
    rw [h2] at hk'
    cases hk'
    decide
  · intro id hash w k v h q hq; simp at hq
  · intro id hash w k v t h q hq; simp at hq

/-- `C17_dead_worker_consequences`: a dead worker is reachable (by `C17_counterexample_worker_time_overflow`) -/
example : ∃ s1 s2 out, step (State.init c17Cfg 3000000000 [1, 2, 3, 4]) (.putWTtl 0 1 10 5 18446744073709551615999999999) {} =
      .ok (s1, out, {}) ∧ step s1 .worker {} = .ok (s2, .workerPanic .timeOverflow, {}) ∧ s2.worker = .dead :=
  ⟨_, _, _, rfl, rfl, rfl⟩

end Cached
