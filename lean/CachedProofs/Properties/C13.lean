/-
  C13  Shutdown refuses new work, answers every pending command, never blocks.

  The statements in this file are about Layer A (CachedModel/State.lean); the same property at ACTION granularity
  (shutdown() as eleven separately scheduled actions racing worker, sweeper and other clients) is in
  LayerB/Theorems.lean (`C13_layerB_*`, `C18_layerB_shutdown_*`), and LayerB/Refine.lean shows that a Layer A step
  is exactly a non-preempted Layer B run (shutdown included); both are imported here so that they are built and
  audited with this module.  Quantifiers: every state (or every state with the
  queue invariant `QInv` of Lemmas/Queue.lean, which holds at every reachable state: `qinv_reach`), every client,
  key, value, weight, event, oracle.  Reading guide:
    * refuses new work: once the flag is set every write returns `Err` and every read returns nothing, the state
      untouched (1, 2); the flag is set by `shutdown()` before anything else and never lowered (3);
    * answers every pending command: the worker, running or draining, answers the head of the queue at every
      step with a status that is not `pending` (4); when it has emptied the queue no acknowledgement ever handed
      out is still pending (5); a worker step is always possible while the queue is non-empty, for every oracle,
      when the head needs no admission oracle (5');
    * never blocks: `shutdown()` can only wait at its two sends; ONE worker step (resp. ONE consumer step) makes
      the parked call resumable, and it then runs on — to its end from the second send (6).
  What the model (faithfully to the implementation) does NOT give, see the report: after a worker panic the
  pending acknowledgements are never answered (D8), and commands executed after `shutdown()` has cleared the
  store still write into it (`C11_shutdown_corner`).
-/
import CachedProofs.Properties.C11
import CachedProofs.Properties.C12
import CachedProofs.LayerB.Theorems
import CachedProofs.LayerB.Refine

namespace Cached

/-! ### 1, 2: new work is refused -/

/-- After the flag is set every write is refused with `Err`, the state unchanged.  (`put` computes and asserts
    the weight before it looks at the flag, so it may panic instead — also with the state unchanged.) -/
theorem C13_refuses_writes (s : State) (hs : s.shutting = true) (c k v : Nat) (w : Int) (t : Nat)
    (ov : Option Nat) (ow : Option Int) (ot : Option Nat) (rm : Bool) :
    clientPutW s c k v w = (s, .err) ∧ clientPutTtl s c k v t = (s, .err) ∧
    clientPutWTtl s c k v w t = (s, .err) ∧ clientUpsert s c k ov ow ot rm = (s, .err) ∧
    clientDelete s c k = (s, .err) ∧
    (clientPut s c k v = (s, .err) ∨ clientPut s c k v = (s, .panic .weightNotPositive)) := by
  refine ⟨?_, ?_, ?_, ?_, ?_, ?_⟩
  · unfold clientPutW; rw [if_pos hs]
  · unfold clientPutTtl; rw [if_pos hs]
  · unfold clientPutWTtl; rw [if_pos hs]
  · unfold clientUpsert; rw [if_pos hs]
  · unfold clientDelete; rw [if_pos hs]
  · unfold clientPut
    dsimp only
    by_cases hw : s.cfg.weightOf v false ≤ 0
    · rw [if_pos hw]; exact Or.inr rfl
    · rw [if_neg hw, if_pos hs]; exact Or.inl rfl

/-- After the flag is set reads return nothing and touch nothing (no statistics, no access buffer). -/
theorem C13_refuses_reads (s : State) (hs : s.shutting = true) (k : Nat) (ks : List Nat) (o : Oracle) :
    clientGet s k o = .ok (s, .value none, o) ∧ clientMultiGet s ks o = .ok (s, .values [], o) := by
  constructor
  · unfold clientGet; rw [if_pos hs]
  · unfold clientMultiGet; rw [if_pos hs]

/-! ### 3: the flag -/

/-- No event lowers the flag. -/
theorem C13_flag_permanent {s s' : State} {ev : Ev} {o o' : Oracle} {out : Out} (hs : s.shutting = true)
    (h : step s ev o = .ok (s', out, o')) : s'.shutting = true := by
  by_cases hev : ev = .worker
  · subst hev
    have hw : workerStep s o = .ok (s', out, o') := h
    obtain ⟨-, cmd, hd, q, -, hpost⟩ := workerStep_qspec hw
    rw [hpost.shutting]; exact hs
  · exact (qmono_step hev h).shutting hs

/-- `shutdown()` sets the flag first: whatever it returns (even when it parks at a send) the flag is set;
    a second `shutdown()` returns at once and changes nothing. -/
theorem C13_shutdown_sets_flag (s : State) (c : Nat) :
    (clientShutdown s c).1.shutting = true ∧ (s.shutting = true → clientShutdown s c = (s, .none)) := by
  constructor
  · unfold clientShutdown
    split
    · rename_i h; exact h
    · exact (qmono_shutdownSendCmd { s with shutting := true } c).shutting rfl
  · intro hs
    unfold clientShutdown
    rw [if_pos hs]

/-! ### 4, 5: every pending command is answered -/

/-- In draining mode (after the `Shutdown` command) the worker answers the head of the queue `ShuttingDown`,
    whatever command it is, and stays draining. -/
theorem C13_draining_answers_everything {s s' : State} {o o' : Oracle} {out : Out} (hd : s.worker = .draining)
    (h : workerStep s o = .ok (s', out, o')) :
    out = .worked "Drain" .shuttingDown none [] [] ∧ s'.worker = .draining ∧
    ∃ cmd hdl, s.queue = (cmd, hdl) :: s'.queue ∧ s'.acks = setAck s.acks hdl .shuttingDown ∧
      ∀ i, hdl = some i → i < s.acks.length → s'.acks[i]? = some .shuttingDown := by
  obtain ⟨-, cmd, hdl, q, hq, hpost⟩ := workerStep_qspec h
  rcases hpost.outcome with ⟨p, -, hr, -⟩ | ⟨kind, st, ie, pp, ev, hout, -, hq', ha, hmode⟩
  · rw [hd] at hr; cases hr
  · rcases hmode with ⟨-, h2, rfl, rfl, rfl, rfl, rfl⟩ | ⟨hr, -⟩ | ⟨hr, -⟩
    · refine ⟨hout, h2, cmd, hdl, by rw [hq', hq], ha, ?_⟩
      intro i hi hlt
      subst hi
      rw [ha]
      show (s.acks.set i .shuttingDown)[i]? = some .shuttingDown
      rw [List.getElem?_set_self hlt]
    · rw [hd] at hr; cases hr
    · rw [hd] at hr; cases hr

/-- In every mode a (non-panicking) worker step answers exactly the head of the queue, with the status it
    reports, never `pending` (this is `C11_worker_takes_head`). -/
theorem C13_running_answers_real_status {s s' : State} {o o' : Oracle} {out : Out}
    (h : workerStep s o = .ok (s', out, o')) (hnp : ∀ p, out ≠ .workerPanic p) :
    ∃ cmd hd, s.queue = (cmd, hd) :: s'.queue ∧
      (∀ i, some i ≠ hd → s'.acks[i]? = s.acks[i]?) ∧
      ∃ kind st ie pp ev, out = .worked kind st ie pp ev ∧ st ≠ .pending ∧
        ∀ i, hd = some i → i < s.acks.length → s'.acks[i]? = some st :=
  C11_worker_takes_head h hnp

/-- Once the (live) worker has emptied the queue, every acknowledgement ever handed out is answered. -/
theorem C13_no_caller_waits_forever {s : State} (hinv : QInv s) (hw : s.worker ≠ .dead) (hq : s.queue = [])
    (h : Nat) (st : Status) (hs : s.acks[h]? = some st) : st ≠ .pending := by
  intro e
  subst e
  have := hinv.pendingQueued hw h hs
  simp only [queueHandles, hq, List.filterMap_nil] at this
  cases this

/-- at every reachable state -/
theorem C13_no_caller_waits_forever_reach {cfg : Cfg} {now : Nat} {seeds : List Nat} {s : State}
    (hr : QReach cfg now seeds s) (hw : s.worker ≠ .dead) (hq : s.queue = []) (h : Nat) (st : Status)
    (hs : s.acks[h]? = some st) : st ≠ .pending :=
  C13_no_caller_waits_forever (qinv_reach hr) hw hq h st hs

/-- The worker can always take its next step while the queue is non-empty, for EVERY oracle, when the head
    needs no admission oracle: the worker is draining, or the head is `Shutdown`, a delete or a weight update.
    (For a put the step exists for every oracle that is legal for the admission policy; not stated here.) -/
theorem C13_worker_always_enabled {s : State} {cmd : Cmd} {hd : Option Nat} {q : List (Cmd × Option Nat)}
    (hw : s.worker ≠ .dead) (hq : s.queue = (cmd, hd) :: q)
    (hc : s.worker = .draining ∨ cmd = .shutdown ∨ (∃ k, cmd = .delete k) ∨ (∃ id w, cmd = .updateWeight id w))
    (o : Oracle) : ∃ r, workerStep s o = .ok r := by
  cases hm : s.worker with
  | dead => exact absurd hm hw
  | draining =>
    unfold workerStep
    rw [hm, hq]
    exact ⟨_, rfl⟩
  | running =>
    rw [hm] at hc
    rcases hc with hc | rfl | ⟨k, rfl⟩ | ⟨id, w, rfl⟩
    · cases hc
    · unfold workerStep
      rw [hm, hq]
      exact ⟨_, rfl⟩
    · unfold workerStep
      rw [hm, hq]
      simp only []
      cases workerDelete _ k <;> exact ⟨_, rfl⟩
    · unfold workerStep
      rw [hm, hq]
      simp only []
      cases workerUpdateWeight _ id w <;> exact ⟨_, rfl⟩

/-! ### 6: `shutdown()` never blocks -/

/-- (a) `shutdown()` returns, or waits at one of its two sends. -/
theorem C13_shutdown_returns_or_parks {s s' : State} {c : Nat} {out : Out} (h : clientShutdown s c = (s', out)) :
    (out = .none ∨ out = .parked) ∧
    (out = .parked → s'.pend.get? c = some .shutdownCmd ∨ s'.pend.get? c = some .shutdownBuf) := by
  unfold clientShutdown at h
  split at h
  · cases h
    exact ⟨Or.inl rfl, fun e => by cases e⟩
  · rcases shutdownSendCmd_qspec { s with shutting := true } c with ⟨-, -, e⟩ | ⟨-, s1, hp, -, -, -, -, e⟩
    · rw [e] at h
      cases h
      exact ⟨Or.inr rfl, fun _ => Or.inl (AMap.get?_set_same _ _ _)⟩
    · rw [e] at h
      rcases shutdownSendBuf_qspec s1 c with ⟨e2, -, -⟩ | ⟨-, -, e2⟩
      · have : out = .none := by rw [← e2, h]
        subst this
        exact ⟨Or.inl rfl, fun e => by cases e⟩
      · rw [e2] at h
        cases h
        exact ⟨Or.inr rfl, fun _ => Or.inr (AMap.get?_set_same _ _ _)⟩

/-- (b) A `shutdown()` parked at the command queue: ONE worker step (any outcome, any oracle) makes it
    resumable — the queue has room again, or the worker is dead — and leaves it parked there; `resume` is then
    a legal event.  (Holds whether or not the queue was full before the step: `QInv.bounded`.) -/
theorem C13_shutdown_cmd_resumable {s s' : State} {c : Nat} {o o' : Oracle} {out : Out} (hinv : QInv s)
    (hp : s.pend.get? c = some .shutdownCmd) (h : workerStep s o = .ok (s', out, o')) :
    (s'.worker = .dead ∨ s'.queue.length < s'.cfg.cmdCap) ∧ s'.pend.get? c = some .shutdownCmd ∧
    ∃ r, resume s' c = .ok r := by
  obtain ⟨-, cmd, hd, q, hq, hpost⟩ := workerStep_qspec h
  have hp' : s'.pend.get? c = some .shutdownCmd := by rw [hpost.pend]; exact hp
  have hroom : s'.worker = .dead ∨ s'.queue.length < s'.cfg.cmdCap := by
    rcases hpost.outcome with ⟨p, -, -, -, hdead, -⟩ | ⟨kind, st, ie, pp, ev, -, -, hq', -⟩
    · exact Or.inl hdead
    · right
      have := hinv.bounded
      rw [hq] at this
      simp only [List.length_cons] at this
      rw [hq', hpost.cfg]
      omega
  refine ⟨hroom, hp', _, qresume_shutdownCmd hp' ?_⟩
  intro ⟨h1, h2⟩
  rcases hroom with h3 | h3
  · exact h1 h3
  · omega

/-- (b') and the resumed call does not wait at the command queue again: it returns, or waits at the second send. -/
theorem C13_shutdown_cmd_resume {s : State} {c : Nat} (hp : s.pend.get? c = some .shutdownCmd)
    (he : s.worker = .dead ∨ s.queue.length < s.cfg.cmdCap) :
    ∃ s' out, resume s c = .ok (s', out) ∧
      ((out = .none ∧ ShutFinished s') ∨ (out = .parked ∧ s'.pend.get? c = some .shutdownBuf)) := by
  have hen : ¬ (s.worker ≠ .dead ∧ s.queue.length ≥ s.cfg.cmdCap) := by
    intro ⟨h1, h2⟩
    rcases he with h3 | h3
    · exact h1 h3
    · omega
  refine ⟨(shutdownSendCmd { s with pend := s.pend.del c } c).1,
    (shutdownSendCmd { s with pend := s.pend.del c } c).2, qresume_shutdownCmd hp hen, ?_⟩
  rcases shutdownSendCmd_qspec { s with pend := s.pend.del c } c with ⟨h1, h2, -⟩ | ⟨-, s1, -, -, -, -, -, e⟩
  · exact absurd ⟨h1, h2⟩ hen
  · rw [e]
    rcases shutdownSendBuf_qspec s1 c with ⟨e2, hf, -⟩ | ⟨-, -, e2⟩
    · exact Or.inl ⟨e2, hf⟩
    · rw [e2]
      exact Or.inr ⟨rfl, AMap.get?_set_same _ _ _⟩

/-- (c) A `shutdown()` parked at the buffer channel: ONE consumer step makes it resumable — the channel has
    room again, or the consumer has exited — and leaves it parked there; `resume` is then a legal event. -/
theorem C13_shutdown_buf_resumable {s s' : State} {c : Nat} {o o' : Oracle} {out : Out} (hinv : QInv s)
    (hp : s.pend.get? c = some .shutdownBuf) (h : consumerStep s o = .ok (s', out, o')) :
    (s'.consumerAlive = false ∨ s'.bufq.length < s'.cfg.bufChanCap) ∧ s'.pend.get? c = some .shutdownBuf ∧
    ∃ r, resume s' c = .ok r := by
  obtain ⟨-, -, -, -, hcfg, -, hpend, x, q, hq, hb⟩ := consumerStep_qspec h
  have hp' : s'.pend.get? c = some .shutdownBuf := by rw [hpend]; exact hp
  have hroom : s'.consumerAlive = false ∨ s'.bufq.length < s'.cfg.bufChanCap := by
    rcases hb with ⟨hb, -⟩ | ⟨-, hdead⟩
    · right
      have := hinv.bufBounded
      rw [hq] at this
      simp only [List.length_cons] at this
      rw [hb, hcfg]
      omega
    · exact Or.inl hdead
  refine ⟨hroom, hp', _, qresume_shutdownBuf hp' ?_⟩
  intro ⟨h1, h2⟩
  rcases hroom with h3 | h3
  · rw [h1] at h3; cases h3
  · omega

/-- (d) `resume` of a `shutdown()` parked at the buffer channel, when enabled, runs the call to its end:
    `shutdown()` has returned, both helper threads are told to stop, store, weights and TTL index are cleared,
    the parking slot is free. -/
theorem C13_shutdown_buf_resume {s : State} {c : Nat} (hp : s.pend.get? c = some .shutdownBuf)
    (he : s.consumerAlive = false ∨ s.bufq.length < s.cfg.bufChanCap) :
    ∃ s', resume s c = .ok (s', .none) ∧ s'.consumerKeep = false ∧ s'.sweeperKeep = false ∧ s'.store = [] ∧
      s'.adm.kw = [] ∧ s'.adm.used = 0 ∧ s'.ttl = [] ∧ s'.pend.get? c = none := by
  have hen : ¬ (s.consumerAlive = true ∧ s.bufq.length ≥ s.cfg.bufChanCap) := by
    intro ⟨h1, h2⟩
    rcases he with h3 | h3
    · rw [h1] at h3; cases h3
    · omega
  have hr := qresume_shutdownBuf hp hen
  rcases shutdownSendBuf_qspec { s with pend := s.pend.del c } c with ⟨e2, hf, hpd⟩ | ⟨h1, h2, -⟩
  · refine ⟨(shutdownSendBuf { s with pend := s.pend.del c } c).1, ?_, hf.1, hf.2.1, hf.2.2.1, hf.2.2.2.1,
      hf.2.2.2.2.1, hf.2.2.2.2.2, ?_⟩
    · rw [hr, ← e2]
    · rw [hpd]; exact AMap.get?_del_same _ _
  · exact absurd ⟨h1, h2⟩ hen

/-! ### 7: concrete runs -/

/-- Capacity 1.  A put is queued; `shutdown()` sets the flag and parks at the command queue. -/
example :
    (qrun (State.init (qcfg 1) 0 []) [.putW 0 1 10 1, .shutdown 7]).map (fun r => (r.1.qview, r.2)) =
    some (⟨[(.put 1 1 1 1 10, some 0)], [.pending], .running, true, [(7, .shutdownCmd)]⟩,
      [.ack 0 .pending, .parked]) := by decide

/-- `resume` before a worker step is not an event the implementation can produce; after ONE worker step it is,
    and `shutdown()` returns: `Shutdown` is queued, the store is cleared. -/
example :
    (qrun (State.init (qcfg 1) 0 []) [.putW 0 1 10 1, .shutdown 7, .resume 7]).isNone = true := by decide
example :
    (qrun (State.init (qcfg 1) 0 []) [.putW 0 1 10 1, .shutdown 7, .worker, .resume 7]).map
      (fun r => (r.1.qview, r.2)) =
    some (⟨[(.shutdown, none)], [.accepted], .running, true, []⟩,
      [.ack 0 .pending, .parked, .worked "Put" .accepted none [] [], .none]) := by decide
example :
    (qrun (State.init (qcfg 1) 0 []) [.putW 0 1 10 1, .shutdown 7, .worker, .resume 7]).map
      (fun r => (r.1.store, r.1.consumerKeep, r.1.sweeperKeep, r.1.bufq)) =
    some ([], false, false, [.shutdown]) := by decide

/-- Afterwards: a put returns `Err`, a read returns nothing, a second `shutdown()` returns at once, the worker
    executes `Shutdown` and drains. -/
example :
    (qrun (State.init (qcfg 1) 0 [])
      [.putW 0 1 10 1, .shutdown 7, .worker, .resume 7, .putW 1 2 20 1, .get 1, .shutdown 8, .worker]).map
      (fun r => (r.1.qview, r.2)) =
    some (⟨[], [.accepted], .draining, true, []⟩,
      [.ack 0 .pending, .parked, .worked "Put" .accepted none [] [], .none, .err, .value none, .none,
       .worked "Shutdown" .accepted none [] []]) := by decide

/-- A delete parked at the full queue while `shutdown()` runs is answered `ShuttingDown` by the draining
    worker: no acknowledgement stays pending. -/
example :
    (qrun (State.init (qcfg 1) 0 [])
      [.putW 0 1 10 1, .delete 1 1, .shutdown 7, .worker, .resume 7, .worker, .resume 1, .worker]).map
      (fun r => (r.1.qview, r.2)) =
    some (⟨[], [.accepted, .shuttingDown], .draining, true, []⟩,
      [.ack 0 .pending, .parked, .parked, .worked "Put" .accepted none [] [], .none,
       .worked "Shutdown" .accepted none [] [], .ack 1 .pending, .worked "Drain" .shuttingDown none [] []]) := by
  decide

/-- hypotheses of 4, 5, 5' satisfiable -/
example :
    (qrun (State.init (qcfg 1) 0 [])
      [.putW 0 1 10 1, .delete 1 1, .shutdown 7, .worker, .resume 7, .worker, .resume 1]).map
      (fun r => (r.1.worker, r.1.queue)) = some (.draining, [(.delete 1, some 1)]) := by decide

/-- The second send.  Buffer channel of capacity 1, buffers of size 0: one read hit fills the channel;
    `shutdown()` queues `Shutdown` and parks at the buffer channel; ONE consumer step later `resume` completes it. -/
example :
    (qrunO (State.init { qcfg 1 with bufChanCap := 1, bufSize := 0 } 0 [])
      [(.putW 0 1 10 1, {}), (.worker, {}), (.get 1, { pool := [0] }), (.shutdown 7, {})]).map
      (fun r => (r.1.qview, r.2, r.1.bufq)) =
    some (⟨[(.shutdown, none)], [.accepted], .running, true, [(7, .shutdownBuf)]⟩,
      [.ack 0 .pending, .worked "Put" .accepted none [] [], .value (some 10), .parked], [.full []]) := by decide
example :
    (qrunO (State.init { qcfg 1 with bufChanCap := 1, bufSize := 0 } 0 [])
      [(.putW 0 1 10 1, {}), (.worker, {}), (.get 1, { pool := [0] }), (.shutdown 7, {}),
       (.resume 7, {})]).isNone = true := by decide
example :
    (qrunO (State.init { qcfg 1 with bufChanCap := 1, bufSize := 0 } 0 [])
      [(.putW 0 1 10 1, {}), (.worker, {}), (.get 1, { pool := [0] }), (.shutdown 7, {}), (.consumer, {}),
       (.resume 7, {})]).map (fun r => (r.1.qview, r.2)) =
    some (⟨[(.shutdown, none)], [.accepted], .running, true, []⟩,
      [.ack 0 .pending, .worked "Put" .accepted none [] [], .value (some 10), .parked, .consumed, .none]) := by
  decide
example :
    (qrunO (State.init { qcfg 1 with bufChanCap := 1, bufSize := 0 } 0 [])
      [(.putW 0 1 10 1, {}), (.worker, {}), (.get 1, { pool := [0] }), (.shutdown 7, {}), (.consumer, {}),
       (.resume 7, {})]).map (fun r => (r.1.bufq, r.1.store, r.1.consumerKeep, r.1.sweeperKeep)) =
    some ([.shutdown], [], false, false) := by decide

end Cached
