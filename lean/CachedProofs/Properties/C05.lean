/-
  C05  Weight accounting matches the set of held keys at quiescence.

  "The total weight used equals the sum of the weights of exactly the keys the cache holds: no weight stays
  charged for a key that is gone and no held key is uncharged, for every history including unawaited writes
  to the same key."

  Statements are about Layer A (`CachedModel/State.lean`), for every state reachable from `State.init` by any
  sequence of events with any oracles (`Reach`, Lemmas/Inv.lean).  In Layer A one step of the command worker is
  one event, so the correspondence holds at EVERY reachable state whose worker has not panicked, not only at
  quiescence.  All three theorems are projections of the inductive invariant `Inv` (`inv_step`, `inv_reach`).

  The hypothesis `s.worker ≠ .dead` of `C05_held_iff_charged` is needed: a `PutWithTTL` whose `now + ttl`
  overflows panics in the worker AFTER `maybe_add` charged the weight and BEFORE the store insert
  (command_executor.rs:201-225 as transcribed by `workerPut`), leaving a charged id without a held key
  (last `example`).  The sum `used = Σ weights` and the absence of duplicates survive even that.
-/
import CachedProofs.LayerB.Theorems
import CachedProofs.Lemmas.Inv

namespace Cached

/-- The running total is exactly the sum of the charged weights, and no id is charged twice. -/
theorem C05_accounting {cfg : Cfg} {now : Nat} {seeds : List Nat} {s : State} (h : Reach cfg now seeds s) :
    s.adm.used = sumW s.adm.kw ∧ AMap.NoDup s.adm.kw :=
  ⟨(inv_reach h).sum, (inv_reach h).kwNoDup⟩

/-- Held keys and charged ids correspond one to one (while the worker lives): every held key is charged under
    its entry's id, for that very key; every charged id is the id of the entry held for its key. -/
theorem C05_held_iff_charged {cfg : Cfg} {now : Nat} {seeds : List Nat} {s : State} (h : Reach cfg now seeds s)
    (hw : s.worker ≠ .dead) :
    (∀ k e, s.store.get? k = some e → ∃ wk, s.adm.kw.get? e.id = some wk ∧ wk.key = k) ∧
    (∀ id wk, s.adm.kw.get? id = some wk → ∃ e, s.store.get? wk.key = some e ∧ e.id = id) := by
  rcases (inv_reach h).held with hd | hh
  · exact absurd hd hw
  · exact hh

/-- No id can be charged twice: the ids of the puts still on their way to the worker (queued or parked) are
    pairwise distinct and none of them is charged yet. -/
theorem C05_no_duplicate_admission {cfg : Cfg} {now : Nat} {seeds : List Nat} {s : State}
    (h : Reach cfg now seeds s) :
    (pendingIds s).Nodup ∧ ∀ id ∈ pendingIds s, s.adm.kw.get? id = none :=
  ⟨(inv_reach h).pendingFresh.1, fun id hm => ((inv_reach h).pendingFresh.2 id hm).1⟩

/-- Every charged weight is positive and at most the total; the store holds no key twice. -/
theorem C05_weights {cfg : Cfg} {now : Nat} {seeds : List Nat} {s : State} (h : Reach cfg now seeds s) :
    AMap.NoDup s.store ∧ ∀ id wk, s.adm.kw.get? id = some wk → 0 < wk.weight ∧ wk.weight ≤ s.adm.used := by
  have hi := inv_reach h
  refine ⟨hi.storeNoDup, fun id wk hg => ⟨hi.positive id wk hg, ?_⟩⟩
  rw [hi.sum]
  exact weight_le_sumW hi.kwNoDup hi.positive hg

/-! ### non-vacuity -/

/-- Two un-awaited `put_with_weight` of the same key, then two worker steps: the first is accepted, the second is
    answered `rejected keyAlreadyExists`, `used` is the first weight, one id is charged and it is the held one. -/
example :
    (match runEvents (State.init { maxWeight := 10, shards := 2, cmdCap := 4, poolSize := 1, bufSize := 2, counters := 2 }
              1000000000 [1, 2, 3, 4])
            [(.putW 0 1 100 5, {}), (.putW 1 1 200 3, {}), (.worker, {}), (.worker, {})] with
     | .ok s => decide (s.adm.used = 5 ∧ s.acks = [.accepted, .rejected .keyAlreadyExists] ∧
                        s.adm.kw = [(1, ⟨1, 1, 5⟩)] ∧ s.store = [(1, ⟨100, 1, none, false⟩)] ∧
                        pendingIds s = [] ∧ s.worker = .running)
     | _ => false) = true := by decide

/-- Before the worker runs, both puts are pending with distinct fresh ids and nothing is charged. -/
example :
    (match runEvents (State.init { maxWeight := 10, shards := 2, cmdCap := 4, poolSize := 1, bufSize := 2, counters := 2 }
              1000000000 [1, 2, 3, 4])
            [(.putW 0 1 100 5, {}), (.putW 1 1 200 3, {})] with
     | .ok s => decide (pendingIds s = [1, 2] ∧ s.adm.used = 0 ∧ s.adm.kw = [])
     | _ => false) = true := by decide

/-- Put, delete, put again of the same key, all un-awaited: the first id is un-charged, the second is charged. -/
example :
    (match runEvents (State.init { maxWeight := 10, shards := 2, cmdCap := 4, poolSize := 1, bufSize := 2, counters := 2 }
              1000000000 [1, 2, 3, 4])
            [(.putW 0 1 100 5, {}), (.worker, {}), (.delete 0 1, {}), (.worker, {}), (.putW 0 1 300 4, {}),
             (.worker, {})] with
     | .ok s => decide (s.adm.used = 4 ∧ s.adm.kw = [(2, ⟨1, 1, 4⟩)] ∧ s.store = [(1, ⟨300, 2, none, false⟩)])
     | _ => false) = true := by decide

/-- Why `C05_held_iff_charged` needs a live worker: a `put_with_weight_and_ttl` whose expiry overflows kills the
    worker between charging the weight and inserting the key; weight 5 stays charged for a key that is not held. -/
example :
    (match runEvents (State.init { maxWeight := 10, shards := 2, cmdCap := 4, poolSize := 1, bufSize := 2, counters := 2 }
              1000000000 [1, 2, 3, 4])
            [(.putWTtl 0 1 100 5 (9223372036854775807 * 1000000000), {}), (.worker, {})] with
     | .ok s => decide (s.worker = .dead ∧ s.adm.used = 5 ∧ s.adm.kw = [(1, ⟨1, 1, 5⟩)] ∧ s.store = [])
     | _ => false) = true := by decide

end Cached
