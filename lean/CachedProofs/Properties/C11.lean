/-
  C11  Writes are applied exactly once, one at a time, in submission order; nothing is dropped or duplicated
       even when the command queue is full; a put followed without awaiting by a delete of the same key always
       leaves the key absent.

  All statements are about Layer A (CachedModel/State.lean).  Quantifiers: every state (or every state with the
  queue invariant `QInv`, which holds at every reachable state: `qinv_reach`), every client, command, event,
  oracle.  Reading guide:
    * a submission appends the command ONCE at the tail with a fresh pending handle (1), or parks the caller
      with the queue untouched (2) until `resume` appends it once (2');
    * the worker removes exactly the head, one command per step, and answers exactly that command (3);
    * no other event removes, reorders or answers anything (4);
    * so handles in the queue are distinct and increasing = submission order = execution order (5), and an
      answer, once given, never changes (5');
    * executing `delete k` leaves `k` absent whatever came before (6).
  Exceptions that the model (faithfully to the implementation) has, stated below as theorems / examples:
    * a panic on the worker thread drops the whole queue (`C11_panic_drops_queue`, known finding D8/D9);
    * a delete that is answered `ShuttingDown` is not applied (`C11_shutdown_corner`).
-/
import CachedProofs.Lemmas.Queue
import CachedProofs.LayerB.Refine
import CachedProofs.LayerB.Order

namespace Cached

/-! ### 1, 2: submission -/

/-- With room in the queue the command goes to the TAIL, exactly once, with a fresh pending handle. -/
theorem C11_send_appends (s : State) (c : Nat) (cmd : Cmd) (hw : s.worker ≠ .dead)
    (hr : s.queue.length < s.cfg.cmdCap) :
    sendCmd s c cmd = ({ s with queue := s.queue ++ [(cmd, some s.acks.length)], acks := s.acks ++ [.pending] },
      .ack s.acks.length .pending) :=
  sendCmd_eq_of_room c cmd hw hr

/-- With the queue full the caller parks: nothing is dropped, nothing is enqueued, queue and acknowledgements
    are unchanged. -/
theorem C11_full_queue_parks (s : State) (c : Nat) (cmd : Cmd) (hw : s.worker ≠ .dead)
    (hr : s.queue.length ≥ s.cfg.cmdCap) :
    sendCmd s c cmd = ({ s with pend := s.pend.set c (.send cmd) }, .parked) :=
  sendCmd_eq_of_full c cmd hw hr

/-- A parked send, once there is room, enqueues its command exactly once (at the tail, fresh pending handle)
    and leaves the parking slot. -/
theorem C11_resume_enqueues_once (s : State) (c : Nat) (cmd : Cmd) (hp : s.pend.get? c = some (.send cmd))
    (hw : s.worker ≠ .dead) (hr : s.queue.length < s.cfg.cmdCap) :
    ∃ s', resume s c = .ok (s', .ack s.acks.length .pending) ∧
      s'.queue = s.queue ++ [(cmd, some s.acks.length)] ∧ s'.acks = s.acks ++ [.pending] ∧
      s'.pend.get? c = none := by
  refine ⟨{ s with pend := s.pend.del c, queue := s.queue ++ [(cmd, some s.acks.length)],
                   acks := s.acks ++ [.pending] }, ?_, rfl, rfl, AMap.get?_del_same _ _⟩
  unfold resume
  rw [hp]
  have hnf : ¬ (s.queue.length ≥ s.cfg.cmdCap) := by omega
  simp only [hnf, decide_false, Bool.and_false, Bool.false_eq_true, if_false]
  rw [sendCmd_eq_of_room (s := { s with pend := s.pend.del c }) c cmd hw hr]

/-- hypotheses of 1, 2, 2' are satisfiable: capacity 1, the first put is queued, the second parks,
    after a worker step `resume` is enabled -/
example :
    let s0 := State.init (qcfg 1) 0 []
    s0.worker ≠ .dead ∧ s0.queue.length < s0.cfg.cmdCap := by decide
example :
    (qrun (State.init (qcfg 1) 0 []) [.putW 0 1 10 1]).map
      (fun r => (decide (r.1.worker ≠ .dead), decide (r.1.queue.length ≥ r.1.cfg.cmdCap))) = some (true, true) := by
  decide
example :
    (qrun (State.init (qcfg 1) 0 []) [.putW 0 1 10 1, .putW 1 2 20 1, .worker]).map
      (fun r => (r.1.pend.get? 1, decide (r.1.worker ≠ .dead), decide (r.1.queue.length < r.1.cfg.cmdCap))) =
    some (some (.send (.put 2 2 1 2 20)), true, true) := by decide

/-! ### 3: the worker -/

/-- One (non-panicking) worker step: exactly one command leaves the queue, from the head; only that command's
    acknowledgement changes; it is set to the status the step reports, which is never `pending`. -/
theorem C11_worker_takes_head {s s' : State} {o o' : Oracle} {out : Out}
    (h : workerStep s o = .ok (s', out, o')) (hnp : ∀ p, out ≠ .workerPanic p) :
    ∃ cmd hd, s.queue = (cmd, hd) :: s'.queue ∧
      (∀ i, some i ≠ hd → s'.acks[i]? = s.acks[i]?) ∧
      ∃ kind st ie pp ev, out = .worked kind st ie pp ev ∧ st ≠ .pending ∧
        ∀ i, hd = some i → i < s.acks.length → s'.acks[i]? = some st := by
  obtain ⟨-, cmd, hd, q, hq, hpost⟩ := workerStep_qspec h
  rcases hpost.outcome with ⟨p, hp, -⟩ | ⟨kind, st, ie, pp, ev, hout, hst, hq', ha, -⟩
  · exact absurd hp (hnp p)
  · refine ⟨cmd, hd, by rw [hq', hq], ?_, kind, st, ie, pp, ev, hout, hst, ?_⟩
    · intro i hi
      rw [ha]
      cases hd with
      | none => rfl
      | some j =>
        have : j ≠ i := fun e => hi (by rw [e])
        exact List.getElem?_set_ne this
    · intro i hi hlt
      subst hi
      rw [ha]
      show (s.acks.set i st)[i]? = some st
      rw [List.getElem?_set_self hlt]

/-- The exception: a panic on the worker thread (time or weight overflow, D8/D9) kills the worker and DROPS
    every queued command; their acknowledgements stay as they are (pending, for ever). -/
theorem C11_panic_drops_queue {s s' : State} {o o' : Oracle} {p : Panic}
    (h : workerStep s o = .ok (s', .workerPanic p, o')) :
    s.worker = .running ∧ s'.worker = .dead ∧ s'.queue = [] ∧ s'.acks = s.acks := by
  obtain ⟨-, cmd, hd, q, hq, hpost⟩ := workerStep_qspec h
  rcases hpost.outcome with ⟨p', -, h1, -, h2, h3, h4⟩ | ⟨kind, st, ie, pp, ev, hout, -⟩
  · exact ⟨h1, h2, h3, h4⟩
  · cases hout

/-- concrete instance of the exception: `put_with_ttl` with an unrepresentable expiry panics on the worker;
    the delete queued behind it is dropped and both acknowledgements stay pending -/
example :
    (qrun (State.init (qcfg 2) 0 []) [.putTtl 0 1 10 (10 ^ 29), .delete 1 2, .worker]).map
      (fun r => (r.1.qview, r.2)) =
    some (⟨[], [.pending, .pending], .dead, false, []⟩,
      [.ack 0 .pending, .ack 1 .pending, .workerPanic .timeOverflow]) := by decide

/-! ### 4: nobody else -/

/-- Every event other than a worker step leaves every acknowledgement already handed out as it is, and either
    leaves the queue alone or appends one element at its tail. -/
theorem C11_only_worker_completes {s s' : State} {ev : Ev} {o o' : Oracle} {out : Out} (hev : ev ≠ .worker)
    (h : step s ev o = .ok (s', out, o')) :
    (∀ i, i < s.acks.length → s'.acks[i]? = s.acks[i]?) ∧
    (s'.queue = s.queue ∨ ∃ x, s'.queue = s.queue ++ [x]) := by
  have m := qmono_step hev h
  refine ⟨?_, m.queue⟩
  intro i hi
  rcases m.acks with e | ⟨st, e⟩
  · rw [e]
  · rw [e, List.getElem?_append_left hi]

/-! ### 5: exactly once, in order -/

/-- No handle is queued twice, and whenever `h1` is queued before `h2` (anywhere before, not only adjacent)
    then `h1 < h2`: queue order = order of handle creation = submission order; by 3 it is also the order of
    execution, the worker only ever removing the head. -/
theorem C11_exactly_once_in_order {s : State} (h : QInv s) :
    (queueHandles s).Nodup ∧
    (∀ h1 h2, [h1, h2].Sublist (queueHandles s) → h1 < h2) ∧
    (∀ i j (hij : i < j) (hj : j < (queueHandles s).length), (queueHandles s)[i] < (queueHandles s)[j]) := by
  refine ⟨?_, ?_, ?_⟩
  · exact h.sorted.imp (fun hlt => Nat.ne_of_lt hlt)
  · intro h1 h2 hsub
    have := h.sorted.sublist hsub
    simp only [List.pairwise_cons, List.mem_cons, List.not_mem_nil, or_false, forall_eq] at this
    exact this.1
  · intro i j hij hj
    exact (List.pairwise_iff_getElem.mp h.sorted) i j (by omega) hj hij

/-- at every reachable state -/
theorem C11_exactly_once_in_order_reach {cfg : Cfg} {now : Nat} {seeds : List Nat} {s : State}
    (hr : QReach cfg now seeds s) :
    (queueHandles s).Nodup ∧ (∀ h1 h2, [h1, h2].Sublist (queueHandles s) → h1 < h2) :=
  let ⟨a, b, _⟩ := C11_exactly_once_in_order (qinv_reach hr)
  ⟨a, b⟩

/-- A handle that is no longer `pending` never changes again (no command is executed twice). -/
theorem C11_acks_stable {s s' : State} {ev : Ev} {o o' : Oracle} {out : Out} (hinv : QInv s)
    (h : step s ev o = .ok (s', out, o')) {i : Nat} {st : Status} (hi : s.acks[i]? = some st)
    (hst : st ≠ .pending) : s'.acks[i]? = some st := by
  have hlt : i < s.acks.length := by
    rcases Nat.lt_or_ge i s.acks.length with h1 | h1
    · exact h1
    · rw [List.getElem?_eq_none h1] at hi; cases hi
  by_cases hev : ev = .worker
  · subst hev
    have hw : workerStep s o = .ok (s', out, o') := h
    obtain ⟨-, cmd, hd, q, hq, hpost⟩ := workerStep_qspec hw
    rcases hpost.outcome with ⟨p, -, -, -, -, -, ha⟩ | ⟨kind, st', ie, pp, ev, -, -, -, ha, -⟩
    · rw [ha]; exact hi
    · rw [ha]
      cases hd with
      | none => exact hi
      | some j =>
        have hj : j ∈ queueHandles s := by
          simp only [queueHandles, hq, List.filterMap_cons]; exact List.mem_cons_self
        have hpj := hinv.queuedPending j hj
        have hne : j ≠ i := by
          intro e; subst e; rw [hpj] at hi; cases hi; exact hst rfl
        show (s.acks.set j st')[i]? = some st
        rw [List.getElem?_set_ne hne]; exact hi
  · rw [(C11_only_worker_completes hev h).1 i hlt]; exact hi

/-- hypotheses satisfiable: a reachable state with two queued handles (0 before 1), and one with an answered
    handle -/
example :
    (qrun (State.init (qcfg 2) 0 []) [.putW 0 1 10 1, .delete 1 1]).map (fun r => queueHandles r.1) =
    some [0, 1] := by decide
example :
    (qrun (State.init (qcfg 2) 0 []) [.putW 0 1 10 1, .delete 1 1, .worker]).map
      (fun r => (r.1.acks, queueHandles r.1)) = some ([.accepted, .pending], [1]) := by decide

/-! ### 6: put, then delete -/

/-- Executing `delete k` (it always completes, never panics) leaves `k` absent. -/
theorem C11_delete_leaves_absent (s : State) (k : Nat) :
    ∃ s1 st, workerDelete s k = .done s1 st none [] [] ∧ s1.store.get? k = none ∧ st ≠ .pending := by
  unfold workerDelete
  split
  · rename_i hg
    exact ⟨s, _, rfl, hg, by simp⟩
  · rename_i e he
    simp only []
    refine ⟨_, _, rfl, ?_, by simp⟩
    have : ∀ s3 : State, s3.store = s.store.del k → s3.store.get? k = none := by
      intro s3 e3; rw [e3]; exact AMap.get?_del_same _ _
    apply this
    split <;> split <;> rfl

/-- The worker step that executes `delete k` leaves `k` absent, whatever was executed before. -/
theorem C11_delete_step_leaves_absent {s s' : State} {o o' : Oracle} {out : Out} {k : Nat} {hd : Option Nat}
    {q : List (Cmd × Option Nat)} (hw : s.worker = .running) (hq : s.queue = (.delete k, hd) :: q)
    (h : workerStep s o = .ok (s', out, o')) : s'.store.get? k = none ∧ s'.queue = q := by
  unfold workerStep at h
  rw [hw, hq] at h
  simp only [] at h
  obtain ⟨s1, st, he, hg, -⟩ := C11_delete_leaves_absent { s with queue := q, worker := .running } k
  have hsame := (workerDelete_qspec { s with queue := q, worker := .running } k).1
  rw [he] at h hsame
  simp only [Except.ok.injEq, Prod.mk.injEq] at h
  obtain ⟨rfl, -, -⟩ := h
  exact ⟨hg, hsame.queue⟩

/-- A put (or any other command but `Shutdown`) with a `delete k` queued right behind it: once the worker has
    executed both, `k` is absent — whatever the put's outcome (accepted, rejected, evicting others). -/
theorem C11_put_then_delete {s s1 s2 : State} {o o1 o2 : Oracle} {out1 out2 : Out} {cmd : Cmd} {k : Nat}
    {h1 h2 : Option Nat} {q : List (Cmd × Option Nat)} (hw : s.worker = .running) (hc : cmd ≠ .shutdown)
    (hq : s.queue = (cmd, h1) :: (.delete k, h2) :: q)
    (hs1 : workerStep s o = .ok (s1, out1, o1)) (hnp : ∀ p, out1 ≠ .workerPanic p)
    (hs2 : workerStep s1 o1 = .ok (s2, out2, o2)) : s2.store.get? k = none ∧ s2.queue = q := by
  obtain ⟨-, cmd', hd', q', hq0, hpost⟩ := workerStep_qspec hs1
  rw [hq] at hq0
  simp only [List.cons.injEq, Prod.mk.injEq] at hq0
  obtain ⟨⟨rfl, rfl⟩, rfl⟩ := hq0
  rcases hpost.outcome with ⟨p, hp, -⟩ | ⟨kind, st, ie, pp, ev, -, -, hq', -, hmode⟩
  · exact absurd hp (hnp p)
  · have hw1 : s1.worker = .running := by
      rcases hmode with ⟨hd, -⟩ | ⟨-, he, -⟩ | ⟨-, -, hr⟩
      · rw [hw] at hd; cases hd
      · exact absurd he hc
      · exact hr
    exact C11_delete_step_leaves_absent hw1 hq' hs2

/-- The corner the statement does not cover: `put 2`, then `delete 2` parked at the full queue while
    `shutdown()` runs; the delete is enqueued behind `Shutdown`, answered `ShuttingDown` and NOT applied, the
    put was executed after `shutdown()` cleared the store: key 2 stays in the store (no reader can see it:
    reads are refused after shutdown, C13). -/
theorem C11_shutdown_corner :
    (qrun (State.init (qcfg 2) 0 [])
      [.putW 0 1 10 1, .putW 0 2 20 1, .delete 1 2, .worker, .shutdown 2, .worker, .resume 1, .worker, .worker]).map
      (fun r => (r.1.acks, r.1.store.contains 2, r.1.worker)) =
    some ([.accepted, .accepted, .shuttingDown], true, .draining) := by decide

/-! ### 7: a complete run with a full queue -/

/-- Capacity 1: the first `put` is queued with handle 0; the second parks; a worker step executes the first
    and makes room; `resume` enqueues the second with handle 1; a worker step executes it.
    Handles 0 and 1 complete in that order, nothing is lost, nothing is executed twice. -/
example :
    (qrun (State.init (qcfg 1) 0 []) [.putW 0 1 10 1, .putW 1 2 20 1]).map (fun r => (r.1.qview, r.2)) =
    some (⟨[(.put 1 1 1 1 10, some 0)], [.pending], .running, false, [(1, .send (.put 2 2 1 2 20))]⟩,
      [.ack 0 .pending, .parked]) := by decide

example :
    (qrun (State.init (qcfg 1) 0 []) [.putW 0 1 10 1, .putW 1 2 20 1, .worker]).map
      (fun r => (r.1.qview, r.2)) =
    some (⟨[], [.accepted], .running, false, [(1, .send (.put 2 2 1 2 20))]⟩,
      [.ack 0 .pending, .parked, .worked "Put" .accepted none [] []]) := by decide

example :
    (qrun (State.init (qcfg 1) 0 []) [.putW 0 1 10 1, .putW 1 2 20 1, .worker, .resume 1]).map
      (fun r => (r.1.qview, r.2)) =
    some (⟨[(.put 2 2 1 2 20, some 1)], [.accepted, .pending], .running, false, []⟩,
      [.ack 0 .pending, .parked, .worked "Put" .accepted none [] [], .ack 1 .pending]) := by decide

example :
    (qrun (State.init (qcfg 1) 0 []) [.putW 0 1 10 1, .putW 1 2 20 1, .worker, .resume 1, .worker]).map
      (fun r => (r.1.qview, r.2, r.1.store.contains 1, r.1.store.contains 2)) =
    some (⟨[], [.accepted, .accepted], .running, false, []⟩,
      [.ack 0 .pending, .parked, .worked "Put" .accepted none [] [], .ack 1 .pending,
       .worked "Put" .accepted none [] []], true, true) := by decide

/-- `resume` while the queue is still full is not an event the implementation can produce -/
example :
    (qrun (State.init (qcfg 1) 0 []) [.putW 0 1 10 1, .putW 1 2 20 1, .resume 1]).isNone = true := by decide

/-- put then delete of the same key without awaiting: absent at the end -/
example :
    (qrun (State.init (qcfg 2) 0 []) [.putW 0 1 10 1, .delete 0 1, .worker, .worker]).map
      (fun r => (r.1.acks, r.1.store.get? 1)) = some ([.accepted, .accepted], none) := by decide

end Cached
