/-
  C07  put never overwrites; "key already exists" only for keys that can be read.

  Proved: (1) a put (all four variants) of a physically present key — in particular of every readable key — is
  answered on the spot with `KeyAlreadyExists` and changes nothing but the new acknowledgement; the worker-side
  re-check does the same for a duplicate that was queued meanwhile; (2) a put of a physically ABSENT key is never
  answered `KeyAlreadyExists`, neither on the spot nor by the worker: admission alone decides.
  The property's second half is FALSE of the code for keys that read as absent but are still physically present
  (past their time-to-live and not yet swept): `C07_counterexample`; hence `..._partial` in the names.
-/
import CachedProofs.Lemmas.AMap
import CachedModel.State

namespace Cached

/-- what every rejected-on-the-spot put returns: the state with one more (already completed) acknowledgement -/
def rejectedExists (s : State) : State × Out :=
  ({ s with acks := s.acks ++ [.rejected .keyAlreadyExists] }, .ack s.acks.length (.rejected .keyAlreadyExists))

theorem contains_of_get? {s : State} {k : Nat} {e : Entry} (h : s.store.get? k = some e) : s.store.contains k = true := by
  simp [AMap.contains, h]

/-- **Readable (indeed: physically present) keys are never overwritten**, all four variants:
    value, weight, expiry, queue, weights, expiry index — everything except the list of acknowledgements is unchanged. -/
theorem C07_present_rejected (s : State) (c k v ttl : Nat) (w : Int) (e : Entry)
    (hsh : s.shutting = false) (hk : s.store.get? k = some e) :
    (0 < s.cfg.weightOf v false → clientPut s c k v = rejectedExists s) ∧
    (0 < w → clientPutW s c k v w = rejectedExists s) ∧
    (0 < s.cfg.weightOf v true → clientPutTtl s c k v ttl = rejectedExists s) ∧
    (0 < w → clientPutWTtl s c k v w ttl = rejectedExists s) := by
  have hc := contains_of_get? hk
  refine ⟨?_, ?_, ?_, ?_⟩ <;> intro hw
  · have : ¬ s.cfg.weightOf v false ≤ 0 := by omega
    simp [clientPut, this, hsh, clientPutChecked, hc, spotAck, rejectedExists]
  · have : ¬ w ≤ 0 := by omega
    simp [clientPutW, this, hsh, clientPutChecked, hc, spotAck, rejectedExists]
  · have : ¬ s.cfg.weightOf v true ≤ 0 := by omega
    simp [clientPutTtl, this, hsh, clientPutChecked, hc, spotAck, rejectedExists]
  · have : ¬ w ≤ 0 := by omega
    simp [clientPutWTtl, this, hsh, clientPutChecked, hc, spotAck, rejectedExists]

/-- a readable key is physically present -/
theorem readable_present (s s' : State) (k : Nat) (o o' : Oracle) (v : Nat)
    (h : readKey s k o = .ok (s', some v, o')) : ∃ e, s.store.get? k = some e ∧ e.alive s.now = true ∧ e.value = v := by
  unfold readKey at h
  split at h
  · rename_i e he
    split at h
    · rename_i ha
      simp only [] at h
      split at h
      · simp only [Except.ok.injEq, Prod.mk.injEq, Option.some.injEq] at h
        exact ⟨e, he, ha, h.2.1⟩
      · cases h
    · simp at h
  · simp at h

def Out.isExists : Out → Bool
  | .ack _ (.rejected .keyAlreadyExists) => true
  | _ => false

theorem sendCmd_not_exists (s : State) (c : Nat) (cmd : Cmd) : (sendCmd s c cmd).2.isExists = false := by
  unfold sendCmd; split
  · rfl
  · split <;> rfl

/-- **A physically absent key is never refused with 'key already exists' on the spot** (all four variants). -/
theorem C07_absent_not_rejected_on_the_spot (s : State) (c k v ttl : Nat) (w : Int) (hk : s.store.get? k = none) :
    (clientPut s c k v).2.isExists = false ∧ (clientPutW s c k v w).2.isExists = false ∧
    (clientPutTtl s c k v ttl).2.isExists = false ∧ (clientPutWTtl s c k v w ttl).2.isExists = false := by
  have hc : s.store.contains k = false := by simp [AMap.contains, hk]
  have hchk : ∀ (w : Int) (t : Option Nat), (clientPutChecked s c k v w t).2.isExists = false := by
    intro w t
    unfold clientPutChecked
    simp only [hc, Bool.false_eq_true, if_false]
    cases t <;> exact sendCmd_not_exists _ _ _
  refine ⟨?_, ?_, ?_, ?_⟩
  · unfold clientPut; simp only []; split; rfl; split; rfl; exact hchk _ _
  · unfold clientPutW; split; rfl; split; rfl; exact hchk _ _
  · unfold clientPutTtl; split; rfl; simp only []; split; rfl; exact hchk _ _
  · unfold clientPutWTtl; split; rfl; split; rfl; exact hchk _ _

/-- the loop of `create_space` only ever answers Accepted or 'not enough space' (where it answers at all: `overflow` is the
    worker's panic in `is_space_available_for`) -/
theorem createLoop_status (t : TinyLFU) (size : Nat) (w : Int) (incEst : Nat) :
    ∀ (fuel : Nat) (a : Adm) (sample : List SKey) (o : Oracle) (ev : List Evicted) (pp : List SKey) (r : LoopResult),
      createLoop t size w incEst fuel a sample o ev pp = .ok r → r.overflow = false →
      r.status = .accepted ∨ r.status = .rejected .noSpace := by
  intro fuel
  induction fuel with
  | zero => intro a sample o ev pp r h; simp [createLoop] at h
  | succ n ih =>
    intro a sample o ev pp r h hov
    unfold createLoop at h
    split at h
    · simp only [Except.ok.injEq] at h; subst h; exact Or.inl rfl
    · split at h
      · cases h
      · split at h
        · cases h
        · simp only [Except.ok.injEq] at h; subst h; exact Or.inr rfl
      · split at h
        · cases h
        · split at h
          · cases h
          · split at h
            · simp only [Except.ok.injEq] at h; subst h; exact Or.inr rfl
            · simp only [] at h
              split at h
              · simp only [Except.ok.injEq] at h; subst h; simp at hov
              · split at h
                · cases h
                · exact ih _ _ _ _ _ _ h hov

theorem maybeAdd_status (t : TinyLFU) (size : Nat) (a : Adm) (id key hash : Nat) (w : Int) (o : Oracle) (r : AdmResult)
    (h : maybeAdd t size a id key hash w o = .ok r) (hov : r.overflow = false) :
    r.status = .accepted ∨ r.status = .rejected .noSpace ∨ r.status = .rejected .tooHeavy := by
  unfold maybeAdd at h
  split at h
  · simp only [Except.ok.injEq] at h; subst h; exact Or.inr (Or.inr rfl)
  · split at h
    · simp only [Except.ok.injEq] at h; subst h; simp at hov
    · split at h
      · simp only [Except.ok.injEq] at h; subst h; exact Or.inl rfl
      · split at h
        · cases h
        · split at h
          · cases h
          · split at h
            · cases h
            · rename_i lr hlr
              simp only [Except.ok.injEq] at h; subst h
              rcases createLoop_status _ _ _ _ _ _ _ _ _ _ _ hlr hov with h1 | h1
              · exact Or.inl h1
              · exact Or.inr (Or.inl h1)

/-- **…nor by the worker**: for a key that is physically absent when the worker runs the command, the status is
    admission's (Accepted / not enough space / heavier than the cache). -/
theorem C07_absent_decided_by_admission (s s1 : State) (id hash k v : Nat) (w : Int) (ttl : Option Nat) (o o' : Oracle)
    (st : Status) (ie : Option Nat) (pp : List SKey) (ev : List Evicted) (hk : s.store.get? k = none)
    (h : workerPut s id hash w k v ttl o = .ok (.done s1 st ie pp ev, o')) :
    st = .accepted ∨ st = .rejected .noSpace ∨ st = .rejected .tooHeavy := by
  have hc : s.store.contains k = false := by simp [AMap.contains, hk]
  unfold workerPut at h
  simp only [hc, Bool.false_eq_true, if_false] at h
  split at h
  · cases h
  · rename_i r hr
    split at h
    · simp at h
    rename_i hov
    have hst := maybeAdd_status _ _ _ _ _ _ _ _ _ hr (by simpa using hov)
    split at h
    · rename_i hacc
      cases ttl with
      | none =>
        simp only [Except.ok.injEq, Prod.mk.injEq, Exec.done.injEq] at h
        exact Or.inl h.1.2.1.symm
      | some t =>
        simp only at h
        split at h
        · simp at h
        · simp only [Except.ok.injEq, Prod.mk.injEq, Exec.done.injEq] at h
          exact Or.inl h.1.2.1.symm
    · simp only [Except.ok.injEq, Prod.mk.injEq, Exec.done.injEq] at h
      rw [← h.1.2.1]; exact hst

/-- the worker re-check: a queued put whose key has become present meanwhile is answered KeyAlreadyExists and
    changes nothing (the repaired race of two un-awaited puts of one key) -/
theorem C07_worker_recheck (s : State) (id hash k v : Nat) (w : Int) (ttl : Option Nat) (o : Oracle) (e : Entry)
    (hk : s.store.get? k = some e) :
    workerPut s id hash w k v ttl o = .ok (.done s (.rejected .keyAlreadyExists) none [] [], o) := by
  simp [workerPut, contains_of_get? hk]

/-- The second half of C07 fails for an expired-but-unswept key: it reads as absent, yet a put is refused with
    'key already exists'. (History: put_with_weight_and_ttl(k=1, ttl 1 s); clock +2 s; no sweep.) -/
def c07Witness : State :=
  { (State.init { maxWeight := 100, shards := 2, cmdCap := 4, poolSize := 1, bufSize := 2, counters := 2 } 5000000000 [1, 2, 3, 4]) with
    store := [(1, { value := 10, id := 1, expiry := some 4000000000, soft := false })],
    adm := { max := 100, used := 5, kw := [(1, { key := 1, hash := 1, weight := 5 })] }, nextId := 2 }

theorem C07_counterexample :
    (match readKey c07Witness 1 {} with | .ok (_, v, _) => v | .error _ => some 0) = none ∧
    (clientPutW c07Witness 0 1 11 3).2 = .ack 0 (.rejected .keyAlreadyExists) := by
  constructor <;> rfl

/-- Non-vacuity of `C07_present_rejected` / `C07_absent_not_rejected_on_the_spot`. -/
example : c07Witness.shutting = false ∧ c07Witness.store.get? 1 ≠ none ∧ c07Witness.store.get? 2 = none := by decide

end Cached
