/-
  C18  No deadlock: locks are always taken in one global order and no thread holds a lock while blocking on
       a queue, so no cycle of lock or queue waits ever forms.

  All statements are about `CachedModel/Locks.lean`: the lock classes and their ranks, the table `programs`
  of every API call and background loop body of the crate (cross-checked at run time against the lock-event
  log of the real crate), and the abstract system `Sys` of ANY number of threads, each with the classes it
  holds and the rest of its program. The semantics `stepThread`, the well-formedness `WF`, and the
  specification `BlockedSpec` of blocking are in `CachedProofs/Lemmas/Locks.lean`.

  Quantifiers: every system `S` (any number of threads, any queue lengths, any positive capacities, any
  programs that pass the static check `Thread.ok` — not only those of the table), every predicate `blocked`
  (which threads the lock / channel implementation keeps waiting: any fairness, writer preference, spurious
  choice of whom to wake) that satisfies `BlockedSpec`, every schedule.

  Assumptions, all in `WF`: `Thread.ok` for every thread (checked for the crate's programs by `decide`, kept by
  every step: `C18_wf_preserved`), positive capacities, and `has_consumer` (a blocking send finds the consumer
  of its channel inside its loop; when the consumer is gone the channel is disconnected and `send` fails
  instead of blocking). `has_consumer` is an environment assumption about the consumer loops being reloaded
  (`todo = []` is "between programs"), it is not something `stepThread` can preserve.

  `C18_no_deadlock` is the global statement (some thread can move, or the system is idle); `C18_no_wait_cycle` is
  the local one (no set of threads waiting on one another, also while other threads run) and needs neither
  `has_consumer` nor anything about threads outside the set.

  One condition had to be ADDED for `C18_wf_preserved`: `Balanced` (the rest of every program releases all it
  holds and acquires, `heldAfter held todo = []`; `programsOk` checks it for whole programs). `Thread.ok` alone
  is not inductive, see `C18_ok_alone_not_inductive`. `C18_no_deadlock` does not need it.
-/
import CachedProofs.Lemmas.Locks

namespace Cached
namespace Locks

/-- **No deadlock.** In a well-formed system, whatever the implementation's choice of whom to keep waiting:
    either some unfinished thread can move, or every unfinished thread is a channel consumer waiting on its own
    EMPTY queue — the system is idle, nobody is stuck holding or wanting anything. In particular no cycle of
    lock or queue waits exists. -/
theorem C18_no_deadlock {S : Sys} {blocked : Nat → Prop} (wf : WF S) (bs : BlockedSpec S blocked) :
    (∃ (i : Nat) (t : Thread), S.threads[i]? = some t ∧ t.todo ≠ [] ∧ ¬ blocked i) ∨
    (∀ (i : Nat) (t : Thread), S.threads[i]? = some t → t.todo ≠ [] →
      ∃ q rest, t.todo = .recv q :: rest ∧ t.consumerOf = some q ∧ S.len q = 0) := by
  apply Classical.byContradiction
  intro hcon
  have hno : ¬ ∃ i t, S.threads[i]? = some t ∧ t.todo ≠ [] ∧ ¬ blocked i := fun h => hcon (Or.inl h)
  have hall : ∀ i t, S.threads[i]? = some t → t.todo ≠ [] → blocked i := by
    intro i t ht hne
    apply Classical.byContradiction
    intro hb
    exact hno ⟨i, t, ht, hne, hb⟩
  refine hcon (Or.inr ?_)
  intro i t ht hne
  obtain ⟨q, rest, h1, h2, h3, _⟩ := all_blocked_idle wf bs hall i t ht hne
  exact ⟨q, rest, h1, h2, h3⟩

/-- **No cycle of lock or queue waits ever forms**, also among a PART of the threads while the others run.
    Let `P` be any set of threads that wait on one another (`WaitClosed`): each member is kept waiting, a member
    waiting for a lock of class `c` waits for a member holding one, a member waiting for room in `q` waits for a
    member that is the consumer of `q`. (Any wait cycle `i₀ → i₁ → … → i₀` is such a set; so is any set of
    threads stuck for ever.) Then no member waits for a lock or for room in a queue and no member holds a lock:
    every member is a consumer at `recv` on its own EMPTY queue. Needs only the discipline and positive
    capacities, not `has_consumer`. -/
theorem C18_no_wait_cycle {S : Sys} {blocked : Nat → Prop} {P : Nat → Prop}
    (hok : ∀ t ∈ S.threads, t.ok = true) (hcap : ∀ q, 0 < S.cap q)
    (bs : BlockedSpec S blocked) (wc : WaitClosed S blocked P) :
    ∀ (i : Nat) (t : Thread), P i → S.threads[i]? = some t →
      ∃ q rest, t.todo = .recv q :: rest ∧ t.consumerOf = some q ∧ S.len q = 0 ∧ t.held = [] :=
  waitClosed_idle hok hcap bs wc

/-- Instance of `C18_no_wait_cycle` with a two-element set: the classical deadly embrace — two threads, each kept
    waiting for a lock class the other holds — is impossible, whatever the rest of the system does. -/
theorem C18_no_embrace {S : Sys} {blocked : Nat → Prop} (wf : WF S) (bs : BlockedSpec S blocked)
    {i j : Nat} {t u : Thread} {c d : Cls} {rt ru : List Op}
    (ht : S.threads[i]? = some t) (hu : S.threads[j]? = some u)
    (hti : t.todo = .acq c :: rt) (huj : u.todo = .acq d :: ru)
    (hbi : blocked i) (hbj : blocked j) (hc : c ∈ u.held) (hd : d ∈ t.held) : False := by
  have wc : WaitClosed S blocked (fun k => k = i ∨ k = j) := by
    refine ⟨?_, ?_, ?_⟩
    · rintro k (rfl | rfl) <;> assumption
    · rintro k x e r (rfl | rfl) hx hxt
      · rw [ht] at hx; cases hx
        rw [hti] at hxt; cases hxt
        exact ⟨j, u, Or.inr rfl, hu, hc⟩
      · rw [hu] at hx; cases hx
        rw [huj] at hxt; cases hxt
        exact ⟨i, t, Or.inl rfl, ht, hd⟩
    · rintro k x q r (rfl | rfl) hx hxt
      · rw [ht] at hx; cases hx
        rw [hti] at hxt; cases hxt
      · rw [hu] at hx; cases hx
        rw [huj] at hxt; cases hxt
  obtain ⟨q, rest, h, _⟩ := C18_no_wait_cycle wf.ok wf.cap_pos bs wc i t (Or.inl rfl) ht
  rw [hti] at h
  cases h

/-- **The static check of each program suffices.** A step of any thread keeps `Thread.ok` (and `Balanced`, and
    the capacities) and touches no other thread: `okFrom held (op :: rest)` gives `okFrom (held after op) rest`. -/
theorem C18_wf_preserved {S S' : Sys} {i : Nat} (wf : WF S) (bal : Balanced S) (h : stepThread S i = some S') :
    (∀ t ∈ S'.threads, t.ok = true) ∧ Balanced S' ∧ (∀ q, 0 < S'.cap q) ∧
    (∀ j, j ≠ i → S'.threads[j]? = S.threads[j]?) := by
  obtain ⟨h1, h2⟩ := stepThread_ok wf.ok bal h
  obtain ⟨_, hother, hcap, _⟩ := stepThread_todo h
  exact ⟨h1, h2, fun q => by rw [hcap]; exact wf.cap_pos q, hother⟩

/-- Why `Balanced` is there: `Thread.ok` alone is not preserved (its clause "finished threads hold nothing"
    looks only at the present). This thread is `ok`, it acquires and never releases. -/
theorem C18_ok_alone_not_inductive :
    let S : Sys := { threads := [{ held := [], todo := [.acq .wu], consumerOf := none }], len := fun _ => 0, cap := fun _ => 1 }
    (∀ t ∈ S.threads, t.ok = true) ∧
    ∃ S', stepThread S 0 = some S' ∧ ¬ (∀ t ∈ S'.threads, t.ok = true) := by
  refine ⟨by decide, _, rfl, ?_⟩
  intro h
  exact absurd (h _ (List.mem_singleton.mpr rfl)) (by decide)

/-- **The crate's programs pass the check**: every program of the table keeps the rank order, holds nothing at a
    blocking channel operation and ends holding nothing; consumers never do a blocking send and only the
    consumer of a channel receives from it. -/
theorem C18_programs_ok : programsOk = true ∧ consumersOk = true := by decide

/-- In the crate a consumer loop body is `recv q` followed by lock operations only: consumers produce nothing
    (not even with `trySend`), so threads idle at `recv` on empty queues (the second case of `C18_no_deadlock`)
    are not waiting for one another either. -/
theorem C18_consumers_only_consume :
    programs.all (fun p => match p.2.1 with
      | some q => decide (p.2.2.head? = some (.recv q)) &&
          p.2.2.tail.all (fun op => match op with | .acq _ => true | .rel _ => true | _ => false)
      | none => true) = true := by decide

/-- Every program of the table, started holding nothing by a thread with the table's consumer role, is a
    `Thread.ok` and balanced thread — the hypotheses `WF.ok` and `Balanced` for the real crate. -/
theorem C18_program_thread_ok :
    ∀ p ∈ programs, ({ held := [], todo := p.2.2, consumerOf := p.2.1 } : Thread).ok = true ∧
      heldAfter [] p.2.2 = [] := by
  have h : programs.all (fun p => ({ held := [], todo := p.2.2, consumerOf := p.2.1 } : Thread).ok &&
      (heldAfter [] p.2.2).isEmpty) = true := by decide
  intro p hp
  have := List.all_eq_true.mp h p hp
  simp only [Bool.and_eq_true, List.isEmpty_iff] at this
  exact this

/-- The rank table is an order on classes: no two classes share a rank (and all ranks are below 8). -/
theorem C18_rank_table : (∀ a b : Cls, a.rank = b.rank → a = b) ∧ ∀ c : Cls, c.rank < 8 :=
  ⟨Cls.rank_injective, Cls.rank_lt_8⟩

/-- **Every program ends.** One step of thread `i` removes exactly the first operation of its `todo` and leaves
    every other thread alone; a thread with something to do can always be stepped. -/
theorem C18_step_decreases {S S' : Sys} {i : Nat} (h : stepThread S i = some S') :
    (∃ t t', S.threads[i]? = some t ∧ S'.threads[i]? = some t' ∧ t'.todo.length + 1 = t.todo.length) ∧
    (∀ j, j ≠ i → S'.threads[j]? = S.threads[j]?) := by
  obtain ⟨⟨t, t', ht, ht', hne, htail, _⟩, hother, _, _⟩ := stepThread_todo h
  refine ⟨⟨t, t', ht, ht', ?_⟩, hother⟩
  rw [htail]
  cases hl : t.todo with
  | nil => exact absurd hl hne
  | cons op r => simp

/-- Under ANY schedule (any interleaving with the other threads), after thread `i` was scheduled `k` times it has
    exactly the last `todo.length - k` operations left, `k` never exceeds `todo.length`, and after exactly
    `todo.length` of its own steps it is finished; until then it can be stepped. So a thread that is not blocked
    for ever finishes its program — programs are finite lists, there are no loops inside a program. -/
theorem C18_terminates {S S' : Sys} {sched : List Nat} {i : Nat} {t : Thread}
    (hrun : run S sched = some S') (ht : S.threads[i]? = some t) :
    ∃ t', S'.threads[i]? = some t' ∧ t'.todo = t.todo.drop (sched.count i) ∧
      sched.count i ≤ t.todo.length ∧ t'.todo.length + sched.count i = t.todo.length ∧
      (sched.count i = t.todo.length → t'.todo = []) ∧
      (sched.count i < t.todo.length → ∃ S'', stepThread S' i = some S'') := by
  obtain ⟨t', ht', hdrop, hle, _⟩ := run_todo i sched S S' t hrun ht
  have hlen : t'.todo.length + sched.count i = t.todo.length := by
    rw [hdrop, List.length_drop]; omega
  refine ⟨t', ht', hdrop, hle, hlen, ?_, ?_⟩
  · intro heq
    apply List.eq_nil_of_length_eq_zero
    omega
  · intro hlt
    apply stepThread_isSome ht'
    intro hnil
    rw [hnil] at hlen
    simp at hlen
    omega

/-! ## Non-vacuity (`exampleSys`, `badSys` are defined in `Lemmas/Locks.lean`) -/

open Cls Op Chan

/-- (a) the hypotheses of `C18_no_deadlock` and `C18_wf_preserved` are met by `exampleSys`, with client and worker
    blocked by the sweeper -/
example : WF exampleSys ∧ Balanced exampleSys ∧ BlockedSpec exampleSys (fun i => i = 0 ∨ i = 1) := by
  refine ⟨⟨by decide, ?_, ?_⟩, by unfold Balanced; decide, ⟨?_, ?_, ?_, ?_, ?_, ?_⟩⟩
  · intro q; cases q <;> decide
  · intro i t q rest ht htodo
    match i with
    | 0 | 1 | 2 => simp [exampleSys] at ht; subst ht; simp at htodo
    | n + 3 => simp [exampleSys] at ht
  · intro i t c rest ht htodo hb
    rcases hb with rfl | rfl
    · refine ⟨2, _, by decide, rfl, ?_⟩
      simp [exampleSys] at ht; subst ht; simp at htodo; rw [← htodo.1]; decide
    · refine ⟨2, _, by decide, rfl, ?_⟩
      simp [exampleSys] at ht; subst ht; simp at htodo; rw [← htodo.1]; decide
  · intro i t q rest ht htodo hb
    rcases hb with rfl | rfl <;> (simp [exampleSys] at ht; subst ht; simp at htodo)
  · intro i t q rest ht htodo hb
    rcases hb with rfl | rfl <;> (simp [exampleSys] at ht; subst ht; simp at htodo)
  · intro i t c rest ht htodo hb
    rcases hb with rfl | rfl <;> (simp [exampleSys] at ht; subst ht; simp at htodo)
  · intro i t q rest ht htodo hb
    rcases hb with rfl | rfl <;> (simp [exampleSys] at ht; subst ht; simp at htodo)
  · intro i t ht htodo hb
    rcases hb with rfl | rfl <;> (simp [exampleSys] at ht; subst ht; simp at htodo)

/-- (a') the same moment a little later: the client is blocked at `send cmd` on a FULL command queue, the worker
    (the consumer of `cmd`) is inside its loop body — `has_consumer` is met non-vacuously. -/
example : WF { exampleSys with
    threads := exampleSys.threads.set 0 { held := [], todo := [send cmd], consumerOf := none }
    len := fun _ => 4 } := by
  refine ⟨by decide, ?_, ?_⟩
  · intro q; cases q <;> decide
  · intro i t q rest ht htodo
    match i with
    | 0 =>
      simp [exampleSys] at ht; subst ht; simp at htodo
      refine ⟨1, _, rfl, ?_, by simp⟩
      rw [← htodo.1]
    | 1 | 2 => simp [exampleSys] at ht; subst ht; simp at htodo
    | n + 3 => simp [exampleSys] at ht

/-- (b) the classical deadlock `badSys` is REJECTED by the check: the thread that holds `wu` and wants `kwShard`
    violates the rank order, the other one (the crate's `UpdateWeight` order) is fine -/
example : badSys.threads.map Thread.ok = [false, true] := by decide

/-- ... and the check is needed: `badSys` meets every other hypothesis (`BlockedSpec` with both threads blocked,
    positive capacities; `has_consumer` is vacuous, nobody sends), and the conclusion of `C18_no_deadlock` fails for it. -/
example : BlockedSpec badSys (fun _ => True) ∧ (∀ q, 0 < badSys.cap q) ∧
    ¬ ((∃ (i : Nat) (t : Thread), badSys.threads[i]? = some t ∧ t.todo ≠ [] ∧ ¬ (fun _ => True) i) ∨
       (∀ (i : Nat) (t : Thread), badSys.threads[i]? = some t → t.todo ≠ [] →
         ∃ q rest, t.todo = .recv q :: rest ∧ t.consumerOf = some q ∧ badSys.len q = 0)) := by
  refine ⟨⟨?_, ?_, ?_, ?_, ?_, ?_⟩, fun _ => Nat.one_pos, ?_⟩
  · intro i t c rest ht htodo _
    match i with
    | 0 =>
      refine ⟨1, _, by decide, rfl, ?_⟩
      simp [badSys] at ht; subst ht; simp at htodo; rw [← htodo.1]; decide
    | 1 =>
      refine ⟨0, _, by decide, rfl, ?_⟩
      simp [badSys] at ht; subst ht; simp at htodo; rw [← htodo.1]; decide
    | n + 2 => simp [badSys] at ht
  all_goals first
    | (intro i t q rest ht htodo
       match i with
       | 0 | 1 => simp [badSys] at ht; subst ht; simp at htodo
       | n + 2 => simp [badSys] at ht)
    | skip
  · intro i t ht htodo
    match i with
    | 0 | 1 => simp [badSys] at ht; subst ht; simp at htodo
    | n + 2 => simp [badSys] at ht
  · rintro (⟨i, t, _, _, hb⟩ | h)
    · exact hb trivial
    · obtain ⟨q, rest, hq, _⟩ := h 0 _ rfl (by simp)
      simp at hq

end Locks
end Cached
