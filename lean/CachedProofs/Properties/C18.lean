/-
  C18  No deadlock: locks are always taken in one global order and no thread holds a lock while blocking on
       a queue, so no cycle of lock or queue waits ever forms.

  All statements are about `CachedModel/Locks.lean`: the lock classes and their ranks, the table `programs`
  of every API call and background loop body of the crate (cross-checked at run time against the lock-event
  log of the real crate), and the abstract system `Sys` of ANY number of threads, each with the concrete locks
  `⟨class, instance⟩` it holds, the rest of its program and the instance index `want` it is acquiring. The
  semantics `stepThread`, the well-formedness `WF`, and the specification `BlockedSpec` of blocking are in
  `CachedProofs/Lemmas/Locks.lean`.

  The global order is the lexicographic order `Lock.lt` on (rank of the class, instance index): a plain `acq c`
  needs every held class ranked strictly below `c`; `acqUp c` (the DashMap iterator taking shard i+1 while it
  holds shard i) needs every held class ranked at most `c` and every held lock of class `c` of a smaller
  instance index. Either way every held lock is `Lock.lt` the wanted one (`C18_lock_order`), so the thread whose
  wanted lock is maximal among the waiting ones cannot be waiting (proved as a lexicographic induction on
  `(8 - rank, maxWant + 1 - want)`, `no_blocked_acq`).

  Quantifiers: every system `S` (any number of threads, any queue lengths, any positive capacities, any
  programs that pass the static check `Thread.ok` — not only those of the table), every predicate `blocked`
  (which threads the lock / channel implementation keeps waiting: any fairness, writer preference, spurious
  choice of whom to wake) that satisfies `BlockedSpec` (a thread waiting at `acq c` / `acqUp c` has ANOTHER thread
  holding exactly the lock `⟨c, want⟩`), every schedule, every choice by the environment of the instance a `rel c`
  releases and of the instance announced for the next acquisition.

  Assumptions, all in `WF`: `Thread.ok` for every thread (checked for the crate's programs by `decide`, kept by
  every step: `C18_wf_preserved`), positive capacities, and `has_consumer` (a blocking send finds the consumer
  of its channel inside its loop; when the consumer is gone the channel is disconnected and `send` fails
  instead of blocking). `has_consumer` is an environment assumption about the consumer loops being reloaded
  (`todo = []` is "between programs"), it is not something `stepThread` can preserve. No "a lock has one holder"
  condition is needed (read locks have several holders; the argument follows any one of them).

  `C18_no_deadlock` is the global statement (some thread can move, or the system is idle); `C18_no_wait_cycle` is
  the local one (no set of threads waiting on one another, also while other threads run) and needs neither
  `has_consumer` nor anything about threads outside the set.

  The former extra hypothesis `Balanced` of `C18_wf_preserved` is now the last clause of `Thread.ok` in the model.
  `C18_wf_preserved` has ONE side condition, on the environment: the instance announced for the next acquisition
  respects the upward rule (if the new head is `acqUp c`, it is above every held instance of `c`); it is needed,
  see the example after (a'').
-/
import CachedProofs.LayerB.Theorems
import CachedProofs.Lemmas.Locks

namespace Cached
namespace Locks

/-- **No deadlock.** In a well-formed system, whatever the implementation's choice of whom to keep waiting:
    either some unfinished thread can move, or every unfinished thread is a channel consumer waiting on its own
    EMPTY queue — the system is idle, nobody is stuck holding or wanting anything. In particular no cycle of
    lock or queue waits exists. -/
theorem C18_no_deadlock {S : Sys} {blocked : Nat → Prop} (wf : WF S) (bs : BlockedSpec S blocked) :
    (∃ (i : Nat) (t : Thread), S.threads[i]? = some t ∧ t.todo ≠ [] ∧ ¬ blocked i) ∨
    (∀ (i : Nat) (t : Thread), S.threads[i]? = some t → t.todo ≠ [] →
      ∃ q rest, t.todo = .recv q :: rest ∧ t.consumerOf = some q ∧ S.len q = 0) := by
  apply Classical.byContradiction
  intro hcon
  have hno : ¬ ∃ i t, S.threads[i]? = some t ∧ t.todo ≠ [] ∧ ¬ blocked i := fun h => hcon (Or.inl h)
  have hall : ∀ i t, S.threads[i]? = some t → t.todo ≠ [] → blocked i := by
    intro i t ht hne
    apply Classical.byContradiction
    intro hb
    exact hno ⟨i, t, ht, hne, hb⟩
  refine hcon (Or.inr ?_)
  intro i t ht hne
  obtain ⟨q, rest, h1, h2, h3, _⟩ := all_blocked_idle wf bs hall i t ht hne
  exact ⟨q, rest, h1, h2, h3⟩

/-- **No cycle of lock or queue waits ever forms**, also among a PART of the threads while the others run.
    Let `P` be any set of threads that wait on one another (`WaitClosed`): each member is kept waiting, a member
    waiting for the lock `⟨c, want⟩` (at `acq c` or at `acqUp c`) waits for a member holding that lock, a member
    waiting for room in `q` waits for a member that is the consumer of `q`. (Any wait cycle `i₀ → i₁ → … → i₀` is
    such a set; so is any set of threads stuck for ever.) Then no member waits for a lock or for room in a queue
    and no member holds a lock: every member is a consumer at `recv` on its own EMPTY queue. Needs only the
    discipline and positive capacities, not `has_consumer`. -/
theorem C18_no_wait_cycle {S : Sys} {blocked : Nat → Prop} {P : Nat → Prop}
    (hok : ∀ t ∈ S.threads, t.ok = true) (hcap : ∀ q, 0 < S.cap q)
    (bs : BlockedSpec S blocked) (wc : WaitClosed S blocked P) :
    ∀ (i : Nat) (t : Thread), P i → S.threads[i]? = some t →
      ∃ q rest, t.todo = .recv q :: rest ∧ t.consumerOf = some q ∧ S.len q = 0 ∧ t.held = [] :=
  waitClosed_idle hok hcap bs wc

/-- Instance of `C18_no_wait_cycle` with a two-element set: the classical deadly embrace — two threads, each kept
    waiting (at a plain or an upward acquire) for the lock instance the other holds — is impossible, whatever the
    rest of the system does. -/
theorem C18_no_embrace {S : Sys} {blocked : Nat → Prop} (wf : WF S) (bs : BlockedSpec S blocked)
    {i j : Nat} {t u : Thread} {c d : Cls} {rt ru : List Op}
    (ht : S.threads[i]? = some t) (hu : S.threads[j]? = some u)
    (hti : t.todo = .acq c :: rt ∨ t.todo = .acqUp c :: rt) (huj : u.todo = .acq d :: ru ∨ u.todo = .acqUp d :: ru)
    (hbi : blocked i) (hbj : blocked j) (hc : (⟨c, t.want⟩ : Lock) ∈ u.held) (hd : (⟨d, u.want⟩ : Lock) ∈ t.held) :
    False := by
  have wc : WaitClosed S blocked (fun k => k = i ∨ k = j) := by
    refine ⟨?_, ?_, ?_⟩
    · rintro k (rfl | rfl) <;> assumption
    · rintro k x e r (rfl | rfl) hx hxt
      · rw [ht] at hx; cases hx
        have he : e = c := by
          rcases hti with h | h <;> rcases hxt with h' | h' <;> (rw [h] at h'; cases h' <;> rfl)
        subst he
        exact ⟨j, u, Or.inr rfl, hu, hc⟩
      · rw [hu] at hx; cases hx
        have he : e = d := by
          rcases huj with h | h <;> rcases hxt with h' | h' <;> (rw [h] at h'; cases h' <;> rfl)
        subst he
        exact ⟨i, t, Or.inl rfl, ht, hd⟩
    · rintro k x q r (rfl | rfl) hx hxt
      · rw [ht] at hx; cases hx
        rcases hti with h | h <;> (rw [h] at hxt; cases hxt)
      · rw [hu] at hx; cases hx
        rcases huj with h | h <;> (rw [h] at hxt; cases hxt)
  obtain ⟨q, rest, h, _⟩ := C18_no_wait_cycle wf.ok wf.cap_pos bs wc i t (Or.inl rfl) ht
  rcases hti with h' | h' <;> (rw [h'] at h; cases h)

/-- The embrace at the level of lock CLASSES (the statement of C18 before `acqUp` was added to the model), by the
    discipline alone: a thread at a plain `acq c` holding some lock of class `d`, and a thread at an acquire of
    class `d` holding some lock of class `c`, cannot both keep the discipline. (With BOTH threads at `acqUp` of one
    class there is no contradiction at class level — one iterator holds shard 0 and wants 1, another holds 2 and
    wants 3 — which is why `BlockedSpec` and `WaitClosed` speak about lock instances.) -/
theorem C18_no_embrace_classes {t u : Thread} {c d : Cls} {rt ru : List Op} {x y : Lock}
    (htok : t.ok = true) (huok : u.ok = true)
    (hti : t.todo = .acq c :: rt) (huj : u.todo = .acq d :: ru ∨ u.todo = .acqUp d :: ru)
    (hx : x ∈ u.held) (hxc : x.cls = c) (hy : y ∈ t.held) (hyd : y.cls = d) : False := by
  have h1 := Thread.ok_acq htok hti y hy
  have h2 := Thread.ok_held_lt_wanted huok huj x hx
  unfold Lock.lt at h2
  simp only at h2
  rw [hxc] at h2
  rw [hyd] at h1
  omega

/-- The order behind the argument: in a thread that keeps the discipline, every held lock is strictly below the
    lock being acquired in the lexicographic order `Lock.lt` on (rank of the class, instance index), which is a
    strict total order. -/
theorem C18_lock_order {t : Thread} {c : Cls} {rest : List Op} (h : t.ok = true)
    (ht : t.todo = .acq c :: rest ∨ t.todo = .acqUp c :: rest) :
    (∀ x ∈ t.held, Lock.lt x ⟨c, t.want⟩) ∧
    (∀ a : Lock, ¬ Lock.lt a a) ∧ (∀ a b c : Lock, Lock.lt a b → Lock.lt b c → Lock.lt a c) ∧
    (∀ a b : Lock, Lock.lt a b ∨ a = b ∨ Lock.lt b a) :=
  ⟨Thread.ok_held_lt_wanted h ht, Lock.lt_irrefl, fun _ _ _ => Lock.lt_trans, Lock.lt_total⟩

/-- **The static check of each program suffices.** A step of any thread keeps `Thread.ok` (which now contains
    "the rest of the program releases everything held": a finished thread holds nothing) and the capacities, and
    touches no other thread. Side condition on the environment's choice `next` (the instance index of the stepped
    thread's next acquisition): it respects the upward rule — if the new head of `todo` is `acqUp c`, every lock of
    class `c` the thread holds has an instance index below `next`. (The choice `inst` of the instance released
    needs no side condition: a step that releases a lock that is not held is `none`.) -/
theorem C18_wf_preserved {S S' : Sys} {i inst next : Nat} (wf : WF S) (h : stepThread S i inst next = some S')
    (hnext : ∀ t', S'.threads[i]? = some t' → ∀ c rest, t'.todo = .acqUp c :: rest →
      ∀ x ∈ t'.held, x.cls = c → x.inst < next) :
    (∀ t ∈ S'.threads, t.ok = true) ∧ (∀ q, 0 < S'.cap q) ∧
    (∀ j, j ≠ i → S'.threads[j]? = S.threads[j]?) := by
  have h1 := stepThread_ok wf.ok h hnext
  obtain ⟨_, hother, hcap, _⟩ := stepThread_todo h
  exact ⟨h1, fun q => by rw [hcap]; exact wf.cap_pos q, hother⟩

/-- ... along a whole schedule: if after every prefix of the schedule the announced instances respect the upward
    rule (`upOk`, the second clause of `Thread.ok`), every thread is `ok` after the schedule. -/
theorem C18_run_ok {S S' : Sys} {sched : List (Nat × Nat × Nat)} (hok : ∀ t ∈ S.threads, t.ok = true)
    (hup : ∀ k Sk, run S (sched.take k) = some Sk → ∀ t ∈ Sk.threads, upOk t.held t.want t.todo = true)
    (hrun : run S sched = some S') : ∀ t ∈ S'.threads, t.ok = true :=
  run_ok sched S S' hok hup hrun

/-- What a step does to the locks held: an acquire adds exactly the lock `⟨c, want⟩` the thread was acquiring, a
    release removes exactly the lock `⟨c, inst⟩` (which was held), channel operations change nothing. -/
theorem C18_step_held {S S' : Sys} {i inst next : Nat} (h : stepThread S i inst next = some S') :
    ∃ t t' op rest, S.threads[i]? = some t ∧ S'.threads[i]? = some t' ∧ t.todo = op :: rest ∧
      (match op with
       | .acq c => t'.held = ⟨c, t.want⟩ :: t.held
       | .acqUp c => t'.held = ⟨c, t.want⟩ :: t.held
       | .rel c => (⟨c, inst⟩ : Lock) ∈ t.held ∧ t'.held = t.held.erase ⟨c, inst⟩
       | _ => t'.held = t.held) :=
  stepThread_held h

/-- **The crate's programs pass the check**: every program of the table keeps the rank order (an `acqUp` may share
    its class with held locks, nothing held ranks above it), holds nothing at a blocking channel operation and ends
    holding nothing; consumers never do a blocking send and only the consumer of a channel receives from it. -/
theorem C18_programs_ok : programsOk = true ∧ consumersOk = true := by decide

/-- In the crate a consumer loop body is `recv q` followed by lock operations only: consumers produce nothing
    (not even with `trySend`), so threads idle at `recv` on empty queues (the second case of `C18_no_deadlock`)
    are not waiting for one another either. -/
theorem C18_consumers_only_consume :
    programs.all (fun p => match p.2.1 with
      | some q => decide (p.2.2.head? = some (.recv q)) &&
          p.2.2.tail.all (fun op => match op with | .acq _ => true | .acqUp _ => true | .rel _ => true | _ => false)
      | none => true) = true := by decide

/-- Every program of the table, started holding nothing by a thread with the table's consumer role, is a
    `Thread.ok` thread — the hypothesis `WF.ok` for the real crate — whatever instance it is about to acquire
    (in particular `want := 0`). -/
theorem C18_program_thread_ok :
    ∀ p ∈ programs, ∀ w : Nat, ({ held := [], todo := p.2.2, want := w, consumerOf := p.2.1 } : Thread).ok = true := by
  have h : programs.all (fun p => ({ held := [], todo := p.2.2, want := 0, consumerOf := p.2.1 } : Thread).ok) = true := by
    decide
  intro p hp w
  have h0 := List.all_eq_true.mp h p hp
  obtain ⟨h1, _, h3, h4⟩ := (Thread.ok_iff _).mp h0
  refine (Thread.ok_iff _).mpr ⟨h1, ?_, h3, h4⟩
  apply upOk_iff.mpr
  intro c rest _ x hx
  cases hx

/-- The rank table is an order on classes: no two classes share a rank (and all ranks are below 8). -/
theorem C18_rank_table : (∀ a b : Cls, a.rank = b.rank → a = b) ∧ ∀ c : Cls, c.rank < 8 :=
  ⟨Cls.rank_injective, Cls.rank_lt_8⟩

/-- **The run-time validation of the lock log is sound for the discipline.** An edge "holding a lock of class
    `held`, acquiring a lock of class `wanted`" that `edgeAllowed` accepts goes strictly up in rank, or stays in
    the class and that class is one some program iterates over with `acqUp`; re-acquiring the very same lock
    instance is never accepted; and the only class with an `acqUp` in the table is `kwShard`. -/
theorem C18_observed_edges_sound :
    (∀ held wanted : Cls, edgeAllowed held wanted false = true →
      (held.rank < wanted.rank ∨ (held = wanted ∧ ∃ p ∈ programs, Op.acqUp wanted ∈ p.2.2))) ∧
    (∀ h w : Cls, edgeAllowed h w true = false) ∧
    (∀ c : Cls, (∃ p ∈ programs, Op.acqUp c ∈ p.2.2) ↔ c = .kwShard) := by
  refine ⟨?_, ?_, ?_⟩
  · intro held wanted h
    unfold edgeAllowed at h
    simp only [Bool.not_false, Bool.true_and, Bool.or_eq_true, decide_eq_true_eq, Bool.and_eq_true, beq_iff_eq,
      List.any_eq_true, List.contains_iff_mem] at h
    rcases h with h | ⟨h1, p, hp, hmem⟩
    · exact Or.inl h
    · exact Or.inr ⟨h1, p, hp, hmem⟩
  · intro h w
    simp [edgeAllowed]
  · intro c
    cases c <;> decide

/-- **Every program ends.** One step of thread `i` removes exactly the first operation of its `todo` and leaves
    every other thread alone; a thread that keeps the discipline and has something to do can always be stepped
    (`C18_terminates`). -/
theorem C18_step_decreases {S S' : Sys} {i inst next : Nat} (h : stepThread S i inst next = some S') :
    (∃ t t', S.threads[i]? = some t ∧ S'.threads[i]? = some t' ∧ t'.todo.length + 1 = t.todo.length) ∧
    (∀ j, j ≠ i → S'.threads[j]? = S.threads[j]?) := by
  obtain ⟨⟨t, t', ht, ht', hne, htail, _⟩, hother, _, _⟩ := stepThread_todo h
  refine ⟨⟨t, t', ht, ht', ?_⟩, hother⟩
  rw [htail]
  cases hl : t.todo with
  | nil => exact absurd hl hne
  | cons op r => simp

/-- Under ANY schedule (any interleaving with the other threads, any choice of the instances released and
    announced), after thread `i` was scheduled `k` times it has exactly the last `todo.length - k` operations left,
    `k` never exceeds `todo.length`, and after exactly `todo.length` of its own steps it is finished; until then it
    can be stepped, for some choice of the instance released and every announced instance, PROVIDED it still keeps
    the discipline (`t'.ok`, see `C18_run_ok`; needed since the model has concrete locks: a `rel c` by a thread that
    holds no lock of class `c` is not a step). So a thread that is not blocked for ever finishes its program —
    programs are finite lists, there are no loops inside a program. -/
theorem C18_terminates {S S' : Sys} {sched : List (Nat × Nat × Nat)} {i : Nat} {t : Thread}
    (hrun : run S sched = some S') (ht : S.threads[i]? = some t) :
    ∃ t', S'.threads[i]? = some t' ∧ t'.todo = t.todo.drop ((sched.map (·.1)).count i) ∧
      (sched.map (·.1)).count i ≤ t.todo.length ∧ t'.todo.length + (sched.map (·.1)).count i = t.todo.length ∧
      ((sched.map (·.1)).count i = t.todo.length → t'.todo = []) ∧
      ((sched.map (·.1)).count i < t.todo.length → t'.ok = true →
        ∃ inst, ∀ next, ∃ S'', stepThread S' i inst next = some S'') := by
  obtain ⟨t', ht', hdrop, hle, _⟩ := run_todo i sched S S' t hrun ht
  have hlen : t'.todo.length + (sched.map (·.1)).count i = t.todo.length := by
    rw [hdrop, List.length_drop]; omega
  refine ⟨t', ht', hdrop, hle, hlen, ?_, ?_⟩
  · intro heq
    apply List.eq_nil_of_length_eq_zero
    omega
  · intro hlt hok
    apply stepThread_isSome ht' hok
    intro hnil
    rw [hnil] at hlen
    simp at hlen
    omega

/-! ## The table against the code, in both directions

  `C18_observed_edges_sound` (above) is the direction "what the code does is allowed by the table".  The other direction
  — "what the table says is done by the code" — is what justifies the ATOMIC ACTIONS and the LOCK OWNERSHIP fields of
  Layer B: the harness runs every program of the table once and the driver requires every edge of `programEdges` in the
  lock log (`L cover`).  The two facts below are what that run-time check rests on. -/

/-- every nesting the table performs is allowed by the discipline -/
theorem C18_program_edges_allowed : ∀ e ∈ programEdges, edgeAllowed e.1 e.2 false = true := by decide

/-- the nestings Layer B's atomic actions and lock ownership rest on are nestings of the table (hence checked against
    the lock log of the real crate on every run), and the table performs no other nesting. Since fix 36c87dc the list
    includes `kwShard → storeShard`: the sweeper's `remove_if` reads the stored value under the key id's shard guard of
    the weight ledger, and Layer B's `.kwRemove` action (the check `unexpiredWithId` and the removal from the ledger as
    ONE action) rests on exactly that nesting. -/
theorem C18_atomicity_rests_on_program_edges :
    (∀ e ∈ atomicityRests, e ∈ programEdges) ∧ (∀ e ∈ programEdges, e ∈ atomicityRests) := by decide

/-- the new nesting is performed by the table, is allowed by the discipline, and is one the atomic actions rest on -/
example : (Cls.kwShard, Cls.storeShard) ∈ programEdges ∧ edgeAllowed .kwShard .storeShard false = true ∧
    (Cls.kwShard, Cls.storeShard) ∈ atomicityRests := by decide

/-! ## Non-vacuity (`exampleSys`, `sampleThread`, `badSys`, `badUpSys` are defined in `Lemmas/Locks.lean`) -/

open Cls Op Chan

/-- (a) the hypotheses of `C18_no_deadlock` and `C18_wf_preserved` are met by `exampleSys`, with client and worker
    blocked by the sweeper (which holds exactly the lock instances `⟨ttlShard, 0⟩` and `⟨wu, 0⟩` they want) -/
example : WF exampleSys ∧ BlockedSpec exampleSys (fun i => i = 0 ∨ i = 1) := by
  refine ⟨⟨by decide, ?_, ?_⟩, ⟨?_, ?_, ?_, ?_, ?_, ?_⟩⟩
  · intro q; cases q <;> decide
  · intro i t q rest ht htodo
    match i with
    | 0 | 1 | 2 => simp [exampleSys] at ht; subst ht; simp at htodo
    | n + 3 => simp [exampleSys] at ht
  · intro i t c rest ht htodo hb
    rcases hb with rfl | rfl
    · refine ⟨2, _, by decide, rfl, ?_⟩
      simp [exampleSys] at ht; subst ht; simp at htodo; rw [← htodo.1]; decide
    · refine ⟨2, _, by decide, rfl, ?_⟩
      simp [exampleSys] at ht; subst ht; simp at htodo; rw [← htodo.1]; decide
  · intro i t q rest ht htodo hb
    rcases hb with rfl | rfl <;> (simp [exampleSys] at ht; subst ht; simp at htodo)
  · intro i t q rest ht htodo hb
    rcases hb with rfl | rfl <;> (simp [exampleSys] at ht; subst ht; simp at htodo)
  · intro i t c rest ht htodo hb
    rcases hb with rfl | rfl <;> (simp [exampleSys] at ht; subst ht; simp at htodo)
  · intro i t q rest ht htodo hb
    rcases hb with rfl | rfl <;> (simp [exampleSys] at ht; subst ht; simp at htodo)
  · intro i t ht htodo hb
    rcases hb with rfl | rfl <;> (simp [exampleSys] at ht; subst ht; simp at htodo)

/-- (a') the same moment a little later: the client is blocked at `send cmd` on a FULL command queue, the worker
    (the consumer of `cmd`) is inside its loop body — `has_consumer` is met non-vacuously. -/
example : WF { exampleSys with
    threads := exampleSys.threads.set 0 { held := [], todo := [send cmd], want := 0, consumerOf := none }
    len := fun _ => 4 } := by
  refine ⟨by decide, ?_, ?_⟩
  · intro q; cases q <;> decide
  · intro i t q rest ht htodo
    match i with
    | 0 =>
      simp [exampleSys] at ht; subst ht; simp at htodo
      refine ⟨1, _, rfl, ?_, by simp⟩
      rw [← htodo.1]
    | 1 | 2 => simp [exampleSys] at ht; subst ht; simp at htodo
    | n + 3 => simp [exampleSys] at ht

/-- (a'') the upward acquire: the worker inside the sample iteration of `Put`, holding `⟨kwShard, 0⟩`, at
    `acqUp kwShard` (`sampleTodo` is the rest of the table's program from there), is `ok` when it is acquiring
    instance 1 and NOT `ok` when it is re-acquiring instance 0 (not greater than what it holds) -/
example : ((programs.map (·.2.2))[9]?.map (·.drop 10)) = some sampleTodo ∧
    (sampleThread 1).held = [⟨kwShard, 0⟩] ∧ (sampleThread 1).todo.head? = some (acqUp kwShard) ∧
    (sampleThread 1).ok = true ∧ (sampleThread 0).ok = false := by decide

/-- ... and it steps as the DashMap iterator does: it takes shard 1 while holding shard 0, then lets go of shard 0
    (the environment picks instance 0 for the `rel kwShard`), keeps shard 1 across the `af` estimate and releases
    it; asked to release an instance it does not hold (7) it cannot step. The side condition of `C18_wf_preserved`
    holds at every step (no `acqUp` becomes the head) and every intermediate thread is `ok`. -/
example :
    let S : Sys := { threads := [sampleThread 1], len := fun _ => 0, cap := fun _ => 1 }
    ((run S [(0, 0, 0)]).map (fun S' => S'.threads.map (fun t => (t.held, t.ok)))) =
        some [([⟨kwShard, 1⟩, ⟨kwShard, 0⟩], true)] ∧
    ((run S [(0, 0, 0), (0, 0, 0)]).map (fun S' => S'.threads.map (fun t => (t.held, t.ok)))) =
        some [([⟨kwShard, 1⟩], true)] ∧
    ((run S [(0, 0, 0), (0, 0, 0), (0, 0, 0), (0, 0, 0), (0, 1, 0)]).map
        (fun S' => S'.threads.map (fun t => (t.held, t.ok)))) = some [([], true)] ∧
    ((run S [(0, 0, 0), (0, 7, 0)]).map (fun S' => S'.threads.map (fun t => (t.held, t.ok)))) = none := by
  decide

/-- ... and the side condition of `C18_wf_preserved` is needed: the worker at `acq af` inside the refill iteration,
    holding `⟨kwShard, 0⟩`, with `acqUp kwShard` coming; announcing instance 1 for it keeps `Thread.ok`, announcing
    instance 0 (the one it holds) does not. -/
example :
    let S : Sys := { threads := [{ held := [⟨kwShard, 0⟩, ⟨af, 0⟩], todo := [rel af, acqUp kwShard, rel kwShard, rel kwShard],
                                   want := 0, consumerOf := some cmd }], len := fun _ => 0, cap := fun _ => 1 }
    (S.threads.map Thread.ok = [true]) ∧
    ((stepThread S 0 0 1).map (fun S' => S'.threads.map Thread.ok)) = some [true] ∧
    ((stepThread S 0 0 0).map (fun S' => S'.threads.map Thread.ok)) = some [false] := by
  decide

/-- (b) the classical deadlock `badSys` is REJECTED by the check: the thread that holds `wu` and wants `kwShard`
    violates the rank order, the other one (the crate's `UpdateWeight` order) is fine; (b') so is the same-class
    deadlock `badUpSys` of two iterators going in opposite directions: the one going downward is rejected -/
example : badSys.threads.map Thread.ok = [false, true] ∧ badUpSys.threads.map Thread.ok = [true, false] := by decide

/-- ... and the check is needed: `badSys` meets every other hypothesis (`BlockedSpec` with both threads blocked,
    positive capacities; `has_consumer` is vacuous, nobody sends), and the conclusion of `C18_no_deadlock` fails for it. -/
example : BlockedSpec badSys (fun _ => True) ∧ (∀ q, 0 < badSys.cap q) ∧
    ¬ ((∃ (i : Nat) (t : Thread), badSys.threads[i]? = some t ∧ t.todo ≠ [] ∧ ¬ (fun _ => True) i) ∨
       (∀ (i : Nat) (t : Thread), badSys.threads[i]? = some t → t.todo ≠ [] →
         ∃ q rest, t.todo = .recv q :: rest ∧ t.consumerOf = some q ∧ badSys.len q = 0)) := by
  refine ⟨⟨?_, ?_, ?_, ?_, ?_, ?_⟩, fun _ => Nat.one_pos, ?_⟩
  · intro i t c rest ht htodo _
    match i with
    | 0 =>
      refine ⟨1, _, by decide, rfl, ?_⟩
      simp [badSys] at ht; subst ht; simp at htodo; rw [← htodo.1]; decide
    | 1 =>
      refine ⟨0, _, by decide, rfl, ?_⟩
      simp [badSys] at ht; subst ht; simp at htodo; rw [← htodo.1]; decide
    | n + 2 => simp [badSys] at ht
  all_goals first
    | (intro i t q rest ht htodo
       match i with
       | 0 | 1 => simp [badSys] at ht; subst ht; simp at htodo
       | n + 2 => simp [badSys] at ht)
    | skip
  · intro i t ht htodo
    match i with
    | 0 | 1 => simp [badSys] at ht; subst ht; simp at htodo
    | n + 2 => simp [badSys] at ht
  · rintro (⟨i, t, _, _, hb⟩ | h)
    · exact hb trivial
    · obtain ⟨q, rest, hq, _⟩ := h 0 _ rfl (by simp)
      simp at hq

end Locks
end Cached
