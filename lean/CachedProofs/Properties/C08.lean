/-
  C08  put_or_update changes exactly what was requested, or acts as put.

  Statements about `clientUpsert` of `CachedModel/State.lean` (Layer A: the caller-side program of `put_or_update`
  runs atomically), for every state that is not shutting down, every client, key, request shape (value / weight /
  time-to-live / remove-time-to-live in any combination, also ones the builder would refuse) and queue filling.

  Proved for PHYSICALLY PRESENT keys (`s.store.get? k = some e`, which covers every readable key):
    `C08_fieldwise`, `C08_fieldwise_time_overflow`, `C08_classify`, `C08_expiry_update_table`,
    `C08_weight_command`, `C08_weight_command_effects`, `C08_explicit_weight_charged(_step)`, `C08_not_lost_partial`;
  for PHYSICALLY ABSENT keys (`s.store.get? k = none`): `C08_as_put`.

  The property is FALSE of the code for keys that read as absent but are physically present — past their
  time-to-live and not yet swept, or soft-deleted with the delete still queued: `put_or_update` updates the dead entry
  in place instead of acting as a put. `C08_counterexample_expired`, `C08_counterexample_soft_deleted` (both reached
  by a history of API calls from the initial state). Hence `_partial` in `C08_not_lost_partial`.
-/
import CachedProofs.Lemmas.Upsert
import CachedProofs.Properties.C09
import CachedProofs.Properties.G17

namespace Cached

/-- **Field by field, visible on return.** For a physically present key the entry after the call has the same id and
    deletion flag, the requested value (or the old one), the requested deadline (`now + ttl`, none, or the old one);
    every other key is untouched, the clock is untouched; and this holds whatever the call returns — an
    acknowledgement, "parked" at a full queue, a send error (dead worker), or one of the two weight panics, which are
    raised AFTER the entry was changed. (`hov`: `now + ttl` is representable; otherwise see the next theorem.) -/
theorem C08_fieldwise (s : State) (c k : Nat) (v : Option Nat) (w : Option Int) (ttl : Option Nat) (rm : Bool)
    (e : Entry) (hsh : s.shutting = false) (hk : s.store.get? k = some e)
    (hov : ∀ t, ttl = some t → rm = false → ∃ x, addTime s.now t = some x) :
    (∃ e', (clientUpsert s c k v w ttl rm).1.store.get? k = some e' ∧ e'.id = e.id ∧ e'.soft = e.soft ∧
      e'.value = v.getD e.value ∧
      e'.expiry = (if rm then none else match (generalizing := false) ttl with | some t => some (s.now + t) | none => e.expiry)) ∧
    (∀ k', k' ≠ k → (clientUpsert s c k v w ttl rm).1.store.get? k' = s.store.get? k') ∧
    (clientUpsert s c k v w ttl rm).1.now = s.now ∧
    ((clientUpsert s c k v w ttl rm).2 = .err ∨ (clientUpsert s c k v w ttl rm).2 = .parked ∨
     (clientUpsert s c k v w ttl rm).2 = .ack s.acks.length .pending ∨
     (clientUpsert s c k v w ttl rm).2 = .ack s.acks.length .accepted ∨
     (clientUpsert s c k v w ttl rm).2 = .panic .weightNotPositive ∨
     (clientUpsert s c k v w ttl rm).2 = .panic .weightOverflow) := by
  have hov' : ∀ t, ttl = some t → rm = false → addTime s.now t = some (s.now + t) :=
    fun t h1 h2 => (addTime_some_iff _ _).mp (hov t h1 h2)
  rw [clientUpsert_present s c k v w ttl rm e _ hsh hk (upsertNewExpiry?_eq s e ttl rm hov')]
  have hfr := upsertFinish_frame (upsertMid s k e v (upsertExpiry s e ttl rm)) c e.id
    (upsertWeight s e v w ttl (upsertExpiry s e ttl rm))
  refine ⟨⟨{ e with expiry := upsertExpiry s e ttl rm, value := v.getD e.value }, ?_, rfl, rfl, rfl, rfl⟩, ?_, ?_, ?_⟩
  · rw [hfr.1]; simp [upsertMid]
  · intro k' hk'
    rw [hfr.1]
    exact AMap.get?_set_other _ _ (Ne.symm hk')
  · rw [hfr.2.2.2.1]; rfl
  · exact upsertFinish_out _ _ _ _

/-- … and when `now + ttl` is not representable the call panics before touching anything. -/
theorem C08_fieldwise_time_overflow (s : State) (c k : Nat) (v : Option Nat) (w : Option Int) (t : Nat)
    (e : Entry) (hsh : s.shutting = false) (hk : s.store.get? k = some e) (ha : addTime s.now t = none) :
    clientUpsert s c k v w (some t) false = (s, .panic .timeOverflow) :=
  clientUpsert_present_overflow s c k v w (some t) false e hsh hk (by simp [upsertNewExpiry?, ha])

/-- **The expiry index follows the request**: `type_of_expiry_update` of (old deadline, new deadline) decides
    whether the index entry of the key's id is added, deleted, moved or left alone. -/
theorem C08_classify (s : State) (c k : Nat) (v : Option Nat) (w : Option Int) (ttl : Option Nat) (rm : Bool)
    (e : Entry) (hsh : s.shutting = false) (hk : s.store.get? k = some e)
    (hov : ∀ t, ttl = some t → rm = false → ∃ x, addTime s.now t = some x) :
    (clientUpsert s c k v w ttl rm).1.ttl =
      (match typeOfExpiryUpdate e.expiry
          (if rm then none else match (generalizing := false) ttl with | some t => some (s.now + t) | none => e.expiry) with
        | .added n => s.ttl.set (shardOf s.cfg n, e.id) n
        | .deleted old => s.ttl.del (shardOf s.cfg old, e.id)
        | .updated old n => (s.ttl.del (shardOf s.cfg old, e.id)).set (shardOf s.cfg n, e.id) n
        | .nothing => s.ttl) := by
  have hov' : ∀ t, ttl = some t → rm = false → addTime s.now t = some (s.now + t) :=
    fun t h1 h2 => (addTime_some_iff _ _).mp (hov t h1 h2)
  rw [clientUpsert_present s c k v w ttl rm e _ hsh hk (upsertNewExpiry?_eq s e ttl rm hov')]
  rw [(upsertFinish_frame _ _ _ _).2.1]
  rfl

/-- the full table of `type_of_expiry_update` (store/mod.rs:65-81) -/
theorem C08_expiry_update_table (a b : Nat) :
    typeOfExpiryUpdate none none = .nothing ∧
    typeOfExpiryUpdate none (some b) = .added b ∧
    typeOfExpiryUpdate (some a) none = .deleted a ∧
    (a ≠ b → typeOfExpiryUpdate (some a) (some b) = .updated a b) ∧
    typeOfExpiryUpdate (some a) (some a) = .nothing := by
  refine ⟨rfl, rfl, rfl, ?_, ?_⟩
  · intro h; simp [typeOfExpiryUpdate, h]
  · simp [typeOfExpiryUpdate]

/-- **The weight command.** For a physically present key, with `mid` the state right after the in-place update
    (`upsertMid`: only `store` at `k` and the expiry index differ from `s`): the weight is the explicit one, else
    the weight function of the new value (with the TTL surcharge iff a TTL is part of the request), else the charged
    weight `± ttlEntry` when a TTL is added to a key without / removed from a key with one AND the key id is charged
    (`existing`, an `Option`: fix c86efeb — a key id that is no longer charged has no weight to adjust; before, `0` was
    used for it, so `0 ± ttlEntry` was sent, resp. the call panicked on `0 - ttlEntry`); that weight is checked
    (`i64`, `> 0` — panics in the caller, after the update) and sent as `UpdateWeight(id, weight)`; when no rule
    applies — in particular for a pure time-to-live change of a key id that is not charged — the call is answered
    Accepted on the spot and nothing is sent. -/
theorem C08_weight_command (s : State) (c k : Nat) (v : Option Nat) (w : Option Int) (ttl : Option Nat) (rm : Bool)
    (e : Entry) (hsh : s.shutting = false) (hk : s.store.get? k = some e)
    (hov : ∀ t, ttl = some t → rm = false → ∃ x, addTime s.now t = some x) :
    let existing : Option Int := (s.adm.kw.get? e.id).map (·.weight)
    let ne : Option Nat := if rm then none else match (generalizing := false) ttl with | some t => some (s.now + t) | none => e.expiry
    let mid : State := upsertMid s k e v ne
    clientUpsert s c k v w ttl rm =
      (match (match w with
              | some x => some x
              | none =>
                match v with
                | some val => some (s.cfg.weightOf val ttl.isSome)
                | none =>
                  match e.expiry, ne with
                  | none, some _ => existing.map (· + s.cfg.ttlEntry)
                  | some _, none => existing.map (· - s.cfg.ttlEntry)
                  | _, _ => none) with
        | some weight =>
          if !inI64 weight then (mid, .panic .weightOverflow)
          else if weight ≤ 0 then (mid, .panic .weightNotPositive)
          else sendCmd mid c (.updateWeight e.id weight)
        | none => spotAck mid .accepted) := by
  have hov' : ∀ t, ttl = some t → rm = false → addTime s.now t = some (s.now + t) :=
    fun t h1 h2 => (addTime_some_iff _ _).mp (hov t h1 h2)
  exact clientUpsert_present s c k v w ttl rm e _ hsh hk (upsertNewExpiry?_eq s e ttl rm hov')

/-- what "sent" and "answered on the spot" mean (`mid` has the queue, acknowledgements and parked calls of `s`):
    a send appends the command with a fresh pending acknowledgement, or parks the caller with exactly that command
    when the queue is full, or fails — changing nothing — when the worker is dead; the on-the-spot answer appends a
    completed acknowledgement and leaves queue and parked calls alone. -/
theorem C08_weight_command_effects (mid : State) (c id : Nat) (weight : Int) :
    ((mid.worker = .dead ∧ sendCmd mid c (.updateWeight id weight) = (mid, .err)) ∨
     (mid.worker ≠ .dead ∧ mid.queue.length ≥ mid.cfg.cmdCap ∧
       sendCmd mid c (.updateWeight id weight) =
         ({ mid with pend := mid.pend.set c (.send (.updateWeight id weight)) }, .parked)) ∨
     (mid.worker ≠ .dead ∧ mid.queue.length < mid.cfg.cmdCap ∧
       sendCmd mid c (.updateWeight id weight) =
         ({ mid with queue := mid.queue ++ [(.updateWeight id weight, some mid.acks.length)],
                     acks := mid.acks ++ [.pending] }, .ack mid.acks.length .pending))) ∧
    spotAck mid .accepted = ({ mid with acks := mid.acks ++ [.accepted] }, .ack mid.acks.length .accepted) ∧
    (∀ (s : State) (k : Nat) (e : Entry) (v ne : Option Nat),
      (upsertMid s k e v ne).queue = s.queue ∧ (upsertMid s k e v ne).acks = s.acks ∧
      (upsertMid s k e v ne).pend = s.pend ∧ (upsertMid s k e v ne).adm = s.adm ∧
      (upsertMid s k e v ne).worker = s.worker ∧ (upsertMid s k e v ne).cfg = s.cfg) :=
  ⟨sendCmd_cases mid c _, rfl, fun _ _ _ _ _ => ⟨rfl, rfl, rfl, rfl, rfl, rfl⟩⟩

/-- **The sent weight becomes the charged weight.** The worker's `UpdateWeight(id, w)` for a charged id (absent an
    `i64` overflow, see C17) answers Accepted, sets the id's weight to `w`, moves the total by the difference and
    touches no other id and no stored entry; for an id that is not charged (evicted or deleted meanwhile) it answers
    Accepted and changes nothing. -/
theorem C08_explicit_weight_charged (s : State) (id : Nat) (w : Int) :
    (∀ wk, s.adm.kw.get? id = some wk → inI64 (w - wk.weight) = true → inI64 (s.adm.used + (w - wk.weight)) = true →
      ∃ s', workerUpdateWeight s id w = .done s' .accepted none [] [] ∧
        s'.adm.kw.get? id = some { wk with weight := w } ∧
        s'.adm.used = s.adm.used + (w - wk.weight) ∧
        (∀ id', id' ≠ id → s'.adm.kw.get? id' = s.adm.kw.get? id') ∧
        s'.store = s.store ∧ s'.ttl = s.ttl ∧ s'.adm.max = s.adm.max) ∧
    (s.adm.kw.get? id = none → workerUpdateWeight s id w = .done s .accepted none [] []) := by
  constructor
  · intro wk hk h1 h2
    refine ⟨{ s with adm := { s.adm with used := s.adm.used + (w - wk.weight), kw := s.adm.kw.set id { wk with weight := w } },
                     stats := updateWeightStats { s.stats with keysUpdated := s.stats.keysUpdated + 1 } w wk.weight },
      ?_, ?_, rfl, ?_, rfl, rfl, rfl⟩
    · simp only [workerUpdateWeight, hk, h1, h2, Bool.not_true, Bool.or_self, Bool.false_eq_true, if_false]
    · simp
    · intro id' hne
      exact AMap.get?_set_other _ _ (Ne.symm hne)
  · intro hk
    simp [workerUpdateWeight, hk]

/-- … "once acknowledged": the worker step that executes the command completes its acknowledgement with Accepted. -/
theorem C08_explicit_weight_charged_step (s : State) (o : Oracle) (id h : Nat) (w : Int) (q : List (Cmd × Option Nat))
    (wk : WKey) (hrun : s.worker = .running) (hq : s.queue = (.updateWeight id w, some h) :: q)
    (hk : s.adm.kw.get? id = some wk) (h1 : inI64 (w - wk.weight) = true)
    (h2 : inI64 (s.adm.used + (w - wk.weight)) = true) :
    ∃ s', workerStep s o = .ok (s', .worked "UpdateWeight" .accepted none [] [], o) ∧
      s'.acks = s.acks.set h .accepted ∧ s'.queue = q ∧
      s'.adm.kw.get? id = some { wk with weight := w } ∧ s'.adm.used = s.adm.used + (w - wk.weight) ∧
      s'.store = s.store := by
  have hk0 : ({ s with queue := q } : State).adm.kw.get? id = some wk := hk
  obtain ⟨s1, hs1, hkw, hused, _, hstore, _, _⟩ :=
    (C08_explicit_weight_charged { s with queue := q } id w).1 wk hk0 h1 h2
  have hacks : s1.acks = s.acks ∧ s1.queue = q := by
    simp only [workerUpdateWeight, hk0, h1, h2, Bool.not_true, Bool.or_self, Bool.false_eq_true, if_false,
      Exec.done.injEq, and_true] at hs1
    subst hs1; exact ⟨rfl, rfl⟩
  refine ⟨{ s1 with acks := setAck s1.acks (some h) .accepted }, ?_, ?_, hacks.2, hkw, hused, hstore⟩
  · rw [workerStep_running s o _ _ _ hrun hq]
    simp only [hs1, workerFinish]
  · simp [setAck, hacks.1]

/-- **Acts as put.** For a physically absent key an upsert with a value IS the corresponding put — the same function
    value, hence the same id, command, acknowledgement and resulting state — with the explicit weight, else the
    weight function's; without explicit weight it is `put` / `put_with_ttl`. Without a value it is the documented
    precondition panic. (`remove_time_to_live` is ignored.) -/
theorem C08_as_put (s : State) (c k : Nat) (w : Option Int) (ttl : Option Nat) (rm : Bool)
    (hsh : s.shutting = false) (hk : s.store.get? k = none) :
    (∀ val, clientUpsert s c k (some val) w ttl rm =
      (match ttl with
        | some t => clientPutWTtl s c k val (w.getD (s.cfg.weightOf val ttl.isSome)) t
        | none => clientPutW s c k val (w.getD (s.cfg.weightOf val ttl.isSome)))) ∧
    (∀ val, clientUpsert s c k (some val) none none rm = clientPut s c k val) ∧
    (∀ val t, clientUpsert s c k (some val) none (some t) rm = clientPutTtl s c k val t) ∧
    clientUpsert s c k none w ttl rm = (s, .panic .upsertValueMissing) := by
  have hc : s.store.contains k = false := by simp [AMap.contains, hk]
  refine ⟨?_, ?_, ?_, ?_⟩
  · intro val
    cases ttl <;> cases w <;>
      simp [clientUpsert, clientPutW, clientPutWTtl, clientPutChecked, hsh, hk, hc]
  · intro val
    simp only [clientUpsert, clientPut, clientPutChecked, hsh, hk, hc, Option.map_some, Option.isSome_none,
      Bool.false_eq_true, if_false]
  · intro val t
    simp [clientUpsert, clientPutTtl, clientPutChecked, hsh, hk, hc]
  · cases w <;> simp [clientUpsert, hsh, hk]

/-- **Not lost (readable keys).** After an upsert of a readable key every read that completes returns the written
    value (the old value if none was given) — whatever the call itself returned, and before the worker has seen the
    weight command. `_partial`: restricted to entries that are alive; for dead entries it is false (below). -/
theorem C08_not_lost_partial (s : State) (c k : Nat) (v : Option Nat) (w : Option Int) (ttl : Option Nat) (rm : Bool)
    (e : Entry) (hsh : s.shutting = false) (hk : s.store.get? k = some e) (halive : e.alive s.now = true)
    (hov : ∀ t, ttl = some t → rm = false → ∃ x, addTime s.now t = some x)
    (o o' : Oracle) (s'' : State) (r : Option Nat)
    (hr : readKey (clientUpsert s c k v w ttl rm).1 k o = .ok (s'', r, o')) : r = some (v.getD e.value) := by
  obtain ⟨⟨e', hget, _, hsoft, hval, hexp⟩, _, hnow, _⟩ := C08_fieldwise s c k v w ttl rm e hsh hk hov
  have hs : e.soft = false := by
    unfold Entry.alive at halive
    cases h : e.soft <;> simp [h] at halive ⊢
  have hold : e.expiry = none ∨ ∃ t, e.expiry = some t ∧ s.now ≤ t := by
    unfold Entry.alive at halive
    simp only [hs, Bool.false_eq_true, if_false] at halive
    cases h : e.expiry with
    | none => exact Or.inl rfl
    | some t =>
      simp only [h, Bool.not_eq_eq_eq_not, Bool.not_true, decide_eq_false_iff_not] at halive
      exact Or.inr ⟨t, rfl, by omega⟩
  have hlive : e'.expiry = none ∨ ∃ t, e'.expiry = some t ∧ (clientUpsert s c k v w ttl rm).1.now ≤ t := by
    rw [hnow, hexp]
    cases rm with
    | true => exact Or.inl rfl
    | false =>
      cases ttl with
      | none => simpa using hold
      | some t => exact Or.inr ⟨s.now + t, by simp, by omega⟩
  have := C09_not_hidden _ s'' k o o' e' r hget (hsoft.trans hs) hlive hr
  rw [this, hval]

/-! ### Counterexamples: dead entries swallow the upsert -/

def c08Cfg : Cfg := { maxWeight := 100, shards := 2, cmdCap := 4, poolSize := 1, bufSize := 2, counters := 2 }

/-- the state after `put_with_weight_and_ttl(k=1, v=10, w=5, ttl 1 s)` at second 3, executed, clock moved to second 5 -/
def c08Expired : State :=
  { (State.init c08Cfg 5000000000 [1, 2, 3, 4]) with
    store := [(1, { value := 10, id := 1, expiry := some 4000000000, soft := false })],
    adm := { max := 100, used := 5, kw := [(1, { key := 1, hash := 1, weight := 5 })] },
    ttl := [((0, 1), 4000000000)], nextId := 2, acks := [.accepted],
    stats := { keysAdded := 1, weightAdded := 5 } }

/-- the state after the same put, executed, and `delete(k=1)` sent but not yet executed -/
def c08SoftDeleted : State :=
  { (State.init c08Cfg 3000000000 [1, 2, 3, 4]) with
    store := [(1, { value := 10, id := 1, expiry := some 4000000000, soft := true })],
    adm := { max := 100, used := 5, kw := [(1, { key := 1, hash := 1, weight := 5 })] },
    ttl := [((0, 1), 4000000000)], nextId := 2, acks := [.accepted, .pending], queue := [(.delete 1, some 1)],
    stats := { keysAdded := 1, weightAdded := 5 } }

/-- **Expired, not yet swept.** History: `put_with_weight_and_ttl(k=1, v=10, w=5, ttl 1 s)` at second 3, executed;
    clock to second 5 (the shard of second 4 is not the one swept at second 5). The key reads as absent.
    `put_or_update(k=1, value 11)` is queued and acknowledged Accepted by the worker; the dead entry now holds 11,
    and every read still reports absent: the accepted upsert is silently lost. It did not act as the corresponding
    put either (that one is refused with KeyAlreadyExists, C07). And a TTL-only upsert — which on an absent key is
    the documented precondition panic — is answered Accepted on the spot and makes the expired value 10 readable
    again (revival that bypasses admission). -/
theorem C08_counterexample_expired :
    runEvents_Upsert (State.init c08Cfg 3000000000 [1, 2, 3, 4])
      [.putWTtl 0 1 10 5 1000000000, .worker, .advance 2000000000] = .ok c08Expired ∧
    c08Expired.shutting = false ∧
    (∀ o, readKey c08Expired 1 o =
      .ok ({ c08Expired with stats := { c08Expired.stats with misses := c08Expired.stats.misses + 1 } }, none, o)) ∧
    (∃ s1 s2, step c08Expired (.upsert 0 1 (some 11) none none false) {} = .ok (s1, .ack 1 .pending, {}) ∧
      step s1 .worker {} = .ok (s2, .worked "UpdateWeight" .accepted none [] [], {}) ∧
      s2.acks[1]? = some .accepted ∧
      s2.store.get? 1 = some { value := 11, id := 1, expiry := some 4000000000, soft := false } ∧
      (∀ o, readKey s2 1 o = .ok ({ s2 with stats := { s2.stats with misses := s2.stats.misses + 1 } }, none, o))) ∧
    (clientPutW c08Expired 0 1 11 1).2 = .ack 1 (.rejected .keyAlreadyExists) ∧
    (∃ s3, clientUpsert c08Expired 0 1 none none (some 1000000000) false = (s3, .ack 1 .accepted) ∧
      ∀ o s4 r o', readKey s3 1 o = .ok (s4, r, o') → r = some 10) := by
  refine ⟨rfl, rfl, fun _ => rfl, ⟨_, _, rfl, rfl, rfl, rfl, fun _ => rfl⟩, rfl, _, rfl, ?_⟩
  intro o s4 r o' hr
  exact C09_not_hidden _ s4 1 o o' _ r rfl rfl (Or.inr ⟨6000000000, rfl, by decide⟩) hr

/-- **Soft-deleted, delete still queued.** History: the same put, executed; `delete(k=1)` sent but not yet executed.
    The key reads as absent. `put_or_update(k=1, value 11)` is queued behind the delete; the worker executes the
    delete, then acknowledges the upsert's command Accepted (a no-op: the id is no longer charged); the key is gone:
    accepted and silently lost. A TTL-only upsert is even answered Accepted on the spot, and the key still reads as
    absent. -/
theorem C08_counterexample_soft_deleted :
    runEvents_Upsert (State.init c08Cfg 3000000000 [1, 2, 3, 4])
      [.putWTtl 0 1 10 5 1000000000, .worker, .delete 0 1] = .ok c08SoftDeleted ∧
    c08SoftDeleted.shutting = false ∧
    (∀ o, readKey c08SoftDeleted 1 o =
      .ok ({ c08SoftDeleted with stats := { c08SoftDeleted.stats with misses := c08SoftDeleted.stats.misses + 1 } },
           none, o)) ∧
    (∃ s1 s2 s3, step c08SoftDeleted (.upsert 0 1 (some 11) none none false) {} = .ok (s1, .ack 2 .pending, {}) ∧
      step s1 .worker {} = .ok (s2, .worked "Delete" .accepted none [] [], {}) ∧
      step s2 .worker {} = .ok (s3, .worked "UpdateWeight" .accepted none [] [], {}) ∧
      s3.acks[2]? = some .accepted ∧ s3.store.get? 1 = none ∧
      (∀ o, readKey s3 1 o = .ok ({ s3 with stats := { s3.stats with misses := s3.stats.misses + 1 } }, none, o))) ∧
    (∃ s4, clientUpsert c08SoftDeleted 0 1 none none (some 5000000000) false = (s4, .ack 2 .accepted) ∧
      (∀ o, readKey s4 1 o = .ok ({ s4 with stats := { s4.stats with misses := s4.stats.misses + 1 } }, none, o))) :=
  ⟨rfl, rfl, fun _ => rfl, ⟨_, _, _, rfl, rfl, rfl, rfl, rfl, fun _ => rfl⟩, _, rfl, fun _ => rfl⟩

/-! ### Non-vacuity -/

/-- a readable key with a time-to-live, charged 29, in a running cache: the hypotheses of `C08_fieldwise`,
    `C08_classify`, `C08_weight_command`, `C08_not_lost_partial` hold for it (any `ttl`, here 2 s), key 2 satisfies
    those of `C08_as_put`, and id 1 with `w = 7` those of `C08_explicit_weight_charged`. -/
def c08Live : State :=
  { (State.init c08Cfg 3000000000 [1, 2, 3, 4]) with
    store := [(1, { value := 10, id := 1, expiry := some 4000000000, soft := false })],
    adm := { max := 100, used := 29, kw := [(1, { key := 1, hash := 1, weight := 29 })] },
    ttl := [((0, 1), 4000000000)], nextId := 2, acks := [.accepted] }

example : c08Live.shutting = false ∧
    c08Live.store.get? 1 = some { value := 10, id := 1, expiry := some 4000000000, soft := false } ∧
    ({ value := 10, id := 1, expiry := some 4000000000, soft := false } : Entry).alive c08Live.now = true ∧
    addTime c08Live.now 2000000000 = some 5000000000 ∧ c08Live.store.get? 2 = none ∧
    c08Live.adm.kw.get? 1 = some { key := 1, hash := 1, weight := 29 } ∧
    inI64 (7 - 29) = true ∧ inI64 (c08Live.adm.used + (7 - 29)) = true := by decide

/-- the state is the one reached by the put of the counterexamples (with weight 29 = 5 + the TTL surcharge) -/
example : ∃ s, runEvents_Upsert (State.init c08Cfg 3000000000 [1, 2, 3, 4]) [.putWTtl 0 1 10 29 1000000000, .worker] = .ok s ∧
    s.store = c08Live.store ∧ s.ttl = c08Live.ttl ∧ s.adm.kw = c08Live.adm.kw ∧ s.adm.used = c08Live.adm.used ∧
    s.acks = c08Live.acks ∧ s.nextId = c08Live.nextId := ⟨_, rfl, rfl, rfl, rfl, rfl, rfl, rfl⟩

/-- the four shapes of a request on it: value only (queued `UpdateWeight(1, 1)`), TTL removal (queued
    `UpdateWeight(1, 29 - 24)`), TTL change only (Accepted on the spot), explicit weight -/
example :
    (clientUpsert c08Live 0 1 (some 11) none none false).2 = .ack 1 .pending ∧
    (clientUpsert c08Live 0 1 (some 11) none none false).1.queue = [(.updateWeight 1 1, some 1)] ∧
    (clientUpsert c08Live 0 1 none none none true).1.queue = [(.updateWeight 1 5, some 1)] ∧
    (clientUpsert c08Live 0 1 none none none true).1.ttl = [] ∧
    (clientUpsert c08Live 0 1 none none (some 2000000000) false).2 = .ack 1 .accepted ∧
    (clientUpsert c08Live 0 1 none none (some 2000000000) false).1.ttl = [((1, 1), 5000000000)] ∧
    (clientUpsert c08Live 0 1 none (some 7) none false).1.queue = [(.updateWeight 1 7, some 1)] := by
  refine ⟨rfl, rfl, rfl, rfl, rfl, rfl, rfl⟩

/-- the `existing = none` rows of `C08_weight_command` (fix c86efeb): the key is stored but its id is not charged (at
    Layer A no reachable state is like that, `TtlInv.charged`; with the caller-side program interleaved — Layer B — the
    id can be evicted or swept between the in-place update and `weight_of`). Removing or adding a time-to-live then
    sends nothing and is answered Accepted on the spot (before the fix: panic on `0 - 24`, resp. `UpdateWeight(1, 24)`). -/
example :
    let s := { c08Live with adm := { max := 100, used := 0, kw := [] } }
    s.adm.kw.get? 1 = none ∧
    (clientUpsert s 0 1 none none none true).2 = .ack 1 .accepted ∧
    (clientUpsert s 0 1 none none none true).1.queue = [] ∧
    (clientUpsert s 0 1 none none none true).1.ttl = [] ∧
    (clientUpsert s 0 1 none none none true).1.store.get? 1 = some { value := 10, id := 1, expiry := none, soft := false } := by
  refine ⟨rfl, rfl, rfl, rfl, rfl⟩

example :
    let s := { c08Live with store := [(1, { value := 10, id := 1, expiry := none, soft := false })], ttl := [],
                            adm := { max := 100, used := 0, kw := [] } }
    (clientUpsert s 0 1 none none (some 2000000000) false).2 = .ack 1 .accepted ∧
    (clientUpsert s 0 1 none none (some 2000000000) false).1.queue = [] ∧
    (clientUpsert s 0 1 none none (some 2000000000) false).1.ttl = [((1, 1), 5000000000)] := by
  refine ⟨rfl, rfl, rfl⟩

/-- `C08_fieldwise_time_overflow` is not vacuous -/
example : addTime c08Live.now 18446744073709551615999999999 = none := by decide

end Cached
