import CachedModel

namespace Cached

end Cached
