/-
  C01  Total weight never exceeds the configured cache weight.

  "… every accepted put leaves the total at or below the limit."

  The unconditional statement

      theorem C01_bound : Reach cfg now seeds s → 0 ≤ cfg.maxWeight → s.adm.used ≤ cfg.maxWeight

  is FALSE of the code (`C01_counterexample` below): the `UpdateWeight` command produced by `put_or_update` on an
  existing key is applied by `CacheWeight::update` (cache_weight.rs:218-234, `workerUpdateWeight`) without any
  check against the limit and without making space.  What holds, and is proved here for every state, event
  and oracle of Layer A:

  * `C01_nonneg`                      the total is never negative;
  * `C01_accepted_put_within_limit`   every ACCEPTED `Put` / `PutWithTTL` leaves the total at or below the limit,
                                      whatever the total was before (even above the limit);
  * `C01_bound_step_partial`          every event other than an `UpdateWeight` that raises the weight by more than
                                      the free space (`SafeUpdate`) preserves `used ≤ max`;
  * `C01_bound_partial`               hence the bound holds along every history all of whose steps are `SafeUpdate`.

  Missing for the full C01: nothing can be added — the `SafeUpdate` side condition is exactly the defect.
-/
import CachedProofs.LayerB.Theorems
import CachedProofs.Lemmas.Inv

namespace Cached

/-- The total is never negative. -/
theorem C01_nonneg {cfg : Cfg} {now : Nat} {seeds : List Nat} {s : State} (h : Reach cfg now seeds s) :
    0 ≤ s.adm.used :=
  (inv_reach h).used_nonneg

/-- The one kind of step that can break the bound: if `ev` is the worker executing `UpdateWeight id w` for a charged
    `id`, the increase fits in the free space. -/
def SafeUpdate (s : State) (ev : Ev) : Prop :=
  ev = .worker → s.worker = .running → ∀ id w h q wk, s.queue = (.updateWeight id w, h) :: q →
    s.adm.kw.get? id = some wk → w - wk.weight ≤ s.adm.max - s.adm.used

/-- PARTIAL (the full statement, without `SafeUpdate s ev`, is false: `C01_counterexample`).
    Every event that is not an over-sized `UpdateWeight` preserves `used ≤ max`. -/
theorem C01_bound_step_partial {s s' : State} {ev : Ev} {o o' : Oracle} {out : Out} (h : Inv s)
    (hb : s.adm.used ≤ s.adm.max) (hsafe : SafeUpdate s ev) (hs : step s ev o = .ok (s', out, o')) :
    s'.adm.used ≤ s'.adm.max := by
  obtain ⟨_, hmax, hcase⟩ := step_effect h hs
  rcases hcase with ⟨hle, _⟩ | ⟨_, hle | ⟨hev, id, w, hh, q, wk, hw, hq, hg, hu⟩⟩
  · exact hle
  · rw [hmax]; exact Int.le_trans hle hb
  · have := hsafe hev hw id w hh q wk hq hg
    rw [hmax, hu]; omega

/-- Every accepted put leaves the total at or below the limit — whatever the state before, even one whose total
    is already above the limit (the eviction loop only reports `accepted` once `max - used ≥ w`). -/
theorem C01_accepted_put_within_limit {s s' : State} {o o' : Oracle} {kind : String} {ie : Option Nat}
    {pp : List SKey} {ev : List Evicted} (h : Inv s)
    (hs : step s .worker o = .ok (s', .worked kind .accepted ie pp ev, o'))
    (hk : kind = "Put" ∨ kind = "PutWithTTL") : s'.adm.used ≤ s'.adm.max := by
  obtain ⟨_, _, hcase⟩ := step_effect h hs
  rcases hcase with ⟨hle, _⟩ | ⟨hno, _⟩
  · exact hle
  · exact absurd ⟨rfl, hk⟩ hno

/-- A put that is not accepted (rejected, or `KeyAlreadyExists`) never raises the total. -/
theorem C01_rejected_put_no_growth {s s' : State} {o o' : Oracle} {kind : String} {st : Status} {ie : Option Nat}
    {pp : List SKey} {ev : List Evicted} (h : Inv s)
    (hs : step s .worker o = .ok (s', .worked kind st ie pp ev, o'))
    (hk : kind = "Put" ∨ kind = "PutWithTTL") (hst : st ≠ .accepted) : s'.adm.used ≤ s.adm.used := by
  obtain ⟨_, _, hcase⟩ := step_effect h hs
  rcases hcase with ⟨_, hacc | ⟨p, hp⟩⟩ | ⟨_, hle | ⟨_, id, w, hh, q, wk, hw, hq, hg, hu⟩⟩
  · cases st <;> simp_all [Out.acceptedPut]
  · cases hp
  · exact hle
  · -- the command was an `UpdateWeight`, whose `kind` is neither "Put" nor "PutWithTTL"
    exfalso
    have hs' := hs
    simp only [step, workerStep, hw, hq, workerUpdateWeight, hg] at hs'
    split at hs' <;> simp at hs' <;> rcases hk with rfl | rfl <;> simp at hs'

/-- histories all of whose steps are `SafeUpdate` -/
inductive ReachSafe (cfg : Cfg) (now : Nat) (seeds : List Nat) : State → Prop where
  | init : ReachSafe cfg now seeds (State.init cfg now seeds)
  | step {s s' : State} {ev : Ev} {o o' : Oracle} {out : Out} :
      ReachSafe cfg now seeds s → SafeUpdate s ev → Cached.step s ev o = .ok (s', out, o') →
      ReachSafe cfg now seeds s'

theorem ReachSafe.reach {cfg : Cfg} {now : Nat} {seeds : List Nat} {s : State} (h : ReachSafe cfg now seeds s) :
    Reach cfg now seeds s := by
  induction h with
  | init => exact Reach.init
  | step _ _ hs ih => exact Reach.step ih hs

/-- PARTIAL (restricted to `ReachSafe`; false for `Reach`, see `C01_counterexample`).
    Along every history without an over-sized `UpdateWeight`, the total stays between 0 and the configured weight
    (`0 ≤ cfg.maxWeight` is asserted by the builder: `cache_weight > 0`). -/
theorem C01_bound_partial {cfg : Cfg} {now : Nat} {seeds : List Nat} {s : State} (hmax : 0 ≤ cfg.maxWeight)
    (h : ReachSafe cfg now seeds s) : 0 ≤ s.adm.used ∧ s.adm.used ≤ cfg.maxWeight := by
  refine ⟨C01_nonneg h.reach, ?_⟩
  suffices hh : s.cfg = cfg ∧ s.adm.used ≤ s.adm.max by
    have := (inv_reach h.reach).maxFixed
    rw [this, hh.1] at hh
    exact hh.2
  induction h with
  | init => exact ⟨rfl, hmax⟩
  | step hr hsafe hs ih =>
    have hi := inv_reach hr.reach
    exact ⟨(step_effect hi hs).1.trans ih.1, C01_bound_step_partial hi ih.2 hsafe hs⟩

/-! ### the defect -/

/-- **Counterexample to the full C01** (recorded defect): with `cache_weight = 10`, put key 1 with weight 5, let
    the worker accept it, `put_or_update` the same key with weight 300, let the worker apply the `UpdateWeight`:
    the total is 300 > 10, the acknowledgement says `accepted`, and the state is reachable. -/
theorem C01_counterexample :
    ∃ s, Reach { maxWeight := 10, shards := 2, cmdCap := 4, poolSize := 1, bufSize := 2, counters := 2 }
            1000000000 [1, 2, 3, 4] s ∧
      s.adm.used = 300 ∧ s.adm.max = 10 ∧ s.acks = [.accepted, .accepted] ∧ ¬ s.adm.used ≤ s.cfg.maxWeight := by
  have hrun : ∃ s, runEvents (State.init { maxWeight := 10, shards := 2, cmdCap := 4, poolSize := 1, bufSize := 2, counters := 2 }
              1000000000 [1, 2, 3, 4])
            [(.putW 0 1 100 5, {}), (.worker, {}), (.upsert 0 1 none (some 300) none false, {}), (.worker, {})]
          = .ok s ∧ s.adm.used = 300 ∧ s.adm.max = 10 ∧ s.acks = [.accepted, .accepted] ∧
            ¬ s.adm.used ≤ s.cfg.maxWeight := by
    refine ⟨_, rfl, ?_⟩
    decide
  obtain ⟨s, hr, hrest⟩ := hrun
  exact ⟨s, reach_runEvents _ Reach.init hr, hrest⟩

/-- the same history, as a direct evaluation -/
example :
    (match runEvents (State.init { maxWeight := 10, shards := 2, cmdCap := 4, poolSize := 1, bufSize := 2, counters := 2 }
              1000000000 [1, 2, 3, 4])
            [(.putW 0 1 100 5, {}), (.worker, {}), (.upsert 0 1 none (some 300) none false, {}), (.worker, {})] with
     | .ok s => decide (s.adm.used = 300 ∧ s.adm.used > 10)
     | _ => false) = true := by decide

/-- The step that breaks the bound is exactly one that `SafeUpdate` excludes. -/
example :
    (match runEvents (State.init { maxWeight := 10, shards := 2, cmdCap := 4, poolSize := 1, bufSize := 2, counters := 2 }
              1000000000 [1, 2, 3, 4])
            [(.putW 0 1 100 5, {}), (.worker, {}), (.upsert 0 1 none (some 300) none false, {})] with
     | .ok s => decide (s.worker = .running ∧ s.queue = [(.updateWeight 1 300, some 1)] ∧
                        s.adm.kw.get? 1 = some ⟨1, 1, 5⟩ ∧ ¬ ((300 : Int) - 5 ≤ s.adm.max - s.adm.used))
     | _ => false) = true := by decide

/-- Non-vacuity of `C01_accepted_put_within_limit`: an accepted put that needs an eviction (limit 10: 6 then 7). -/
example :
    (match runEvents (State.init { maxWeight := 10, shards := 2, cmdCap := 4, poolSize := 1, bufSize := 2, counters := 2 }
              1000000000 [1, 2, 3, 4])
            [(.putW 0 1 100 6, {}), (.worker, {}), (.putW 0 2 200 7, {}),
             (.worker, { dk := [false, false], ids := [1], pops := [some 1] })] with
     | .ok s => decide (s.adm.used = 7 ∧ s.acks = [.accepted, .accepted] ∧ s.store.keys = [2])
     | _ => false) = true := by decide

end Cached
