/-
  C16  Statistics are exact at quiescence.

  "hits + misses = number of key lookups, keys added − keys deleted = number of keys held,
   weight added − weight removed = total weight used (mod 2^64), rejected keys = number of puts refused
   by admission."

  Proved for EVERY Layer A state reachable before `shutdown()` — not only the quiescent ones: in Layer A each
  event runs atomically, so the identities hold between any two events; quiescence (empty command queue, no
  parked call) is just a special case.  `ReachG` is reachability with the ghost counters of
  `Lemmas/StatsInv.lean`: `g.lookups` counts the keys looked up by `get`/`multi_get` calls that passed the
  shutdown check, `g.refused` the worker's puts answered `rejected noSpace` / `rejected tooHeavy`.
  Quantifiers: every configuration, start time, seed list, every history and every oracle.

  Scope: `s.shutting = false`.  `shutdown()` resets all ten counters (`shutdownFinish`: `stats := {}`), and
  lookups after it return early without counting, so afterwards only the trivial identities remain.

  Not in the Lean model: the hit ratio.  It is a float computed in Rust from the two counters; the harness
  checks it bit-for-bit against hits / (hits + misses) computed from the model's `hits` and `misses`
  (monitor of the check pipeline), so it adds nothing to prove here.
-/
import CachedProofs.Lemmas.StatsInv

namespace Cached

/-! ### 1. the four identities -/

theorem C16_exact {cfg : Cfg} {now : Nat} {seeds : List Nat} {s : State} {g : Ghost}
    (hr : ReachG cfg now seeds s g) (hs : s.shutting = false) :
    s.stats.hits + s.stats.misses = g.lookups ∧
    s.stats.keysAdded = s.stats.keysDeleted + s.store.length ∧
    ((s.stats.weightAdded : Int) - s.stats.weightRemoved - s.adm.used) % (u64Mod : Int) = 0 ∧
    s.stats.keysRejected = g.refused := by
  have h := reachG_sinv hr hs
  exact ⟨h.lookups, h.keys, h.weight, h.refused⟩

/-- What makes `store.length` "the number of keys held" and the subtraction meaningful: no key is stored twice,
    and every charged weight (hence the total) is built from weights `≥ 0`. -/
theorem C16_exact_side {cfg : Cfg} {now : Nat} {seeds : List Nat} {s : State} {g : Ghost}
    (hr : ReachG cfg now seeds s g) (hs : s.shutting = false) :
    AMap.NoDup s.store ∧ (∀ id wk, s.adm.kw.get? id = some wk → 0 ≤ wk.weight) ∧
    s.stats.keysDeleted ≤ s.stats.keysAdded := by
  have h := reachG_sinv hr hs
  exact ⟨h.storeNoDup, h.nonneg, by have := h.keys; omega⟩

/-! ### 2. a weight decrease is added as its two's complement -/

/-- `update_weight_stats`: `weightAdded` moves by `newW - oldW` modulo 2^64, increase or decrease.
    Only `oldW - newW < 2^64` is needed (the signs `0 ≤ newW`, `0 ≤ oldW` of the task statement are not);
    the worker guarantees it: `workerUpdateWeight` panics unless `newW - oldW` is an `i64`. -/
theorem C16_weight_decrease_wraps_correctly (st : Stats) (newW oldW : Int)
    (hfit : oldW - newW < (u64Mod : Int)) :
    (((updateWeightStats st newW oldW).weightAdded : Int) - (st.weightAdded + (newW - oldW))) % (u64Mod : Int) = 0 ∧
    (updateWeightStats st newW oldW).weightRemoved = st.weightRemoved ∧
    (updateWeightStats st newW oldW).weightAdded < u64Mod := by
  obtain ⟨h1, h2⟩ := updateWeightStats_spec st newW oldW hfit
  refine ⟨?_, by rw [h2], ?_⟩
  · simp only [u64Mod] at h1 ⊢; omega
  · unfold updateWeightStats
    split <;> exact Nat.mod_lt _ (by decide)

/-- The bound is needed by the formula as written (`u64Mod - (oldW - newW).toNat` is a truncated subtraction
    in the model): a decrease of `2^64 + 1` would leave the counter unchanged.  Not reachable: weights are `i64`. -/
example : (updateWeightStats {} 0 (u64Mod + 1)).weightAdded = 0 := by decide

/-! ### 3. `KeyAlreadyExists` is not a refusal by admission -/

/-- A put that the worker answers `rejected keyAlreadyExists` (the key was stored between the client's check
    and the worker's) changes no counter — in particular not `keysRejected` — and is not counted by the ghost. -/
theorem C16_exists_rejection_not_counted {s s1 : State} {id hash : Nat} {w : Int} {k v : Nat} {ttl : Option Nat}
    {o o' : Oracle} {ie : Option Nat} {pp : List SKey} {ev : List Evicted}
    (h : workerPut s id hash w k v ttl o = .ok (.done s1 (.rejected .keyAlreadyExists) ie pp ev, o')) :
    s1.stats.keysRejected = s.stats.keysRejected ∧ s1.stats = s.stats ∧
    (∀ kind, refusedDelta (.worked kind (.rejected .keyAlreadyExists) ie pp ev) = 0) := by
  obtain ⟨rfl, _⟩ := workerPut_exists h
  refine ⟨rfl, rfl, fun kind => ?_⟩
  simp [refusedDelta]

/-- The same at the level of a step of a reachable state. -/
theorem C16_exists_rejection_not_counted_step {cfg : Cfg} {now : Nat} {seeds : List Nat} {s s' : State} {g : Ghost}
    {o o' : Oracle} {kind : String} {ie : Option Nat} {pp : List SKey} {ev : List Evicted}
    (hr : ReachG cfg now seeds s g) (hs' : s'.shutting = false)
    (h : step s .worker o = .ok (s', .worked kind (.rejected .keyAlreadyExists) ie pp ev, o')) :
    s'.stats.keysRejected = s.stats.keysRejected := by
  have hs : s.shutting = false := by
    cases hb : s.shutting with
    | false => rfl
    | true => rw [step_shutting h hb] at hs'; cases hs'
  have h1 := (reachG_sinv hr hs).refused
  have h2 := (sinv_step (reachG_sinv hr hs) hs' h).refused
  rw [h2, h1]
  simp [ghostStep, refusedDelta]

/-- Conversely every put refused by admission is counted, exactly once. -/
theorem C16_refusal_counted {cfg : Cfg} {now : Nat} {seeds : List Nat} {s s' : State} {g : Ghost}
    {o o' : Oracle} {out : Out} (hr : ReachG cfg now seeds s g) (hs' : s'.shutting = false)
    (h : step s .worker o = .ok (s', out, o')) :
    s'.stats.keysRejected = s.stats.keysRejected + refusedDelta out := by
  have hs : s.shutting = false := by
    cases hb : s.shutting with
    | false => rfl
    | true => rw [step_shutting h hb] at hs'; cases hs'
  have h1 := (reachG_sinv hr hs).refused
  have h2 := (sinv_step (reachG_sinv hr hs) hs' h).refused
  rw [h2, h1]
  rfl

/-! ### 4. non-vacuity -/

def c16cfg : Cfg :=
  { maxWeight := 100, shards := 4, cmdCap := 4, poolSize := 2, bufSize := 4, counters := 2 }

/-- hits, misses, lookups, keysAdded, keysDeleted, keys held, weightAdded, weightRemoved, used, keysRejected, refused -/
def c16view (r : Option (State × Ghost)) : Option (List Int) :=
  r.map (fun p => [p.1.stats.hits, p.1.stats.misses, p.2.lookups, p.1.stats.keysAdded, p.1.stats.keysDeleted,
                   p.1.store.length, p.1.stats.weightAdded, p.1.stats.weightRemoved, p.1.adm.used,
                   p.1.stats.keysRejected, p.2.refused])

def c16run (evs : List (Ev × Oracle)) : Option (State × Ghost) := runG (State.init c16cfg 0 [1, 2]) {} evs

/-- put key 5 with weight 9, two hits -/
def c16history : List (Ev × Oracle) :=
  [(.putW 0 5 7 9, ({} : Oracle)), (.worker, ({} : Oracle)),
   (.get 5, { pool := [0] }), (.get 5, { pool := [1] })]

/-- An all-hit history: 2 hits, 0 misses, 2 lookups; one key of weight 9. -/
example : c16view (c16run c16history) = some [2, 0, 2, 1, 0, 1, 9, 0, 9, 0, 0] := by decide

/-- An upsert then lowers the weight from 9 to 4: the worker adds `2^64 - 5` to `weightAdded`, which wraps
    to `9 + 2^64 - 5 - 2^64 = 4`: `weightAdded - weightRemoved = 4 - 0 = used`.
    (So in this history the counter itself is small again; it is the addend that is the huge number.) -/
example : c16view (c16run (c16history ++ [(.upsert 0 5 none (some 4) none false, ({} : Oracle)), (.worker, ({} : Oracle))])) =
    some [2, 0, 2, 1, 0, 1, 4, 0, 4, 0, 0] := by decide

/-- The addend: on a counter below the decrease the stored value is a huge wrapped number,
    still congruent to `0 + (4 - 9)` modulo 2^64. -/
example : (updateWeightStats {} 4 9).weightAdded = 18446744073709551611 ∧
    (((updateWeightStats {} 4 9).weightAdded : Int) - (0 + (4 - 9))) % (u64Mod : Int) = 0 := by decide

/-- A miss, a delete, a put refused by admission (weight 200 > capacity 100) and a put answered
    `KeyAlreadyExists` by the worker (two puts of key 8 queued before the worker runs):
    hits 2, misses 1, lookups 3; keys 2 added − 1 deleted = 1 held; weight 9 + 3 added − 9 removed = 3 used;
    one rejected key = one refusal (the `KeyAlreadyExists` answer is not counted). -/
def c16history2 : List (Ev × Oracle) :=
  c16history ++
  [(.get 6, ({} : Oracle)), (.delete 0 5, ({} : Oracle)), (.worker, ({} : Oracle)),
   (.putW 0 7 1 200, ({} : Oracle)), (.worker, ({} : Oracle)),
   (.putW 0 8 1 3, ({} : Oracle)), (.putW 1 8 2 3, ({} : Oracle)), (.worker, ({} : Oracle)), (.worker, ({} : Oracle))]

example : c16view (c16run c16history2) = some [2, 1, 3, 2, 1, 1, 12, 9, 3, 1, 1] := by decide

/-- hypotheses of `C16_exists_rejection_not_counted` are satisfiable: the last worker step of that history
    answers `rejected keyAlreadyExists`. -/
example : (c16run (c16history2.take 12)).map (fun p =>
      match step p.1 .worker ({} : Oracle) with
      | .ok (_, .worked kind st _ _ _, _) => some (kind, st)
      | _ => none) = some (some ("Put", .rejected .keyAlreadyExists)) := by decide

/-- The states of these examples are reachable and not shut down, so `C16_exact` applies to them. -/
example : ∃ s g, ReachG c16cfg 0 [1, 2] s g ∧ s.shutting = false ∧ s.stats.keysRejected = 1 ∧ s.stats.misses = 1 := by
  have h : ∃ p, c16run c16history2 = some p := by
    cases hr : c16run c16history2 with
    | none => exact absurd (congrArg c16view hr) (by decide)
    | some p => exact ⟨p, rfl⟩
  obtain ⟨⟨s, g⟩, hp⟩ := h
  refine ⟨s, g, runG_reach _ _ _ _ _ .init hp, ?_⟩
  have hv : (c16run c16history2).map (fun p => (p.1.shutting, p.1.stats.keysRejected, p.1.stats.misses)) =
      some (false, 1, 1) := by decide
  rw [hp] at hv
  simp only [Option.map_some, Option.some.injEq, Prod.mk.injEq] at hv
  exact hv

end Cached
