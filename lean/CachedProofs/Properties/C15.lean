/-
  C15  Every hit is accounted exactly once; reads never wait for the counting pipeline.

  "Every successful read contributes exactly one access record, which at any time is either still buffered,
   delivered (queued for / applied to the frequency sketch) or counted as dropped — never lost, never
   double-counted; when the consumer is saturated whole buffers are dropped and counted as dropped."

  All statements are about Layer A (`CachedModel/State.lean`): `readKey`, `poolAdd`, `acceptBuffer`,
  `consumerStep`, and every state reachable by `step` (`ReachG`, reachability with the ghost counters of
  `Lemmas/StatsInv.lean`).  Quantifiers: every configuration (any pool size, buffer size and channel capacity,
  0 included), every start time and seed list, every history of events and every oracle.

  Scope: the identities hold WHILE `shutdown()` has not been called (`s.shutting = false`).  `shutdown()`
  resets the statistics but leaves the pool's buffers as they are (`shutdownFinish`), so afterwards
  `hits = buffered + accessAdded + accessDropped` is void; nothing is claimed there (see `C15_shutdown_voids`).

  At ACTION granularity (LayerB/Records.lean, imported here): `C15_layerB_*`; a hit of `get`, `get_ref` or of one key of
  a multi-key read is "in flight" between its `store.get` and its `pool.add` (`inFlightReads`), and contributes exactly
  one record (`C15_layerB_record_step`, `C15_layerB_mget_record_step`).
-/
import CachedProofs.Lemmas.StatsInv
import CachedProofs.LayerB.Records

namespace Cached

/-! ### 1. conservation at every reachable state -/

/-- Every hit is in exactly one place — still buffered, delivered, or counted as dropped — and every delivered
    record is either still queued for the consumer or has left its queue (applied to the sketch, or discarded
    together with the queue when the consumer exits). -/
theorem C15_conservation {cfg : Cfg} {now : Nat} {seeds : List Nat} {s : State} {g : Ghost}
    (hr : ReachG cfg now seeds s g) (hs : s.shutting = false) :
    s.stats.hits = buffered s + s.stats.accessAdded + s.stats.accessDropped ∧
    s.stats.accessAdded = queuedRecords s + g.applied :=
  ⟨(reachG_sinv hr hs).conserve, (reachG_sinv hr hs).delivered⟩

/-! ### 2. one read, one record -/

/-- A hit creates exactly one access record and counts exactly one hit: no hypothesis on the pool, the buffer
    size or the consumer is needed (a buffer size of 0 hands over a buffer at every hit). -/
theorem C15_exactly_one_record {s s' : State} {k v : Nat} {o o' : Oracle}
    (h : readKey s k o = .ok (s', some v, o')) :
    buffered s' + s'.stats.accessAdded + s'.stats.accessDropped =
      buffered s + s.stats.accessAdded + s.stats.accessDropped + 1 ∧
    s'.stats.hits = s.stats.hits + 1 ∧ s'.stats.misses = s.stats.misses := by
  rcases readKey_step h with ⟨_, a⟩ | ⟨hv, _, _⟩
  · exact ⟨a.total, a.hits, a.misses⟩
  · cases hv

/-- A miss creates no record: `misses` moves by one, the pool, the consumer's queue and the other counters
    are untouched, no oracle value is consumed. -/
theorem C15_miss_no_record {s s' : State} {k : Nat} {o o' : Oracle}
    (h : readKey s k o = .ok (s', none, o')) :
    s'.stats.misses = s.stats.misses + 1 ∧ s'.stats.hits = s.stats.hits ∧
    s'.pool = s.pool ∧ s'.bufq = s.bufq ∧ buffered s' = buffered s ∧
    s'.stats.accessAdded = s.stats.accessAdded ∧ s'.stats.accessDropped = s.stats.accessDropped ∧ o' = o := by
  rcases readKey_step h with ⟨hv, _⟩ | ⟨_, rfl, rfl⟩
  · cases hv
  · exact ⟨rfl, rfl, rfl, rfl, rfl, rfl, rfl, rfl⟩

/-- Which of the two it is: a value is returned exactly for a key that is held and alive. -/
theorem C15_hit_iff {s s' : State} {k : Nat} {o o' : Oracle} {v : Option Nat}
    (h : readKey s k o = .ok (s', v, o')) :
    v.isSome = true ↔ ∃ e, s.store.get? k = some e ∧ e.alive s.now = true := by
  unfold readKey at h
  cases hg : s.store.get? k with
  | none =>
    simp only [hg, Except.ok.injEq, Prod.mk.injEq] at h
    obtain ⟨_, rfl, _⟩ := h
    exact ⟨fun hv => (by cases hv), fun ⟨e', he', _⟩ => by cases he'⟩
  | some e =>
    simp only [hg] at h
    split at h
    · rename_i ha
      split at h
      · simp only [Except.ok.injEq, Prod.mk.injEq] at h
        obtain ⟨_, rfl, _⟩ := h
        exact ⟨fun _ => ⟨e, rfl, ha⟩, fun _ => rfl⟩
      · cases h
    · rename_i ha
      simp only [Except.ok.injEq, Prod.mk.injEq] at h
      obtain ⟨_, rfl, _⟩ := h
      refine ⟨fun hv => (by cases hv), fun ⟨e', he', ha'⟩ => ?_⟩
      simp only [Option.some.injEq] at he'
      subst he'
      exact absurd ha' ha

/-! ### 3. reads never wait -/

/-- `get` always returns a value (never `.parked`: it has no blocking send), and touches neither the sketch,
    nor the command queue, the parked calls, the worker, the store or the admission state.
    For every state, key and oracle — shut down or not, consumer alive or not, queue full or not. -/
theorem C15_reads_never_wait {s s' : State} {k : Nat} {o o' : Oracle} {out : Out}
    (h : clientGet s k o = .ok (s', out, o')) :
    (∃ v, out = .value v) ∧
    s'.lfu = s.lfu ∧ s'.queue = s.queue ∧ s'.pend = s.pend ∧ s'.worker = s.worker ∧
    s'.store = s.store ∧ s'.adm = s.adm := by
  unfold clientGet at h
  split at h
  · simp only [Except.ok.injEq, Prod.mk.injEq] at h
    obtain ⟨rfl, rfl, _⟩ := h
    exact ⟨⟨_, rfl⟩, rfl, rfl, rfl, rfl, rfl, rfl⟩
  · split at h
    · rename_i s1 v o1 hr
      simp only [Except.ok.injEq, Prod.mk.injEq] at h
      obtain ⟨rfl, rfl, _⟩ := h
      obtain ⟨_, _, _, a⟩ := readKey_accStep hr
      have hk := a.key; have hw := a.wt; have hc := a.cmd
      simp only [keyView, wtView, cmdView, Prod.mk.injEq] at hk hw hc
      exact ⟨⟨_, rfl⟩, a.lfu, hc.1, hc.2, a.worker, hk.1, hw.1⟩
    · cases h

/-- The same for `multi_get`, with one answer per key asked. -/
theorem C15_multi_reads_never_wait {s s' : State} {ks : List Nat} {o o' : Oracle} {out : Out}
    (h : clientMultiGet s ks o = .ok (s', out, o')) :
    (∃ vs, out = .values vs ∧ (s.shutting = false → vs.length = ks.length)) ∧
    s'.lfu = s.lfu ∧ s'.queue = s.queue ∧ s'.pend = s.pend ∧ s'.worker = s.worker ∧
    s'.store = s.store ∧ s'.adm = s.adm := by
  unfold clientMultiGet at h
  split at h
  · rename_i hs
    simp only [Except.ok.injEq, Prod.mk.injEq] at h
    obtain ⟨rfl, rfl, _⟩ := h
    exact ⟨⟨_, rfl, fun hf => by rw [hf] at hs; cases hs⟩, rfl, rfl, rfl, rfl, rfl, rfl⟩
  · split at h
    · rename_i s1 vs o1 hr
      simp only [Except.ok.injEq, Prod.mk.injEq] at h
      obtain ⟨rfl, rfl, _⟩ := h
      obtain ⟨_, _, _, a, hl⟩ := readKeys_accStep _ _ _ _ _ _ _ hr
      have hk := a.key; have hw := a.wt; have hc := a.cmd
      simp only [keyView, wtView, cmdView, Prod.mk.injEq] at hk hw hc
      exact ⟨⟨_, rfl, fun _ => by simpa using hl⟩, a.lfu, hc.1, hc.2, a.worker, hk.1, hw.1⟩
    · cases h

/-- In particular the outcome of a read is never `.parked`. -/
theorem C15_reads_not_parked {s s' : State} {ev : Ev} {o o' : Oracle} {out : Out}
    (hev : (∃ k, ev = .get k) ∨ (∃ ks, ev = .multiGet ks)) (h : step s ev o = .ok (s', out, o')) :
    (∃ v, out = .value v) ∨ (∃ vs, out = .values vs) := by
  rcases hev with ⟨k, rfl⟩ | ⟨ks, rfl⟩
  · exact Or.inl (C15_reads_never_wait (by simpa [step] using h)).1
  · obtain ⟨⟨vs, hv, _⟩, _⟩ := C15_multi_reads_never_wait (show clientMultiGet s ks o = _ by simpa [step] using h)
    exact Or.inr ⟨vs, hv⟩

/-! ### 4. a saturated (or exited) consumer: the whole buffer is dropped, and counted -/

theorem C15_saturated_consumer_drops_whole_buffers (s : State) (hs : List Nat) :
    ((s.consumerAlive = false ∨ s.bufq.length ≥ s.cfg.bufChanCap) →
      (acceptBuffer s hs).stats.accessDropped = s.stats.accessDropped + hs.length ∧
      (acceptBuffer s hs).stats.accessAdded = s.stats.accessAdded ∧
      (acceptBuffer s hs).bufq = s.bufq) ∧
    (¬ (s.consumerAlive = false ∨ s.bufq.length ≥ s.cfg.bufChanCap) →
      (acceptBuffer s hs).stats.accessAdded = s.stats.accessAdded + hs.length ∧
      (acceptBuffer s hs).stats.accessDropped = s.stats.accessDropped ∧
      (acceptBuffer s hs).bufq = s.bufq ++ [.full hs]) := by
  unfold acceptBuffer
  constructor
  · intro h
    rw [if_neg]
    · exact ⟨rfl, rfl, rfl⟩
    · simp only [Bool.and_eq_true, decide_eq_true_eq, not_and, Nat.not_lt]
      rcases h with h | h
      · intro ha; rw [h] at ha; cases ha
      · intro _; exact h
  · intro h
    rw [if_pos]
    · exact ⟨rfl, rfl, rfl⟩
    · simp only [Bool.and_eq_true, decide_eq_true_eq]
      constructor
      · cases ha : s.consumerAlive with
        | true => rfl
        | false => exact absurd (Or.inl ha) h
      · exact Nat.lt_of_not_le (fun hle => h (Or.inr hle))

/-- Either way nothing else changes: the hand-over never blocks and never touches the pool. -/
theorem C15_acceptBuffer_frame (s : State) (hs : List Nat) :
    (acceptBuffer s hs).pool = s.pool ∧ (acceptBuffer s hs).stats.hits = s.stats.hits ∧
    (acceptBuffer s hs).stats.misses = s.stats.misses ∧ (acceptBuffer s hs).lfu = s.lfu := by
  unfold acceptBuffer
  split <;> exact ⟨rfl, rfl, rfl, rfl⟩

/-! ### 5. the consumer applies one batch per step -/

theorem C15_consumer_applies_batch {s s' : State} {o o' : Oracle} {out : Out} {hs : List Nat}
    (hhead : s.bufq.head? = some (.full hs)) (hkeep : s.consumerKeep = true)
    (h : consumerStep s o = .ok (s', out, o')) :
    s'.bufq = s.bufq.tail ∧ s'.stats = s.stats ∧ s'.pool = s.pool ∧
    (∃ consumed, o.dkAdd = consumed ++ o'.dkAdd ∧ consumed.length = hs.length) ∧
    queuedRecords s = queuedRecords s' + hs.length := by
  unfold consumerStep at h
  split at h
  · cases h
  · split at h
    · cases h
    · rename_i hq; rw [hq] at hhead; cases hhead
    · rename_i hs' q hq
      rw [hq] at hhead
      simp only [List.head?_cons, Option.some.injEq, BufEvent.full.injEq] at hhead
      subst hhead
      split at h
      · cases h
      · rename_i t o1 hinc
        simp only [hkeep, Except.ok.injEq, Prod.mk.injEq] at h
        obtain ⟨rfl, _, rfl⟩ := h
        obtain ⟨consumed, h1, h2, _⟩ := incrementAll_oracle _ _ _ _ _ hinc
        refine ⟨by rw [hq]; rfl, rfl, rfl, ⟨consumed, h1, h2⟩, ?_⟩
        simp only [queuedRecords, hq, List.map_cons, List.sum_cons]; omega

/-! ### the scope: `shutdown()` voids the identity -/

/-- `shutdownFinish` zeroes the counters but keeps the buffers: with a non-empty buffer the conservation
    identity fails afterwards.  This is why `C15_conservation` is stated for `s.shutting = false`. -/
theorem C15_shutdown_voids (s : State) (h : 0 < buffered s) :
    (shutdownFinish s).stats.hits ≠
      buffered (shutdownFinish s) + (shutdownFinish s).stats.accessAdded + (shutdownFinish s).stats.accessDropped := by
  have : buffered (shutdownFinish s) = buffered s := rfl
  rw [this]
  show 0 ≠ buffered s + 0 + 0
  omega

/-! ### 6. non-vacuity: pool of one buffer of size one, channel capacity one, three hits on one key -/

def c15cfg : Cfg :=
  { maxWeight := 100, shards := 4, cmdCap := 4, poolSize := 1, bufSize := 1, counters := 2, bufChanCap := 1 }

/-- put key 5, have the worker accept it, then `n` hits (each choosing buffer 0 of the pool) -/
def c15history (n : Nat) : List (Ev × Oracle) :=
  [(.put 0 5 7, ({} : Oracle)), (.worker, ({} : Oracle))] ++ List.replicate n (.get 5, { pool := [0] })

/-- what the examples look at: hits, misses, buffered, accessAdded, accessDropped, queued, applied, lookups -/
def c15view (r : Option (State × Ghost)) : Option (List Nat) :=
  r.map (fun p => [p.1.stats.hits, p.1.stats.misses, buffered p.1, p.1.stats.accessAdded,
                   p.1.stats.accessDropped, queuedRecords p.1, p.2.applied, p.2.lookups])

def c15run (evs : List (Ev × Oracle)) : Option (State × Ghost) := runG (State.init c15cfg 0 [1, 2]) {} evs

/-- first hit: the record is buffered -/
example : c15view (c15run (c15history 1)) = some [1, 0, 1, 0, 0, 0, 0, 1] := by decide
/-- second hit: the full buffer is handed over (`accessAdded = 1`, one record queued), the new record buffered -/
example : c15view (c15run (c15history 2)) = some [2, 0, 1, 1, 0, 1, 0, 2] := by decide
/-- third hit: the consumer's queue is full, the buffer is dropped whole and counted (`accessDropped = 1`) -/
example : c15view (c15run (c15history 3)) = some [3, 0, 1, 1, 1, 1, 0, 3] := by decide
/-- the consumer then applies the queued batch (one `add_if_missing` answer consumed): queued 0, applied 1;
    the fourth hit finds room again: `accessAdded = 2` -/
example : c15view (c15run (c15history 3 ++ [(.consumer, { dkAdd := [true] }), (.get 5, { pool := [0] })])) =
    some [4, 0, 1, 2, 1, 1, 1, 4] := by decide

/-- the two identities, checked on each of the four states above -/
def c15ok (r : Option (State × Ghost)) : Bool :=
  match c15view r with
  | some [hits, _, buf, added, dropped, queued, applied, _] =>
    decide (hits = buf + added + dropped) && decide (added = queued + applied)
  | _ => false

example : c15ok (c15run (c15history 1)) = true ∧ c15ok (c15run (c15history 2)) = true ∧
    c15ok (c15run (c15history 3)) = true ∧
    c15ok (c15run (c15history 3 ++ [(.consumer, { dkAdd := [true] }), (.get 5, { pool := [0] })])) = true := by
  decide

/-- These states are reachable (so `C15_conservation` applies to them) and not shut down. -/
example : ∃ s g, ReachG c15cfg 0 [1, 2] s g ∧ s.shutting = false ∧ s.stats.accessDropped = 1 ∧
    s.stats.accessAdded = 1 ∧ buffered s = 1 ∧ s.stats.hits = 3 := by
  have h : ∃ p, c15run (c15history 3) = some p := by
    cases hr : c15run (c15history 3) with
    | none => exact absurd (congrArg c15view hr) (by decide)
    | some p => exact ⟨p, rfl⟩
  obtain ⟨⟨s, g⟩, hp⟩ := h
  refine ⟨s, g, runG_reach _ _ _ _ _ .init hp, ?_⟩
  have hv : (c15run (c15history 3)).map (fun p => (p.1.shutting, p.1.stats.accessDropped, p.1.stats.accessAdded,
      buffered p.1, p.1.stats.hits)) = some (false, 1, 1, 1, 3) := by decide
  rw [hp] at hv
  simp only [Option.map_some, Option.some.injEq, Prod.mk.injEq] at hv
  exact hv

/-- hypotheses of `C15_exactly_one_record` / `C15_miss_no_record` are satisfiable: a hit and a miss -/
example : (c15run (c15history 0)).map (fun p =>
      ((readKey p.1 5 { pool := [0] }).toOption.map (fun r => r.2.1),
       (readKey p.1 6 ({} : Oracle)).toOption.map (fun r => r.2.1))) = some (some (some 7), some none) := by decide

/-- `multi_get` of a held and an absent key: one answer each, one hit and one miss -/
example : (c15run (c15history 0)).map (fun p =>
      match clientMultiGet p.1 [5, 6] { pool := [0] } with
      | .ok (s', .values vs, _) => some (vs, s'.stats.hits, s'.stats.misses)
      | _ => none) = some (some ([some 7, none], 1, 1)) := by decide

/-- hypotheses of `C15_saturated_consumer_drops_whole_buffers`: both branches occur -/
example : (c15run (c15history 1)).map (fun p => decide (p.1.consumerAlive = false ∨ p.1.bufq.length ≥ p.1.cfg.bufChanCap)) = some false ∧
          (c15run (c15history 2)).map (fun p => decide (p.1.consumerAlive = false ∨ p.1.bufq.length ≥ p.1.cfg.bufChanCap)) = some true := by
  decide

/-- hypotheses of `C15_consumer_applies_batch`: after the second hit the queue's head is a full buffer -/
example : (c15run (c15history 2)).map (fun p => (p.1.bufq.head?, p.1.consumerKeep,
      (consumerStep p.1 { dkAdd := [true] }).toOption.map (fun r => r.1.bufq))) =
    some (some (.full [5]), true, some []) := by decide

/-- `C15_shutdown_voids` is not vacuous: after the first hit one record is buffered. -/
example : (c15run (c15history 1)).map (fun p => decide (0 < buffered p.1)) = some true := by decide

end Cached
