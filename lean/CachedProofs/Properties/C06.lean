/-
  C06  Admission follows the TinyLFU rule: colder keys never evict hotter ones.

  All statements are about `CachedModel/Admission.lean` (`maybeAdd`, `createLoop`, `fillSample`), the
  transcription of src/cache/policy/admission_policy.rs + cache_weight.rs that the correspondence check
  runs against the real `AdmissionPolicy`.
  Quantifiers: every admission state `Adm` (no well-formedness assumed: `used` need not be the sum of the
  charged weights, `kw` may hold duplicate ids), every incoming id / key / hash / weight (also `w ≤ 0`),
  every TinyLFU state, every sample size, every oracle (legal or not: an illegal oracle makes the model
  return `.error`, and the theorems speak about `.ok` results), every fuel.

  `is_space_available_for` computes `max_weight - weight_used` in `i64` and panics where the difference is not
  representable (`Adm.spaceOverflow`; reachable only with a negative total, known finding D10). Because NO
  well-formedness of `Adm` is assumed here, that outcome is part of the rule: `Evicts.overflow`, status `.pending`
  (the worker dies, nothing is answered), `r.overflow = true`.
-/
import CachedProofs.Lemmas.Admission

namespace Cached

/-! ## 1, 2  the two exits that never look at the sketch -/

/-- The key fits: it is accepted, charged, and nothing is evicted, popped or consumed from the oracle.
    STATEMENT CHANGED (hypothesis `hno`, conclusion `r.overflow = false`): the code computes `max - used` in `i64`; where that
    difference is not representable the worker panics instead (`C06_space_overflow`). -/
theorem C06_fits (t : TinyLFU) (size : Nat) (a : Adm) (id key hash : Nat) (w : Int) (o : Oracle)
    (hmax : ¬ (w > a.max)) (hno : a.spaceOverflow = false) (hfit : a.max - a.used ≥ w) :
    ∃ r, maybeAdd t size a id key hash w o = .ok r ∧ r.status = .accepted ∧ r.evicted = [] ∧
      r.popped = [] ∧ r.adm = a.add id key hash w ∧ r.adm.used = a.used + w ∧ r.oracle = o ∧
      r.incEst = none ∧ r.overflow = false := by
  have h : maybeAdd t size a id key hash w o =
      .ok { status := .accepted, adm := a.add id key hash w, oracle := o } := by
    unfold maybeAdd
    simp only [hmax, hno, hfit, if_false, if_true, Bool.false_eq_true]
  exact ⟨_, h, rfl, rfl, rfl, rfl, rfl, rfl, rfl, rfl⟩

/-- `max_weight - weight_used` is not representable in `i64` (and the key is not heavier than the cache): the worker panics in
    `is_space_available_for` before anything is read from the sketch or changed. -/
theorem C06_space_overflow (t : TinyLFU) (size : Nat) (a : Adm) (id key hash : Nat) (w : Int) (o : Oracle)
    (hmax : ¬ (w > a.max)) (hov : a.spaceOverflow = true) :
    ∃ r, maybeAdd t size a id key hash w o = .ok r ∧ r.overflow = true ∧ r.status = .pending ∧ r.adm = a ∧
      r.evicted = [] ∧ r.popped = [] ∧ r.oracle = o := by
  have h : maybeAdd t size a id key hash w o =
      .ok { status := .pending, adm := a, oracle := o, overflow := true } := by
    unfold maybeAdd
    simp only [hmax, hov, if_false, if_true]
  exact ⟨_, h, rfl, rfl, rfl, rfl, rfl, rfl⟩

/-- Heavier than the whole cache: rejected outright, the admission state is untouched. -/
theorem C06_too_heavy (t : TinyLFU) (size : Nat) (a : Adm) (id key hash : Nat) (w : Int) (o : Oracle)
    (hmax : w > a.max) :
    ∃ r, maybeAdd t size a id key hash w o = .ok r ∧ r.status = .rejected .tooHeavy ∧ r.adm = a ∧
      r.evicted = [] ∧ r.popped = [] ∧ r.oracle = o := by
  have h : maybeAdd t size a id key hash w o =
      .ok { status := .rejected .tooHeavy, adm := a, oracle := o } := by
    unfold maybeAdd
    simp only [hmax, if_true]
  exact ⟨_, h, rfl, rfl, rfl, rfl, rfl⟩

/-! ## 3  the eviction rule, declaratively -/

/-- `Evicts w incEst a sample st a' vs`: starting from admission state `a` with eviction sample `sample`,
    making room for weight `w` on behalf of a key whose estimate is `incEst` ends with status `st` in
    admission state `a'` after evicting `vs` (in order). -/
inductive Evicts (w : Int) (incEst : Nat) : Adm → List SKey → Status → Adm → List SKey → Prop where
  /-- there is room: stop, accept -/
  | enough {a : Adm} {sample : List SKey} :
      a.max - a.used ≥ w → Evicts w incEst a sample .accepted a []
  /-- no room and nothing left to evict: reject -/
  | exhausted {a : Adm} :
      a.max - a.used < w → Evicts w incEst a [] (.rejected .noSpace) a []
  /-- no room and the coldest sampled key is hotter than the incoming one: reject, evict nothing more -/
  | hotter {a : Adm} {sample : List SKey} (k : SKey) :
      a.max - a.used < w → k.coldestOf sample → incEst < k.est →
      Evicts w incEst a sample (.rejected .noSpace) a []
  /-- no room and the coldest sampled key is no hotter than the incoming one: evict it, go on with a
      sample that no longer mentions it -/
  | evict {a : Adm} {sample : List SKey} {st : Status} {a' : Adm} {vs : List SKey}
      (k : SKey) (sample' : List SKey) :
      a.max - a.used < w → k.coldestOf sample → k.est ≤ incEst → (∀ x ∈ sample', x.id ≠ k.id) →
      (a.delete k.id).1.spaceOverflow = false →
      Evicts w incEst (a.delete k.id).1 sample' st a' vs →
      Evicts w incEst a sample st a' (k :: vs)
  /-- no room, the coldest sampled key is no hotter than the incoming one and is evicted — and `max - used` of the re-check
      that follows the eviction is not representable in `i64`: the worker panics there. Nothing is answered (`.pending`). -/
  | overflow {a : Adm} {sample : List SKey} (k : SKey) :
      a.max - a.used < w → k.coldestOf sample → k.est ≤ incEst → (a.delete k.id).1.spaceOverflow = true →
      Evicts w incEst a sample .pending (a.delete k.id).1 [k]

/-- The `(id, key, weight)` triples reported to the delete hook for the victims `vs`, evicted in order
    starting from `a`: a victim is reported iff it is charged at the moment of its eviction. -/
def evictedOf : Adm → List SKey → List Evicted
  | _, [] => []
  | a, k :: vs =>
    (match (a.delete k.id).2 with | some e => [e] | none => []) ++ evictedOf (a.delete k.id).1 vs

/-- **Every successful run of the `create_space` loop follows the rule**, and its bookkeeping is exact:
    the popped keys are the victims plus at most one spared key that was hotter than the incoming one,
    and the evictions reported are those of the victims that were charged. -/
theorem C06_loop_follows_rule (t : TinyLFU) (size : Nat) (w : Int) (incEst : Nat) :
    ∀ (fuel : Nat) (a : Adm) (sample : List SKey) (o : Oracle) (ev : List Evicted) (pp : List SKey)
      (r : LoopResult),
      createLoop t size w incEst fuel a sample o ev pp = .ok r →
      ∃ vs spared, Evicts w incEst a sample r.status r.adm vs ∧
        r.popped = pp.reverse ++ vs ++ spared ∧
        (spared = [] ∨ ∃ k, spared = [k] ∧ incEst < k.est ∧ r.status = .rejected .noSpace) ∧
        r.evicted = ev.reverse ++ evictedOf a vs ∧ (r.overflow = true ↔ r.status = .pending) := by
  intro fuel
  induction fuel with
  | zero =>
    intro a sample o ev pp r h
    simp [createLoop] at h
  | succ fuel ih =>
    intro a sample o ev pp r h
    unfold createLoop at h
    split at h
    · -- enough room
      rename_i hge
      cases h
      exact ⟨[], [], .enough hge, by simp, Or.inl rfl, by simp [evictedOf], by simp⟩
    · rename_i hlt
      have hlt : a.max - a.used < w := by omega
      split at h
      · cases h
      · -- the heap is empty
        split at h
        · cases h
        · rename_i hemp
          cases h
          have hs : sample = [] := by simpa using hemp
          subst hs
          exact ⟨[], [], .exhausted hlt, by simp, Or.inl rfl, by simp [evictedOf], by simp⟩
      · rename_i id pops _
        split at h
        · cases h
        · rename_i k hfind
          obtain ⟨hmem, hid⟩ := find?_id_some hfind
          subst hid
          split at h
          · cases h
          · rename_i hmax
            have hcold : k.coldestOf sample :=
              (SKey.isMaxOf_iff_coldestOf hmem).mp (by simpa using hmax)
            split at h
            · -- the coldest key is hotter than the incoming one
              rename_i hhot
              cases h
              exact ⟨[], [k], .hotter k hlt hcold hhot, by simp, Or.inr ⟨k, rfl, hhot, rfl⟩,
                by simp [evictedOf], by simp⟩
            · -- evict it
              rename_i hcolder
              have hcolder : k.est ≤ incEst := by omega
              simp only [] at h
              split at h
              · -- the re-check after the eviction overflows: the worker panics
                rename_i hov
                cases h
                refine ⟨[k], [], .overflow k hlt hcold hcolder hov, by simp, Or.inl rfl, ?_, by simp⟩
                simp only [evictedOf]
                cases (a.delete k.id).2 <;> simp
              · rename_i hov
                split at h
                · cases h
                · rename_i sample'' o' hfill
                  obtain ⟨vs, spared, hE, hpop, hsp, hev, hovf⟩ := ih _ _ _ _ _ _ h
                  have hfresh : ∀ x ∈ sample'', x.id ≠ k.id := by
                    refine fillSample_id_ne (Adm.delete_get?_same a k.id) ?_ hfill
                    intro x hx
                    rw [List.mem_filter] at hx
                    simpa using hx.2
                  refine ⟨k :: vs, spared, ?_, ?_, hsp, ?_, hovf⟩
                  · exact .evict k sample'' hlt hcold hcolder hfresh (by simpa using hov) hE
                  · rw [hpop]; simp
                  · rw [hev]
                    simp only [evictedOf]
                    cases (a.delete k.id).2 <;> simp

/-! ### consequences of the rule (by induction on `Evicts`) -/

/-- The admission state after evicting `vs` in order. -/
def admAfter : Adm → List SKey → Adm
  | a, [] => a
  | a, k :: vs => admAfter (a.delete k.id).1 vs

/-- **Colder keys never evict hotter ones**: every victim's estimate is at most the incoming key's. -/
theorem C06_victims_colder {w : Int} {incEst : Nat} {a a' : Adm} {sample vs : List SKey} {st : Status}
    (h : Evicts w incEst a sample st a' vs) : ∀ k ∈ vs, k.est ≤ incEst := by
  induction h with
  | enough _ => intro k hk; cases hk
  | exhausted _ => intro k hk; cases hk
  | hotter _ _ _ _ => intro k hk; cases hk
  | evict k _ _ _ hle _ _ _ ih =>
    intro x hx
    rw [List.mem_cons] at hx
    rcases hx with rfl | hx
    · exact hle
    · exact ih x hx
  | overflow k _ _ hle _ =>
    intro x hx
    simp only [List.mem_singleton] at hx
    subst hx; exact hle

/-- The put is accepted exactly when the final state has room; the only other outcome is `noSpace`.
    STATEMENT CHANGED: this holds for every run that ANSWERS (`st ≠ .pending`); the third outcome, `.pending`, is the
    worker's panic in the re-check after an eviction, and then (and only then) the final `max - used` is outside `i64`
    right after a victim was taken. -/
theorem C06_accepted_iff {w : Int} {incEst : Nat} {a a' : Adm} {sample vs : List SKey} {st : Status}
    (h : Evicts w incEst a sample st a' vs) :
    (st ≠ .pending → (st = .accepted ↔ a'.max - a'.used ≥ w) ∧ (st ≠ .accepted → st = .rejected .noSpace)) ∧
    (st = .pending → a'.spaceOverflow = true ∧ vs ≠ []) := by
  induction h with
  | enough hge => exact ⟨fun _ => ⟨⟨fun _ => hge, fun _ => rfl⟩, fun hne => absurd rfl hne⟩, fun e => (by cases e)⟩
  | exhausted hlt => exact ⟨fun _ => ⟨⟨fun e => (by cases e), fun hge => (by omega)⟩, fun _ => rfl⟩, fun e => (by cases e)⟩
  | hotter _ hlt _ _ => exact ⟨fun _ => ⟨⟨fun e => (by cases e), fun hge => (by omega)⟩, fun _ => rfl⟩, fun e => (by cases e)⟩
  | evict _ _ _ _ _ _ _ _ ih => exact ⟨ih.1, fun e => ⟨(ih.2 e).1, by simp⟩⟩
  | overflow _ _ _ _ hov => exact ⟨fun hne => absurd rfl hne, fun _ => ⟨hov, by simp⟩⟩

/-- An eviction run never ends in the panic outcome while every total it passes through keeps `max - used` inside `i64`
    — in particular (`Adm.spaceOverflow_false`) while the totals stay non-negative. -/
theorem C06_no_overflow_outcome {w : Int} {incEst : Nat} {a a' : Adm} {sample vs : List SKey} {st : Status}
    (h : Evicts w incEst a sample st a' vs) (hno : a'.spaceOverflow = false) : st ≠ .pending := by
  intro e
  have := ((C06_accepted_iff h).2 e).1
  rw [hno] at this; cases this

/-- Eviction stops as soon as there is room: from a state with room nothing is evicted at all. -/
theorem C06_stops_when_enough {w : Int} {incEst : Nat} {a a' : Adm} {sample vs : List SKey} {st : Status}
    (h : Evicts w incEst a sample st a' vs) (hge : a.max - a.used ≥ w) :
    vs = [] ∧ st = .accepted ∧ a' = a := by
  cases h with
  | enough _ => exact ⟨rfl, rfl, rfl⟩
  | exhausted hlt => omega
  | hotter _ hlt _ _ => omega
  | evict _ _ hlt _ _ _ _ _ => omega
  | overflow _ hlt _ _ _ => omega

/-- The final state is the start state with exactly the victims deleted, in order. -/
theorem C06_final_state {w : Int} {incEst : Nat} {a a' : Adm} {sample vs : List SKey} {st : Status}
    (h : Evicts w incEst a sample st a' vs) : a' = admAfter a vs := by
  induction h with
  | enough _ => rfl
  | exhausted _ => rfl
  | hotter _ _ _ _ => rfl
  | evict _ _ _ _ _ _ _ _ ih => simpa [admAfter] using ih
  | overflow _ _ _ _ _ => rfl

/-- The same, victim by victim: each victim is taken from a state that lacks room for `w`. -/
theorem C06_every_victim_needed {w : Int} {incEst : Nat} {a a' : Adm} {sample vs : List SKey}
    {st : Status} (h : Evicts w incEst a sample st a' vs) :
    ∀ pre k post, vs = pre ++ k :: post →
      (admAfter a pre).max - (admAfter a pre).used < w := by
  induction h with
  | enough _ => intro pre k post e; simp at e
  | exhausted _ => intro pre k post e; simp at e
  | hotter _ _ _ _ => intro pre k post e; simp at e
  | evict k0 _ hlt _ _ _ _ _ ih =>
    intro pre k post e
    cases pre with
    | nil => exact hlt
    | cons p pre' =>
      simp only [List.cons_append, List.cons.injEq] at e
      obtain ⟨rfl, e⟩ := e
      exact ih pre' k post e
  | overflow k0 hlt _ _ _ =>
    intro pre k post e
    cases pre with
    | nil => exact hlt
    | cons p pre' =>
      simp only [List.cons_append, List.cons.injEq] at e
      obtain ⟨_, e⟩ := e
      simp at e

/-- Eviction never changes the capacity. -/
theorem C06_max_unchanged {w : Int} {incEst : Nat} {a a' : Adm} {sample vs : List SKey} {st : Status}
    (h : Evicts w incEst a sample st a' vs) : a'.max = a.max := by
  induction h with
  | enough _ => rfl
  | exhausted _ => rfl
  | hotter _ _ _ _ => rfl
  | evict k _ _ _ _ _ _ _ ih => rw [ih, Adm.delete_max]
  | overflow k _ _ _ _ => rw [Adm.delete_max]

/-- Each victim is a coldest key of the sample it was popped from (hence a member of it), the first one
    of the initial sample. -/
theorem C06_first_victim_coldest {w : Int} {incEst : Nat} {a a' : Adm} {sample vs : List SKey}
    {st : Status} {k : SKey} (h : Evicts w incEst a sample st a' (k :: vs)) : k.coldestOf sample := by
  cases h with
  | evict _ _ _ hc _ _ _ _ => exact hc
  | overflow _ _ hc _ _ => exact hc

/-! ## 4  `maybe_add` as a whole -/

/-- When the key does not fit, `maybe_add` estimates it, draws a sample of charged keys and follows the rule;
    the key is charged iff the rule ends in `accepted`.
    STATEMENT CHANGED (hypothesis `hno`: the first `max - used` is representable — otherwise `C06_space_overflow`; new last
    conjunct: the result is flagged as the worker's panic exactly when the rule ends in `.pending`). -/
theorem C06_maybeAdd_rule (t : TinyLFU) (size : Nat) (a : Adm) (id key hash : Nat) (w : Int) (o : Oracle)
    (r : AdmResult) (hmax : ¬ (w > a.max)) (hno : a.spaceOverflow = false) (hlt : a.max - a.used < w)
    (h : maybeAdd t size a id key hash w o = .ok r) :
    ∃ (incEst : Nat) (sample vs spared : List SKey) (a' : Adm) (o1 o2 : Oracle),
      estimateO t hash o = .ok (incEst, o1) ∧
      fillSample t a.kw (fillNeed size a.kw []) [] o1 = .ok (sample, o2) ∧
      SampleOK a.kw sample ∧
      Evicts w incEst a sample r.status a' vs ∧
      r.incEst = some incEst ∧
      r.adm = (if r.status = .accepted then a'.add id key hash w else a') ∧
      r.popped = vs ++ spared ∧
      (spared = [] ∨ ∃ k, spared = [k] ∧ incEst < k.est ∧ r.status = .rejected .noSpace) ∧
      r.evicted = evictedOf a vs ∧ (r.overflow = true ↔ r.status = .pending) := by
  unfold maybeAdd at h
  have hnfit : ¬ (a.max - a.used ≥ w) := by omega
  simp only [hmax, hno, hnfit, if_false, Bool.false_eq_true] at h
  split at h
  · cases h
  · rename_i incEst o1 hest
    split at h
    · cases h
    · rename_i sample o2 hfill
      split at h
      · cases h
      · rename_i lr hloop
        obtain ⟨vs, spared, hE, hpop, hsp, hev, hovf⟩ :=
          C06_loop_follows_rule t size w incEst _ _ _ _ _ _ _ hloop
        cases h
        refine ⟨incEst, sample, vs, spared, lr.adm, o1, o2, hest, hfill,
          fillSample_sampleOK (SampleOK.nil _) hfill, hE, rfl, rfl, ?_, hsp, ?_, hovf⟩
        · simpa using hpop
        · simpa using hev

/-- The headline for `maybe_add`: whatever it evicts was estimated no hotter than the incoming key,
    and whatever it pops but spares was estimated strictly hotter. -/
theorem C06_maybeAdd_colder_never_evicts_hotter (t : TinyLFU) (size : Nat) (a : Adm) (id key hash : Nat)
    (w : Int) (o : Oracle) (r : AdmResult) (h : maybeAdd t size a id key hash w o = .ok r) :
    r.popped = [] ∧ r.evicted = [] ∨
    ∃ incEst vs spared, r.incEst = some incEst ∧ r.popped = vs ++ spared ∧ r.evicted = evictedOf a vs ∧
      (∀ k ∈ vs, k.est ≤ incEst) ∧ (∀ k ∈ spared, incEst < k.est) := by
  by_cases hmax : w > a.max
  · obtain ⟨r', hr', _, _, hev, hpp, _⟩ := C06_too_heavy t size a id key hash w o hmax
    rw [h] at hr'; cases hr'
    exact Or.inl ⟨hpp, hev⟩
  · by_cases hno : a.spaceOverflow = true
    · obtain ⟨r', hr', _, _, _, hev, hpp, _⟩ := C06_space_overflow t size a id key hash w o hmax hno
      rw [h] at hr'; cases hr'
      exact Or.inl ⟨hpp, hev⟩
    have hno : a.spaceOverflow = false := by simpa using hno
    by_cases hfit : a.max - a.used ≥ w
    · obtain ⟨r', hr', _, hev, hpp, _⟩ := C06_fits t size a id key hash w o hmax hno hfit
      rw [h] at hr'; cases hr'
      exact Or.inl ⟨hpp, hev⟩
    · obtain ⟨incEst, sample, vs, spared, a', o1, o2, _, _, _, hE, hinc, _, hpp, hsp, hev, _⟩ :=
        C06_maybeAdd_rule t size a id key hash w o r hmax hno (by omega) h
      refine Or.inr ⟨incEst, vs, spared, hinc, hpp, hev, C06_victims_colder hE, ?_⟩
      intro k hk
      rcases hsp with rfl | ⟨k', rfl, hk', _⟩
      · cases hk
      · simp only [List.mem_singleton] at hk; subst hk; exact hk'

/-! ## 5  termination: the fuel `|kw| + 1` is never exhausted -/

/-- With every sampled id charged, `|kw| + 1` iterations suffice: each iteration that goes on deletes a
    charged id. -/
theorem C06_fuel_suffices (t : TinyLFU) (size : Nat) (w : Int) (incEst : Nat) :
    ∀ (fuel : Nat) (a : Adm) (sample : List SKey) (o : Oracle) (ev : List Evicted) (pp : List SKey),
      SampleOK a.kw sample → a.kw.length < fuel →
      createLoop t size w incEst fuel a sample o ev pp ≠ .error "fuel exhausted" := by
  intro fuel
  induction fuel with
  | zero => intro a sample o ev pp _ hlen; omega
  | succ fuel ih =>
    intro a sample o ev pp hok hlen
    unfold createLoop
    split
    · intro e; cases e
    · split
      · intro e; injection e with e; revert e; decide
      · split
        · intro e; injection e with e; revert e; decide
        · intro e; cases e
      · rename_i id pops _
        split
        · intro e; injection e with e; revert e; decide
        · rename_i k hfind
          obtain ⟨hmem, hid⟩ := find?_id_some hfind
          subst hid
          split
          · intro e; injection e with e; revert e; decide
          · split
            · intro e; cases e
            · simp only []
              split
              · intro e; cases e
              · split
                · rename_i e' heq
                  intro e; injection e with e
                  subst e
                  exact fillSample_ne_fuel _ _ _ _ _ heq
                · rename_i sample'' o' hfill
                  refine ih _ _ _ _ _ ?_ ?_
                  · exact fillSample_sampleOK (SampleOK.delete_filter hok k.id) hfill
                  · have := Adm.delete_length_lt a k.id (hok k hmem)
                    omega

/-- `maybe_add` never runs out of fuel: the model's bound on the loop is not a restriction. -/
theorem C06_maybeAdd_fuel (t : TinyLFU) (size : Nat) (a : Adm) (id key hash : Nat) (w : Int) (o : Oracle) :
    maybeAdd t size a id key hash w o ≠ .error "fuel exhausted" := by
  unfold maybeAdd
  split
  · intro e; cases e
  · split
    · intro e; cases e
    split
    · intro e; cases e
    · split
      · rename_i e' heq
        intro e; injection e with e
        subst e
        exact estimateO_ne_fuel _ _ _ heq
      · split
        · rename_i e' heq
          intro e; injection e with e
          subst e
          exact fillSample_ne_fuel _ _ _ _ _ heq
        · rename_i sample o2 hfill
          split
          · rename_i e' heq
            intro e; injection e with e
            subst e
            exact C06_fuel_suffices t size w _ _ _ _ _ _ _
              (fillSample_sampleOK (SampleOK.nil _) hfill) (Nat.lt_succ_self _) heq
          · intro e; cases e

/-! ## 6  non-vacuity -/

/-- capacity 10, 9 used by three keys of weights 2, 4, 3 -/
def exAdm : Adm :=
  { max := 10, used := 9,
    kw := [(1, { key := 101, hash := 11, weight := 2 }), (2, { key := 102, hash := 12, weight := 4 }),
           (3, { key := 103, hash := 13, weight := 3 })] }

/-- a fresh sketch whose doorkeeper has seen one (unrelated) hash: its answers for other hashes are the oracle's
    (a Bloom filter may give false positives once something is set; an EMPTY filter may not) -/
def exLFU : TinyLFU := { TinyLFU.new 16 [1, 2, 3, 4] with dk := [99] }

/-- what the examples look at in a result -/
structure ExView where
  status : Status
  popped : List SKey
  evicted : List Evicted
  incEst : Option Nat
  used : Int
  charged : List Nat
  oracleUsedUp : Bool
  deriving DecidableEq

def exView (r : Except String AdmResult) : Option ExView :=
  r.toOption.map (fun r => ⟨r.status, r.popped, r.evicted, r.incEst, r.adm.used, r.adm.kw.keys, r.oracle.isEmpty⟩)

/-- Incoming key of weight 6 and estimate 1 (doorkeeper hit); keys 1 and 2 have estimate 0, key 3 has 1.
    The hypotheses of `C06_maybeAdd_rule` hold, two evictions are needed, the heavier of the two coldest keys
    goes first, the hotter key 3 stays, and the put is accepted. -/
example :
    ¬ ((6 : Int) > exAdm.max) ∧ exAdm.max - exAdm.used < 6 ∧
    exView (maybeAdd exLFU 3 exAdm 4 104 14 6
        { dk := [true, false, false, true], ids := [1, 2, 3], pops := [some 2, some 1] }) =
      some ⟨.accepted,
            [{ id := 2, weight := 4, est := 0 }, { id := 1, weight := 2, est := 0 }],
            [(2, 102, 4), (1, 101, 2)], some 1, 9, [4, 3], true⟩ := by decide

/-- Popping the lighter of the two coldest keys first is not a legal heap pop: the model refuses the oracle. -/
example :
    exView (maybeAdd exLFU 3 exAdm 4 104 14 6
        { dk := [true, false, false, true], ids := [1, 2, 3], pops := [some 1, some 2] }) = none := by decide

/-- The candidate is colder (estimate 0) than every sampled key (estimate 1): the first pop is spared,
    nothing is evicted, the put is rejected and the admission state is unchanged. -/
example :
    exView (maybeAdd exLFU 3 exAdm 4 104 14 6
        { dk := [false, true, true, true], ids := [1, 2, 3], pops := [some 2] }) =
      some ⟨.rejected .noSpace, [{ id := 2, weight := 4, est := 1 }], [], some 0, 9, [1, 2, 3], true⟩ := by
  decide

/-- A rejected put may still have evicted: key 2 is as cold as the candidate and goes, the next coldest is
    hotter, so the put is rejected after one eviction (`used` drops from 9 to 5). -/
example :
    exView (maybeAdd exLFU 3 exAdm 4 104 14 6
        { dk := [false, true, false, true], ids := [1, 2, 3], pops := [some 2, some 3] }) =
      some ⟨.rejected .noSpace,
            [{ id := 2, weight := 4, est := 0 }, { id := 3, weight := 3, est := 1 }],
            [(2, 102, 4)], some 0, 5, [1, 3], true⟩ := by decide

/-- The relation itself is inhabited on the same instance (two `evict` steps, then `enough`). -/
example :
    let k2 : SKey := { id := 2, weight := 4, est := 0 }
    let k1 : SKey := { id := 1, weight := 2, est := 0 }
    let k3 : SKey := { id := 3, weight := 3, est := 1 }
    Evicts 6 1 exAdm [k3, k2, k1] .accepted (admAfter exAdm [k2, k1]) [k2, k1] := by
  intro k2 k1 k3
  refine .evict k2 [k3, k1] (by decide) ⟨by decide, by decide⟩ (by decide) (by decide) (by decide) ?_
  refine .evict k1 [k3] (by decide) ⟨by decide, by decide⟩ (by decide) (by decide) (by decide) ?_
  exact .enough (by decide)

/-- what the overflow examples look at in a result -/
structure ExOvView where
  overflow : Bool
  status : Status
  used : Int
  evicted : List Evicted
  popped : List SKey
  deriving DecidableEq

def exOvView (r : Except String AdmResult) : Option ExOvView :=
  r.toOption.map (fun r => ⟨r.overflow, r.status, r.adm.used, r.evicted, r.popped⟩)

/-- **The panic outcome is inhabited**: capacity `i64::MAX`, the total at −3 (what known finding D10 leaves behind): the
    first `max_weight - weight_used` is `i64::MAX + 3`, the worker panics, nothing is consumed or changed. -/
example :
    Adm.spaceOverflow { max := i64Max, used := -3, kw := [] } = true ∧
    exOvView (maybeAdd exLFU 3 { max := i64Max, used := -3, kw := [] } 4 104 14 1 {}) =
      some ⟨true, .pending, -3, [], []⟩ := by decide

/-- … and in the re-check after an eviction: capacity `i64::MAX`, total 5 while key id 1 is charged 9 (the accounting
    identity is broken, as after D10): the incoming key of weight `i64::MAX - 2` does not fit, the victim goes, the total
    is −4 and `max_weight - weight_used` overflows. `Evicts.overflow` describes it. -/
example :
    let a : Adm := { max := i64Max, used := 5, kw := [(1, { key := 101, hash := 11, weight := 9 })] }
    exOvView (maybeAdd exLFU 3 a 4 104 14 (i64Max - 2) { dk := [false, false], ids := [1], pops := [some 1] }) =
      some ⟨true, .pending, -4, [(1, 101, 9)], [{ id := 1, weight := 9, est := 0 }]⟩ ∧
    Evicts (i64Max - 2) 0 a [{ id := 1, weight := 9, est := 0 }] .pending (a.delete 1).1 [{ id := 1, weight := 9, est := 0 }] := by
  intro a
  refine ⟨by decide, ?_⟩
  exact .overflow { id := 1, weight := 9, est := 0 } (by decide) ⟨by decide, by decide⟩ (by decide) (by decide)

end Cached
