/-
  C02  Reads return only the current value of the key, never stale or foreign.

  Statements about Layer A (`CachedModel/State.lean`: every API call runs its caller-side program atomically; the
  worker, the sweeper and the access consumer take their own steps), for every state, key, oracle, configuration
  (in particular every key-hash function `Cfg.hashOf`: the hash only feeds the admission sketch, it never indexes
  the store).

    * `C02_read_is_current_entry`   a read of `k` returns `visible s k`: the value of the entry stored under `k` iff
                                    that entry is neither soft-deleted nor past its deadline, else absent; the read
                                    changes nothing but statistics, access buffers and the buffer channel;
      `C02_variants_agree`, `C02_get_is_read`, `C02_multi_get_is_reads`, `C02_multi_get_pointwise`
                                    `get` and every element of `multi_get` are this one function;
    * `C02_only_written_values`     (ghost history `ReachW`) a value read for `k` was written TO `k` by a put or an
                                    upsert issued before the read: never another key's value, never a value nobody
                                    wrote (`C02_get_only_written`, `C02_multi_get_only_written`: through the API);
    * `C02_completed_overwrite_visible`  once an in-place upsert carrying a value has returned — whatever it
                                    returned — every read returns the new value (or absent, later, when its deadline
                                    has passed), never the superseded one;
      `C02_completed_delete_visible` / `C02_delete_hidden_on_return` / `C02_deleted_never_read_again` /
      `C02_absent_until_worker_put`  a deleted value is never read again;
    * `C02_value_stable`            the only event that changes the value of a present entry is an upsert of that key
                                    carrying a value; `C02_worker_put_never_overwrites`.

  Helper lemmas: `CachedProofs/Lemmas/Frame.lean` (`visible`, `OnlyRead`, `KeyCh`/`step_key`, `Written`/`ReachW`).

  The same property at ACTION granularity (a read is two separately scheduled actions per key, any interleaving in
  between) is in LayerB/Theorems.lean, imported here so that it is built and audited with this module:
  `C02_layerB_read_current` (`get`), `C02_layerB_ref_store` (`get_ref`), and for the multi-key reads (`multi_get` and
  its iterators) `C02_layerB_mread_current` (one key) and `C02_layerB_mget_current` (the whole call: every value
  returned at position `j` was the value of an alive entry of `ks[j]` at that key's own `store.get` action).
-/
import CachedProofs.LayerB.Theorems
import CachedProofs.Lemmas.Frame
import CachedProofs.Properties.C04
import CachedProofs.Properties.C07
import CachedProofs.Properties.C08
import CachedProofs.Properties.C09

namespace Cached

/-! ### 1. a read returns the current entry of the key -/

/-- **A read returns the value of the entry currently stored under this key, or absent.**
    `some v` exactly when the entry of `k` holds `v` and is alive (not soft-deleted, deadline not passed);
    `none` exactly when `k` is absent, soft-deleted or past its deadline.  The read itself changes neither the store
    nor the weights, the expiry index, the command queue, the acknowledgements, the clock, … : only statistics,
    the pool of access buffers and the buffer channel (`OnlyRead`). -/
theorem C02_read_is_current_entry (s s' : State) (k : Nat) (o o' : Oracle) (r : Option Nat)
    (hr : readKey s k o = .ok (s', r, o')) :
    r = visible s k ∧
    (∀ v, r = some v ↔ ∃ e, s.store.get? k = some e ∧ e.value = v ∧ e.alive s.now = true) ∧
    (r = none ↔ s.store.get? k = none ∨
      ∃ e, s.store.get? k = some e ∧ (e.soft = true ∨ ∃ x, e.expiry = some x ∧ s.now > x)) ∧
    (s'.store = s.store ∧ s'.adm = s.adm ∧ s'.ttl = s.ttl ∧ s'.queue = s.queue ∧ s'.acks = s.acks ∧
      s'.now = s.now ∧ s'.nextId = s.nextId ∧ s'.pend = s.pend ∧ s'.worker = s.worker ∧ s'.cfg = s.cfg ∧
      s'.lfu = s.lfu ∧ s'.shutting = s.shutting) ∧
    OnlyRead s s' := by
  obtain ⟨hv, hro⟩ := readKey_spec hr
  obtain ⟨f1, f2, f3, f4, f5, f6, f7, f8, f9, f10, f11, f12, _⟩ := hro.fields
  refine ⟨hv, ?_, ?_, ⟨f1, f2, f3, f4, f5, f6, f7, f8, f9, f10, f11, f12⟩, hro⟩
  · intro v; rw [hv]; exact visible_eq_some_iff s k v
  · rw [hv]; exact visible_eq_none_iff s k

/-- conversely, a live entry IS returned by every read that completes (a read fails to complete only when the
    oracle supplies no legal buffer index) -/
theorem C02_live_entry_is_read (s s' : State) (k : Nat) (o o' : Oracle) (r : Option Nat) (e : Entry)
    (hk : s.store.get? k = some e) (ha : e.alive s.now = true) (hr : readKey s k o = .ok (s', r, o')) :
    r = some e.value := by
  rw [(readKey_spec hr).1]
  exact (visible_eq_some_iff s k e.value).mpr ⟨e, hk, rfl, ha⟩

/-- `get` and `multi_get` of one key are `readKey` (from C09) -/
theorem C02_variants_agree (s : State) (k : Nat) (o : Oracle) (hs : s.shutting = false) :
    clientGet s k o = (match readKey s k o with | .ok (s1, v, o') => .ok (s1, .value v, o') | .error m => .error m) ∧
    clientMultiGet s [k] o = (match readKey s k o with | .ok (s1, v, o') => .ok (s1, .values [v], o') | .error m => .error m) :=
  C09_variants_agree s k o hs

/-- `get` returns `visible s k` (absent while shutting down) and changes only statistics / access buffers -/
theorem C02_get_is_read (s s' : State) (k : Nat) (o o' : Oracle) (out : Out)
    (h : step s (.get k) o = .ok (s', out, o')) :
    out = .value (if s.shutting then none else visible s k) ∧ OnlyRead s s' := by
  have := clientGet_spec (s := s) (k := k) (o := o) h
  exact ⟨this.2, this.1⟩

/-- `multi_get` returns, in order, `visible s` of each key: all elements are read off the same store at the same
    clock value (nothing during the call changes either) -/
theorem C02_multi_get_is_reads (s s' : State) (ks : List Nat) (o o' : Oracle) (out : Out)
    (h : step s (.multiGet ks) o = .ok (s', out, o')) :
    out = .values (if s.shutting then [] else ks.map (visible s)) ∧ OnlyRead s s' := by
  have := clientMultiGet_spec (s := s) (ks := ks) (o := o) h
  exact ⟨this.2, this.1⟩

/-- **The n-key statement**: the `i`-th result of `multi_get ks` is what `readKey` returns for `ks[i]` in the state
    reached after the first `i` reads, and that state differs from `s` only in `stats`, `pool`, `bufq` — hence the
    result equals `visible s ks[i]`. -/
theorem C02_multi_get_pointwise (s s' : State) (ks : List Nat) (o o' : Oracle) (out : Out) (hsh : s.shutting = false)
    (h : clientMultiGet s ks o = .ok (s', out, o')) :
    ∃ vs, out = .values vs ∧ vs.length = ks.length ∧ OnlyRead s s' ∧
      ∀ (i k : Nat), ks[i]? = some k →
        ∃ si oi si' oi' r, OnlyRead s si ∧ readKey si k oi = .ok (si', r, oi') ∧ vs[i]? = some r ∧
          r = visible s k := by
  unfold clientMultiGet at h
  simp only [hsh, Bool.false_eq_true, if_false] at h
  split at h
  · rename_i s1 vs o1 hk
    simp only [Except.ok.injEq, Prod.mk.injEq] at h
    obtain ⟨rfl, rfl, _⟩ := h
    obtain ⟨hvs, hro⟩ := readKeys_spec _ _ _ _ _ _ _ hk
    refine ⟨vs, rfl, by rw [hvs]; simp, hro, ?_⟩
    intro i k hi
    obtain ⟨si, oi, si', oi', r, h1, h2, h3⟩ := readKeys_pointwise _ _ _ _ _ _ _ hk i k hi
    refine ⟨si, oi, si', oi', r, h1, h2, by simpa using h3, ?_⟩
    rw [(readKey_spec h2).1, h1.visible]
  · cases h

/-! ### 2. only values written to this key -/

/-- **A read never returns another key's value or a value nobody wrote.**  Along every history from the initial
    state, with `W` the list of all (key, value) pairs written so far by `put`, `put_with_weight`, `put_with_ttl`,
    `put_with_weight_and_ttl` and `put_or_update` carrying a value (each such call began — indeed ran its
    caller-side part — before the read): a value `v` read for `k` satisfies `(k, v) ∈ W`.
    For every configuration, in particular every hash function. -/
theorem C02_only_written_values {cfg : Cfg} {now : Nat} {seeds : List Nat} {s s' : State} {W : List (Nat × Nat)}
    {k v : Nat} {o o' : Oracle} (h : ReachW cfg now seeds s W) (hr : readKey s k o = .ok (s', some v, o')) :
    (k, v) ∈ W := by
  obtain ⟨e, he, _, hv⟩ := readable_present s s' k o o' v hr
  rw [← hv]
  exact (written_reach h).1 k e he

/-- … through `get` -/
theorem C02_get_only_written {cfg : Cfg} {now : Nat} {seeds : List Nat} {s s' : State} {W : List (Nat × Nat)}
    {k v : Nat} {o o' : Oracle} (h : ReachW cfg now seeds s W)
    (hs : step s (.get k) o = .ok (s', .value (some v), o')) : (k, v) ∈ W := by
  obtain ⟨hout, _⟩ := C02_get_is_read s s' k o o' _ hs
  simp only [Out.value.injEq] at hout
  split at hout
  · cases hout
  · obtain ⟨e, he, hv, _⟩ := (visible_eq_some_iff s k v).mp hout.symm
    rw [← hv]
    exact (written_reach h).1 k e he

/-- … through `multi_get`: the `i`-th result, if present, was written to the `i`-th key -/
theorem C02_multi_get_only_written {cfg : Cfg} {now : Nat} {seeds : List Nat} {s s' : State} {W : List (Nat × Nat)}
    {ks : List Nat} {vs : List (Option Nat)} {o o' : Oracle} (h : ReachW cfg now seeds s W)
    (hs : step s (.multiGet ks) o = .ok (s', .values vs, o')) :
    ∀ (i k v : Nat), ks[i]? = some k → vs[i]? = some (some v) → (k, v) ∈ W := by
  intro i k v hi hv
  obtain ⟨hout, _⟩ := C02_multi_get_is_reads s s' ks o o' _ hs
  simp only [Out.values.injEq] at hout
  split at hout
  · subst hout; simp at hv
  · subst hout
    simp only [List.getElem?_map, hi, Option.map_some, Option.some.injEq] at hv
    obtain ⟨e, he, hval, _⟩ := (visible_eq_some_iff s k v).mp hv
    rw [← hval]
    exact (written_reach h).1 k e he

/-! ### 3. completed overwrites and deletes are visible -/

/-- **A completed overwrite is visible.**  `put_or_update(k, value := vnew, …)` on a physically present key has
    returned — an acknowledgement, "parked", a send error, or a weight panic, whatever: the entry of `k` now holds
    `vnew`, so every read of `k`, now or at any later clock value, in any state that still holds this entry,
    returns `vnew` or absent — never the superseded value; and if the key was readable, every read right after the
    call returns exactly `vnew`.  (`hov`: `now + ttl` is representable; otherwise the call panics before touching
    anything, `C08_fieldwise_time_overflow`.) -/
theorem C02_completed_overwrite_visible (s : State) (c k vnew : Nat) (w : Option Int) (ttl : Option Nat) (rm : Bool)
    (e : Entry) (hsh : s.shutting = false) (hk : s.store.get? k = some e)
    (hov : ∀ t, ttl = some t → rm = false → ∃ x, addTime s.now t = some x) :
    (∃ e', (clientUpsert s c k (some vnew) w ttl rm).1.store.get? k = some e' ∧ e'.value = vnew ∧ e'.id = e.id) ∧
    (∀ (s1 s2 : State) (o o' : Oracle) (r : Option Nat),
      s1.store.get? k = (clientUpsert s c k (some vnew) w ttl rm).1.store.get? k →
      readKey s1 k o = .ok (s2, r, o') → r = some vnew ∨ r = none) ∧
    (e.alive s.now = true → ∀ (s2 : State) (o o' : Oracle) (r : Option Nat),
      readKey (clientUpsert s c k (some vnew) w ttl rm).1 k o = .ok (s2, r, o') → r = some vnew) := by
  obtain ⟨⟨e', hget, hid, _, hval, _⟩, _, _, _⟩ := C08_fieldwise s c k (some vnew) w ttl rm e hsh hk hov
  simp only [Option.getD_some] at hval
  refine ⟨⟨e', hget, hval, hid⟩, ?_, ?_⟩
  · intro s1 s2 o o' r hst hr
    rw [(readKey_spec hr).1]
    unfold visible
    rw [hst, hget]
    dsimp only
    split
    · exact Or.inl (by rw [hval])
    · exact Or.inr rfl
  · intro halive s2 o o' r hr
    have := C08_not_lost_partial s c k (some vnew) w ttl rm e hsh hk halive hov o o' s2 r hr
    simpa using this

/-- **A delete hides the key from the moment `delete(k)` returns** (whatever it returns, before the worker has seen
    the command): every read reports absent.  (C04.) -/
theorem C02_delete_hidden_on_return (s : State) (c k : Nat) (e : Entry) (hsh : s.shutting = false)
    (hk : s.store.get? k = some e) :
    visible (clientDelete s c k).1 k = none ∧
    ∀ (s2 : State) (o o' : Oracle) (r : Option Nat),
      readKey (clientDelete s c k).1 k o = .ok (s2, r, o') → r = none := by
  obtain ⟨hst, _, _⟩ := C04_hidden_at_once s c k e hsh hk
  have hv : visible (clientDelete s c k).1 k = none := by
    unfold visible
    rw [hst]
    simp [Entry.alive]
  exact ⟨hv, fun s2 o o' r hr => by rw [(readKey_spec hr).1, hv]⟩

/-- … and for ever: along every sequence of events after the delete returned, a value read for `k` comes from an
    entry with ANOTHER id — a later put — never from the deleted one. (C04.) -/
theorem C02_deleted_never_read_again {s s' : State} (hi : Inv s) (c k : Nat) (e : Entry) (hsh : s.shutting = false)
    (hk : s.store.get? k = some e) (l : List (Ev × Oracle)) (hr : runEvents (clientDelete s c k).1 l = .ok s') :
    ∀ (o o' : Oracle) (s'' : State) (v : Nat), readKey s' k o = .ok (s'', some v, o') →
      ∃ e', s'.store.get? k = some e' ∧ e'.id ≠ e.id ∧ e'.value = v := by
  obtain ⟨hst, _, _⟩ := C04_hidden_at_once s c k e hsh hk
  have hi' : Inv (clientDelete s c k).1 := inv_clientDelete hi c k
  exact (C04_never_read_again hi' hst rfl l hr).2

/-- **A completed delete is visible.**  The worker executes `Delete(k)`: afterwards `k` is physically absent and
    every read reports absent. -/
theorem C02_completed_delete_visible (s : State) (o : Oracle) (k : Nat) (h : Option Nat) (q : List (Cmd × Option Nat))
    (hw : s.worker = .running) (hq : s.queue = (.delete k, h) :: q) :
    ∃ s' st, step s .worker o = .ok (s', .worked "Delete" st none [] [], o) ∧
      (st = .accepted ↔ (s.store.get? k).isSome = true) ∧
      s'.store.get? k = none ∧ visible s' k = none ∧
      ∀ (s2 : State) (o1 o2 : Oracle) (r : Option Nat), readKey s' k o1 = .ok (s2, r, o2) → r = none := by
  have hstep : step s .worker o = workerFinish h "Delete" (workerDelete { s with queue := q } k, o) := by
    show workerStep s o = _
    rw [workerStep_running s o (.delete k) h q hw hq]
  have fin : ∀ s1 st, workerDelete { s with queue := q } k = .done s1 st none [] [] → s1.store.get? k = none →
      (st = .accepted ↔ (s.store.get? k).isSome = true) →
      ∃ s' st, step s .worker o = .ok (s', .worked "Delete" st none [] [], o) ∧
        (st = .accepted ↔ (s.store.get? k).isSome = true) ∧
        s'.store.get? k = none ∧ visible s' k = none ∧
        ∀ (s2 : State) (o1 o2 : Oracle) (r : Option Nat), readKey s' k o1 = .ok (s2, r, o2) → r = none := by
    intro s1 st h1 h2 h3
    have hv : visible { s1 with acks := setAck s1.acks h st } k = none := by
      unfold visible
      show (match s1.store.get? k with | some e => _ | none => none) = none
      rw [h2]
    refine ⟨{ s1 with acks := setAck s1.acks h st }, st, ?_, h3, h2, hv, ?_⟩
    · rw [hstep, h1]; rfl
    · intro s2 o1 o2 r hr
      rw [(readKey_spec hr).1, hv]
  cases hk : s.store.get? k with
  | none =>
    have h1 := C04_absent_rejected { s with queue := q } k hk
    have := fin _ _ h1 hk (by simp [hk])
    rw [hk] at this
    exact this
  | some e =>
    obtain ⟨s1, h1, h2, _⟩ := C04_released { s with queue := q } k e hk
    have := fin _ _ h1 h2 (by simp [hk])
    rw [hk] at this
    exact this

/-- … and `k` stays absent until a worker step executes a put of `k` (the only event that makes an absent key
    present), whose value is then the one stored. -/
theorem C02_absent_until_worker_put {s s' : State} {ev : Ev} {o o' : Oracle} {out : Out} {k : Nat} {e' : Entry}
    (hs : step s ev o = .ok (s', out, o')) (hk : s.store.get? k = none) (hk' : s'.store.get? k = some e') :
    ev = .worker ∧ s.worker = .running ∧
    ∃ id hash w v h q, (s.queue = (.put id hash w k v, h) :: q ∨ ∃ t, s.queue = (.putTtl id hash w k v t, h) :: q) ∧
      e'.value = v ∧ e'.id = id ∧ e'.soft = false := by
  cases step_key hs k with
  | same h1 => rw [h1, hk] at hk'; cases hk'
  | upsert c v w t rm e e1 _ h0 => rw [hk] at h0; cases h0
  | softDelete c e _ h0 => rw [hk] at h0; cases h0
  | workerDelete hh q _ _ _ h1 => rw [h1] at hk'; cases hk'
  | evicted id hash w k0 v hh q _ _ _ _ h1 => rw [h1] at hk'; cases hk'
  | inserted id hash w v hh q entry hev hw hq _ h1 i1 i2 i3 =>
    rw [h1] at hk'
    simp only [Option.some.injEq] at hk'
    subst hk'
    exact ⟨hev, hw, id, hash, w, v, hh, q, hq, i2, i1, i3⟩
  | swept evs _ _ h1 => rw [h1] at hk'; cases hk'
  | shutdown c _ _ h1 => rw [h1] at hk'; cases hk'
  | resumedShutdown c _ _ h1 => rw [h1] at hk'; cases hk'

/-! ### 4. the value of a present entry -/

/-- **The only event that changes the value of a present entry is an upsert of that key carrying a value**;
    the new value is the one the upsert carries and the entry keeps its id. -/
theorem C02_value_stable {s s' : State} {ev : Ev} {o o' : Oracle} {out : Out} {k : Nat} {e e' : Entry}
    (hs : step s ev o = .ok (s', out, o')) (hk : s.store.get? k = some e) (hk' : s'.store.get? k = some e')
    (hne : e'.value ≠ e.value) :
    ∃ c v w t rm, ev = .upsert c k (some v) w t rm ∧ e'.value = v ∧ e'.id = e.id := by
  cases step_key hs k with
  | same h1 =>
    rw [h1, hk] at hk'
    simp only [Option.some.injEq] at hk'
    subst hk'
    exact absurd rfl hne
  | upsert c v w t rm e0 e1 hev h0 h1 i1 i2 i3 =>
    rw [hk] at h0
    simp only [Option.some.injEq] at h0
    subst h0
    rw [hk'] at h1
    simp only [Option.some.injEq] at h1
    subst h1
    cases v with
    | none => exact absurd i3 hne
    | some val => exact ⟨c, val, w, t, rm, hev, i3, i1⟩
  | softDelete c e0 _ h0 h1 =>
    rw [hk] at h0
    simp only [Option.some.injEq] at h0
    subst h0
    rw [hk'] at h1
    simp only [Option.some.injEq] at h1
    subst h1
    exact absurd rfl hne
  | workerDelete hh q _ _ _ h1 => rw [h1] at hk'; cases hk'
  | evicted id hash w k0 v hh q _ _ _ _ h1 => rw [h1] at hk'; cases hk'
  | inserted id hash w v hh q entry _ _ _ h0 => rw [hk] at h0; cases h0
  | swept evs _ _ h1 => rw [h1] at hk'; cases hk'
  | shutdown c _ _ h1 => rw [h1] at hk'; cases hk'
  | resumedShutdown c _ _ h1 => rw [h1] at hk'; cases hk'

/-- in particular a put executed by the worker never overwrites: it is answered `KeyAlreadyExists` and the state is
    unchanged (C07) -/
theorem C02_worker_put_never_overwrites (s : State) (id hash k v : Nat) (w : Int) (ttl : Option Nat) (o : Oracle)
    (e : Entry) (hk : s.store.get? k = some e) :
    workerPut s id hash w k v ttl o = .ok (.done s (.rejected .keyAlreadyExists) none [] [], o) :=
  C07_worker_recheck s id hash k v w ttl o e hk

/-! ### 5. non-vacuity: concrete histories -/

def c02Init : State :=
  State.init { maxWeight := 100, shards := 2, cmdCap := 4, poolSize := 1, bufSize := 2, counters := 2 } 5000000000 [1, 2, 3, 4]

def c02O : Oracle := {}

/-- `put_with_weight(1 ↦ 10)` acknowledged, `put_with_weight(2 ↦ 20)` acknowledged -/
def c02Puts : List (Ev × Oracle) :=
  [(.putW 0 1 10 5, c02O), (.worker, c02O), (.putW 0 2 20 5, c02O), (.worker, c02O)]

/-- each key reads its own value, never the other's; `multi_get` agrees with `get`; an unwritten key is absent -/
example :
    (match runEvents c02Init c02Puts with
     | .ok s =>
       (match step s (.get 1) { pool := [0] }, step s (.get 2) { pool := [0] }, step s (.get 3) c02O,
              step s (.multiGet [2, 3, 1]) { pool := [0, 0] } with
        | .ok (_, .value v1, _), .ok (_, .value v2, _), .ok (_, .value v3, _), .ok (_, .values vs, _) =>
          decide (v1 = some 10 ∧ v2 = some 20 ∧ v3 = none ∧ vs = [some 20, none, some 10] ∧
                  visible s 1 = some 10 ∧ visible s 2 = some 20 ∧ visible s 3 = none ∧ s.shutting = false)
        | _, _, _, _ => false)
     | _ => false) = true := by decide

/-- an upsert with a new value has returned (its weight command is still queued): the read returns the new value,
    the other key is unaffected -/
example :
    (match runEvents c02Init (c02Puts ++ [(.upsert 0 1 (some 11) none none false, c02O)]) with
     | .ok s =>
       (match step s (.get 1) { pool := [0] }, step s (.get 2) { pool := [0] } with
        | .ok (_, .value v1, _), .ok (_, .value v2, _) =>
          decide (v1 = some 11 ∧ v2 = some 20 ∧ s.queue.length = 1)
        | _, _ => false)
     | _ => false) = true := by decide

/-- `delete(1)` has returned (not yet executed), then executed: the read returns nothing both times; key 2 stays -/
example :
    (match runEvents c02Init (c02Puts ++ [(.delete 0 1, c02O)]),
           runEvents c02Init (c02Puts ++ [(.delete 0 1, c02O), (.worker, c02O)]) with
     | .ok s, .ok t =>
       (match step s (.get 1) c02O, step t (.get 1) c02O, step t (.get 2) { pool := [0] } with
        | .ok (_, .value v1, _), .ok (_, .value v1', _), .ok (_, .value v2, _) =>
          decide (v1 = none ∧ v1' = none ∧ v2 = some 20 ∧ (s.store.get? 1).isSome ∧ t.store.get? 1 = none)
        | _, _, _ => false)
     | _, _ => false) = true := by decide

/-- the key is put again after the delete: the read returns the NEW value (a new incarnation), not the deleted one -/
example :
    (match runEvents c02Init (c02Puts ++ [(.delete 0 1, c02O), (.worker, c02O), (.putW 0 1 12 5, c02O), (.worker, c02O)]) with
     | .ok s =>
       (match step s (.get 1) { pool := [0] } with
        | .ok (_, .value v1, _) => decide (v1 = some 12)
        | _ => false)
     | _ => false) = true := by decide

/-- the hypotheses of `C02_only_written_values` are satisfiable: a `ReachW` derivation for the history above, whose
    ghost history is `[(1, 10), (2, 20)]` -/
example : ∃ s, runEvents c02Init c02Puts = .ok s ∧ ReachW c02Init.cfg 5000000000 [1, 2, 3, 4] s [(1, 10), (2, 20)] := by
  refine ⟨_, rfl, ?_⟩
  have h0 : ReachW c02Init.cfg 5000000000 [1, 2, 3, 4] c02Init [] := ReachW.init
  have h1 := ReachW.step (ev := .putW 0 1 10 5) (o := c02O) h0 rfl
  have h2 := ReachW.step (ev := .worker) (o := c02O) h1 rfl
  have h3 := ReachW.step (ev := .putW 0 2 20 5) (o := c02O) h2 rfl
  have h4 := ReachW.step (ev := .worker) (o := c02O) h3 rfl
  exact h4

/-- the hypotheses of `C02_value_stable` are satisfiable: the upsert above changes the value of key 1 from 10 to 11 -/
example :
    (match runEvents c02Init c02Puts with
     | .ok s =>
       (match step s (.upsert 0 1 (some 11) none none false) c02O with
        | .ok (s', _, _) =>
          decide (s.store.get? 1 = some ⟨10, 1, none, false⟩ ∧ s'.store.get? 1 = some ⟨11, 1, none, false⟩)
        | _ => false)
     | _ => false) = true := by decide

end Cached
