/-
  G17  The construction glue: what a caller goes through BEFORE the state machine of Layer A starts.

  Statements about `CachedModel/Glue.lean` (Layer G): `ConfigBuilder` with its `assert!`s and defaults, `CacheD::new`
  and the shape of what it builds, `PutOrUpdateRequestBuilder` with its `assert!`s, `updated_weight`, and the default
  weight function.  A failed `assert!` is the outcome `none`.  Quantifiers: every argument triple of
  `ConfigBuilder::new`, every chain of setters (any order, any repetition), every builder state, every seed list,
  every chain of request-builder calls, every `Cfg`; `usize`/`u64` widths play no role here (`isPow2` is proved for
  unbounded `n`).

    * `G17_isPow2_iff`: the bit trick `n != 0 && n & (n-1) == 0` is exactly "`n` is a power of two";
    * `G17_new_accepts_iff`, `G17_new_defaults`, `G17_set_accepts_iff`, `G17_set_changes_only`: which calls of the
      configuration builder pass their `assert!`s, and what an accepted call writes;
    * `G17_accepted_config_valid`, `G17_run_rejects_iff` (+ `G17_run_rejects_iff_prefix`): every configuration the builder
      hands out is `Valid`; a chain is refused exactly at the first setter refused by the state it meets;
    * `G17_construction_never_panics`, `G17_construction_panics_iff`, `G17_accepted_config_constructs`: `CacheD::new`
      passes its own `assert!`s (and those of `DashMap`) on every `Valid` configuration, and the shape it builds;
    * `G17_core_model_preconditions`: what the theorems about the core take for granted holds for every accepted config;
    * `G17_upsert_build_accepts_iff`, `G17_upsert_build_id`, `G17_upsert_weight_positive`, `G17_upsert_calls_rejects_iff`,
      `G17_upsert_last_call_wins` (+ `G17_upsert_last_ttl_wins`, `G17_upsert_last_weight_wins`): the request builder;
    * `G17_updated_weight` and its consequences, `G17_updated_weight_agrees_with_core`;
    * `G17_default_weight_positive`, `G17_default_weight_ttl_surcharge`, `G17_default_weight_mono`.
-/
import CachedProofs.Lemmas.Glue
import CachedProofs.Properties.C14

namespace Cached

/-! ### 2. `usize::is_power_of_two` -/

/-- the bit trick really is "power of two" (unbounded `n`) -/
theorem G17_isPow2_iff (n : Nat) : Glue.isPow2 n = true ↔ ∃ k, n = 2 ^ k := Glue.isPow2_iff n

example : Glue.isPow2 256 = true ∧ Glue.isPow2 1 = true ∧ Glue.isPow2 0 = false ∧ Glue.isPow2 6 = false ∧
    Glue.isPow2 (2 ^ 70) = true ∧ Glue.isPow2 (2 ^ 70 + 2 ^ 3) = false := by decide

/-! ### 3. `ConfigBuilder::new` -/

theorem G17_new_accepts_iff (c cap : Nat) (w : Int) :
    (Glue.Builder.new c cap w).isSome = true ↔ (0 < c ∧ 0 < cap ∧ 0 < w) := Glue.Builder.new_isSome_iff c cap w

/-- the defaults of config/mod.rs, and the three arguments as given -/
theorem G17_new_defaults (c cap : Nat) (w : Int) (b : Glue.Builder) (h : Glue.Builder.new c cap w = some b) :
    b.counters = c ∧ b.capacity = cap ∧ b.cacheWeight = w ∧ b.pool = 32 ∧ b.buf = 64 ∧ b.cmd = 32768 ∧
    b.shards = 256 ∧ b.tickNs = 5000000000 := by
  obtain ⟨_, rfl⟩ := Glue.Builder.new_eq_some h
  exact ⟨rfl, rfl, rfl, rfl, rfl, rfl, rfl, rfl⟩

example : Glue.Builder.new 10 10 100 =
    some { counters := 10, capacity := 10, cacheWeight := 100, pool := 32, buf := 64, cmd := 32768, shards := 256,
           tickNs := 5000000000 } := by decide

example : Glue.Builder.new 0 10 100 = none ∧ Glue.Builder.new 10 0 100 = none ∧ Glue.Builder.new 10 10 0 = none ∧
    Glue.Builder.new 10 10 (-3) = none := by decide

/-! ### 4. the setters -/

theorem G17_set_accepts_iff (b : Glue.Builder) (c : Glue.Setter) :
    (b.set c).isSome = true ↔
      (match c with
       | .pool n => 0 < n
       | .buf n => 0 < n
       | .cmd n => 0 < n
       | .shards n => 1 < n ∧ ∃ k, n = 2 ^ k
       | .tick _ => True
       | .other => True) := by
  rw [Glue.Builder.set_isSome_iff]
  cases c <;> simp only [G17_isPow2_iff]

/-- an accepted setter changes exactly its own field, to the given argument, and nothing else -/
theorem G17_set_changes_only (b b' : Glue.Builder) (c : Glue.Setter) (h : b.set c = some b') :
    match c with
    | .pool n => b' = { b with pool := n }
    | .buf n => b' = { b with buf := n }
    | .cmd n => b' = { b with cmd := n }
    | .shards n => b' = { b with shards := n }
    | .tick ns => b' = { b with tickNs := ns }
    | .other => b' = b := by
  have hs := Glue.Builder.set_eq_some h
  cases c <;> simp only at hs ⊢
  · exact hs.2
  · exact hs.2
  · exact hs.2
  · exact hs.2
  · exact hs
  · exact hs

example :
    let b : Glue.Builder := { counters := 10, capacity := 10, cacheWeight := 100, pool := 32, buf := 64, cmd := 32768,
                              shards := 256, tickNs := 5000000000 }
    b.set (.shards 4) = some { b with shards := 4 } ∧ b.set (.pool 3) = some { b with pool := 3 } ∧
    b.set (.tick 7) = some { b with tickNs := 7 } ∧ b.set .other = some b ∧
    b.set (.shards 6) = none ∧ b.set (.shards 1) = none ∧ b.set (.shards 0) = none ∧ b.set (.pool 0) = none ∧
    b.set (.buf 0) = none ∧ b.set (.cmd 0) = none := by decide

/-! ### 5. chains of setters -/

/-- every configuration the builder accepts is `Valid` -/
theorem G17_accepted_config_valid (c cap : Nat) (w : Int) (cs : List Glue.Setter) (b0 b : Glue.Builder) :
    Glue.Builder.new c cap w = some b0 → b0.run cs = some b → b.Valid :=
  fun h0 hr => Glue.Builder.run_valid (Glue.Builder.new_valid h0) hr

/-- a chain is rejected iff some setter in it is rejected by the builder state it is applied to (inductive form) -/
theorem G17_run_rejects_iff (b : Glue.Builder) :
    b.run [] ≠ none ∧
    ∀ (c : Glue.Setter) (cs : List Glue.Setter),
      b.run (c :: cs) = none ↔ b.set c = none ∨ ∃ b', b.set c = some b' ∧ b'.run cs = none :=
  ⟨by simp [Glue.Builder.run], Glue.Builder.run_cons_eq_none_iff b⟩

/-- … and in closed form: the chain has an accepted prefix whose next setter is refused by the state reached -/
theorem G17_run_rejects_iff_prefix (b0 : Glue.Builder) (cs : List Glue.Setter) :
    b0.run cs = none ↔ ∃ pre c post b, cs = pre ++ c :: post ∧ b0.run pre = some b ∧ b.set c = none :=
  Glue.Builder.run_eq_none_iff b0 cs

/-- The defaults are tuning constants which the correspondence reads from the running crate: whatever they are, as long
    as the setters themselves would accept them (`Defaults.ok`, checked on every run), every configuration that comes out
    of the builder is `Valid`. (`Builder.new` is `Builder.newWith Defaults.crate`, the values of the pinned tree.) -/
theorem G17_accepted_config_valid_any_defaults (d : Glue.Defaults) (hd : d.ok = true) (c cap : Nat) (w : Int)
    (cs : List Glue.Setter) (b0 b : Glue.Builder) :
    Glue.Builder.newWith d c cap w = some b0 → b0.run cs = some b → b.Valid :=
  fun h0 hr => Glue.Builder.run_valid (Glue.Builder.newWith_valid hd h0) hr

theorem G17_new_is_newWith_crate_defaults (c cap : Nat) (w : Int) :
    Glue.Builder.new c cap w = Glue.Builder.newWith Glue.Defaults.crate c cap w ∧ Glue.Defaults.crate.ok = true :=
  ⟨Glue.Builder.new_eq_newWith_crate c cap w, Glue.Defaults.crate_ok⟩

/-- defaults that a setter would refuse are NOT harmless: with 100 default shards the untouched builder is accepted and
    `CacheD::new` fails on it -/
example : ({ pool := 32, buf := 64, cmd := 1024, shards := 100, tickNs := 1 } : Glue.Defaults).ok = false ∧
    ((Glue.Builder.newWith { pool := 32, buf := 64, cmd := 1024, shards := 100, tickNs := 1 } 10 10 100).bind
      (fun b => Glue.cachedNew b [1, 2, 3, 4])) = none := by decide

/-- the hypotheses of `G17_accepted_config_valid` are met; the resulting configuration -/
example : (Glue.Builder.new 10 10 100).bind (fun b0 => b0.run [.shards 4, .pool 3, .cmd 1]) =
    some { counters := 10, capacity := 10, cacheWeight := 100, pool := 3, buf := 64, cmd := 1, shards := 4,
           tickNs := 5000000000 } := by decide

example : (({ counters := 10, capacity := 10, cacheWeight := 100, pool := 3, buf := 64, cmd := 1, shards := 4,
              tickNs := 5000000000 } : Glue.Builder)).Valid := by decide

/-- rejected chains: not a power of two, one shard, an empty pool — also after accepted setters -/
example : (Glue.Builder.new 10 10 100).bind (fun b0 => b0.run [.shards 6]) = none ∧
    (Glue.Builder.new 10 10 100).bind (fun b0 => b0.run [.shards 1]) = none ∧
    (Glue.Builder.new 10 10 100).bind (fun b0 => b0.run [.pool 0]) = none ∧
    (Glue.Builder.new 10 10 100).bind (fun b0 => b0.run [.shards 8, .tick 1, .other, .buf 0, .cmd 5]) = none := by decide

/-! ### 6. `CacheD::new` -/

/-- construction passes every `assert!` on a `Valid` configuration; the shape of what is built -/
theorem G17_construction_never_panics (b : Glue.Builder) (seeds : List Nat) :
    b.Valid → ∃ sh, Glue.cachedNew b seeds = some sh ∧ sh.cmdCap = b.cmd ∧ sh.ttlShards = b.shards ∧
      sh.poolBuffers = b.pool ∧ sh.bufCap = b.buf ∧ sh.rows = seeds.length ∧ sh.rowBytes = nextPower2 b.counters / 2 ∧
      1 ≤ sh.rowBytes ∧ sh.resetAt = b.counters ∧ sh.maxWeight = b.cacheWeight := by
  intro hv
  obtain ⟨h1, _, _, _, _, _, h7, h8⟩ := hv
  exact ⟨_, Glue.cachedNew_of_ok b seeds ⟨h1, by omega, h8⟩, rfl, rfl, rfl, rfl, rfl, rfl,
    Glue.one_le_half_nextPower2 b.counters, rfl, rfl⟩

theorem G17_construction_panics_iff (b : Glue.Builder) (seeds : List Nat) :
    Glue.cachedNew b seeds = none ↔ ¬ (0 < b.counters ∧ 0 < b.shards ∧ Glue.isPow2 b.shards = true) :=
  Glue.cachedNew_eq_none_iff b seeds

/-- end to end: whatever `ConfigBuilder` hands out, `CacheD::new` builds -/
theorem G17_accepted_config_constructs (c cap : Nat) (w : Int) (cs : List Glue.Setter) (b0 b : Glue.Builder)
    (seeds : List Nat) (h0 : Glue.Builder.new c cap w = some b0) (hr : b0.run cs = some b) :
    (Glue.cachedNew b seeds).isSome = true := by
  obtain ⟨sh, h, _⟩ := G17_construction_never_panics b seeds (G17_accepted_config_valid c cap w cs b0 b h0 hr)
  rw [h]; rfl

example :
    Glue.cachedNew { counters := 10, capacity := 10, cacheWeight := 100, pool := 3, buf := 64, cmd := 1, shards := 4,
                     tickNs := 5000000000 } [1, 2, 3, 4] =
    some { cmdCap := 1, ttlShards := 4, poolBuffers := 3, bufCap := 64, rows := 4, rowBytes := 8, resetAt := 10,
           maxWeight := 100 } := by decide

/-- `counters = 1`: one byte per row, not zero (the repaired `next_power_2` lower bound) -/
example :
    (Glue.cachedNew { counters := 1, capacity := 10, cacheWeight := 100, pool := 3, buf := 64, cmd := 1, shards := 2,
                      tickNs := 0 } [1, 2, 3, 4]).map (·.rowBytes) = some 1 := by decide

/-- a hand-made (not builder-made) configuration that `CacheD::new` refuses -/
example :
    Glue.cachedNew { counters := 0, capacity := 10, cacheWeight := 100, pool := 3, buf := 64, cmd := 1, shards := 4,
                     tickNs := 0 } [1] = none ∧
    Glue.cachedNew { counters := 5, capacity := 10, cacheWeight := 100, pool := 3, buf := 64, cmd := 1, shards := 12,
                     tickNs := 0 } [1] = none := by decide

/-! ### 7. the hypotheses of the core theorems -/

/-- What the theorems about the core take for granted (`C01`: `0 ≤ maxWeight`; `C17_no_sketch_panic`: `lfu.fc.WF`;
    the sweeper indexes shard `secs % shards`; the pool index is drawn below `poolSize`) holds for every accepted
    configuration. -/
theorem G17_core_model_preconditions (b : Glue.Builder) (base : Cfg) (now : Nat) (seeds : List Nat) (hs : seeds ≠ []) :
    b.Valid →
    let cfg := b.toCfg base
    0 ≤ cfg.maxWeight ∧ 0 < cfg.maxWeight ∧ 0 < cfg.shards ∧ (∀ t, t % cfg.shards < cfg.shards) ∧ 0 < cfg.poolSize ∧
    0 < cfg.bufSize ∧ 0 < cfg.cmdCap ∧ 0 < cfg.counters ∧ (State.init cfg now seeds).lfu.fc.WF ∧
    (State.init cfg now seeds).pool.length = cfg.poolSize ∧ (State.init cfg now seeds).adm.max = b.cacheWeight := by
  intro hv
  obtain ⟨h1, _, h3, h4, h5, h6, h7, _⟩ := hv
  have hsh : 0 < b.shards := by omega
  refine ⟨?_, h3, hsh, fun t => Nat.mod_lt t hsh, h4, h5, h6, h1, ?_, ?_, rfl⟩
  · show (0 : Int) ≤ b.cacheWeight
    omega
  · exact C14_fresh_sketch_wf b.counters seeds hs
  · simp [State.init, Glue.Builder.toCfg]

/-- `toCfg` writes the six numeric fields and keeps the rest of `base` -/
theorem G17_toCfg_fields (b : Glue.Builder) (base : Cfg) :
    (b.toCfg base).maxWeight = b.cacheWeight ∧ (b.toCfg base).shards = b.shards ∧ (b.toCfg base).cmdCap = b.cmd ∧
    (b.toCfg base).poolSize = b.pool ∧ (b.toCfg base).bufSize = b.buf ∧ (b.toCfg base).counters = b.counters ∧
    (b.toCfg base).sampleSize = base.sampleSize ∧ (b.toCfg base).bufChanCap = base.bufChanCap ∧
    (b.toCfg base).ttlEntry = base.ttlEntry ∧ (b.toCfg base).hashMode = base.hashMode ∧
    (b.toCfg base).wBase = base.wBase ∧ (b.toCfg base).wMod = base.wMod :=
  ⟨rfl, rfl, rfl, rfl, rfl, rfl, rfl, rfl, rfl, rfl, rfl, rfl⟩

example :
    let b : Glue.Builder := { counters := 2, capacity := 10, cacheWeight := 100, pool := 3, buf := 64, cmd := 1,
                              shards := 4, tickNs := 5000000000 }
    let base : Cfg := { maxWeight := 0, shards := 0, cmdCap := 0, poolSize := 0, bufSize := 0, counters := 0 }
    b.Valid ∧ ([1, 2, 3, 4] : List Nat) ≠ [] ∧
    (State.init (b.toCfg base) 0 [1, 2, 3, 4]).pool = [[], [], []] ∧
    (State.init (b.toCfg base) 0 [1, 2, 3, 4]).lfu.fc.rows = [(1, [0#8]), (2, [0#8]), (3, [0#8]), (4, [0#8])] := by
  decide

/-! ### 8. `PutOrUpdateRequestBuilder::build` -/

theorem G17_upsert_build_accepts_iff (r : Glue.UReq) :
    r.build.isSome = true ↔
      ((r.hasValue = true ∨ r.weight.isSome = true ∨ r.ttl.isSome = true ∨ r.rm = true) ∧
        ¬ (r.ttl.isSome = true ∧ r.rm = true)) := Glue.UReq.build_isSome_iff r

theorem G17_upsert_build_id (r r' : Glue.UReq) : r.build = some r' → r' = r := Glue.UReq.build_eq_some

example : (({} : Glue.UReq).calls [.value, .weight 5, .ttl 1000]).bind (·.build) =
    some { hasValue := true, weight := some 5, ttl := some 1000, rm := false } := by decide

example : (({} : Glue.UReq).calls [.ttl 5, .rm]) = some { ttl := some 5, rm := true } ∧
    (({} : Glue.UReq).calls [.ttl 5, .rm]).bind (·.build) = none ∧
    (({} : Glue.UReq).calls []).bind (·.build) = none ∧
    (({} : Glue.UReq).calls [.rm]).bind (·.build) = some { rm := true } := by decide

/-! ### 9. the chain of calls -/

/-- every request that comes out of the builder carries a positive explicit weight, if it carries one — whatever
    the order and repetition of the calls -/
theorem G17_upsert_weight_positive (cs : List Glue.UCall) (r : Glue.UReq) :
    ({} : Glue.UReq).calls cs = some r → ∀ w, r.weight = some w → 0 < w := by
  intro h
  exact Glue.UReq.calls_weightPos (r := {}) (fun w hw => by cases hw) h

/-- … from any start state whose weight is positive-or-none -/
theorem G17_upsert_weight_positive_from (cs : List Glue.UCall) (r0 r : Glue.UReq)
    (h0 : ∀ w, r0.weight = some w → 0 < w) : r0.calls cs = some r → ∀ w, r.weight = some w → 0 < w :=
  fun h => Glue.UReq.calls_weightPos h0 h

/-- the chain is refused iff a non-positive weight occurs in it (from any start state) -/
theorem G17_upsert_calls_rejects_iff (r : Glue.UReq) (cs : List Glue.UCall) :
    r.calls cs = none ↔ ∃ w, Glue.UCall.weight w ∈ cs ∧ w ≤ 0 := Glue.UReq.calls_eq_none_iff r cs

example : ({} : Glue.UReq).calls [.weight 0] = none ∧ ({} : Glue.UReq).calls [.value, .weight 7, .weight (-1), .rm] = none ∧
    ({} : Glue.UReq).calls [.weight 7, .value, .weight 3] = some { hasValue := true, weight := some 3 } := by decide

/-! ### 10. what the chain leaves in the request -/

/-- for accepted chains starting from the empty request: a field is set iff its call occurs -/
theorem G17_upsert_last_call_wins (cs : List Glue.UCall) (r : Glue.UReq) (h : ({} : Glue.UReq).calls cs = some r) :
    (r.hasValue = true ↔ Glue.UCall.value ∈ cs) ∧ (r.rm = true ↔ Glue.UCall.rm ∈ cs) ∧
    (r.ttl.isSome = true ↔ ∃ n, Glue.UCall.ttl n ∈ cs) ∧ (r.weight.isSome = true ↔ ∃ w, Glue.UCall.weight w ∈ cs) := by
  obtain ⟨h1, h2, h3, h4⟩ := Glue.UReq.calls_fields h
  refine ⟨?_, ?_, ?_, ?_⟩
  · rw [h1]; simp
  · rw [h2]; simp
  · rw [h3]; simp
  · rw [h4]; simp

/-- … and from any start state -/
theorem G17_upsert_fields_from (cs : List Glue.UCall) (r0 r : Glue.UReq) (h : r0.calls cs = some r) :
    (r.hasValue = true ↔ r0.hasValue = true ∨ Glue.UCall.value ∈ cs) ∧
    (r.rm = true ↔ r0.rm = true ∨ Glue.UCall.rm ∈ cs) ∧
    (r.ttl.isSome = true ↔ r0.ttl.isSome = true ∨ ∃ n, Glue.UCall.ttl n ∈ cs) ∧
    (r.weight.isSome = true ↔ r0.weight.isSome = true ∨ ∃ w, Glue.UCall.weight w ∈ cs) := Glue.UReq.calls_fields h

/-- the LAST `time_to_live` call decides the TTL -/
theorem G17_upsert_last_ttl_wins (r0 r : Glue.UReq) (pre post : List Glue.UCall) (n : Nat)
    (h : r0.calls (pre ++ .ttl n :: post) = some r) (hlast : ∀ m, Glue.UCall.ttl m ∉ post) : r.ttl = some n := by
  rw [Glue.UReq.calls_append] at h
  cases hp : r0.calls pre with
  | none => simp [hp] at h
  | some r1 =>
    simp only [hp, Option.bind_some, Glue.UReq.calls_cons, Glue.UReq.call] at h
    rw [Glue.UReq.calls_ttl_untouched h hlast]

/-- the LAST `weight` call decides the weight -/
theorem G17_upsert_last_weight_wins (r0 r : Glue.UReq) (pre post : List Glue.UCall) (w : Int)
    (h : r0.calls (pre ++ .weight w :: post) = some r) (hlast : ∀ w', Glue.UCall.weight w' ∉ post) :
    r.weight = some w ∧ 0 < w := by
  rw [Glue.UReq.calls_append] at h
  cases hp : r0.calls pre with
  | none => simp [hp] at h
  | some r1 =>
    simp only [hp, Option.bind_some, Glue.UReq.calls_cons] at h
    cases hc : r1.call (.weight w) with
    | none => simp [hc] at h
    | some r2 =>
      simp only [hc, Option.bind_some] at h
      obtain ⟨hw, rfl⟩ := Glue.UReq.call_eq_some hc
      rw [Glue.UReq.calls_weight_untouched h hlast]
      exact ⟨rfl, hw⟩

example : ({} : Glue.UReq).calls ([.ttl 1, .value] ++ .ttl 9 :: [.weight 2, .weight 4]) =
    some { hasValue := true, weight := some 4, ttl := some 9 } := by decide

/-! ### 11. `PutOrUpdateRequest::updated_weight` -/

theorem G17_updated_weight (r : Glue.UReq) (cfg : Cfg) (v : Nat) :
    r.updatedWeight cfg v =
      (match r.weight with
       | some w => some w
       | none => if r.hasValue then some (cfg.weightOf v r.ttl.isSome) else none) := rfl

/-- no explicit weight, a value: the weight function of the configuration, with the TTL surcharge iff a TTL is given -/
theorem G17_updated_weight_computed (r : Glue.UReq) (cfg : Cfg) (v : Nat) :
    r.weight = none → r.hasValue = true →
    r.updatedWeight cfg v = some (cfg.wBase + ((v % cfg.wMod : Nat) : Int) + (if r.ttl.isSome then cfg.ttlEntry else 0)) := by
  intro hw hv
  simp only [Glue.UReq.updatedWeight, hw, hv, if_true, Cfg.weightOf]

/-- an explicit weight always wins -/
theorem G17_updated_weight_explicit (r : Glue.UReq) (cfg : Cfg) (v : Nat) (w : Int) :
    r.weight = some w → r.updatedWeight cfg v = some w := by
  intro hw
  simp only [Glue.UReq.updatedWeight, hw]

/-- neither a value nor a weight: no weight update -/
theorem G17_updated_weight_none (r : Glue.UReq) (cfg : Cfg) (v : Nat) :
    r.weight = none → r.hasValue = false → r.updatedWeight cfg v = none := by
  intro hw hv
  simp [Glue.UReq.updatedWeight, hw, hv]

/-- the same value the core model computes in `clientUpsert` (its `uw`) from the request's fields -/
theorem G17_updated_weight_agrees_with_core (r : Glue.UReq) (cfg : Cfg) (v : Nat) :
    r.updatedWeight cfg v =
      (match r.weight with
       | some x => some x
       | none => (if r.hasValue then some v else none).map (fun val => cfg.weightOf val r.ttl.isSome)) := by
  unfold Glue.UReq.updatedWeight
  cases r.weight with
  | some w => rfl
  | none => cases r.hasValue <;> rfl

example :
    let cfg : Cfg := { maxWeight := 100, shards := 4, cmdCap := 1, poolSize := 3, bufSize := 64, counters := 2,
                       wBase := 3, wMod := 10 }
    ({ hasValue := true, ttl := some 5 } : Glue.UReq).updatedWeight cfg 27 = some (3 + 7 + 24) ∧
    ({ hasValue := true } : Glue.UReq).updatedWeight cfg 27 = some (3 + 7) ∧
    ({ hasValue := true, weight := some 50, ttl := some 5 } : Glue.UReq).updatedWeight cfg 27 = some 50 ∧
    ({ ttl := some 5 } : Glue.UReq).updatedWeight cfg 27 = none := by decide

/-! ### 12. the default weight function -/

theorem G17_default_weight_positive (ks vs wks te : Nat) (ttl : Bool) :
    0 < wks → 0 < Glue.defaultWeight ks vs wks te ttl := by
  intro h
  unfold Glue.defaultWeight
  omega

theorem G17_default_weight_ttl_surcharge (ks vs wks te : Nat) :
    Glue.defaultWeight ks vs wks te true = Glue.defaultWeight ks vs wks te false + te := by
  simp only [Glue.defaultWeight, if_true, Bool.false_eq_true, if_false]
  omega

/-- monotone in each size, and in the TTL flag -/
theorem G17_default_weight_mono (ks vs wks te ks' vs' wks' te' : Nat) (ttl : Bool) :
    ks ≤ ks' → vs ≤ vs' → wks ≤ wks' → te ≤ te' →
    Glue.defaultWeight ks vs wks te ttl ≤ Glue.defaultWeight ks' vs' wks' te' ttl ∧
    Glue.defaultWeight ks vs wks te false ≤ Glue.defaultWeight ks vs wks te ttl := by
  intro h1 h2 h3 h4
  cases ttl <;> simp only [Glue.defaultWeight, if_true, Bool.false_eq_true, if_false] <;> omega

example : (0 : Nat) < 40 ∧ Glue.defaultWeight 8 16 40 24 false = 64 ∧ Glue.defaultWeight 8 16 40 24 true = 88 ∧
    Glue.defaultWeight 8 16 40 24 true ≤ Glue.defaultWeight 9 16 41 24 true := by decide

end Cached
